//go:build verif

// C10 - associations end cleanly and the agent always stops.  Level L2: real goroutines.
//
// One scenario per process (a panic in a background goroutine cannot be recovered; exit status and
// output are part of the observation).  Progress is appended to $VERIF_C10_EVENTS as JSON lines so
// that what happened before a crash survives it.
//
//	kind "conn": PFCPConn values built by struct literal around an in-memory net.Conn, the REAL
//	             Serve / HandlePFCPMsg / Shutdown / startHeartBeatMonitor run on real goroutines; a
//	             goroutine plays node.pConnDone's receiver.
//	kind "node": a real PFCPNode (NewPFCPNode) on a private loopback address with real UDP peers.
package pfcpiface

import (
	"context"
	"encoding/json"
	"errors"
	"fmt"
	"math/rand"
	"net"
	"os"
	"runtime"
	"sort"
	"strconv"
	"strings"
	"sync"
	"sync/atomic"
	"time"

	"github.com/omec-project/upf-epc/pfcpiface/metrics"
	"github.com/prometheus/client_golang/prometheus"
	"github.com/wmnsk/go-pfcp/ie"
	"github.com/wmnsk/go-pfcp/message"
)

// ---------------------------------------------------------------- scenario / observation

type c10AssocCfg struct {
	Sessions int  `json:"sessions"`
	Hb       bool `json:"hb"`
}

type c10Step struct {
	Op string `json:"op"`
	A  int    `json:"a"`
	N  int    `json:"n"`
	Ms int    `json:"ms"`
	Us int    `json:"us"`
	// Async: do not wait for the step (direct calls that block until a running Shutdown completes)
	Async bool      `json:"async,omitempty"`
	Par   []c10Step `json:"par,omitempty"`
}

type c10Scenario struct {
	Kind          string        `json:"kind"`
	Addr          string        `json:"addr"`
	Assocs        []c10AssocCfg `json:"assocs"`
	Steps         []c10Step     `json:"steps"`
	SlowDpMs      int           `json:"slow_dp_ms"`
	GateDp        bool          `json:"gate_dp"`
	ReadTimeoutMs int           `json:"read_timeout_ms"`
	RespTimeoutMs int           `json:"resp_timeout_ms"`
	HbIntervalMs  int           `json:"hb_interval_ms"`
	Retries       int           `json:"retries"`
	DeadlineMs    int           `json:"deadline_ms"`
	SettleMs      int           `json:"settle_ms"`
}

type c10AssocObs struct {
	Deletes       map[string]int `json:"deletes"`                 // F-SEID -> number of upfMsgTypeDel commands
	Forgotten     int            `json:"forgotten"`               // times the address was reported on done / pConnDone
	DelAtForgot   map[string]int `json:"del_at_forgot,omitempty"` // delete counts when the address was first reported
	ServeReturned bool           `json:"serve_returned"`
	HbReturned    bool           `json:"hb_returned"`
	Closed        int            `json:"closed"`
	StoreLeft     int            `json:"store_left"`
	InMap         bool           `json:"in_map"`
	Alive         *bool          `json:"alive,omitempty"`       // answers a heartbeat at the end
	FreshSetup    *bool          `json:"fresh_setup,omitempty"` // a new Association Setup from the address is answered
	Replies       []string       `json:"replies"`
}

type c10Obs struct {
	Assocs     []c10AssocObs       `json:"assocs"`
	Steps      []string            `json:"steps"`
	Goroutines map[string]int      `json:"goroutines"`  // census before the final probes
	StopMs     int64               `json:"stop_ms"`     // time for Stop()+Done() to return, -1 if not stopped
	DelAtDone  map[string]int      `json:"del_at_done"` // delete counts at the moment Done() returned
	ExitCalled int                 `json:"exit_called"`
	DpLog      map[string][]string `json:"dp_log"` // F-SEID -> datapath commands in order
	Hang       string              `json:"hang,omitempty"`
	Dump       string              `json:"dump,omitempty"`
}

var c10EventsMu sync.Mutex

func c10Event(v map[string]interface{}) {
	p := os.Getenv("VERIF_C10_EVENTS")
	if p == "" {
		return
	}
	c10EventsMu.Lock()
	defer c10EventsMu.Unlock()
	f, err := os.OpenFile(p, os.O_APPEND|os.O_CREATE|os.O_WRONLY, 0o644)
	if err != nil {
		return
	}
	b, _ := json.Marshal(v)
	f.Write(append(b, '\n'))
	f.Close()
}

// ---------------------------------------------------------------- fake datapath

type c10Datapath struct {
	mu       sync.Mutex
	dels     map[uint64]int
	log      map[uint64][]string // every command per F-SEID, in order
	other    int
	slow     time.Duration
	gate     chan struct{} // when non-nil every delete waits for the gate
	inDelete chan uint64   // signalled (non-blocking) when a delete command arrives
	exit     int32
}

func (d *c10Datapath) Exit()                                                              { atomic.AddInt32(&d.exit, 1) }
func (d *c10Datapath) SetUpfInfo(u *upf, conf *Conf)                                      {}
func (d *c10Datapath) AddSliceInfo(sliceInfo *SliceInfo) error                            { return nil }
func (d *c10Datapath) SendEndMarkers(l *[][]byte) error                                   { return nil }
func (d *c10Datapath) IsConnected(accessIP *net.IP) bool                                  { return true }
func (d *c10Datapath) SummaryLatencyJitter(uc *upfCollector, ch chan<- prometheus.Metric) {}
func (d *c10Datapath) PortStats(uc *upfCollector, ch chan<- prometheus.Metric)            {}
func (d *c10Datapath) SummaryGtpuLatency(uc *upfCollector, ch chan<- prometheus.Metric)   {}
func (d *c10Datapath) SessionStats(pc *PfcpNodeCollector, ch chan<- prometheus.Metric) error {
	return nil
}

func (d *c10Datapath) SendMsgToUPF(method upfMsgType, all PacketForwardingRules, newRules PacketForwardingRules) uint8 {
	var id uint64
	if len(all.pdrs) > 0 {
		id = all.pdrs[0].fseID
	} else if len(newRules.pdrs) > 0 {
		id = newRules.pdrs[0].fseID
	}
	if method != upfMsgTypeDel {
		d.mu.Lock()
		d.other++
		d.log[id] = append(d.log[id], method.String())
		d.mu.Unlock()
		return ie.CauseRequestAccepted
	}
	select {
	case d.inDelete <- id:
	default:
	}
	if d.gate != nil {
		<-d.gate
	}
	if d.slow > 0 {
		time.Sleep(d.slow)
	}
	d.mu.Lock()
	d.dels[id]++
	d.log[id] = append(d.log[id], method.String())
	d.mu.Unlock()
	return ie.CauseRequestAccepted
}

func (d *c10Datapath) fullLog() map[string][]string {
	d.mu.Lock()
	defer d.mu.Unlock()
	out := map[string][]string{}
	for k, v := range d.log {
		out[strconv.FormatUint(k, 10)] = append([]string(nil), v...)
	}
	return out
}

func (d *c10Datapath) snapshot() map[string]int {
	d.mu.Lock()
	defer d.mu.Unlock()
	out := map[string]int{}
	for k, v := range d.dels {
		out[strconv.FormatUint(k, 10)] = v
	}
	return out
}

type c10Metrics struct{}

func (c10Metrics) SaveMessages(m *metrics.Message) {}
func (c10Metrics) SaveSessions(s *metrics.Session) {}
func (c10Metrics) Stop() error                     { return nil }

// ---------------------------------------------------------------- in-memory net.Conn

type c10TimeoutErr struct{}

func (c10TimeoutErr) Error() string   { return "i/o timeout (scripted)" }
func (c10TimeoutErr) Timeout() bool   { return true }
func (c10TimeoutErr) Temporary() bool { return true }

type c10Conn struct {
	q         chan []byte
	tmo       chan struct{}
	closed    chan struct{}
	closeOnce sync.Once
	closes    int32
	mu        sync.Mutex
	writes    [][]byte
	local     *net.UDPAddr
	remote    *net.UDPAddr
	answerHB  int32 // 1: answer heartbeat requests at once, 2: hold the answers, 0: never answer
	held      [][]byte
}

func c10NewConn(i int) *c10Conn {
	return &c10Conn{
		q: make(chan []byte, 4096), tmo: make(chan struct{}, 16), closed: make(chan struct{}),
		local:    &net.UDPAddr{IP: net.IPv4(127, 0, 0, 1), Port: 8805},
		remote:   &net.UDPAddr{IP: net.IPv4(10, 10, byte(i>>8), byte(i)), Port: 8805},
		answerHB: 1,
	}
}

func (c *c10Conn) Read(b []byte) (int, error) {
	select {
	case <-c.closed:
		return 0, net.ErrClosed
	default:
	}
	select {
	case <-c.closed:
		return 0, net.ErrClosed
	case d := <-c.q:
		return copy(b, d), nil
	case <-c.tmo:
		return 0, c10TimeoutErr{}
	}
}

func (c *c10Conn) Write(b []byte) (int, error) {
	select {
	case <-c.closed:
		return 0, net.ErrClosed
	default:
	}
	cp := append([]byte(nil), b...)
	c.mu.Lock()
	c.writes = append(c.writes, cp)
	c.mu.Unlock()
	if mode := atomic.LoadInt32(&c.answerHB); mode != 0 {
		if m, err := message.Parse(cp); err == nil && m.MessageType() == message.MsgTypeHeartbeatRequest {
			rsp, _ := message.NewHeartbeatResponse(m.Sequence(), ie.NewRecoveryTimeStamp(time.Unix(1700000000, 0))).Marshal()
			if mode == 2 {
				c.mu.Lock()
				c.held = append(c.held, rsp)
				c.mu.Unlock()
			} else {
				select {
				case c.q <- rsp:
				default:
				}
			}
		}
	}
	return len(b), nil
}

func (c *c10Conn) Close() error {
	atomic.AddInt32(&c.closes, 1)
	c.closeOnce.Do(func() { close(c.closed) })
	return nil
}
func (c *c10Conn) LocalAddr() net.Addr                { return c.local }
func (c *c10Conn) RemoteAddr() net.Addr               { return c.remote }
func (c *c10Conn) SetDeadline(t time.Time) error      { return nil }
func (c *c10Conn) SetReadDeadline(t time.Time) error  { return nil }
func (c *c10Conn) SetWriteDeadline(t time.Time) error { return nil }

func (c *c10Conn) replyTypes() []string {
	c.mu.Lock()
	defer c.mu.Unlock()
	out := []string{}
	for _, w := range c.writes {
		if m, err := message.Parse(w); err == nil {
			out = append(out, m.MessageTypeName())
		}
	}
	return out
}

func (c *c10Conn) countReplies(t uint8) int {
	c.mu.Lock()
	defer c.mu.Unlock()
	n := 0
	for _, w := range c.writes {
		if m, err := message.Parse(w); err == nil && m.MessageType() == t {
			n++
		}
	}
	return n
}

// ---------------------------------------------------------------- PFCP bytes

var c10Seq uint32

func c10NextSeq() uint32 { return atomic.AddUint32(&c10Seq, 1) }

func c10Bytes(m message.Message) []byte {
	b := make([]byte, m.MarshalLen())
	if err := m.MarshalTo(b); err != nil {
		panic(err)
	}
	return b
}
func c10Release() []byte {
	return c10Bytes(message.NewAssociationReleaseRequest(c10NextSeq(), ie.NewNodeID("10.9.9.9", "", "")))
}
func c10Setup() []byte {
	return c10Bytes(message.NewAssociationSetupRequest(c10NextSeq(),
		ie.NewRecoveryTimeStamp(time.Unix(1700000000, 0)), ie.NewNodeID("10.9.9.9", "", "")))
}
func c10Heartbeat() []byte {
	return c10Bytes(message.NewHeartbeatRequest(c10NextSeq(), ie.NewRecoveryTimeStamp(time.Unix(1700000000, 0)), nil))
}

func c10Session(id uint64) PFCPSession {
	return PFCPSession{localSEID: id, remoteSEID: id, metrics: metrics.NewSession("c10"),
		PacketForwardingRules: PacketForwardingRules{pdrs: []pdr{{pdrID: 1, fseID: id}}}}
}

func c10Fseid(assoc, k int) uint64 { return uint64(assoc+1)*1000 + uint64(k) + 1 }

// ---------------------------------------------------------------- goroutine census

func c10Stacks() string {
	buf := make([]byte, 1<<20)
	for {
		n := runtime.Stack(buf, true)
		if n < len(buf) {
			return string(buf[:n])
		}
		buf = make([]byte, 2*len(buf))
	}
}

// number of goroutines inside the agent's long-running functions
func c10Census() (map[string]int, string) {
	st := c10Stacks()
	out := map[string]int{"conn_serve": 0, "conn_reader": 0, "hb_monitor": 0, "node_serve": 0, "new_peers": 0, "shutdown": 0}
	keep := []string{}
	for _, g := range strings.Split(st, "\n\n") {
		hit := false
		if strings.Contains(g, "pfcpiface.(*PFCPConn).Serve.func1(") {
			out["conn_reader"]++
			hit = true
		} else if strings.Contains(g, "pfcpiface.(*PFCPConn).Serve(") {
			out["conn_serve"]++
			hit = true
		}
		if strings.Contains(g, "pfcpiface.(*PFCPConn).startHeartBeatMonitor(") {
			out["hb_monitor"]++
			hit = true
		}
		if strings.Contains(g, "pfcpiface.(*PFCPNode).Serve(") {
			out["node_serve"]++
			hit = true
		}
		if strings.Contains(g, "pfcpiface.(*PFCPNode).handleNewPeers(") {
			out["new_peers"]++
			hit = true
		}
		if strings.Contains(g, "pfcpiface.(*PFCPConn).doShutdown(") || strings.Contains(g, "pfcpiface.(*PFCPConn).Shutdown(") {
			out["shutdown"]++
			hit = true
		}
		if hit {
			keep = append(keep, g)
		}
	}
	return out, strings.Join(keep, "\n\n")
}

// ---------------------------------------------------------------- shared scenario state

type c10Assoc struct {
	cfg       c10AssocCfg
	conn      *c10Conn  // kind conn
	p         *PFCPConn // kind conn: built here; kind node: looked up in node.pConns
	addr      string
	serveRet  int32
	hbRet     int32
	peer      *net.UDPConn // kind node
	peerMu    sync.Mutex
	peerGot   map[uint8]int
	peerStop  int32
	answerHB  int32
	keepalive int32
}

type c10Run struct {
	sc         c10Scenario
	dp         *c10Datapath
	u          *upf
	ctx        context.Context
	cancel     context.CancelFunc
	done       chan string
	fmu        sync.Mutex
	forgot     map[string]int
	forgotSnap map[string]map[string]int
	assocs     []*c10Assoc
	steps      []string
	node       *PFCPNode
	nodeRet    int32
	stopMs     int64
	delAtDone  map[string]int
}

func (r *c10Run) note(format string, a ...interface{}) {
	s := fmt.Sprintf(format, a...)
	r.fmu.Lock()
	r.steps = append(r.steps, s)
	r.fmu.Unlock()
	c10Event(map[string]interface{}{"ev": "step", "what": s})
}

func c10Dur(ms, def int) time.Duration {
	if ms <= 0 {
		ms = def
	}
	return time.Duration(ms) * time.Millisecond
}

func (r *c10Run) waitFor(what string, limit time.Duration, cond func() bool) bool {
	dl := time.Now().Add(limit)
	for time.Now().Before(dl) {
		if cond() {
			return true
		}
		time.Sleep(2 * time.Millisecond)
	}
	if cond() {
		return true
	}
	r.note("wait-failed:%s", what)
	return false
}

func (r *c10Run) forgotten(addr string) int {
	r.fmu.Lock()
	defer r.fmu.Unlock()
	return r.forgot[addr]
}

// ---------------------------------------------------------------- kind conn

func (r *c10Run) setupConn() {
	sc := r.sc
	r.done = make(chan string, 100)
	go func() { // the receiver of node.pConnDone
		for a := range r.done {
			snap := r.dp.snapshot()
			r.fmu.Lock()
			r.forgot[a]++
			if _, seen := r.forgotSnap[a]; !seen {
				r.forgotSnap[a] = snap
			}
			r.fmu.Unlock()
		}
	}()
	for i, ac := range sc.Assocs {
		a := &c10Assoc{cfg: ac, conn: c10NewConn(i)}
		a.addr = a.conn.remote.String()
		p := &PFCPConn{
			ctx:            r.ctx,
			Conn:           a.conn,
			ts:             recoveryTS{local: time.Unix(1700000000, 0)},
			rng:            rand.New(rand.NewSource(int64(i) + 1)),
			maxRetries:     100,
			store:          NewInMemoryStore(),
			upf:            r.u,
			done:           r.done,
			shutdown:       make(chan struct{}),
			InstrumentPFCP: c10Metrics{},
			hbReset:        make(chan struct{}, 100),
		}
		p.setLocalNodeID("")
		for k := 0; k < ac.Sessions; k++ {
			if err := p.store.PutSession(c10Session(c10Fseid(i, k))); err != nil {
				panic(err)
			}
		}
		a.p = p
		r.assocs = append(r.assocs, a)
	}
	for _, a := range r.assocs {
		a := a
		go func() { a.p.Serve(); atomic.StoreInt32(&a.serveRet, 1) }()
		if a.cfg.Hb {
			// the production way: the handler of an Association Setup Request starts the monitor
			a.conn.q <- c10Setup()
		}
	}
	// let every goroutine reach its waiting point
	r.waitFor("start", 10*time.Second, func() bool {
		c, _ := c10Census()
		nhb := 0
		for _, a := range r.assocs {
			if a.cfg.Hb {
				nhb++
			}
		}
		return c["conn_serve"] == len(r.assocs) && c["conn_reader"] == len(r.assocs) && c["hb_monitor"] == nhb
	})
}

// monitors that may legitimately still run: those of associations whose Serve has not returned
func (r *c10Run) hbOK() bool {
	live := 0
	for _, a := range r.assocs {
		if a.cfg.Hb && atomic.LoadInt32(&a.serveRet) == 0 {
			live++
		}
	}
	c, _ := c10Census()
	return c["hb_monitor"] <= live
}

func (r *c10Run) ended(a *c10Assoc) bool {
	return atomic.LoadInt32(&a.serveRet) == 1 && r.forgotten(a.addr) >= 1 && (!a.cfg.Hb || r.hbOK())
}

func (r *c10Run) stepConn(s c10Step) {
	if s.Async {
		s.Async = false
		go r.stepConn(s)
		return
	}
	var a *c10Assoc
	if s.A >= 0 && s.A < len(r.assocs) {
		a = r.assocs[s.A]
	}
	if s.Us > 0 {
		time.Sleep(time.Duration(s.Us) * time.Microsecond)
	}
	switch s.Op {
	case "release": // Association Release Request arrives on the connection
		a.conn.q <- c10Release()
	case "release_direct": // handled on the caller's goroutine, as NewPFCPConn does for a first datagram
		a.p.HandlePFCPMsg(c10Release())
	case "shutdown":
		a.p.Shutdown()
	case "timeout": // the peer stays silent past readTimeout
		a.conn.tmo <- struct{}{}
	case "hbfail": // the peer stops answering heartbeats
		atomic.StoreInt32(&a.conn.answerHB, 0)
	case "hb_hold": // the peer is slow: answers to heartbeat requests are held back
		atomic.StoreInt32(&a.conn.answerHB, 2)
	case "wait_hb_pending": // until a heartbeat request of the agent is waiting for its (held) answer
		r.waitFor("hb-pending", c10Dur(s.Ms, 8000), func() bool {
			a.conn.mu.Lock()
			defer a.conn.mu.Unlock()
			return len(a.conn.held) > 0
		})
	case "hb_release": // the held answers arrive now
		a.conn.mu.Lock()
		for _, h := range a.conn.held {
			a.conn.q <- h
		}
		a.conn.held = nil
		a.conn.mu.Unlock()
	case "cancel": // node context cancelled (agent stopping)
		r.cancel()
	case "inflight": // requests answered in place
		for k := 0; k < s.N; k++ {
			a.conn.q <- c10Heartbeat()
		}
	case "setup":
		a.conn.q <- c10Setup()
	case "sess_delete": // Session Deletion Request for the n-th preloaded session, in flight
		a.conn.q <- c10Bytes(message.NewSessionDeletionRequest(0, 0, c10Fseid(s.A, s.N), c10NextSeq(), 0))
	case "sess_modify":
		a.conn.q <- c10Bytes(message.NewSessionModificationRequest(0, 0, c10Fseid(s.A, s.N), c10NextSeq(), 0,
			ie.NewUpdateFAR(ie.NewFARID(1), ie.NewApplyAction(0x01))))
	case "sess_establish": // a new session (needs the association: send "setup" first)
		cp := uint64(900000 + s.A*100 + s.N)
		a.conn.q <- c10Bytes(message.NewSessionEstablishmentRequest(0, 0, 0, c10NextSeq(), 0,
			ie.NewNodeID("10.9.9.9", "", ""), ie.NewFSEID(cp, net.ParseIP("10.9.9.9"), nil),
			ie.NewCreatePDR(ie.NewPDRID(1), ie.NewPrecedence(100),
				ie.NewPDI(ie.NewSourceInterface(ie.SrcInterfaceAccess), ie.NewFTEID(0x01, uint32(0x5000+cp), net.ParseIP("198.18.0.1"), nil, 0)),
				ie.NewOuterHeaderRemoval(0, 0), ie.NewFARID(1)),
			ie.NewCreateFAR(ie.NewFARID(1), ie.NewApplyAction(0x02),
				ie.NewForwardingParameters(ie.NewDestinationInterface(ie.DstInterfaceCore)))))
	case "wait": // until association a has ended completely
		r.waitFor(fmt.Sprintf("ended:%d", s.A), c10Dur(s.Ms, 8000), func() bool { return r.ended(a) })
	case "wait_delete": // until a delete command is being executed by the (gated) datapath
		select {
		case <-r.dp.inDelete:
		case <-time.After(c10Dur(s.Ms, 8000)):
			r.note("wait-failed:delete")
		}
	case "open_gate":
		close(r.dp.gate)
	case "sleep":
		time.Sleep(c10Dur(s.Ms, 10))
	case "par":
		var wg sync.WaitGroup
		for _, ps := range s.Par {
			ps := ps
			wg.Add(1)
			go func() { defer wg.Done(); r.stepConn(ps) }()
		}
		wg.Wait()
	default:
		r.note("unknown-op:%s", s.Op)
	}
}

func (r *c10Run) touched() map[int]bool {
	t := map[int]bool{}
	var walk func(ss []c10Step)
	walk = func(ss []c10Step) {
		for _, s := range ss {
			switch s.Op {
			case "release", "release_direct", "shutdown", "timeout", "hbfail", "first_release", "silent", "release_nowait":
				t[s.A] = true
			case "cancel", "stop":
				for i := range r.sc.Assocs {
					t[i] = true
				}
			case "par":
				walk(s.Par)
			}
		}
	}
	walk(r.sc.Steps)
	return t
}

func (r *c10Run) finishConn() c10Obs {
	touched := r.touched()
	// ended associations: everything must come to rest; generous bound, then a fixed grace period in
	// which nothing more may happen (second deletes, second reports)
	r.waitFor("settle", c10Dur(r.sc.SettleMs, 8000), func() bool {
		for i, a := range r.assocs {
			if touched[i] && !r.ended(a) {
				return false
			}
		}
		c, _ := c10Census()
		return c["shutdown"] == 0
	})
	time.Sleep(60 * time.Millisecond)
	obs := c10Obs{StopMs: -1}
	obs.Goroutines, obs.Dump = c10Census()
	for i, a := range r.assocs {
		ao := c10AssocObs{Deletes: map[string]int{}}
		all := r.dp.snapshot()
		for k := 0; k < a.cfg.Sessions; k++ {
			key := strconv.FormatUint(c10Fseid(i, k), 10)
			ao.Deletes[key] = all[key]
		}
		if !touched[i] {
			// an association nobody touched must still answer
			before := a.conn.countReplies(message.MsgTypeHeartbeatResponse)
			a.conn.q <- c10Heartbeat()
			ok := r.waitFor(fmt.Sprintf("alive:%d", i), 5*time.Second, func() bool {
				return a.conn.countReplies(message.MsgTypeHeartbeatResponse) > before
			})
			ao.Alive = &ok
		}
		ao.Forgotten = r.forgotten(a.addr)
		r.fmu.Lock()
		if snap, ok := r.forgotSnap[a.addr]; ok {
			ao.DelAtForgot = map[string]int{}
			for k := 0; k < a.cfg.Sessions; k++ {
				key := strconv.FormatUint(c10Fseid(i, k), 10)
				ao.DelAtForgot[key] = snap[key]
			}
		}
		r.fmu.Unlock()
		ao.ServeReturned = atomic.LoadInt32(&a.serveRet) == 1
		ao.HbReturned = a.cfg.Hb && ao.ServeReturned && r.hbOK()
		ao.Closed = int(atomic.LoadInt32(&a.conn.closes))
		ao.StoreLeft = len(a.p.store.GetAllSessions())
		ao.Replies = a.conn.replyTypes()
		obs.Assocs = append(obs.Assocs, ao)
	}
	obs.Steps = r.steps
	obs.DpLog = r.dp.fullLog()
	obs.ExitCalled = int(atomic.LoadInt32(&r.dp.exit))
	return obs
}

// ---------------------------------------------------------------- kind node

func (r *c10Run) setupNode() error {
	r.u.n4addr = r.sc.Addr
	r.node = NewPFCPNode(r.u)
	go func() { r.node.Serve(); atomic.StoreInt32(&r.nodeRet, 1) }()
	for i, ac := range r.sc.Assocs {
		pc, err := net.ListenUDP("udp", &net.UDPAddr{IP: net.ParseIP(r.sc.Addr), Port: 20000 + i})
		if err != nil {
			return err
		}
		a := &c10Assoc{cfg: ac, peer: pc, addr: pc.LocalAddr().String(), peerGot: map[uint8]int{}, answerHB: 1}
		r.assocs = append(r.assocs, a)
		go r.peerLoop(a)
	}
	return nil
}

// the peer's receive loop: counts message types, answers heartbeat requests of the agent
func (r *c10Run) peerLoop(a *c10Assoc) {
	buf := make([]byte, 2048)
	dst := &net.UDPAddr{IP: net.ParseIP(r.sc.Addr), Port: 8805}
	for atomic.LoadInt32(&a.peerStop) == 0 {
		a.peer.SetReadDeadline(time.Now().Add(50 * time.Millisecond))
		n, _, err := a.peer.ReadFromUDP(buf)
		if err != nil {
			if errors.Is(err, net.ErrClosed) {
				return
			}
			continue
		}
		m, err := message.Parse(buf[:n])
		if err != nil {
			continue
		}
		a.peerMu.Lock()
		a.peerGot[m.MessageType()]++
		a.peerMu.Unlock()
		if m.MessageType() == message.MsgTypeHeartbeatRequest && atomic.LoadInt32(&a.answerHB) == 1 {
			rsp, _ := message.NewHeartbeatResponse(m.Sequence(), ie.NewRecoveryTimeStamp(time.Unix(1700000000, 0))).Marshal()
			a.peer.WriteToUDP(rsp, dst)
		}
	}
}

func (a *c10Assoc) got(t uint8) int {
	a.peerMu.Lock()
	defer a.peerMu.Unlock()
	return a.peerGot[t]
}

func (r *c10Run) send(a *c10Assoc, b []byte) {
	a.peer.WriteToUDP(b, &net.UDPAddr{IP: net.ParseIP(r.sc.Addr), Port: 8805})
}

// request/response with retransmission by the peer (UDP to a loaded process may be slow, never lost on loopback)
func (r *c10Run) exchange(a *c10Assoc, mk func() []byte, rspType uint8, limit time.Duration) bool {
	before := a.got(rspType)
	r.send(a, mk())
	dl := time.Now().Add(limit)
	next := time.Now().Add(1500 * time.Millisecond)
	for time.Now().Before(dl) {
		if a.got(rspType) > before {
			return true
		}
		// setup and heartbeat requests may be repeated (a repeated release would be a new first datagram)
		if rspType != message.MsgTypeAssociationReleaseResponse && time.Now().After(next) {
			r.send(a, mk())
			next = time.Now().Add(1500 * time.Millisecond)
		}
		time.Sleep(2 * time.Millisecond)
	}
	return a.got(rspType) > before
}

func (r *c10Run) lookup(a *c10Assoc) *PFCPConn {
	v, ok := r.node.pConns.Load(a.addr)
	if !ok {
		return nil
	}
	return v.(*PFCPConn)
}

func (r *c10Run) stepNode(s c10Step) {
	if s.Async {
		s.Async = false
		go r.stepNode(s)
		return
	}
	var a *c10Assoc
	if s.A >= 0 && s.A < len(r.assocs) {
		a = r.assocs[s.A]
	}
	if s.Us > 0 {
		time.Sleep(time.Duration(s.Us) * time.Microsecond)
	}
	idx := s.A
	switch s.Op {
	case "setup": // associate and give the association its sessions
		ok := r.exchange(a, c10Setup, message.MsgTypeAssociationSetupResponse, 8*time.Second)
		if !ok {
			r.note("setup-unanswered:%d", idx)
			return
		}
		var p *PFCPConn
		r.waitFor("pconn-stored", 5*time.Second, func() bool { p = r.lookup(a); return p != nil })
		if p == nil {
			return
		}
		a.p = p
		for k := 0; k < a.cfg.Sessions; k++ {
			if err := p.store.PutSession(c10Session(c10Fseid(idx, k))); err != nil {
				panic(err)
			}
		}
		atomic.StoreInt32(&a.keepalive, 1)
	case "release":
		atomic.StoreInt32(&a.keepalive, 0)
		if !r.exchange(a, c10Release, message.MsgTypeAssociationReleaseResponse, 8*time.Second) {
			r.note("release-unanswered:%d", idx)
		}
	case "release_nowait":
		atomic.StoreInt32(&a.keepalive, 0)
		r.send(a, c10Release())
	case "first_release": // the very first datagram of this peer is an Association Release Request
		if !r.exchange(a, c10Release, message.MsgTypeAssociationReleaseResponse, 8*time.Second) {
			r.note("release-unanswered:%d", idx)
		}
	case "silent": // the peer stops talking; the agent's read timeout must end the association
		atomic.StoreInt32(&a.keepalive, 0)
		atomic.StoreInt32(&a.answerHB, 0)
	case "hbfail":
		atomic.StoreInt32(&a.keepalive, 0)
		atomic.StoreInt32(&a.answerHB, 0)
	case "wait": // until the node has forgotten the association
		r.waitFor(fmt.Sprintf("forgotten:%d", idx), c10Dur(s.Ms, 10000), func() bool { return r.lookup(a) == nil })
	case "wait_deleted": // until every session of the association got its delete command
		r.waitFor(fmt.Sprintf("deleted:%d", idx), c10Dur(s.Ms, 10000), func() bool {
			all := r.dp.snapshot()
			for k := 0; k < a.cfg.Sessions; k++ {
				if all[strconv.FormatUint(c10Fseid(idx, k), 10)] == 0 {
					return false
				}
			}
			return true
		})
	case "inflight":
		for k := 0; k < s.N; k++ {
			r.send(a, c10Heartbeat())
		}
	case "stop": // PFCPIface.Stop: node.Stop(); node.Done()
		for _, x := range r.assocs {
			atomic.StoreInt32(&x.keepalive, 0)
		}
		t0 := time.Now()
		c10Event(map[string]interface{}{"ev": "stop-called"})
		ret := make(chan struct{})
		go func() { r.node.Stop(); r.node.Done(); close(ret) }()
		select {
		case <-ret:
			atomic.StoreInt64(&r.stopMs, time.Since(t0).Milliseconds())
			r.delAtDone = r.dp.snapshot()
			c10Event(map[string]interface{}{"ev": "done-returned", "ms": time.Since(t0).Milliseconds(), "deletes": r.delAtDone})
		case <-time.After(c10Dur(s.Ms, 10000)):
			r.note("stop-did-not-return")
			_, dump := c10Census()
			c10Event(map[string]interface{}{"ev": "stop-hang", "dump": dump, "deletes": r.dp.snapshot()})
		}
	case "wait_delete":
		select {
		case <-r.dp.inDelete:
		case <-time.After(c10Dur(s.Ms, 8000)):
			r.note("wait-failed:delete")
		}
	case "open_gate":
		close(r.dp.gate)
	case "sleep":
		time.Sleep(c10Dur(s.Ms, 10))
	case "par":
		var wg sync.WaitGroup
		for _, ps := range s.Par {
			ps := ps
			wg.Add(1)
			go func() { defer wg.Done(); r.stepNode(ps) }()
		}
		wg.Wait()
	default:
		r.note("unknown-op:%s", s.Op)
	}
}

func (r *c10Run) keepalives() {
	for {
		time.Sleep(100 * time.Millisecond)
		for _, a := range r.assocs {
			if atomic.LoadInt32(&a.keepalive) == 1 {
				r.send(a, c10Heartbeat())
			}
		}
	}
}

func (r *c10Run) finishNode() c10Obs {
	touched := r.touched()
	stopped := atomic.LoadInt64(&r.stopMs) >= 0
	time.Sleep(c10Dur(r.sc.SettleMs, 300))
	obs := c10Obs{StopMs: atomic.LoadInt64(&r.stopMs), DelAtDone: r.delAtDone}
	obs.Goroutines, obs.Dump = c10Census()
	all := r.dp.snapshot()
	for i, a := range r.assocs {
		ao := c10AssocObs{Deletes: map[string]int{}}
		for k := 0; k < a.cfg.Sessions; k++ {
			key := strconv.FormatUint(c10Fseid(i, k), 10)
			ao.Deletes[key] = all[key]
		}
		ao.InMap = r.lookup(a) != nil
		if a.p != nil {
			ao.StoreLeft = len(a.p.store.GetAllSessions())
		}
		if !stopped {
			if !touched[i] && a.p != nil {
				ok := r.exchange(a, c10Heartbeat, message.MsgTypeHeartbeatResponse, 5*time.Second)
				ao.Alive = &ok
			}
			if touched[i] {
				// the same peer associates afresh
				limit := 8 * time.Second
				if ao.InMap {
					limit = time.Second // a stale entry: handleNewPeers drops the datagram, nothing will come
				}
				ok := r.exchange(a, c10Setup, message.MsgTypeAssociationSetupResponse, limit)
				ao.FreshSetup = &ok
			}
		}
		keys := []int{}
		a.peerMu.Lock()
		for k := range a.peerGot {
			keys = append(keys, int(k))
		}
		sort.Ints(keys)
		for _, k := range keys {
			ao.Replies = append(ao.Replies, fmt.Sprintf("%d:%d", k, a.peerGot[uint8(k)]))
		}
		a.peerMu.Unlock()
		obs.Assocs = append(obs.Assocs, ao)
	}
	obs.Steps = r.steps
	obs.DpLog = r.dp.fullLog()
	obs.ExitCalled = int(atomic.LoadInt32(&r.dp.exit))
	for _, a := range r.assocs {
		atomic.StoreInt32(&a.peerStop, 1)
	}
	return obs
}

// ---------------------------------------------------------------- entry

func init() {
	verifRegister("c10", func(raw json.RawMessage) (interface{}, error) {
		var sc c10Scenario
		if err := json.Unmarshal(raw, &sc); err != nil {
			return nil, err
		}
		dp := &c10Datapath{dels: map[uint64]int{}, log: map[uint64][]string{}, slow: time.Duration(sc.SlowDpMs) * time.Millisecond,
			inDelete: make(chan uint64, 4096)}
		if sc.GateDp {
			dp.gate = make(chan struct{})
		}
		ctx, cancel := context.WithCancel(context.Background())
		hb := false
		for _, a := range sc.Assocs {
			hb = hb || a.Hb
		}
		u := &upf{
			datapath:         dp,
			accessIP:         net.ParseIP("198.18.0.1"),
			coreIP:           net.ParseIP("198.19.0.1"),
			reportNotifyChan: make(chan uint64, 1024),
			readTimeout:      c10Dur(sc.ReadTimeoutMs, 3600*1000),
			respTimeout:      c10Dur(sc.RespTimeoutMs, 2000),
			hbInterval:       c10Dur(sc.HbIntervalMs, 50),
			maxReqRetries:    uint8(sc.Retries),
			enableHBTimer:    hb,
			fteidGenerator:   NewFTEIDGenerator(),
		}
		r := &c10Run{sc: sc, dp: dp, u: u, ctx: ctx, cancel: cancel, forgot: map[string]int{}, forgotSnap: map[string]map[string]int{}, stopMs: -1}
		// watchdog: a scenario that does not finish is a hang; dump the agent's goroutines
		finished := make(chan struct{})
		go func() {
			select {
			case <-finished:
			case <-time.After(c10Dur(sc.DeadlineMs, 40000)):
				_, dump := c10Census()
				c10Event(map[string]interface{}{"ev": "watchdog", "dump": dump, "deletes": dp.snapshot()})
				os.Exit(3)
			}
		}()
		defer close(finished)
		var obs c10Obs
		switch sc.Kind {
		case "conn":
			r.setupConn()
			for _, s := range sc.Steps {
				r.stepConn(s)
			}
			obs = r.finishConn()
		case "node":
			if err := r.setupNode(); err != nil {
				return nil, err
			}
			go r.keepalives()
			for _, s := range sc.Steps {
				r.stepNode(s)
			}
			obs = r.finishNode()
		default:
			return nil, fmt.Errorf("unknown kind %q", sc.Kind)
		}
		c10Event(map[string]interface{}{"ev": "finished"})
		return obs, nil
	})
}
