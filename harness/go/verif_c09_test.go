//go:build verif

// C09 - QoS is enforced as signalled; the session-wide limiter is chosen soundly.
//
// Modes (one JSON object in, one JSON observation out):
//   c09_calc   calcBurstSizeFromRate / getMeterConfigurationFromQER (direct calls)
//   c09_parse  parseQER on a go-pfcp Create/Update QER IE that went through Marshal + ie.Parse
//   c09_mark   PFCPSession.MarkSessionQer, called twice as the handlers do (stored QERs, then the
//              QERs of the message), on a constructed session
//   c09_bess   the real bess plug-in (client/conn set by hand, qciQosMap through readQciQosMap)
//              talking gRPC to an in-process recording BESSControl server; SendMsgToUPF per op
//   c09_hist   a PFCPConn literal with upf.datapath = that bess plug-in; Session Establishment /
//              Modification Requests as bytes through HandlePFCPMsg; after every message the
//              reply cause, the Qos commands received by the server and the stored session
//   c09_up4    the real UP4 plug-in (struct literal, p4client with an in-process recording
//              P4RuntimeClient, translator from conf/p4/bin/p4info.txt); sendCreate is called
//              directly because SendMsgToUPF insists on a live grpc.ClientConn
package pfcpiface

import (
	"context"
	"encoding/json"
	"fmt"
	"math/rand"
	"net"
	"os"
	"sort"
	"sync"
	"time"

	"github.com/golang/protobuf/proto"
	"github.com/omec-project/upf-epc/logger"
	pb "github.com/omec-project/upf-epc/pfcpiface/bess_pb"
	"github.com/omec-project/upf-epc/pfcpiface/metrics"
	p4ConfigV1 "github.com/p4lang/p4runtime/go/p4/config/v1"
	p4 "github.com/p4lang/p4runtime/go/p4/v1"
	"github.com/wmnsk/go-pfcp/ie"
	"github.com/wmnsk/go-pfcp/message"
	"go.uber.org/zap/zapcore"
	"google.golang.org/grpc"
	"google.golang.org/grpc/credentials/insecure"
)

// ---------------------------------------------------------------------------- shared JSON shapes

type c09Qer struct {
	ID    uint32 `json:"id"`
	Level uint8  `json:"level"`
	QFI   uint8  `json:"qfi"`
	UlS   uint8  `json:"uls"`
	DlS   uint8  `json:"dls"`
	UlMbr uint64 `json:"ulmbr"`
	DlMbr uint64 `json:"dlmbr"`
	UlGbr uint64 `json:"ulgbr"`
	DlGbr uint64 `json:"dlgbr"`
	Fseid uint64 `json:"fseid"`
}

func (q c09Qer) toQer() qer {
	return qer{qerID: q.ID, qosLevel: QosLevel(q.Level), qfi: q.QFI, ulStatus: q.UlS, dlStatus: q.DlS,
		ulMbr: q.UlMbr, dlMbr: q.DlMbr, ulGbr: q.UlGbr, dlGbr: q.DlGbr, fseID: q.Fseid}
}

func c09FromQer(q qer) c09Qer {
	return c09Qer{ID: q.qerID, Level: uint8(q.qosLevel), QFI: q.qfi, UlS: q.ulStatus, DlS: q.dlStatus,
		UlMbr: q.ulMbr, DlMbr: q.dlMbr, UlGbr: q.ulGbr, DlGbr: q.dlGbr, Fseid: q.fseID}
}

// a QER IE as the generator describes it: every child optional
type c09QerIE struct {
	ID   *uint32    `json:"id"`
	QFI  *uint8     `json:"qfi"`
	Gate *uint8     `json:"gate"` // the whole octet
	MBR  *[2]uint64 `json:"mbr"`
	GBR  *[2]uint64 `json:"gbr"`
}

func (q c09QerIE) children() []*ie.IE {
	ies := []*ie.IE{}
	if q.ID != nil {
		ies = append(ies, ie.NewQERID(*q.ID))
	}
	if q.QFI != nil {
		ies = append(ies, ie.NewQFI(*q.QFI))
	}
	if q.Gate != nil {
		ies = append(ies, ie.New(ie.GateStatus, []byte{*q.Gate}))
	}
	if q.MBR != nil {
		ies = append(ies, ie.NewMBR(q.MBR[0], q.MBR[1]))
	}
	if q.GBR != nil {
		ies = append(ies, ie.NewGBR(q.GBR[0], q.GBR[1]))
	}
	return ies
}

type c09Conf struct {
	QCI uint8  `json:"qci"`
	CBS uint32 `json:"cbs"`
	PBS uint32 `json:"pbs"`
	EBS uint32 `json:"ebs"`
	Dur uint32 `json:"dur"`
}

func c09MkConf(cs []c09Conf) *Conf {
	conf := &Conf{}
	for _, c := range cs {
		conf.QciQosConfig = append(conf.QciQosConfig, QciQosConfig{QCI: c.QCI, CBS: c.CBS, PBS: c.PBS, EBS: c.EBS,
			BurstDurationMs: c.Dur, SchedulingPriority: 7})
	}
	return conf
}

var c09Quiet sync.Once

func c09Silence() {
	c09Quiet.Do(func() {
		logger.SetLogLevel(zapcore.FatalLevel)
		// bess.SendMsgToUPF joins its per-rule goroutines with this timeout (1 s in production) and
		// cancels the calls still in flight; on a loaded machine that would truncate a batch. A
		// completed join returns at once, so the larger value costs nothing.
		Timeout = 120 * time.Second
	})
}

// ---------------------------------------------------------------------------- recording BESS server

type c09Cmd struct {
	Name   string   `json:"name"`
	Cmd    string   `json:"cmd"`
	Gate   uint64   `json:"gate"`
	Cir    uint64   `json:"cir"`
	Pir    uint64   `json:"pir"`
	Cbs    uint64   `json:"cbs"`
	Pbs    uint64   `json:"pbs"`
	Ebs    uint64   `json:"ebs"`
	Fields []uint64 `json:"fields"`
	Values []uint64 `json:"values"`
	Bad    string   `json:"bad,omitempty"`
}

type c09BessServer struct {
	pb.UnimplementedBESSControlServer
	mu   sync.Mutex
	cmds []c09Cmd
	addr string
}

func c09Ints(fs []*pb.FieldData) []uint64 {
	out := []uint64{}
	for _, f := range fs {
		out = append(out, f.GetValueInt())
	}
	return out
}

func (s *c09BessServer) ModuleCommand(ctx context.Context, req *pb.CommandRequest) (*pb.CommandResponse, error) {
	if req.Name != AppQerLookup && req.Name != SessQerLookup {
		return &pb.CommandResponse{}, nil
	}
	c := c09Cmd{Name: req.Name, Cmd: req.Cmd, Fields: []uint64{}, Values: []uint64{}}
	switch req.Cmd {
	case "add":
		var a pb.QosCommandAddArg
		if err := req.Arg.UnmarshalTo(&a); err != nil {
			c.Bad = err.Error()
		} else {
			c.Gate, c.Cir, c.Pir, c.Cbs, c.Pbs, c.Ebs = a.Gate, a.Cir, a.Pir, a.Cbs, a.Pbs, a.Ebs
			c.Fields, c.Values = c09Ints(a.Fields), c09Ints(a.Values)
		}
	case "delete":
		var a pb.QosCommandDeleteArg
		if err := req.Arg.UnmarshalTo(&a); err != nil {
			c.Bad = err.Error()
		} else {
			c.Fields = c09Ints(a.Fields)
		}
	default:
		c.Bad = "unexpected command"
	}
	s.mu.Lock()
	s.cmds = append(s.cmds, c)
	s.mu.Unlock()
	return &pb.CommandResponse{}, nil
}

func (s *c09BessServer) take() []c09Cmd {
	s.mu.Lock()
	defer s.mu.Unlock()
	out := s.cmds
	s.cmds = nil
	if out == nil {
		out = []c09Cmd{}
	}
	return out
}

var (
	c09SrvOnce sync.Once
	c09Srv     *c09BessServer
	c09Client  pb.BESSControlClient
	c09GConn   *grpc.ClientConn
	c09SrvErr  error
)

func c09StartBess() error {
	c09SrvOnce.Do(func() {
		lis, err := net.Listen("tcp", "127.0.0.1:0")
		if err != nil {
			c09SrvErr = err
			return
		}
		c09Srv = &c09BessServer{addr: lis.Addr().String()}
		g := grpc.NewServer()
		pb.RegisterBESSControlServer(g, c09Srv)
		go func() { _ = g.Serve(lis) }()
		*bessIP = c09Srv.addr
		c09GConn, err = grpc.NewClient(*bessIP, grpc.WithTransportCredentials(insecure.NewCredentials()))
		if err != nil {
			c09SrvErr = err
			return
		}
		c09Client = pb.NewBESSControlClient(c09GConn)
		// warm the connection so that the first SendMsgToUPF is not racing the 1 s join timeout
		ctx, cancel := context.WithTimeout(context.Background(), 10*time.Second)
		defer cancel()
		_, c09SrvErr = c09Client.ModuleCommand(ctx, &pb.CommandRequest{Name: "warmup", Cmd: "noop"}, grpc.WaitForReady(true))
	})
	return c09SrvErr
}

func c09NewBess(cs []c09Conf) (*bess, error) {
	if err := c09StartBess(); err != nil {
		return nil, err
	}
	b := &bess{client: c09Client, conn: c09GConn, endMarkerChan: make(chan []byte, 1024)}
	b.readQciQosMap(c09MkConf(cs))
	c09Srv.take()
	return b, nil
}

// sort key: stable canonical order for a batch (goroutines of different QERs interleave)
func c09SortCmds(cs []c09Cmd) {
	key := func(c c09Cmd) string { return fmt.Sprint(c.Name, c.Cmd, c.Fields, c.Values, c.Gate, c.Cir, c.Pir, c.Cbs, c.Pbs, c.Ebs) }
	sort.SliceStable(cs, func(i, j int) bool { return key(cs[i]) < key(cs[j]) })
}

// ---------------------------------------------------------------------------- fake net.Conn, metrics

type c09Conn struct {
	mu     sync.Mutex
	writes [][]byte
}

func (c *c09Conn) Read(b []byte) (int, error) { select {} }
func (c *c09Conn) Write(b []byte) (int, error) {
	c.mu.Lock()
	c.writes = append(c.writes, append([]byte(nil), b...))
	c.mu.Unlock()
	return len(b), nil
}
func (c *c09Conn) Close() error                       { return nil }
func (c *c09Conn) LocalAddr() net.Addr                { return &net.UDPAddr{IP: net.IPv4(10, 0, 0, 2), Port: 8805} }
func (c *c09Conn) RemoteAddr() net.Addr               { return &net.UDPAddr{IP: net.IPv4(10, 0, 0, 1), Port: 8805} }
func (c *c09Conn) SetDeadline(t time.Time) error      { return nil }
func (c *c09Conn) SetReadDeadline(t time.Time) error  { return nil }
func (c *c09Conn) SetWriteDeadline(t time.Time) error { return nil }
func (c *c09Conn) take() [][]byte {
	c.mu.Lock()
	defer c.mu.Unlock()
	out := c.writes
	c.writes = nil
	return out
}

type c09Metrics struct{}

func (c09Metrics) SaveMessages(m *metrics.Message) {}
func (c09Metrics) SaveSessions(s *metrics.Session) {}
func (c09Metrics) Stop() error                     { return nil }

// ---------------------------------------------------------------------------- history mode

type c09PdrIE struct {
	ID   uint16   `json:"id"`
	Src  uint8    `json:"src"` // 0 access, 1 core (go-pfcp values)
	Qers []uint32 `json:"qers"`
}

type c09Msg struct {
	Kind    string     `json:"kind"` // "est" | "mod"
	Pdrs    []c09PdrIE `json:"pdrs"`
	UpdPdrs []c09PdrIE `json:"upd_pdrs"`
	Qers    []c09QerIE `json:"qers"`
	UpdQers []c09QerIE `json:"upd_qers"`
}

type c09SessSnap struct {
	Qers []c09Qer   `json:"qers"`
	Pdrs [][]uint32 `json:"pdrs"` // qerIDList per stored PDR, in order
	Ids  []uint32   `json:"pdr_ids"`
}

type c09Step struct {
	Cause int         `json:"cause"` // -1: no reply
	Cmds  []c09Cmd    `json:"cmds"`
	Sess  c09SessSnap `json:"sess"`
	Found bool        `json:"found"`
}

func c09PdrChildren(p c09PdrIE) []*ie.IE {
	ies := []*ie.IE{ie.NewPDRID(p.ID), ie.NewPrecedence(100),
		ie.NewPDI(ie.NewSourceInterface(p.Src)), ie.NewFARID(1)}
	for _, q := range p.Qers {
		ies = append(ies, ie.NewQERID(q))
	}
	return ies
}

func c09Snap(s PFCPSession) c09SessSnap {
	out := c09SessSnap{Qers: []c09Qer{}, Pdrs: [][]uint32{}, Ids: []uint32{}}
	for _, q := range s.qers {
		out.Qers = append(out.Qers, c09FromQer(q))
	}
	for _, p := range s.pdrs {
		out.Pdrs = append(out.Pdrs, append([]uint32{}, p.qerIDList...))
		out.Ids = append(out.Ids, p.pdrID)
	}
	return out
}

func c09ReplyCause(bufs [][]byte) int {
	if len(bufs) == 0 {
		return -1
	}
	m, err := message.Parse(bufs[len(bufs)-1])
	if err != nil {
		return -2
	}
	var c *ie.IE
	switch r := m.(type) {
	case *message.SessionEstablishmentResponse:
		c = r.Cause
	case *message.SessionModificationResponse:
		c = r.Cause
	}
	if c == nil {
		return -3
	}
	v, err := c.Cause()
	if err != nil {
		return -4
	}
	return int(v)
}

func c09RunHist(conf []c09Conf, msgs []c09Msg) (interface{}, error) {
	b, err := c09NewBess(conf)
	if err != nil {
		return nil, err
	}
	conn := &c09Conn{}
	u := &upf{datapath: b, accessIP: net.IPv4(10, 0, 0, 2), coreIP: net.IPv4zero}
	pc := &PFCPConn{
		ctx:            context.Background(),
		Conn:           conn,
		rng:            rand.New(rand.NewSource(7)),
		maxRetries:     100,
		store:          NewInMemoryStore(),
		upf:            u,
		done:           make(chan string, 100),
		shutdown:       make(chan struct{}),
		InstrumentPFCP: c09Metrics{},
		hbReset:        make(chan struct{}, 100),
	}
	pc.setLocalNodeID("")
	pc.nodeID.remote = "10.0.0.1"
	steps := []c09Step{}
	var lseid uint64
	for i, m := range msgs {
		ies := []*ie.IE{}
		for _, p := range m.Pdrs {
			ies = append(ies, ie.NewCreatePDR(c09PdrChildren(p)...))
		}
		for _, q := range m.Qers {
			ies = append(ies, ie.NewCreateQER(q.children()...))
		}
		var raw []byte
		if m.Kind == "est" {
			all := append([]*ie.IE{ie.NewNodeID("10.0.0.1", "", ""), ie.NewFSEID(0x1111, net.IPv4(10, 0, 0, 1), nil)}, ies...)
			raw, err = message.NewSessionEstablishmentRequest(0, 0, 0, uint32(i+1), 0, all...).Marshal()
		} else {
			for _, p := range m.UpdPdrs {
				ies = append(ies, ie.NewUpdatePDR(c09PdrChildren(p)...))
			}
			for _, q := range m.UpdQers {
				ies = append(ies, ie.NewUpdateQER(q.children()...))
			}
			raw, err = message.NewSessionModificationRequest(0, 0, lseid, uint32(i+1), 0, ies...).Marshal()
		}
		if err != nil {
			return nil, err
		}
		c09Srv.take()
		conn.take()
		pc.HandlePFCPMsg(raw)
		st := c09Step{Cause: c09ReplyCause(conn.take()), Cmds: c09Srv.take()}
		c09SortCmds(st.Cmds)
		ss := pc.store.GetAllSessions()
		if len(ss) == 1 {
			st.Found = true
			st.Sess = c09Snap(ss[0])
			lseid = ss[0].localSEID
		} else {
			st.Sess = c09Snap(PFCPSession{})
		}
		steps = append(steps, st)
	}
	return map[string]interface{}{"steps": steps}, nil
}

// ---------------------------------------------------------------------------- recording P4Runtime client (UP4)

type c09P4Client struct {
	p4.P4RuntimeClient // nil: any method other than Write would panic (none is called)
	mu                 sync.Mutex
	ups                []*p4.Update
}

func (c *c09P4Client) Write(ctx context.Context, in *p4.WriteRequest, opts ...grpc.CallOption) (*p4.WriteResponse, error) {
	c.mu.Lock()
	c.ups = append(c.ups, in.Updates...)
	c.mu.Unlock()
	return &p4.WriteResponse{}, nil
}

var (
	c09P4InfoOnce sync.Once
	c09P4Info     *p4ConfigV1.P4Info
	c09P4InfoErr  error
)

func c09LoadP4Info() (*p4ConfigV1.P4Info, error) {
	c09P4InfoOnce.Do(func() {
		raw, err := os.ReadFile("../conf/p4/bin/p4info.txt")
		if err != nil {
			c09P4InfoErr = err
			return
		}
		info := &p4ConfigV1.P4Info{}
		if err := proto.UnmarshalText(string(raw), info); err != nil {
			c09P4InfoErr = err
			return
		}
		c09P4Info = info
	})
	return c09P4Info, c09P4InfoErr
}

type c09Up4Pdr struct {
	ID   uint32   `json:"id"`
	Src  uint8    `json:"src"` // 1 access, 2 core (pfcpiface values)
	Qers []uint32 `json:"qers"`
	Far  uint32   `json:"far"`
}

type c09Up4In struct {
	QfiTc     map[string]uint8 `json:"qfi_tc"`
	DefaultTC uint8            `json:"default_tc"`
	Pdrs      []c09Up4Pdr      `json:"pdrs"`
	Qers      []c09Qer         `json:"qers"`
	FarDrop   bool             `json:"far_drop"`
}

type c09Meter struct {
	Meter  string `json:"meter"`
	Index  int64  `json:"index"`
	Cir    int64  `json:"cir"`
	Cburst int64  `json:"cburst"`
	Pir    int64  `json:"pir"`
	Pburst int64  `json:"pburst"`
}

type c09Term struct {
	Table  string            `json:"table"`
	Action string            `json:"action"`
	Params map[string]uint64 `json:"params"`
	PdrIdx int               `json:"pdr_idx"`
}

func c09BytesToU64(b []byte) uint64 {
	var v uint64
	for _, x := range b {
		v = v<<8 | uint64(x)
	}
	return v
}

func c09RunUp4(in c09Up4In) (interface{}, error) {
	info, err := c09LoadP4Info()
	if err != nil {
		return nil, err
	}
	cl := &c09P4Client{}
	qmap := map[uint8]uint8{}
	for k, v := range in.QfiTc {
		var q uint8
		if _, err := fmt.Sscan(k, &q); err != nil {
			return nil, err
		}
		qmap[q] = v
	}
	_, accessNet, _ := net.ParseCIDR("10.0.0.2/32")
	accessNet.IP = net.IPv4(10, 0, 0, 2)
	up4 := &UP4{
		conf:           P4rtcInfo{QFIToTC: qmap, DefaultTC: in.DefaultTC},
		accessIP:       accessNet,
		p4client:       &P4rtClient{client: cl, deviceID: 1, P4Info: info},
		p4RtTranslator: newP4RtTranslator(info),
		meters:         make(map[meterID]meter),
		ueAddrToFSEID:  make(map[uint32]uint64),
		fseidToUEAddr:  make(map[uint64]uint32),
		counters:       make([]counter, 2),
	}
	up4.initTunnelPeerIDs()
	up4.initApplicationIDs()
	up4.initAllCounters()
	up4.initMetersPools()
	// meter cells come out of a golang-set (arbitrary element): the monitor identifies the cells of a
	// QER through up4.meters, reported below, instead of predicting them
	const fseid = uint64(0x2222)
	const ue = uint32(0x0a640001)
	action := uint8(ActionForward)
	if in.FarDrop {
		action = ActionDrop
	}
	rules := PacketForwardingRules{}
	for _, p := range in.Pdrs {
		l := make([]uint32, 0)
		l = append(l, p.Qers...)
		x := pdr{srcIface: p.Src, srcIfaceMask: 0xff, pdrID: p.ID, fseID: fseid, farID: p.Far, qerIDList: l, precedence: 100}
		if p.Src == core {
			x.ueAddress = ue
			x.appFilter.dstIP = ue
			x.appFilter.dstIPMask = 0xffffffff
		} else {
			x.tunnelTEID = 0x100 + p.ID
			x.tunnelTEIDMask = 0xffffffff
			x.tunnelIP4Dst = 0x0a000002
			x.tunnelIP4DstMask = 0xffffffff
		}
		rules.pdrs = append(rules.pdrs, x)
		rules.fars = append(rules.fars, far{farID: p.Far, fseID: fseid, applyAction: action})
	}
	// a downlink PDR first in the UE map so that uplink PDRs find the UE address
	up4.fseidToUEAddr[fseid] = ue
	up4.ueAddrToFSEID[ue] = fseid
	for _, q := range in.Qers {
		x := q.toQer()
		x.fseID = fseid
		rules.qers = append(rules.qers, x)
	}
	errCreate := up4.sendCreate(rules, rules)
	out := map[string]interface{}{"err": ""}
	if errCreate != nil {
		out["err"] = errCreate.Error()
	}
	meterNames := map[uint32]string{}
	for _, m := range info.Meters {
		meterNames[m.Preamble.Id] = m.Preamble.Name
	}
	tableNames := map[uint32]string{}
	for _, t := range info.Tables {
		tableNames[t.Preamble.Id] = t.Preamble.Name
	}
	actionNames := map[uint32]string{}
	paramNames := map[uint32]map[uint32]string{}
	for _, a := range info.Actions {
		actionNames[a.Preamble.Id] = a.Preamble.Name
		paramNames[a.Preamble.Id] = map[uint32]string{}
		for _, p := range a.Params {
			paramNames[a.Preamble.Id][p.Id] = p.Name
		}
	}
	meters := []c09Meter{}
	terms := []c09Term{}
	termIdx := 0
	for _, u := range cl.ups {
		if me := u.Entity.GetMeterEntry(); me != nil {
			meters = append(meters, c09Meter{Meter: meterNames[me.MeterId], Index: me.Index.GetIndex(),
				Cir: me.Config.GetCir(), Cburst: me.Config.GetCburst(), Pir: me.Config.GetPir(), Pburst: me.Config.GetPburst()})
		}
		if te := u.Entity.GetTableEntry(); te != nil {
			name := tableNames[te.TableId]
			if name != "PreQosPipe.terminations_uplink" && name != "PreQosPipe.terminations_downlink" {
				continue
			}
			a := te.Action.GetAction()
			t := c09Term{Table: name, Action: actionNames[a.ActionId], Params: map[string]uint64{}, PdrIdx: termIdx}
			termIdx++
			for _, p := range a.Params {
				t.Params[paramNames[a.ActionId][p.ParamId]] = c09BytesToU64(p.Value)
			}
			terms = append(terms, t)
		}
	}
	cells := map[string][3]uint32{}
	for k, v := range up4.meters {
		cells[fmt.Sprint(k.qerID)] = [3]uint32{uint32(v.meterType), v.uplinkCellID, v.downlinkCellID}
	}
	out["meters"] = meters
	out["terms"] = terms
	out["cells"] = cells
	out["meter_type_app"] = uint32(meterTypeApplication)
	out["meter_type_sess"] = uint32(meterTypeSession)
	return out, nil
}

// ---------------------------------------------------------------------------- registration

func init() {
	verifRegister("c09_calc", func(raw json.RawMessage) (interface{}, error) {
		c09Silence()
		var in struct {
			Kbps uint64 `json:"kbps"`
			Ms   uint64 `json:"ms"`
			Gbr  uint64 `json:"gbr"`
		}
		if err := json.Unmarshal(raw, &in); err != nil {
			return nil, err
		}
		mc := getMeterConfigurationFromQER(in.Kbps, in.Gbr)
		return map[string]interface{}{"burst": calcBurstSizeFromRate(in.Kbps, in.Ms),
			"cir": mc.Cir, "cburst": mc.Cburst, "pir": mc.Pir, "pburst": mc.Pburst,
			"max": []uint64{maxUint64(in.Kbps, in.Ms), maxUint64(in.Ms, in.Kbps)}}, nil
	})

	verifRegister("c09_parse", func(raw json.RawMessage) (interface{}, error) {
		c09Silence()
		var in struct {
			IE     c09QerIE `json:"ie"`
			Update bool     `json:"update"`
			Seid   uint64   `json:"seid"`
		}
		if err := json.Unmarshal(raw, &in); err != nil {
			return nil, err
		}
		var x *ie.IE
		if in.Update {
			x = ie.NewUpdateQER(in.IE.children()...)
		} else {
			x = ie.NewCreateQER(in.IE.children()...)
		}
		buf, err := x.Marshal()
		if err != nil {
			return nil, err
		}
		y, err := ie.Parse(buf)
		if err != nil {
			return nil, err
		}
		var q qer
		if err := q.parseQER(y, in.Seid); err != nil {
			return map[string]interface{}{"ok": false}, nil
		}
		return map[string]interface{}{"ok": true, "qer": c09FromQer(q), "fseid_ip": q.fseidIP}, nil
	})

	verifRegister("c09_mark", func(raw json.RawMessage) (interface{}, error) {
		c09Silence()
		var in struct {
			Pdrs [][]uint32 `json:"pdrs"`
			Qers []c09Qer   `json:"qers"`
			Add  []c09Qer   `json:"add"`
		}
		if err := json.Unmarshal(raw, &in); err != nil {
			return nil, err
		}
		s := PFCPSession{PacketForwardingRules: PacketForwardingRules{
			pdrs: make([]pdr, 0, MaxItems), qers: make([]qer, 0, MaxItems)}}
		for i, l := range in.Pdrs {
			p := pdr{pdrID: uint32(i + 1)}
			p.qerIDList = make([]uint32, 0)
			for _, id := range l {
				p.qerIDList = append(p.qerIDList, id)
			}
			s.CreatePDR(p)
		}
		for _, q := range in.Qers {
			s.CreateQER(q.toQer())
		}
		add := make([]qer, 0, MaxItems)
		for _, q := range in.Add {
			add = append(add, q.toQer())
		}
		s.MarkSessionQer(s.qers)
		mid := c09Snap(s)
		s.MarkSessionQer(add)
		fin := c09Snap(s)
		addOut := []c09Qer{}
		for _, q := range add {
			addOut = append(addOut, c09FromQer(q))
		}
		return map[string]interface{}{"mid": mid, "fin": fin, "add": addOut}, nil
	})

	verifRegister("c09_bess", func(raw json.RawMessage) (interface{}, error) {
		c09Silence()
		var in struct {
			Conf []c09Conf `json:"conf"`
			Ops  []struct {
				M    int      `json:"m"` // 0 add, 1 mod, 2 del
				Qers []c09Qer `json:"qers"`
			} `json:"ops"`
		}
		if err := json.Unmarshal(raw, &in); err != nil {
			return nil, err
		}
		b, err := c09NewBess(in.Conf)
		if err != nil {
			return nil, err
		}
		batches := [][]c09Cmd{}
		for _, op := range in.Ops {
			rules := PacketForwardingRules{}
			for _, q := range op.Qers {
				rules.qers = append(rules.qers, q.toQer())
			}
			var cause uint8
			switch op.M {
			case 0:
				cause = b.SendMsgToUPF(upfMsgTypeAdd, rules, rules)
			case 1:
				cause = b.SendMsgToUPF(upfMsgTypeMod, PacketForwardingRules{}, rules)
			default:
				cause = b.SendMsgToUPF(upfMsgTypeDel, rules, PacketForwardingRules{})
			}
			_ = cause
			cmds := c09Srv.take()
			if len(op.Qers) > 1 {
				c09SortCmds(cmds)
			}
			batches = append(batches, cmds)
		}
		return map[string]interface{}{"batches": batches}, nil
	})

	verifRegister("c09_hist", func(raw json.RawMessage) (interface{}, error) {
		c09Silence()
		var in struct {
			Conf []c09Conf `json:"conf"`
			Msgs []c09Msg  `json:"msgs"`
		}
		if err := json.Unmarshal(raw, &in); err != nil {
			return nil, err
		}
		return c09RunHist(in.Conf, in.Msgs)
	})

	verifRegister("c09_up4", func(raw json.RawMessage) (interface{}, error) {
		c09Silence()
		var in c09Up4In
		if err := json.Unmarshal(raw, &in); err != nil {
			return nil, err
		}
		return c09RunUp4(in)
	})
}
