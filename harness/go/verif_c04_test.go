//go:build verif

// C04 - UP4 tables are exactly the image of the live sessions' rules.
//
// An L1 world (see verif_l1_test.go) whose datapath is the REAL UP4 plug-in connected to the shared fake
// P4Runtime server (verif_p4rt_test.go).  The plug-in is wrapped by a recorder that logs every SendMsgToUPF
// call (method, `all`, `updated`, returned cause, the Write RPCs it caused): these calls are the input of the
// Coq model (Model/Up4.v).  Events: msg / teardown / restart ("kill and restart": all agent objects are
// dropped, a new upf + UP4 connects to the SAME, still populated server).
//
// mode "c04": input  {"cfg": {l1 cfg}, "up4": {"slice":..,"tc":..,"qfi_tc":[[qfi,tc],..],"sizes":{..}}, "events":[..]}
//             output {"boot": {...}, "obs": [ per-event observation ]}
package pfcpiface

import (
	"context"
	"encoding/hex"
	"encoding/json"
	"fmt"
	"math/rand"
	"net"
	"runtime/debug"
	"sort"
	"strings"
	"time"
)

type c04Up4Cfg struct {
	Slice  uint8            `json:"slice"`
	TC     uint8            `json:"tc"`
	QfiTC  [][2]uint8       `json:"qfi_tc"`
	Sizes  map[string]int64 `json:"sizes"`
	Pool   string           `json:"pool"`   // UE pool CIDR programmed into the interfaces table
	Access string           `json:"access"` // N3 address CIDR
}

type c04Call struct {
	Method string                 `json:"method"`
	All    map[string]interface{} `json:"all"`
	Upd    map[string]interface{} `json:"upd"`
	Cause  uint8                  `json:"cause"`
	Ctrs   []uint32               `json:"ctrs"` // all.pdrs[i].ctrID after the call (sendCreate writes them in place)
	Writes []vp4WriteRec          `json:"writes"`
	Panic  string                 `json:"panic,omitempty"`
}

// c04Rec is the datapath the agent sees: the real UP4 with SendMsgToUPF recorded.
type c04Rec struct {
	*UP4
	w *c04World
}

func c04Rules(r PacketForwardingRules) map[string]interface{} {
	ps, fs, qs := []interface{}{}, []interface{}{}, []interface{}{}
	for _, p := range r.pdrs {
		ps = append(ps, l1Pdr(p))
	}

	for _, f := range r.fars {
		fs = append(fs, l1Far(f))
	}

	for _, q := range r.qers {
		qs = append(qs, l1Qer(q))
	}

	return map[string]interface{}{"pdrs": ps, "fars": fs, "qers": qs}
}

func (r *c04Rec) SendMsgToUPF(method upfMsgType, all PacketForwardingRules, upd PacketForwardingRules) (cause uint8) {
	call := c04Call{Method: method.String(), All: c04Rules(all), Upd: c04Rules(upd)}
	pre := r.w.srv.TakeLog()
	r.w.stray = append(r.w.stray, pre...)

	defer func() {
		if x := recover(); x != nil {
			call.Panic = fmt.Sprint(x)
			call.Writes = r.w.srv.TakeLog()
			r.w.calls = append(r.w.calls, call)
			panic(x)
		}
	}()

	cause = r.UP4.SendMsgToUPF(method, all, upd)
	call.Cause = cause
	call.Ctrs = []uint32{}

	for _, p := range all.pdrs {
		call.Ctrs = append(call.Ctrs, p.ctrID)
	}

	call.Writes = r.w.srv.TakeLog()
	if call.Writes == nil {
		call.Writes = []vp4WriteRec{}
	}

	r.w.calls = append(r.w.calls, call)

	return cause
}

type c04World struct {
	intern *l1Intern
	cfg    l1Cfg
	ucfg   c04Up4Cfg
	srv    *vp4Server
	u      *upf
	up4    *UP4
	sink   *l1Metrics
	conns  map[int]*PFCPConn
	ncs    map[int]*l1NetConn
	srcs   map[int]*l1Source
	done   chan string
	calls  []c04Call
	stray  []vp4WriteRec // Write RPCs seen outside any SendMsgToUPF call (start-up)
}

func c04NewWorld(cfg l1Cfg, ucfg c04Up4Cfg) (*c04World, error) {
	w := &c04World{cfg: cfg, ucfg: ucfg, intern: &l1Intern{ids: map[string]int{}}}

	srv, err := vp4Start(vp4Opts{Sizes: ucfg.Sizes})
	if err != nil {
		return nil, err
	}

	w.srv = srv

	return w, w.boot()
}

// boot = a fresh incarnation of the agent against the (possibly populated) switch.  Copy of vp4NewUP4 with the
// upf fields the PFCP handlers need (IP pool, node id, N4 address).
func (w *c04World) boot() error {
	cfg := w.cfg
	access := w.ucfg.Access

	if access == "" {
		access = cfg.AccessIP + "/32"
	}

	pool := w.ucfg.Pool
	if pool == "" {
		pool = cfg.Pool
	}

	if pool == "" {
		pool = "10.250.0.0/16"
	}

	*p4RtcServerIP = ""
	*p4RtcServerPort = ""

	qfiTC := map[uint8]uint8{}
	for _, kv := range w.ucfg.QfiTC {
		qfiTC[kv[0]] = kv[1]
	}

	conf := &Conf{
		EnableP4rt:      true,
		EnableEndMarker: false,
		CPIface:         CPIfaceInfo{UEIPPool: pool},
		P4rtcIface: P4rtcInfo{
			SliceID:     w.ucfg.Slice,
			AccessIP:    access,
			P4rtcServer: "127.0.0.1",
			P4rtcPort:   w.srv.Port(),
			QFIToTC:     qfiTC,
			DefaultTC:   w.ucfg.TC,
		},
	}

	up4 := &UP4{}
	u := &upf{
		enableUeIPAlloc:  cfg.UeIPAlloc,
		enableEndMarker:  false,
		ippoolCidr:       cfg.Pool,
		n4addr:           cfg.N4Addr,
		nodeID:           cfg.NodeID,
		dnn:              cfg.Dnn,
		reportNotifyChan: make(chan uint64, 1024),
		fteidGenerator:   NewFTEIDGenerator(),
		maxReqRetries:    5,
		respTimeout:      2 * time.Second,
		readTimeout:      15 * time.Second,
	}

	if cfg.UeIPAlloc {
		p, err := NewIPPool(cfg.Pool)
		if err != nil {
			return err
		}

		u.ippool = p
	}

	u.datapath = &c04Rec{UP4: up4, w: w}
	up4.SetUpfInfo(u, conf)

	deadline := time.Now().Add(8 * time.Second)
	for !u.isConnected() {
		if time.Now().After(deadline) {
			return fmt.Errorf("c04: UP4 did not connect to %s", w.srv.Addr())
		}

		time.Sleep(2 * time.Millisecond)
	}

	w.u, w.up4 = u, up4
	w.sink = &l1Metrics{}
	w.conns = map[int]*PFCPConn{}
	w.ncs = map[int]*l1NetConn{}
	w.srcs = map[int]*l1Source{}
	w.done = make(chan string, 1000)

	return nil
}

func (w *c04World) conn(i int) *PFCPConn {
	if c, ok := w.conns[i]; ok {
		return c
	}

	nc := &l1NetConn{
		local:  &net.UDPAddr{IP: net.ParseIP(w.cfg.N4Addr).To4(), Port: 8805},
		remote: &net.UDPAddr{IP: net.IPv4(10, 99, 0, byte(i+1)).To4(), Port: 8805},
	}
	src := &l1Source{next: uint64(i+1) * 1000000}
	c := &PFCPConn{
		ctx:            context.Background(),
		Conn:           nc,
		ts:             recoveryTS{local: l1Epoch},
		rng:            rand.New(src),
		maxRetries:     100,
		store:          NewInMemoryStore(),
		upf:            w.u,
		done:           w.done,
		shutdown:       make(chan struct{}),
		InstrumentPFCP: w.sink,
		hbReset:        make(chan struct{}, 100),
	}
	c.setLocalNodeID(w.u.nodeID)
	w.conns[i], w.ncs[i], w.srcs[i] = c, nc, src

	return c
}

func (w *c04World) dumpStore() []interface{} {
	out := []interface{}{}
	idx := make([]int, 0, len(w.conns))

	for i := range w.conns {
		idx = append(idx, i)
	}

	sort.Ints(idx)

	for _, i := range idx {
		ss := w.conns[i].store.GetAllSessions()
		sort.Slice(ss, func(a, b int) bool { return ss[a].localSEID < ss[b].localSEID })

		for _, s := range ss {
			r := c04Rules(s.PacketForwardingRules)
			r["conn"], r["lseid"], r["rseid"] = i, s.localSEID, s.remoteSEID
			out = append(out, r)
		}
	}

	return out
}

func (w *c04World) dumpPools() map[string]interface{} {
	o := map[string]interface{}{"gauge": w.sink.gauge}

	if w.u.ippool != nil {
		p := w.u.ippool
		p.mu.Lock()
		inv := [][2]uint64{}

		for k, v := range p.inventory {
			inv = append(inv, [2]uint64{k, uint64(ip2int(v))})
		}

		sort.Slice(inv, func(a, b int) bool { return inv[a][0] < inv[b][0] })
		o["ip_free"] = len(p.freePool)
		o["ip_inv"] = inv
		p.mu.Unlock()
	}

	g := w.u.fteidGenerator
	g.lock.Lock()
	used := []uint32{}

	for k := range g.usedMap {
		used = append(used, k+minValue)
	}

	sort.Slice(used, func(a, b int) bool { return used[a] < used[b] })
	o["teids"] = used
	g.lock.Unlock()

	return o
}

func c04SetU64(s interface{ ToSlice() []interface{} }) []uint64 {
	out := []uint64{}

	for _, x := range s.ToSlice() {
		switch v := x.(type) {
		case uint64:
			out = append(out, v)
		case uint32:
			out = append(out, uint64(v))
		}
	}

	sort.Slice(out, func(a, b int) bool { return out[a] < out[b] })

	return out
}

// the plug-in's bookkeeping, read straight from the struct (single goroutine: no event is in flight)
func (w *c04World) dumpUP4() map[string]interface{} {
	up4 := w.up4
	o := map[string]interface{}{}

	peers := []map[string]interface{}{}

	for k, v := range up4.tunnelPeerIDs {
		used := [][2]uint64{}

		for _, x := range v.usedBy.ToSlice() {
			if r, ok := x.(tnlPeerReference); ok {
				used = append(used, [2]uint64{r.fseid, uint64(r.farID)})
			}
		}

		sort.Slice(used, func(a, b int) bool {
			if used[a][0] != used[b][0] {
				return used[a][0] < used[b][0]
			}

			return used[a][1] < used[b][1]
		})
		peers = append(peers, map[string]interface{}{"src": k.tunnelIP4Src, "dst": k.tunnelIP4Dst, "port": k.tunnelPort, "id": v.id, "used": used})
	}

	sort.Slice(peers, func(a, b int) bool { return peers[a]["id"].(uint8) < peers[b]["id"].(uint8) })
	o["peers"] = peers

	apps := []map[string]interface{}{}

	for k, v := range up4.applicationIDs {
		used := [][2]uint64{}

		for _, x := range v.usedBy.ToSlice() {
			if r, ok := x.(internalAppReference); ok {
				used = append(used, [2]uint64{r.fseid, uint64(r.pdrID)})
			}
		}

		sort.Slice(used, func(a, b int) bool {
			if used[a][0] != used[b][0] {
				return used[a][0] < used[b][0]
			}

			return used[a][1] < used[b][1]
		})
		apps = append(apps, map[string]interface{}{"ip": k.appIP, "lo": k.appL4Port.low, "hi": k.appL4Port.high, "proto": k.appProto, "id": v.id, "used": used})
	}

	sort.Slice(apps, func(a, b int) bool { return apps[a]["id"].(uint8) < apps[b]["id"].(uint8) })
	o["apps"] = apps

	meters := []map[string]interface{}{}

	for k, m := range up4.meters {
		meters = append(meters, map[string]interface{}{"fseid": k.fseid, "qer": k.qerID, "type": m.meterType, "ul": m.uplinkCellID, "dl": m.downlinkCellID})
	}

	sort.Slice(meters, func(a, b int) bool {
		if meters[a]["fseid"].(uint64) != meters[b]["fseid"].(uint64) {
			return meters[a]["fseid"].(uint64) < meters[b]["fseid"].(uint64)
		}

		return meters[a]["qer"].(uint32) < meters[b]["qer"].(uint32)
	})
	o["meters"] = meters

	if len(up4.counters) > 0 && up4.counters[preQosCounterID].counterIDsPool != nil {
		o["ctr_pool"] = c04SetU64(up4.counters[preQosCounterID].counterIDsPool)
	} else {
		o["ctr_pool"] = []uint64{}
	}

	if up4.appMeterCellIDsPool != nil {
		o["app_cells"] = c04SetU64(up4.appMeterCellIDsPool)
	} else {
		o["app_cells"] = []uint64{}
	}

	if up4.sessMeterCellIDsPool != nil {
		o["sess_cells"] = c04SetU64(up4.sessMeterCellIDsPool)
	} else {
		o["sess_cells"] = []uint64{}
	}

	o["peer_pool"] = append([]uint8{}, up4.tunnelPeerIDsPool...)
	o["app_pool"] = append([]uint8{}, up4.applicationIDsPool...)
	// encoding/json renders []uint8 as base64: widen
	pp, ap := []uint32{}, []uint32{}

	for _, x := range up4.tunnelPeerIDsPool {
		pp = append(pp, uint32(x))
	}

	for _, x := range up4.applicationIDsPool {
		ap = append(ap, uint32(x))
	}

	o["peer_pool"], o["app_pool"] = pp, ap

	u2f, f2u := [][2]uint64{}, [][2]uint64{}

	for k, v := range up4.ueAddrToFSEID {
		u2f = append(u2f, [2]uint64{uint64(k), v})
	}

	for k, v := range up4.fseidToUEAddr {
		f2u = append(f2u, [2]uint64{k, uint64(v)})
	}

	sort.Slice(u2f, func(a, b int) bool { return u2f[a][0] < u2f[b][0] })
	sort.Slice(f2u, func(a, b int) bool { return f2u[a][0] < f2u[b][0] })
	o["ue2f"], o["f2ue"] = u2f, f2u

	qt := [][2]uint8{}
	for k, v := range up4.conf.QFIToTC {
		qt = append(qt, [2]uint8{k, v})
	}

	sort.Slice(qt, func(a, b int) bool { return qt[a][0] < qt[b][0] })

	qt2 := [][2]uint32{}
	for _, x := range qt {
		qt2 = append(qt2, [2]uint32{uint32(x[0]), uint32(x[1])})
	}

	n3len, _ := up4.accessIP.Mask.Size()
	pllen, _ := up4.ueIPPool.Mask.Size()
	o["conf"] = map[string]interface{}{"slice": up4.conf.SliceID, "tc": up4.conf.DefaultTC, "qfi_tc": qt2,
		"n3": ip2int(up4.accessIP.IP), "n3_len": n3len, "pool": ip2int(up4.ueIPPool.IP.To4()), "pool_len": pllen}

	return o
}

func (w *c04World) snapshot(obs map[string]interface{}) {
	obs["tables"] = w.srv.Tables()
	obs["meters"] = w.srv.Meters()
	obs["counters"] = w.srv.Counters()
	obs["store"] = w.dumpStore()
	obs["pools"] = w.dumpPools()
	obs["up4"] = w.dumpUP4()
}

func (w *c04World) doEvent(ev l1Event) (obs map[string]interface{}) {
	obs = map[string]interface{}{}
	w.calls = nil
	w.stray = nil

	func() {
		defer func() {
			if r := recover(); r != nil {
				st := string(debug.Stack())
				frame := ""

				for _, l := range strings.Split(st, "\n") {
					if strings.Contains(l, "/pfcpiface/") && !strings.Contains(l, "zz_verif_") && !strings.Contains(l, "verif_") {
						frame = strings.TrimSpace(l)
						break
					}
				}

				obs["panic"] = fmt.Sprint(r)
				obs["frame"] = frame
			}
		}()

		switch ev.K {
		case "msg":
			c := w.conn(ev.Conn)
			src := w.srcs[ev.Conn]
			src.queue = append([]uint64{}, ev.Draws...)

			raw, err := hex.DecodeString(ev.Hex)
			if err != nil {
				obs["bad_hex"] = true
				return
			}

			// the plug-in's maps are unsynchronised: everything runs on this goroutine
			c.HandlePFCPMsg(raw)

			if src.drawn == nil {
				src.drawn = []uint64{}
			}

			obs["draws"] = src.drawn
			src.drawn = nil
			src.queue = nil
			obs["sem"] = l1Sem(raw, w.intern)
			obs["connected"] = w.u.isConnected()
		case "teardown":
			if c, ok := w.conns[ev.Conn]; ok {
				c.Shutdown()
			}
		case "restart":
			if err := w.boot(); err != nil {
				obs["boot_err"] = err.Error()
			}
		}
	}()

	dn := []string{}
drain:
	for {
		select {
		case a := <-w.done:
			dn = append(dn, a)
		default:
			break drain
		}
	}

	obs["done"] = dn

	for _, a := range dn {
		for i, c := range w.conns {
			if c.RemoteAddr().String() == a {
				delete(w.conns, i)
				delete(w.srcs, i)
			}
		}
	}

	replies := map[string]interface{}{}

	for i, nc := range w.ncs {
		outs := nc.take()
		if len(outs) == 0 {
			continue
		}

		l := []interface{}{}
		for _, raw := range outs {
			l = append(l, l1Decode(raw))
		}

		replies[fmt.Sprint(i)] = l
	}

	obs["replies"] = replies

	calls := w.calls
	if calls == nil {
		calls = []c04Call{}
	}

	obs["calls"] = calls
	stray := append(w.stray, w.srv.TakeLog()...)

	if stray == nil {
		stray = []vp4WriteRec{}
	}

	obs["stray_writes"] = stray
	w.snapshot(obs)

	return obs
}

func init() {
	verifRegister("c04", func(raw json.RawMessage) (interface{}, error) {
		var in struct {
			Cfg    l1Cfg     `json:"cfg"`
			Up4    c04Up4Cfg `json:"up4"`
			Events []l1Event `json:"events"`
		}

		if err := json.Unmarshal(raw, &in); err != nil {
			return nil, err
		}

		w, err := c04NewWorld(in.Cfg, in.Up4)
		if err != nil {
			return map[string]interface{}{"world_err": err.Error()}, nil
		}

		// never Stop the server: UP4 objects of this world stay alive (idle) until the process ends
		boot := map[string]interface{}{"writes": w.srv.TakeLog()}
		w.snapshot(boot)

		obs := []interface{}{}

		for _, ev := range in.Events {
			o := w.doEvent(ev)
			obs = append(obs, o)

			if _, dead := o["panic"]; dead {
				break
			}
		}

		return map[string]interface{}{"boot": boot, "obs": obs}, nil
	})
}
