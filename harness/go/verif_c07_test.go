//go:build verif

package pfcpiface

// C07: UP-chosen identifiers (TEIDs of FTEIDGenerator, local SEIDs of NewPFCPSession) and their
// way into the establishment response and the datapath.
//
//	c07_skel : syntactic skeleton of fteid.go (lock discipline, who touches offset/usedMap) and
//	           the maxRetries literal of NewPFCPConn
//	c07      : Allocate / FreeID / IsAllocated sequences from an arbitrary (offset, usedMap) state
//	c07_seid : NewPFCPSession with a scripted rand.Source64 and a pre-filled store
//	c07_est  : Session Establishment / Deletion through HandlePFCPMsg on several associations
//	           sharing one FTEIDGenerator, recording fake datapath
//	c07_conc : goroutines allocating / releasing concurrently (run under -race)

import (
	"context"
	"encoding/json"
	"fmt"
	"go/ast"
	"go/parser"
	"go/token"
	"math/rand"
	"net"
	"os"
	"path/filepath"
	"sort"
	"strconv"
	"strings"
	"sync"
	"time"

	"github.com/prometheus/client_golang/prometheus"
	"github.com/wmnsk/go-pfcp/ie"
	"github.com/wmnsk/go-pfcp/message"

	"github.com/omec-project/upf-epc/pfcpiface/metrics"
)

// ---------------------------------------------------------------- fakes

type c07Metrics struct{}

func (c07Metrics) SaveMessages(m *metrics.Message) {}
func (c07Metrics) SaveSessions(s *metrics.Session) {}
func (c07Metrics) Stop() error                     { return nil }

// scripted random source: the list repeated for ever
type c07Src struct {
	vals []uint64
	n    int
}

func (s *c07Src) Uint64() uint64 {
	var v uint64
	if len(s.vals) > 0 {
		v = s.vals[s.n%len(s.vals)]
	}
	s.n++
	return v
}
func (s *c07Src) Int63() int64    { return int64(s.Uint64() >> 1) }
func (s *c07Src) Seed(seed int64) {}

type c07Conn struct {
	local, remote *net.UDPAddr
	out           [][]byte
}

func (c *c07Conn) Read(b []byte) (int, error) { return 0, os.ErrDeadlineExceeded }
func (c *c07Conn) Write(b []byte) (int, error) {
	c.out = append(c.out, append([]byte(nil), b...))
	return len(b), nil
}
func (c *c07Conn) Close() error                       { return nil }
func (c *c07Conn) LocalAddr() net.Addr                { return c.local }
func (c *c07Conn) RemoteAddr() net.Addr               { return c.remote }
func (c *c07Conn) SetDeadline(t time.Time) error      { return nil }
func (c *c07Conn) SetReadDeadline(t time.Time) error  { return nil }
func (c *c07Conn) SetWriteDeadline(t time.Time) error { return nil }

// what one pdr handed to the datapath looks like
type c07Pdr struct {
	Fseid    uint64 `json:"fseid"`
	ID       uint32 `json:"id"`
	Teid     uint32 `json:"teid"`
	IP       uint32 `json:"ip"`
	Choose   bool   `json:"choose"`
	TeidMask uint32 `json:"teid_mask"`
	IPMask   uint32 `json:"ip_mask"`
}

type c07Call struct {
	Method string   `json:"method"`
	All    []c07Pdr `json:"all"`
	New    []c07Pdr `json:"new"`
}

func c07Pdrs(ps []pdr) []c07Pdr {
	out := []c07Pdr{}
	for _, p := range ps {
		out = append(out, c07Pdr{p.fseID, p.pdrID, p.tunnelTEID, p.tunnelIP4Dst, p.UPAllocateFteid,
			p.tunnelTEIDMask, p.tunnelIP4DstMask})
	}
	return out
}

// recording datapath
type c07DP struct {
	calls  []c07Call
	answer uint8
}

func (d *c07DP) Exit()                                        {}
func (d *c07DP) SetUpfInfo(u *upf, conf *Conf)                {}
func (d *c07DP) AddSliceInfo(sliceInfo *SliceInfo) error      { return nil }
func (d *c07DP) SendEndMarkers(endMarkerList *[][]byte) error { return nil }
func (d *c07DP) SendMsgToUPF(method upfMsgType, all PacketForwardingRules, newRules PacketForwardingRules) uint8 {
	d.calls = append(d.calls, c07Call{method.String(), c07Pdrs(all.pdrs), c07Pdrs(newRules.pdrs)})
	return d.answer
}
func (d *c07DP) IsConnected(accessIP *net.IP) bool                                  { return true }
func (d *c07DP) SummaryLatencyJitter(uc *upfCollector, ch chan<- prometheus.Metric) {}
func (d *c07DP) PortStats(uc *upfCollector, ch chan<- prometheus.Metric)            {}
func (d *c07DP) SummaryGtpuLatency(uc *upfCollector, ch chan<- prometheus.Metric)   {}
func (d *c07DP) SessionStats(pc *PfcpNodeCollector, ch chan<- prometheus.Metric) error {
	return nil
}

func c07IP(n uint32) net.IP { return net.IPv4(byte(n>>24), byte(n>>16), byte(n>>8), byte(n)).To4() }

func c07GenState(g *FTEIDGenerator) (uint32, []uint32) {
	used := make([]uint32, 0, len(g.usedMap))
	for k := range g.usedMap {
		used = append(used, k)
	}
	sort.Slice(used, func(i, j int) bool { return used[i] < used[j] })
	return g.offset, used
}

func c07SetGen(g *FTEIDGenerator, off uint32, used []uint32) {
	g.offset = off
	for _, u := range used {
		g.usedMap[u] = true
	}
}

func c07StoreKeys(s SessionsStore) []uint64 {
	keys := []uint64{}
	for _, x := range s.GetAllSessions() {
		keys = append(keys, x.localSEID)
	}
	sort.Slice(keys, func(i, j int) bool { return keys[i] < keys[j] })
	return keys
}

// ---------------------------------------------------------------- skeleton (tie T1)

type c07Method struct {
	Name        string   `json:"name"`
	Recv        string   `json:"recv"`
	File        string   `json:"file"`
	Touches     bool     `json:"touches"`      // reads or writes .offset / .usedMap
	LockIdx     int      `json:"lock_idx"`     // index of the statement recv.lock.Lock(), -1 if none
	DeferUnlock bool     `json:"defer_unlock"` // next statement is defer recv.lock.Unlock()
	PrefixDirty bool     `json:"prefix_dirty"` // a statement before the Lock touches the fields or calls a method of the receiver
	ExtraUnlock int      `json:"extra_unlock"` // Unlock calls other than the deferred one
	HasGo       bool     `json:"has_go"`       // go statement in the body
	RecvCalls   []string `json:"recv_calls"`   // methods called on the receiver
	Constructs  bool     `json:"constructs"`   // composite literal of FTEIDGenerator
	Mentions    bool     `json:"mentions"`     // names FTEIDGenerator / fteidGenerator
	UsedMapSel  bool     `json:"used_map_sel"` // a selector .usedMap
	OffsetSel   bool     `json:"offset_sel"`   // a selector .offset
}

func c07IsSel(e ast.Expr, name string) (ast.Expr, bool) {
	s, ok := e.(*ast.SelectorExpr)
	if !ok || s.Sel.Name != name {
		return nil, false
	}
	return s.X, true
}

// recv.lock.<what>()
func c07IsLockCall(e ast.Expr, recv, what string) bool {
	c, ok := e.(*ast.CallExpr)
	if !ok || len(c.Args) != 0 {
		return false
	}
	x, ok := c07IsSel(c.Fun, what)
	if !ok {
		return false
	}
	y, ok := c07IsSel(x, "lock")
	if !ok {
		return false
	}
	id, ok := y.(*ast.Ident)
	return ok && id.Name == recv
}

func c07Touches(n ast.Node) (usedMap, offset bool) {
	ast.Inspect(n, func(x ast.Node) bool {
		if s, ok := x.(*ast.SelectorExpr); ok {
			if s.Sel.Name == "usedMap" {
				usedMap = true
			}
			if s.Sel.Name == "offset" {
				offset = true
			}
		}
		return true
	})
	return
}

func c07RecvCalls(n ast.Node, recv string) []string {
	out := []string{}
	if recv == "" {
		return out
	}
	ast.Inspect(n, func(x ast.Node) bool {
		if c, ok := x.(*ast.CallExpr); ok {
			if s, ok := c.Fun.(*ast.SelectorExpr); ok {
				if id, ok := s.X.(*ast.Ident); ok && id.Name == recv {
					out = append(out, s.Sel.Name)
				}
			}
		}
		return true
	})
	return out
}

func c07Skel(dir string) (map[string]interface{}, error) {
	files, err := filepath.Glob(filepath.Join(dir, "*.go"))
	if err != nil {
		return nil, err
	}
	sort.Strings(files)
	fset := token.NewFileSet()
	funcs := []c07Method{}
	maxRetries := -1
	genFields := []string{}
	for _, fn := range files {
		base := filepath.Base(fn)
		if strings.HasSuffix(base, "_test.go") {
			continue
		}
		f, err := parser.ParseFile(fset, fn, nil, 0)
		if err != nil {
			return nil, fmt.Errorf("parse %s: %v", base, err)
		}
		for _, d := range f.Decls {
			if gd, ok := d.(*ast.GenDecl); ok {
				for _, sp := range gd.Specs {
					ts, ok := sp.(*ast.TypeSpec)
					if !ok || ts.Name.Name != "FTEIDGenerator" {
						continue
					}
					if st, ok := ts.Type.(*ast.StructType); ok {
						for _, fl := range st.Fields.List {
							for _, nm := range fl.Names {
								genFields = append(genFields, nm.Name)
							}
						}
					}
				}
				continue
			}
			fd, ok := d.(*ast.FuncDecl)
			if !ok || fd.Body == nil {
				continue
			}
			m := c07Method{Name: fd.Name.Name, File: base, LockIdx: -1, RecvCalls: []string{}}
			recv := ""
			if fd.Recv != nil && len(fd.Recv.List) == 1 {
				t := fd.Recv.List[0].Type
				if st, ok := t.(*ast.StarExpr); ok {
					t = st.X
				}
				if id, ok := t.(*ast.Ident); ok {
					m.Recv = id.Name
				}
				if len(fd.Recv.List[0].Names) == 1 {
					recv = fd.Recv.List[0].Names[0].Name
				}
			}
			m.UsedMapSel, m.OffsetSel = c07Touches(fd)
			ast.Inspect(fd, func(x ast.Node) bool {
				switch v := x.(type) {
				case *ast.Ident:
					if v.Name == "FTEIDGenerator" || v.Name == "fteidGenerator" {
						m.Mentions = true
					}
				case *ast.CompositeLit:
					if id, ok := v.Type.(*ast.Ident); ok && id.Name == "FTEIDGenerator" {
						m.Constructs = true
					}
				case *ast.GoStmt:
					m.HasGo = true
				}
				return true
			})
			if fd.Name.Name == "NewPFCPConn" {
				ast.Inspect(fd, func(x ast.Node) bool {
					if kv, ok := x.(*ast.KeyValueExpr); ok {
						if id, ok := kv.Key.(*ast.Ident); ok && id.Name == "maxRetries" {
							if bl, ok := kv.Value.(*ast.BasicLit); ok && bl.Kind == token.INT {
								if v, err := strconv.ParseInt(bl.Value, 0, 32); err == nil {
									maxRetries = int(v)
								}
							}
						}
					}
					return true
				})
			}
			if m.Recv == "FTEIDGenerator" {
				m.Touches = m.UsedMapSel || m.OffsetSel
				m.RecvCalls = c07RecvCalls(fd.Body, recv)
				unlocks := 0
				ast.Inspect(fd.Body, func(x ast.Node) bool {
					if c, ok := x.(*ast.CallExpr); ok {
						if _, ok := c07IsSel(c.Fun, "Unlock"); ok {
							unlocks++
						}
					}
					return true
				})
				for i, st := range fd.Body.List {
					if es, ok := st.(*ast.ExprStmt); ok && c07IsLockCall(es.X, recv, "Lock") {
						m.LockIdx = i
						if i+1 < len(fd.Body.List) {
							if ds, ok := fd.Body.List[i+1].(*ast.DeferStmt); ok && c07IsLockCall(ds.Call, recv, "Unlock") {
								m.DeferUnlock = true
								unlocks--
							}
						}
						break
					}
					u, o := c07Touches(st)
					if u || o || len(c07RecvCalls(st, recv)) > 0 {
						m.PrefixDirty = true
					}
				}
				m.ExtraUnlock = unlocks
			} else {
				m.Touches = m.UsedMapSel || (m.OffsetSel && m.Mentions)
			}
			if m.Recv == "FTEIDGenerator" || m.Touches || m.Constructs {
				funcs = append(funcs, m)
			}
		}
	}
	return map[string]interface{}{"funcs": funcs, "max_retries": maxRetries, "gen_fields": genFields}, nil
}

// ---------------------------------------------------------------- establishment driver

type c07CPdr struct {
	ID   uint16 `json:"id"`
	Ok   bool   `json:"ok"`   // false: the Create PDR lacks the FAR ID, parsePDR fails
	Ch   bool   `json:"ch"`   // F-TEID with CHOOSE
	Teid uint32 `json:"teid"` // CP-provided F-TEID (0: no F-TEID IE at all)
	IP   uint32 `json:"ip"`
}

type c07Ev struct {
	Kind      string    `json:"kind"` // "est" | "del" | "mod"
	K         int       `json:"k"`
	Aok       bool      `json:"aok"` // Node ID of the request = the associated one
	Dok       bool      `json:"dok"` // datapath accepts
	Pdrs      []c07CPdr `json:"pdrs"`
	Nth       int       `json:"nth"`        // del, mod: index into the association's accepted sessions (mod length)
	Ch        bool      `json:"ch"`         // mod: the Create PDR's PDI carries an F-TEID with CHOOSE
	Teid      uint32    `json:"teid"`       // mod: ... and (after it) an F-TEID with this TEID, if non-zero
	PdrID     uint16    `json:"pdr_id"`     // mod: id of the PDR created
	ExplFirst bool      `json:"expl_first"` // mod: the explicit F-TEID precedes the CHOOSE one
}

type c07EstIn struct {
	Access  uint32     `json:"access"`
	Retries int        `json:"retries"`
	GenOff  uint32     `json:"gen_off"`
	GenUsed []uint32   `json:"gen_used"`
	Conns   [][]uint64 `json:"conns"`
	Events  []c07Ev    `json:"events"`
}

type c07Created struct {
	ID   uint16 `json:"id"`
	Teid uint32 `json:"teid"`
	IP   uint32 `json:"ip"`
}

type c07EvObs struct {
	Kind      string       `json:"kind"`
	K         int          `json:"k"`
	Replies   int          `json:"replies"` // datagrams written for this event
	Cause     int          `json:"cause"`
	HdrSeid   uint64       `json:"hdr_seid"`
	HasFseid  bool         `json:"has_fseid"`
	UpFseid   uint64       `json:"up_fseid"`
	UpFseidIP uint32       `json:"up_fseid_ip"`
	Created   []c07Created `json:"created"`
	OtherCr   int          `json:"other_created"` // Created PDR IEs without F-TEID
	Calls     []c07Call    `json:"calls"`
	Drawn     int          `json:"drawn"`
	GenOff    uint32       `json:"gen_off"`
	GenUsed   []uint32     `json:"gen_used"`
	Store     []uint64     `json:"store"`
	Stored    []c07Pdr     `json:"stored"`   // pdrs of the stored session (est, accepted)
	Seid      uint64       `json:"seid"`     // del, mod: the local SEID addressed
	ModCh     bool         `json:"mod_ch"`   // mod: UPAllocateFteid of the PDR as stored afterwards
	ModTeid   uint32       `json:"mod_teid"` // mod: tunnelTEID of the PDR as stored afterwards
	ModStored bool         `json:"mod_stored"`
	Panic     string       `json:"panic,omitempty"`
}

func c07CreatePDR(p c07CPdr) *ie.IE {
	pdi := []*ie.IE{ie.NewSourceInterface(ie.SrcInterfaceAccess)}
	if p.Ch {
		pdi = append(pdi, ie.NewFTEID(0x04, 0, nil, nil, 0))
	} else if p.Teid != 0 {
		pdi = append(pdi, ie.NewFTEID(0x01, p.Teid, c07IP(p.IP), nil, 0))
	}
	ies := []*ie.IE{ie.NewPDRID(p.ID), ie.NewPrecedence(255), ie.NewPDI(pdi...), ie.NewOuterHeaderRemoval(0, 0)}
	if p.Ok {
		ies = append(ies, ie.NewFARID(uint32(p.ID)))
	}
	return ie.NewCreatePDR(ies...)
}

func c07Marshal(m message.Message) []byte {
	b := make([]byte, m.MarshalLen())
	if err := m.MarshalTo(b); err != nil {
		panic("harness: marshal: " + err.Error())
	}
	return b
}

func c07Est(in c07EstIn) (out map[string]interface{}, err error) {
	gen := NewFTEIDGenerator()
	c07SetGen(gen, in.GenOff, in.GenUsed)
	dp := &c07DP{answer: ie.CauseRequestAccepted}
	u := &upf{accessIP: c07IP(in.Access), coreIP: c07IP(0x0a0a0a01), fteidGenerator: gen, datapath: dp,
		readTimeout: time.Second, respTimeout: time.Second, hbInterval: time.Hour, maxReqRetries: 1}
	type assoc struct {
		pc    *PFCPConn
		conn  *c07Conn
		src   *c07Src
		node  string
		seids []uint64
		seq   uint32
	}
	as := []*assoc{}
	obs := []c07EvObs{}
	setup := []int{}
	for k, draws := range in.Conns {
		conn := &c07Conn{local: &net.UDPAddr{IP: net.IPv4(127, 0, 0, 1), Port: 8805},
			remote: &net.UDPAddr{IP: net.IPv4(10, 0, byte(k), 1), Port: 8805}}
		src := &c07Src{vals: draws}
		pc := &PFCPConn{ctx: context.Background(), Conn: conn, rng: rand.New(src), maxRetries: in.Retries,
			store: NewInMemoryStore(), upf: u, done: make(chan string, 100), shutdown: make(chan struct{}),
			InstrumentPFCP: c07Metrics{}, hbReset: make(chan struct{}, 100)}
		pc.ts.local = time.Unix(1700000000, 0)
		pc.setLocalNodeID("")
		a := &assoc{pc: pc, conn: conn, src: src, node: fmt.Sprintf("10.0.%d.1", k), seq: 1}
		// association setup through the dispatcher
		asreq := message.NewAssociationSetupRequest(a.seq, ie.NewNodeID(a.node, "", ""),
			ie.NewRecoveryTimeStamp(time.Unix(1700000100, 0)))
		pc.HandlePFCPMsg(c07Marshal(asreq))
		cause := -1
		if len(conn.out) == 1 {
			if m, e := message.Parse(conn.out[0]); e == nil {
				if r, ok := m.(*message.AssociationSetupResponse); ok && r.Cause != nil {
					if c, e := r.Cause.Cause(); e == nil {
						cause = int(c)
					}
				}
			}
		}
		setup = append(setup, cause)
		conn.out = nil
		as = append(as, a)
	}
	for _, e := range in.Events {
		o := c07EvObs{Kind: e.Kind, K: e.K, Cause: -1, Created: []c07Created{}, Calls: []c07Call{}, Stored: []c07Pdr{}}
		if e.K < 0 || e.K >= len(as) {
			return nil, fmt.Errorf("bad association index %d", e.K)
		}
		a := as[e.K]
		a.seq++
		dp.calls = nil
		a.conn.out = nil
		var req message.Message
		switch e.Kind {
		case "est":
			if e.Dok {
				dp.answer = ie.CauseRequestAccepted
			} else {
				dp.answer = ie.CauseRequestRejected
			}
			node := a.node
			if !e.Aok {
				node = "10.99.99.99"
			}
			ies := []*ie.IE{ie.NewNodeID(node, "", ""), ie.NewFSEID(uint64(1000+a.seq), net.IPv4(10, 0, byte(e.K), 1).To4(), nil)}
			for _, p := range e.Pdrs {
				ies = append(ies, c07CreatePDR(p))
			}
			req = message.NewSessionEstablishmentRequest(0, 0, 0, a.seq, 0, ies...)
		case "del":
			dp.answer = ie.CauseRequestAccepted
			if len(a.seids) > 0 {
				i := e.Nth % len(a.seids)
				o.Seid = a.seids[i]
				a.seids = append(a.seids[:i:i], a.seids[i+1:]...)
			} else {
				o.Seid = 0xdead0000 + uint64(e.Nth) // no such session
			}
			req = message.NewSessionDeletionRequest(0, 0, o.Seid, a.seq, 0)
		case "mod":
			dp.answer = ie.CauseRequestAccepted
			if len(a.seids) > 0 {
				o.Seid = a.seids[e.Nth%len(a.seids)]
			} else {
				o.Seid = 0xdead0000 + uint64(e.Nth)
			}
			pdi := []*ie.IE{ie.NewSourceInterface(ie.SrcInterfaceAccess)}
			if e.Teid != 0 && e.ExplFirst {
				pdi = append(pdi, ie.NewFTEID(0x01, e.Teid, c07IP(in.Access), nil, 0))
			}
			if e.Ch {
				pdi = append(pdi, ie.NewFTEID(0x04, 0, nil, nil, 0))
			}
			if e.Teid != 0 && !e.ExplFirst {
				pdi = append(pdi, ie.NewFTEID(0x01, e.Teid, c07IP(in.Access), nil, 0))
			}
			req = message.NewSessionModificationRequest(0, 0, o.Seid, a.seq, 0,
				ie.NewCreatePDR(ie.NewPDRID(e.PdrID), ie.NewPrecedence(255), ie.NewPDI(pdi...),
					ie.NewOuterHeaderRemoval(0, 0), ie.NewFARID(uint32(e.PdrID))))
		default:
			return nil, fmt.Errorf("bad event kind %q", e.Kind)
		}
		func() {
			defer func() {
				if r := recover(); r != nil {
					o.Panic = fmt.Sprint(r)
				}
			}()
			a.pc.HandlePFCPMsg(c07Marshal(req))
		}()
		o.Replies = len(a.conn.out)
		if len(a.conn.out) > 0 {
			m, perr := message.Parse(a.conn.out[0])
			if perr != nil {
				return nil, fmt.Errorf("reply does not parse: %v", perr)
			}
			switch r := m.(type) {
			case *message.SessionEstablishmentResponse:
				o.HdrSeid = r.SEID()
				if r.Cause != nil {
					if c, e := r.Cause.Cause(); e == nil {
						o.Cause = int(c)
					}
				}
				if r.UPFSEID != nil {
					if f, e := r.UPFSEID.FSEID(); e == nil {
						o.HasFseid = true
						o.UpFseid = f.SEID
						o.UpFseidIP = ip2int(f.IPv4Address)
					}
				}
				for _, c := range r.CreatedPDR {
					id, e1 := c.PDRID()
					f, e2 := c.FTEID()
					if e1 == nil && e2 == nil {
						o.Created = append(o.Created, c07Created{id, f.TEID, ip2int(f.IPv4Address)})
					} else {
						o.OtherCr++
					}
				}
			case *message.SessionModificationResponse:
				o.HdrSeid = r.SEID()
				if r.Cause != nil {
					if c, e := r.Cause.Cause(); e == nil {
						o.Cause = int(c)
					}
				}
			case *message.SessionDeletionResponse:
				o.HdrSeid = r.SEID()
				if r.Cause != nil {
					if c, e := r.Cause.Cause(); e == nil {
						o.Cause = int(c)
					}
				}
			}
		}
		o.Calls = append(o.Calls, dp.calls...)
		o.Drawn = a.src.n
		o.GenOff, o.GenUsed = c07GenState(gen)
		o.Store = c07StoreKeys(a.pc.store)
		if e.Kind == "est" && o.HasFseid && o.Cause == int(ie.CauseRequestAccepted) {
			a.seids = append(a.seids, o.UpFseid)
			if s, ok := a.pc.store.GetSession(o.UpFseid); ok {
				o.Stored = c07Pdrs(s.pdrs)
			}
		}
		if e.Kind == "mod" {
			if s, ok := a.pc.store.GetSession(o.Seid); ok {
				for _, p := range s.pdrs {
					if p.pdrID == uint32(e.PdrID) {
						o.ModStored, o.ModCh, o.ModTeid = true, p.UPAllocateFteid, p.tunnelTEID
					}
				}
			}
		}
		obs = append(obs, o)
		if o.Panic != "" {
			break
		}
	}
	return map[string]interface{}{"setup": setup, "events": obs}, nil
}

// ---------------------------------------------------------------- registration

func init() {
	verifRegister("c07_skel", func(raw json.RawMessage) (interface{}, error) {
		var in struct {
			Dir string `json:"dir"`
		}
		if err := json.Unmarshal(raw, &in); err != nil {
			return nil, err
		}
		if in.Dir == "" {
			in.Dir = "."
		}
		r, err := c07Skel(in.Dir)
		if err != nil {
			return map[string]interface{}{"error": err.Error()}, nil
		}
		return r, nil
	})

	// direct generator histories.  ops: [0] Allocate, [1,id] FreeID, [2,id] IsAllocated
	verifRegister("c07", func(raw json.RawMessage) (interface{}, error) {
		var in struct {
			Off  uint32     `json:"off"`
			Used []uint32   `json:"used"`
			Ops  [][]uint32 `json:"ops"`
		}
		if err := json.Unmarshal(raw, &in); err != nil {
			return nil, err
		}
		g := NewFTEIDGenerator()
		c07SetGen(g, in.Off, in.Used)
		res := []int64{}
		for _, op := range in.Ops {
			switch op[0] {
			case 0:
				id, err := g.Allocate()
				if err != nil {
					res = append(res, -1)
				} else {
					res = append(res, int64(id))
				}
			case 1:
				g.FreeID(op[1])
				res = append(res, 0)
			case 2:
				if g.IsAllocated(op[1]) {
					res = append(res, 1)
				} else {
					res = append(res, 0)
				}
			default:
				return nil, fmt.Errorf("bad op %v", op)
			}
		}
		off, used := c07GenState(g)
		return map[string]interface{}{"res": res, "off": off, "used": used}, nil
	})

	// NewPFCPSession with a scripted source.  steps: [0,seid] PutSession, [1,seid] DeleteSession,
	// [2,put] NewPFCPSession (put=1: store the session it returned)
	verifRegister("c07_seid", func(raw json.RawMessage) (interface{}, error) {
		var in struct {
			Retries int        `json:"retries"`
			Draws   []uint64   `json:"draws"`
			Steps   [][]uint64 `json:"steps"`
		}
		if err := json.Unmarshal(raw, &in); err != nil {
			return nil, err
		}
		src := &c07Src{vals: in.Draws}
		pc := &PFCPConn{rng: rand.New(src), maxRetries: in.Retries, store: NewInMemoryStore(),
			InstrumentPFCP: c07Metrics{}}
		pc.nodeID.remote = "10.0.0.1"
		type newObs struct {
			Ok      bool   `json:"ok"`
			Lseid   uint64 `json:"lseid"`
			Rseid   uint64 `json:"rseid"`
			Drawn   int    `json:"drawn"`
			PutFail bool   `json:"put_fail"`
		}
		res := []newObs{}
		for _, st := range in.Steps {
			switch st[0] {
			case 0:
				_ = pc.store.PutSession(PFCPSession{localSEID: st[1]})
			case 1:
				_ = pc.store.DeleteSession(st[1])
			case 2:
				s, ok := pc.NewPFCPSession(4242)
				o := newObs{Ok: ok, Lseid: s.localSEID, Rseid: s.remoteSEID, Drawn: src.n}
				if ok && st[1] == 1 {
					if err := pc.store.PutSession(s); err != nil {
						o.PutFail = true
					}
				}
				res = append(res, o)
			default:
				return nil, fmt.Errorf("bad step %v", st)
			}
		}
		return map[string]interface{}{"news": res, "store": c07StoreKeys(pc.store)}, nil
	})

	verifRegister("c07_est", func(raw json.RawMessage) (interface{}, error) {
		var in c07EstIn
		if err := json.Unmarshal(raw, &in); err != nil {
			return nil, err
		}
		return c07Est(in)
	})

	// Concurrent stress: G goroutines allocate / release / query.  Oracles need no linearization:
	// no id is held by two holders at overlapping times, no id is 0, an id a goroutine holds is
	// reported allocated, at quiescence usedMap = initial + held.
	verifRegister("c07_conc", func(raw json.RawMessage) (interface{}, error) {
		var in struct {
			G, Iters int
			Seed     int64
			Off      uint32
			Used     []uint32
		}
		if err := json.Unmarshal(raw, &in); err != nil {
			return nil, err
		}
		g := NewFTEIDGenerator()
		c07SetGen(g, in.Off, in.Used)
		var mu sync.Mutex
		owner := map[uint32]int{}
		for _, u := range in.Used {
			owner[u+1] = -1 // held from the start by nobody in particular
		}
		viol := []string{}
		addViol := func(s string) {
			mu.Lock()
			if len(viol) < 5 {
				viol = append(viol, s)
			}
			mu.Unlock()
		}
		var wg sync.WaitGroup
		allocs := make([]int, in.G)
		errs := make([]int, in.G)
		heldAtEnd := make([][]uint32, in.G)
		for t := 0; t < in.G; t++ {
			wg.Add(1)
			go func(t int) {
				defer wg.Done()
				r := rand.New(rand.NewSource(in.Seed + int64(t)))
				held := []uint32{}
				for i := 0; i < in.Iters; i++ {
					x := r.Intn(10)
					switch {
					case x < 5 || len(held) == 0:
						id, err := g.Allocate()
						if err != nil {
							errs[t]++
							addViol("refused-while-free")
							continue
						}
						allocs[t]++
						if id == 0 {
							addViol("zero-id")
						}
						mu.Lock()
						if _, ok := owner[id]; ok {
							mu.Unlock()
							addViol("id-held-twice")
						} else {
							owner[id] = t
							mu.Unlock()
						}
						held = append(held, id)
					case x < 8:
						j := r.Intn(len(held))
						id := held[j]
						held[j] = held[len(held)-1]
						held = held[:len(held)-1]
						// drop the claim first, then release
						mu.Lock()
						delete(owner, id)
						mu.Unlock()
						g.FreeID(id)
					default:
						id := held[r.Intn(len(held))]
						if !g.IsAllocated(id) {
							addViol("held-id-not-allocated")
						}
					}
				}
				heldAtEnd[t] = held
			}(t)
		}
		wg.Wait()
		want := map[uint32]bool{}
		for _, u := range in.Used {
			want[u] = true
		}
		ta, te := 0, 0
		for t := 0; t < in.G; t++ {
			ta += allocs[t]
			te += errs[t]
			for _, id := range heldAtEnd[t] {
				want[id-1] = true
			}
		}
		_, used := c07GenState(g)
		same := len(used) == len(want)
		for _, u := range used {
			if !want[u] {
				same = false
			}
		}
		if !same {
			addViol("used-set-differs-from-held-at-quiescence")
		}
		return map[string]interface{}{"violations": viol, "allocs": ta, "refusals": te, "used": len(used), "off": g.offset}, nil
	})
}
