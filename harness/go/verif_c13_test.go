//go:build verif

package pfcpiface

// C13: downlink data notifications.  Modes (field "kind" of the input object):
//   notifier  NewDownlinkDataNotifier driven in real time by scripts (run concurrently), with the
//             window [lo,hi] measured around every Notify call and the channel drained after it
//   digest    handleDigestReport called synchronously on a PFCPConn struct literal
//   bess      bess.notifyListen reading a unixpacket socket pair placed in notifyBessSocket
//   up4       UP4.listenToDDNs fed through P4rtClient.digests
//   serve     PFCPNode.Serve's reportNotifyChan branch with zero or one association

import (
	"context"
	"encoding/json"
	"errors"
	"fmt"
	"io"
	"net"
	"os"
	"path/filepath"
	"reflect"
	"runtime"
	"strings"
	"sync"
	"time"
	"unsafe"

	p4 "github.com/p4lang/p4runtime/go/p4/v1"
	"github.com/wmnsk/go-pfcp/ie"
	"github.com/wmnsk/go-pfcp/message"
	"google.golang.org/grpc"
	"google.golang.org/grpc/connectivity"
	"google.golang.org/grpc/credentials/insecure"

	"github.com/omec-project/upf-epc/pfcpiface/metrics"
)

// ---------------------------------------------------------------- fakes

type c13Conn struct {
	mu     sync.Mutex
	writes [][]byte
}

func (c *c13Conn) Read(b []byte) (int, error) { return 0, io.EOF }
func (c *c13Conn) Write(b []byte) (int, error) {
	c.mu.Lock()
	c.writes = append(c.writes, append([]byte(nil), b...))
	c.mu.Unlock()

	return len(b), nil
}
func (c *c13Conn) Close() error                       { return nil }
func (c *c13Conn) LocalAddr() net.Addr                { return &net.UDPAddr{IP: net.IPv4(127, 0, 0, 1), Port: 8805} }
func (c *c13Conn) RemoteAddr() net.Addr               { return &net.UDPAddr{IP: net.IPv4(127, 0, 0, 2), Port: 8805} }
func (c *c13Conn) SetDeadline(t time.Time) error      { return nil }
func (c *c13Conn) SetReadDeadline(t time.Time) error  { return nil }
func (c *c13Conn) SetWriteDeadline(t time.Time) error { return nil }
func (c *c13Conn) snapshot() [][]byte {
	c.mu.Lock()
	defer c.mu.Unlock()

	return append([][]byte(nil), c.writes...)
}

type c13Metrics struct{}

func (c13Metrics) SaveMessages(m *metrics.Message) {}
func (c13Metrics) SaveSessions(s *metrics.Session) {}
func (c13Metrics) Stop() error                     { return nil }

// c13Datapath: only Exit is reached (PFCPNode.Serve on shutdown).
type c13Datapath struct{ datapath }

func (c13Datapath) Exit() {}

type c13Sess struct {
	Local  uint64      `json:"local"`
	Remote uint64      `json:"remote"`
	Pdrs   [][3]uint64 `json:"pdrs"` // srcIface, pdrID, farID
	Fars   [][2]uint64 `json:"fars"` // farID, applyAction
}

func c13NewConn(sessions []c13Sess, seq0 uint64) (*PFCPConn, *c13Conn) {
	fc := &c13Conn{}
	pc := &PFCPConn{
		ctx:            context.Background(),
		Conn:           fc,
		store:          NewInMemoryStore(),
		upf:            &upf{},
		done:           make(chan string, 100),
		shutdown:       make(chan struct{}),
		InstrumentPFCP: c13Metrics{},
		hbReset:        make(chan struct{}, 100),
	}
	pc.setLocalNodeID("")
	pc.nodeID.remote = "127.0.0.2"
	pc.seqNum.seq = uint32(seq0)

	for _, s := range sessions {
		sess := PFCPSession{localSEID: s.Local, remoteSEID: s.Remote}
		for _, p := range s.Pdrs {
			sess.pdrs = append(sess.pdrs, pdr{srcIface: uint8(p[0]), pdrID: uint32(p[1]), farID: uint32(p[2]), fseID: s.Local})
		}

		for _, f := range s.Fars {
			sess.fars = append(sess.fars, far{farID: uint32(f[0]), applyAction: uint8(f[1]), fseID: s.Local})
		}

		_ = pc.store.PutSession(sess)
	}

	return pc, fc
}

// ---------------------------------------------------------------- decoding what was written to the peer

type c13Msg struct {
	Ok         bool     `json:"ok"`  // well-formed Session Report Request carrying exactly Report Type + Downlink Data Report{PDR ID...}
	Why        string   `json:"why"` // first reason it is not
	Type       int      `json:"type"`
	SFlag      bool     `json:"s_flag"`
	Seid       uint64   `json:"seid"`
	Seq        uint32   `json:"seq"`
	ReportType int      `json:"report_type"`
	PdrIDs     []uint16 `json:"pdr_ids"`
}

func c13Decode(b []byte) c13Msg {
	m := c13Msg{Ok: true, ReportType: -1, PdrIDs: []uint16{}}
	bad := func(format string, a ...interface{}) {
		if m.Ok {
			m.Ok = false
			m.Why = fmt.Sprintf(format, a...)
		}
	}

	h, err := message.ParseHeader(b)
	if err != nil {
		bad("header: %v", err)
		return m
	}

	m.Type = int(h.Type)
	m.SFlag = h.HasSEID()
	m.Seid = h.SEID
	m.Seq = h.SequenceNumber

	if h.Version() != 1 {
		bad("version %d", h.Version())
	}

	if h.Type != message.MsgTypeSessionReportRequest {
		bad("message type %d", h.Type)
	}

	if !h.HasSEID() {
		bad("S flag not set")
	}

	if h.HasMP() || h.MessagePriority != 0 {
		bad("message priority set")
	}

	if int(h.Length)+4 != len(b) {
		bad("length field %d for %d bytes", h.Length, len(b))
	}

	if parsed, err := message.Parse(b); err != nil {
		bad("message.Parse: %v", err)
	} else if _, ok := parsed.(*message.SessionReportRequest); !ok {
		bad("parsed as %T", parsed)
	}

	ies, err := ie.ParseMultiIEs(h.Payload)
	if err != nil {
		bad("IEs: %v", err)
		return m
	}

	nRT, nDDR := 0, 0

	for _, i := range ies {
		switch i.Type {
		case ie.ReportType:
			nRT++

			v, err := i.ReportType()
			if err != nil {
				bad("report type: %v", err)
			} else {
				m.ReportType = int(v)
			}
		case ie.DownlinkDataReport:
			nDDR++

			children, err := i.DownlinkDataReport()
			if err != nil {
				bad("downlink data report: %v", err)
				continue
			}

			for _, c := range children {
				if c.Type != ie.PDRID {
					bad("IE %d inside Downlink Data Report", c.Type)
					continue
				}

				id, err := c.PDRID()
				if err != nil {
					bad("pdr id: %v", err)
					continue
				}

				m.PdrIDs = append(m.PdrIDs, id)
			}
		default:
			bad("unexpected IE %d", i.Type)
		}
	}

	if nRT != 1 {
		bad("%d Report Type IEs", nRT)
	}

	if nDDR != 1 {
		bad("%d Downlink Data Report IEs", nDDR)
	}

	return m
}

func c13DecodeAll(ws [][]byte) []c13Msg {
	out := []c13Msg{}
	for _, w := range ws {
		out = append(out, c13Decode(w))
	}

	return out
}

// ---------------------------------------------------------------- notifier

type c13Script struct {
	IntervalUs uint64      `json:"interval_us"`
	Steps      [][2]uint64 `json:"steps"` // fseid, sleep before the call in microseconds
	// backlog scripts: the channel has room for Cap values and its reader starts only StallUs microseconds after the
	// first call (0 = the channel is drained after every call and never fills)
	Cap     int    `json:"cap"`
	StallUs uint64 `json:"stall_us"`
}

type c13Event struct {
	Lo  int64    `json:"lo"` // monotonic ns since the start of the script, read before Notify
	Hi  int64    `json:"hi"` // ... read after Notify returned
	Got []uint64 `json:"got"`
}

func c13RunScript(s c13Script) (res map[string]interface{}) {
	defer func() {
		if r := recover(); r != nil {
			res = map[string]interface{}{"panic": fmt.Sprint(r)}
		}
	}()

	if s.Cap > 0 {
		return c13RunBacklog(s)
	}

	ch := make(chan uint64, 2*len(s.Steps)+8)
	n := NewDownlinkDataNotifier(ch, time.Duration(s.IntervalUs)*time.Microsecond)
	events := make([]c13Event, 0, len(s.Steps))
	start := time.Now()

	for _, st := range s.Steps {
		if st[1] > 0 {
			time.Sleep(time.Duration(st[1]) * time.Microsecond)
		}

		lo := time.Since(start)
		n.Notify(st[0])
		hi := time.Since(start)
		ev := c13Event{Lo: int64(lo), Hi: int64(hi), Got: []uint64{}}

	drain:
		for {
			select {
			case v := <-ch:
				ev.Got = append(ev.Got, v)
			default:
				break drain
			}
		}

		events = append(events, ev)
	}

	return map[string]interface{}{"events": events}
}

// c13RunBacklog: the reader of the report channel is late (the PFCP side is busy), so the channel fills up. Every value the
// notifier decides to forward must still arrive once the reader runs: calls are made by one goroutine in order, the reader
// collects until the caller is done and the channel is empty. Got of a step = the value, if it arrived (attributed in call
// order, one arrival per forwarded call).
func c13RunBacklog(s c13Script) map[string]interface{} {
	ch := make(chan uint64, s.Cap)
	n := NewDownlinkDataNotifier(ch, time.Duration(s.IntervalUs)*time.Microsecond)
	events := make([]c13Event, len(s.Steps))
	start := time.Now()
	done := make(chan struct{})

	go func() {
		defer close(done)

		for i, st := range s.Steps {
			if st[1] > 0 {
				time.Sleep(time.Duration(st[1]) * time.Microsecond)
			}

			lo := time.Since(start)
			// a call blocked on the full channel returns late: [Lo, Hi] still encloses the moment of the decision
			n.Notify(st[0])
			events[i] = c13Event{Lo: int64(lo), Hi: int64(time.Since(start)), Got: []uint64{}}
		}
	}()

	time.Sleep(time.Duration(s.StallUs) * time.Microsecond)

	arrived := []uint64{}
	deadline := time.After(20 * time.Second)
	callerDone := false

collect:
	for {
		select {
		case v := <-ch:
			arrived = append(arrived, v)
		case <-done:
			callerDone = true
			done = nil
		case <-deadline:
			break collect
		default:
			if callerDone {
				break collect
			}

			time.Sleep(50 * time.Microsecond)
		}
	}

	if !callerDone {
		return map[string]interface{}{"panic": "backlog: Notify did not return within 20 s after the reader started"}
	}

	// attribute arrivals to calls in order (the channel is FIFO and there is one caller)
	k := 0
	for i, st := range s.Steps {
		if k < len(arrived) && arrived[k] == st[0] {
			events[i].Got = []uint64{arrived[k]}
			k++
		}
	}

	res := map[string]interface{}{"events": events}
	if k != len(arrived) {
		res["panic"] = fmt.Sprintf("backlog: %d values arrived that no call explains: %v", len(arrived)-k, arrived[k:])
	}

	return res
}

// ---------------------------------------------------------------- bess listener

type c13SyncConn struct {
	net.Conn
	entered chan struct{}
}

func (c *c13SyncConn) Read(b []byte) (int, error) {
	c.entered <- struct{}{}
	return c.Conn.Read(b)
}

func c13Bess(datagrams [][]byte) (interface{}, error) {
	dir, err := os.MkdirTemp("", "c13")
	if err != nil {
		return nil, err
	}
	defer os.RemoveAll(dir)

	path := filepath.Join(dir, "n")

	l, err := net.ListenUnix("unixpacket", &net.UnixAddr{Name: path, Net: "unixpacket"})
	if err != nil {
		return nil, err
	}
	defer l.Close()

	agentEnd, err := net.Dial("unixpacket", path) // as bess.SetUpfInfo does
	if err != nil {
		return nil, err
	}
	defer agentEnd.Close()

	bessEnd, err := l.Accept()
	if err != nil {
		return nil, err
	}
	defer bessEnd.Close()

	sc := &c13SyncConn{Conn: agentEnd, entered: make(chan struct{}, len(datagrams)+8)}
	b := &bess{notifyBessSocket: sc}
	ch := make(chan uint64, len(datagrams)+8)
	done := make(chan struct{})
	start := time.Now()

	go func() {
		defer close(done)
		b.notifyListen(ch)
	}()

	wait := func() (stopped bool, err error) {
		select {
		case <-sc.entered:
			return false, nil
		case <-done:
			return true, nil
		case <-time.After(20 * time.Second):
			return false, errors.New("listener did not come back to Read")
		}
	}

	stoppedAt := -1

	if st, err := wait(); err != nil {
		return nil, err
	} else if st {
		stoppedAt = 0
	}

	written := 0

	for i, d := range datagrams {
		if stoppedAt >= 0 {
			break
		}

		if _, err := bessEnd.Write(d); err != nil {
			return nil, fmt.Errorf("write %d: %w", i, err)
		}

		written++

		st, err := wait()
		if err != nil {
			return nil, err
		}

		if st {
			stoppedAt = i
		}
	}

	elapsed := time.Since(start)

	agentEnd.Close()
	bessEnd.Close()

	select {
	case <-done:
	case <-time.After(20 * time.Second):
		return nil, errors.New("listener did not stop after close")
	}

	got := []uint64{}

drain:
	for {
		select {
		case v := <-ch:
			got = append(got, v)
		default:
			break drain
		}
	}

	return map[string]interface{}{"chan": got, "elapsed_ms": elapsed.Milliseconds(), "stopped_at": stoppedAt, "written": written}, nil
}

// ---------------------------------------------------------------- up4 listener

var (
	c13GrpcOnce sync.Once
	c13GrpcConn *grpc.ClientConn
	c13GrpcErr  error
)

// a READY client connection is all listenToDDNs asks of the P4Runtime client (IsConnected)
func c13ReadyConn() (*grpc.ClientConn, error) {
	c13GrpcOnce.Do(func() {
		lis, err := net.Listen("tcp", "127.0.0.1:0")
		if err != nil {
			c13GrpcErr = err
			return
		}

		srv := grpc.NewServer()
		go func() { _ = srv.Serve(lis) }()

		conn, err := grpc.NewClient(lis.Addr().String(), grpc.WithTransportCredentials(insecure.NewCredentials()))
		if err != nil {
			c13GrpcErr = err
			return
		}

		conn.Connect()

		ctx, cancel := context.WithTimeout(context.Background(), 20*time.Second)
		defer cancel()

		for s := conn.GetState(); s != connectivity.Ready; s = conn.GetState() {
			if !conn.WaitForStateChange(ctx, s) {
				c13GrpcErr = errors.New("grpc connection not ready")
				return
			}
		}

		c13GrpcConn = conn
	})

	return c13GrpcConn, c13GrpcErr
}

func c13Up4(ueMap [][2]uint64, digests [][]byte, flush []byte) (interface{}, error) {
	conn, err := c13ReadyConn()
	if err != nil {
		return nil, err
	}

	client := &P4rtClient{conn: conn, deviceID: 1, digests: make(chan *p4.DigestList)}
	ch := make(chan uint64, len(digests)+8)
	u := &UP4{p4client: client, ueAddrToFSEID: map[uint32]uint64{}, reportNotifyChan: ch}
	u.setConnectedStatus(true)

	for _, kv := range ueMap {
		u.ueAddrToFSEID[uint32(kv[0])] = kv[1]
	}

	start := time.Now()

	go u.listenToDDNs() // never returns; stays blocked on the digest channel afterwards

	send := func(d []byte) error {
		dl := &p4.DigestList{Data: []*p4.P4Data{{Data: &p4.P4Data_Bitstring{Bitstring: d}}}}
		select {
		case client.digests <- dl:
			return nil
		case <-time.After(20 * time.Second):
			return errors.New("listenToDDNs did not take the digest")
		}
	}

	for _, d := range digests {
		if err := send(d); err != nil {
			return nil, err
		}
	}
	// the channel is unbuffered: once the flush digest (unknown UE address) is taken, all earlier ones are processed
	if err := send(flush); err != nil {
		return nil, err
	}

	elapsed := time.Since(start)
	got := []uint64{}

drain:
	for {
		select {
		case v := <-ch:
			got = append(got, v)
		default:
			break drain
		}
	}

	return map[string]interface{}{"chan": got, "elapsed_ms": elapsed.Milliseconds()}, nil
}

// ---------------------------------------------------------------- node.Serve

func c13Serve(hasAssoc bool, sessions []c13Sess, seq0 uint64, reports []uint64, flush uint64) (interface{}, error) {
	pc, fc := c13NewConn(sessions, seq0)

	sock, err := net.ListenPacket("udp", "127.0.0.1:0")
	if err != nil {
		return nil, err
	}

	u := &upf{reportNotifyChan: make(chan uint64), datapath: c13Datapath{}}
	pc.upf = u
	ctx, cancel := context.WithCancel(context.Background())
	node := &PFCPNode{
		ctx:        ctx,
		cancel:     cancel,
		PacketConn: sock,
		done:       make(chan struct{}),
		pConnDone:  make(chan string, 100),
		upf:        u,
		metrics:    c13Metrics{},
	}
	c13InitNode(node)

	if hasAssoc {
		node.pConns.Store(pc.RemoteAddr().String(), pc)
	}

	go node.Serve()

	send := func(f uint64) error {
		select {
		case u.reportNotifyChan <- f:
			return nil
		case <-time.After(20 * time.Second):
			return errors.New("Serve did not take the report")
		}
	}

	for _, f := range reports {
		if err := send(f); err != nil {
			node.Stop()
			return nil, err
		}
	}
	// unbuffered channel + sequential handling: when the flush report (unknown session) is taken,
	// every earlier report has been handled
	if err := send(flush); err != nil {
		node.Stop()
		return nil, err
	}

	node.Stop()

	select {
	case <-node.done:
	case <-time.After(20 * time.Second):
		return nil, errors.New("Serve did not stop")
	}

	return map[string]interface{}{"writes": c13DecodeAll(fc.snapshot()), "seq_end": pc.seqNum.seq}, nil
}

// ---------------------------------------------------------------- dispatch

func c13Bytes(xs [][]uint64) [][]byte {
	out := make([][]byte, len(xs))
	for i, x := range xs {
		out[i] = make([]byte, len(x))
		for j, v := range x {
			out[i][j] = byte(v)
		}
	}

	return out
}

func init() {
	verifRegister("c13", func(raw json.RawMessage) (interface{}, error) {
		var in struct {
			Kind      string      `json:"kind"`
			Scripts   []c13Script `json:"scripts"`
			Sessions  []c13Sess   `json:"sessions"`
			Seq0      uint64      `json:"seq0"`
			Reports   []uint64    `json:"reports"`
			Datagrams [][]uint64  `json:"datagrams"`
			UeMap     [][2]uint64 `json:"ue_map"`
			Digests   [][]uint64  `json:"digests"`
			FlushUe   []uint64    `json:"flush_ue"`
			Flush     uint64      `json:"flush"`
			HasAssoc  bool        `json:"has_assoc"`
		}
		if err := json.Unmarshal(raw, &in); err != nil {
			return nil, err
		}

		switch in.Kind {
		case "notifier":
			res := make([]map[string]interface{}, len(in.Scripts))

			var wg sync.WaitGroup
			for i := range in.Scripts {
				wg.Add(1)

				go func(i int) {
					defer wg.Done()
					res[i] = c13RunScript(in.Scripts[i])
				}(i)
			}

			wg.Wait()

			return map[string]interface{}{"scripts": res}, nil
		case "digest":
			pc, fc := c13NewConn(in.Sessions, in.Seq0)
			writes := [][]c13Msg{}

			for _, f := range in.Reports {
				before := len(fc.snapshot())
				pc.handleDigestReport(f)
				writes = append(writes, c13DecodeAll(fc.snapshot()[before:]))
			}

			return map[string]interface{}{"writes": writes, "seq_end": pc.seqNum.seq}, nil
		case "up4_reconnect":
			// the real UP4 plug-in against the in-process P4Runtime server: the P4Runtime channel is lost and
			// re-established several times. The digest listener (with its rate-limit memory) must stay ONE: every extra
			// listener starts with empty per-session state and notifies again inside a session's interval.
			srv, err := vp4Start(vp4Opts{})
			if err != nil {
				return nil, err
			}
			up4, _, err := vp4NewUP4(srv, vp4UP4Opts{})
			if err != nil {
				return map[string]interface{}{"harness_skip": err.Error()}, nil
			}
			count := func() int {
				buf := make([]byte, 1<<22)
				n := runtime.Stack(buf, true)
				return strings.Count(string(buf[:n]), "(*UP4).listenToDDNs(")
			}
			counts := []int{count()}
			errs := []string{}
			for k := 0; k < 3; k++ {
				up4.tryConnectMu.Lock()
				c := up4.p4client
				up4.tryConnectMu.Unlock()
				if c != nil && c.conn != nil {
					_ = c.conn.Close()
				}
				if err := up4.tryConnect(); err != nil {
					errs = append(errs, err.Error())
				}
				time.Sleep(50 * time.Millisecond)
				counts = append(counts, count())
			}
			return map[string]interface{}{"listeners": counts, "errs": errs}, nil
		case "seqstress":
			// several goroutines of one association draw sequence numbers at once (the report path of PFCPNode.Serve,
			// the heartbeat monitor, an agent-initiated association): every number handed out must be fresh
			pc, _ := c13NewConn(in.Sessions, in.Seq0)
			const workers, each = 8, 12000
			got := make([][]uint32, workers)

			var wg sync.WaitGroup
			for w := 0; w < workers; w++ {
				wg.Add(1)

				go func(w int) {
					defer wg.Done()
					l := make([]uint32, 0, each)
					for k := 0; k < each; k++ {
						if w%2 == 0 {
							l = append(l, pc.getSeqNum())
						} else {
							l = append(l, pc.getHeartBeatRequest().msg.Sequence())
						}
					}
					got[w] = l
				}(w)
			}

			wg.Wait()

			seen := map[uint32]int{}
			for _, l := range got {
				for _, v := range l {
					seen[v]++
				}
			}

			dups := 0
			first := uint32(0)
			for v, n := range seen {
				if n > 1 {
					dups += n - 1
					first = v
				}
			}

			return map[string]interface{}{"n": workers * each, "distinct": len(seen), "dups": dups, "first_dup": first, "seq_end": pc.seqNum.seq}, nil
		case "bess":
			return c13Bess(c13Bytes(in.Datagrams))
		case "up4":
			fl := c13Bytes([][]uint64{in.FlushUe})[0]
			return c13Up4(in.UeMap, c13Bytes(in.Digests), fl)
		case "serve":
			return c13Serve(in.HasAssoc, in.Sessions, in.Seq0, in.Reports, in.Flush)
		}

		return nil, fmt.Errorf("unknown kind %q", in.Kind)
	})
}

// fields NewPFCPNode initialises besides the ones above (set by reflection so that this file compiles against trees
// with and without them)
func c13InitNode(node *PFCPNode) {
	f := reflect.ValueOf(node).Elem().FieldByName("newPeersDone")
	if f.IsValid() && f.Kind() == reflect.Chan && f.IsNil() {
		ch := reflect.MakeChan(f.Type(), 0)
		reflect.NewAt(f.Type(), unsafe.Pointer(f.UnsafeAddr())).Elem().Set(ch)
	}
}
