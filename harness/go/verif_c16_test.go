//go:build verif

// C16 harness: drives the REAL UP4 plug-in (connected to the fake P4Runtime server of verif_p4rt_test.go)
// through SendMsgToUPF / AddSliceInfo with pdr / far / qer structs given by the driver and reports every
// Write RPC the server received, decoded, together with the plug-in's id bookkeeping after each operation.
package pfcpiface

import (
	"encoding/json"
	"fmt"
	"sort"
	"sync"
)

type c16AF struct {
	SrcIP     uint32 `json:"src_ip"`
	DstIP     uint32 `json:"dst_ip"`
	SrcMask   uint32 `json:"src_mask"`
	DstMask   uint32 `json:"dst_mask"`
	SrcLo     uint16 `json:"src_lo"`
	SrcHi     uint16 `json:"src_hi"`
	DstLo     uint16 `json:"dst_lo"`
	DstHi     uint16 `json:"dst_hi"`
	Proto     uint8  `json:"proto"`
	ProtoMask uint8  `json:"proto_mask"`
}

type c16Pdr struct {
	ID       uint32   `json:"id"`
	SrcIface uint8    `json:"src_iface"`
	TunIP    uint32   `json:"tun_ip"`
	TEID     uint32   `json:"teid"`
	UE       uint32   `json:"ue"`
	Prec     uint32   `json:"prec"`
	Far      uint32   `json:"far"`
	Qers     []uint32 `json:"qers"`
	AF       c16AF    `json:"af"`
}

type c16Far struct {
	ID      uint32 `json:"id"`
	DstIntf uint8  `json:"dst_intf"`
	Action  uint8  `json:"action"`
	TunDst  uint32 `json:"tun_dst"`
	TEID    uint32 `json:"teid"`
	Port    uint16 `json:"port"`
}

type c16Qer struct {
	ID       uint32 `json:"id"`
	Level    uint8  `json:"level"`
	QFI      uint8  `json:"qfi"`
	ULStatus uint8  `json:"ul_status"`
	DLStatus uint8  `json:"dl_status"`
	ULMbr    uint64 `json:"ul_mbr"`
	DLMbr    uint64 `json:"dl_mbr"`
	ULGbr    uint64 `json:"ul_gbr"`
	DLGbr    uint64 `json:"dl_gbr"`
}

type c16Op struct {
	Op      string   `json:"op"` // add | mod | del | slice
	Sess    uint64   `json:"sess"`
	Pdrs    []c16Pdr `json:"pdrs"`
	Fars    []c16Far `json:"fars"`
	Qers    []c16Qer `json:"qers"`
	UpdPdrs []uint32 `json:"upd_pdrs"`
	UpdFars []uint32 `json:"upd_fars"`
	UL      uint64   `json:"ul"`
	DL      uint64   `json:"dl"`
	ULB     uint64   `json:"ulb"`
	DLB     uint64   `json:"dlb"`
}

type c16In struct {
	Cfg struct {
		Slice  uint8            `json:"slice"`
		TC     uint8            `json:"tc"`
		QfiTC  [][2]uint8       `json:"qfi_tc"`
		Access string           `json:"access"`
		Pool   string           `json:"pool"`
		Sizes  map[string]int64 `json:"sizes"`
	} `json:"cfg"`
	Ops []c16Op `json:"ops"`
}

type c16Meter struct {
	Qer   uint32 `json:"qer"`
	Fseid uint64 `json:"fseid"`
	Type  uint8  `json:"type"`
	UL    uint32 `json:"ul"`
	DL    uint32 `json:"dl"`
}

type c16Peer struct {
	Src  uint32 `json:"src"`
	Dst  uint32 `json:"dst"`
	Port uint16 `json:"port"`
	ID   uint8  `json:"id"`
	Refs int    `json:"refs"`
}

type c16App struct {
	IP    uint32 `json:"ip"`
	Lo    uint16 `json:"lo"`
	Hi    uint16 `json:"hi"`
	Proto uint8  `json:"proto"`
	ID    uint8  `json:"id"`
	Refs  int    `json:"refs"`
}

type c16State struct {
	Ctr    map[string]uint32 `json:"ctr"` // "<fseid>:<pdr id>" -> counter cell of the stored PDR
	Meters []c16Meter        `json:"meters"`
	Peers  []c16Peer         `json:"peers"`
	Apps   []c16App          `json:"apps"`
	UE     map[string]uint32 `json:"ue"` // fseid -> UE address
}

type c16OpOut struct {
	Cause  uint8         `json:"cause"`
	Err    string        `json:"err,omitempty"`
	Panic  string        `json:"panic,omitempty"`
	Writes []vp4WriteRec `json:"writes"`
	State  c16State      `json:"state"`
}

type c16Out struct {
	Startup []vp4WriteRec `json:"startup"`
	Ops     []c16OpOut    `json:"ops"`
}

var (
	c16Servers   = map[string]*vp4Server{}
	c16ServersMu sync.Mutex
)

// c16Server returns the (never stopped) server serving the P4Info with the given size overrides.
func c16Server(sizes map[string]int64) (*vp4Server, error) {
	c16ServersMu.Lock()
	defer c16ServersMu.Unlock()

	kb, _ := json.Marshal(sizes)
	if s, ok := c16Servers[string(kb)]; ok {
		s.Reset()
		return s, nil
	}

	s, err := vp4Start(vp4Opts{Sizes: sizes})
	if err != nil {
		return nil, err
	}

	c16Servers[string(kb)] = s

	return s, nil
}

func c16ToPdr(p c16Pdr, fseid uint64) pdr {
	return pdr{
		srcIface:         p.SrcIface,
		tunnelIP4Dst:     p.TunIP,
		tunnelTEID:       p.TEID,
		ueAddress:        p.UE,
		srcIfaceMask:     0xFF,
		tunnelIP4DstMask: 0xFFFFFFFF,
		tunnelTEIDMask:   0xFFFFFFFF,
		appFilter: applicationFilter{
			srcIP: p.AF.SrcIP, dstIP: p.AF.DstIP,
			srcPortRange: portRange{p.AF.SrcLo, p.AF.SrcHi}, dstPortRange: portRange{p.AF.DstLo, p.AF.DstHi},
			proto: p.AF.Proto, srcIPMask: p.AF.SrcMask, dstIPMask: p.AF.DstMask, protoMask: p.AF.ProtoMask,
		},
		precedence: p.Prec,
		pdrID:      p.ID,
		fseID:      fseid,
		farID:      p.Far,
		qerIDList:  append([]uint32{}, p.Qers...),
	}
}

func c16ToFar(f c16Far, fseid uint64) far {
	return far{farID: f.ID, fseID: fseid, dstIntf: f.DstIntf, applyAction: f.Action, tunnelType: 1,
		tunnelIP4Dst: f.TunDst, tunnelTEID: f.TEID, tunnelPort: f.Port}
}

func c16ToQer(q c16Qer, fseid uint64) qer {
	return qer{qerID: q.ID, qosLevel: QosLevel(q.Level), qfi: q.QFI, ulStatus: q.ULStatus, dlStatus: q.DLStatus,
		ulMbr: q.ULMbr, dlMbr: q.DLMbr, ulGbr: q.ULGbr, dlGbr: q.DLGbr, fseID: fseid}
}

func c16Rules(op c16Op) PacketForwardingRules {
	r := PacketForwardingRules{}
	for _, p := range op.Pdrs {
		r.pdrs = append(r.pdrs, c16ToPdr(p, op.Sess))
	}

	for _, f := range op.Fars {
		r.fars = append(r.fars, c16ToFar(f, op.Sess))
	}

	for _, q := range op.Qers {
		r.qers = append(r.qers, c16ToQer(q, op.Sess))
	}

	return r
}

func c16Snapshot(up4 *UP4, sessions map[uint64]*PacketForwardingRules) c16State {
	st := c16State{Ctr: map[string]uint32{}, UE: map[string]uint32{}, Meters: []c16Meter{}, Peers: []c16Peer{}, Apps: []c16App{}}

	for fseid, r := range sessions {
		for _, p := range r.pdrs {
			st.Ctr[fmt.Sprintf("%d:%d", fseid, p.pdrID)] = p.ctrID
		}
	}

	for k, m := range up4.meters {
		st.Meters = append(st.Meters, c16Meter{Qer: k.qerID, Fseid: k.fseid, Type: m.meterType, UL: m.uplinkCellID, DL: m.downlinkCellID})
	}

	sort.Slice(st.Meters, func(i, j int) bool {
		if st.Meters[i].Fseid != st.Meters[j].Fseid {
			return st.Meters[i].Fseid < st.Meters[j].Fseid
		}

		return st.Meters[i].Qer < st.Meters[j].Qer
	})

	for k, v := range up4.tunnelPeerIDs {
		st.Peers = append(st.Peers, c16Peer{Src: k.tunnelIP4Src, Dst: k.tunnelIP4Dst, Port: k.tunnelPort, ID: v.id, Refs: v.usedBy.Cardinality()})
	}

	sort.Slice(st.Peers, func(i, j int) bool { return st.Peers[i].ID < st.Peers[j].ID })

	for k, v := range up4.applicationIDs {
		st.Apps = append(st.Apps, c16App{IP: k.appIP, Lo: k.appL4Port.low, Hi: k.appL4Port.high, Proto: k.appProto, ID: v.id, Refs: v.usedBy.Cardinality()})
	}

	sort.Slice(st.Apps, func(i, j int) bool { return st.Apps[i].ID < st.Apps[j].ID })

	for k, v := range up4.fseidToUEAddr {
		st.UE[fmt.Sprint(k)] = v
	}

	return st
}

type c16Agent struct {
	up4      *UP4
	u        *upf
	srv      *vp4Server
	opts     vp4UP4Opts
	sessions map[uint64]*PacketForwardingRules
}

func c16RunOp(a *c16Agent, op c16Op) (out c16OpOut) {
	up4, u, sessions := a.up4, a.u, a.sessions

	defer func() {
		if r := recover(); r != nil {
			out.Panic = fmt.Sprint(r)
		}
	}()

	switch op.Op {
	case "add":
		r := c16Rules(op)
		sessions[op.Sess] = &r
		out.Cause = up4.SendMsgToUPF(upfMsgTypeAdd, r, r)
	case "mod":
		old := sessions[op.Sess]
		r := c16Rules(op)

		if old != nil {
			for i := range r.pdrs {
				for _, o := range old.pdrs {
					if o.pdrID == r.pdrs[i].pdrID {
						r.pdrs[i].ctrID = o.ctrID
					}
				}
			}
		}

		upd := PacketForwardingRules{}

		for _, p := range r.pdrs {
			for _, id := range op.UpdPdrs {
				if p.pdrID == id {
					upd.pdrs = append(upd.pdrs, p)
				}
			}
		}

		for _, f := range r.fars {
			for _, id := range op.UpdFars {
				if f.farID == id {
					upd.fars = append(upd.fars, f)
				}
			}
		}

		sessions[op.Sess] = &r
		out.Cause = up4.SendMsgToUPF(upfMsgTypeMod, r, upd)
	case "del":
		r := sessions[op.Sess]
		if r == nil {
			out.Err = "unknown session"
			return
		}

		out.Cause = up4.SendMsgToUPF(upfMsgTypeDel, *r, PacketForwardingRules{})

		delete(sessions, op.Sess)
	case "slice":
		err := u.addSliceInfo(&SliceInfo{name: "c16", uplinkMbr: op.UL, downlinkMbr: op.DL, ulBurstBytes: op.ULB, dlBurstBytes: op.DLB})
		if err != nil {
			out.Err = err.Error()
		}
	case "restart":
		// the agent process is replaced: a fresh UP4 connects to the same switch (tables still populated)
		nup4, nu, err := vp4NewUP4(a.srv, a.opts)
		if err != nil {
			out.Err = err.Error()
			return
		}

		a.up4, a.u, a.sessions = nup4, nu, map[uint64]*PacketForwardingRules{}
	default:
		out.Err = "unknown op " + op.Op
	}

	return
}

func init() {
	verifRegister("c16", func(raw json.RawMessage) (interface{}, error) {
		var in c16In
		if err := json.Unmarshal(raw, &in); err != nil {
			return nil, err
		}

		srv, err := c16Server(in.Cfg.Sizes)
		if err != nil {
			return nil, err
		}

		qfiTC := map[uint8]uint8{}
		for _, kv := range in.Cfg.QfiTC {
			qfiTC[kv[0]] = kv[1]
		}

		opts := vp4UP4Opts{AccessIP: in.Cfg.Access, UEIPPool: in.Cfg.Pool, SliceID: in.Cfg.Slice, DefaultTC: in.Cfg.TC, QFIToTC: qfiTC}

		up4, u, err := vp4NewUP4(srv, opts)
		if err != nil {
			return nil, err
		}

		out := c16Out{Startup: srv.TakeLog(), Ops: []c16OpOut{}}
		ag := &c16Agent{up4: up4, u: u, srv: srv, opts: opts, sessions: map[uint64]*PacketForwardingRules{}}

		for _, op := range in.Ops {
			o := c16RunOp(ag, op)
			o.Writes = srv.TakeLog()
			if o.Writes == nil {
				o.Writes = []vp4WriteRec{}
			}

			o.State = c16Snapshot(ag.up4, ag.sessions)
			out.Ops = append(out.Ops, o)

			if o.Panic != "" {
				break
			}
		}

		return out, nil
	})
}
