//go:build verif

package pfcpiface

import "encoding/json"

// C17: direct calls to the port-range expansion.
type c17In struct {
	Op       string `json:"op"` // "complex" | "cart"
	Strategy int    `json:"strategy"`
	Lo, Hi   uint16
	SLo, SHi uint16
	DLo, DHi uint16
}

type c17Out struct {
	Ok    bool       `json:"ok"`
	Rules [][]uint32 `json:"rules"`
	// direct oracle on the implementation's own output (no model involved):
	// number of ports (or port pairs on the sampled grid) on which the rule list disagrees
	// with the range denotation, and the first such port.
	Bad      int    `json:"bad"`
	BadAt    []int  `json:"bad_at,omitempty"`
	Overlap  int    `json:"overlap"`
	WildMask bool   `json:"wild_mask"`
	IsWild   bool   `json:"is_wild"`
	Err      string `json:"err,omitempty"`
}

func c17InRange(lo, hi uint16, x int) bool {
	if (lo == 0 && hi == 65535) || (lo == 0 && hi == 0) {
		return true
	}
	return int(lo) <= x && x <= int(hi)
}

func init() {
	verifRegister("c17", func(raw json.RawMessage) (interface{}, error) {
		var in c17In
		if err := json.Unmarshal(raw, &in); err != nil {
			return nil, err
		}
		out := c17Out{Rules: [][]uint32{}}
		switch in.Op {
		case "complex":
			pr := portRange{low: in.Lo, high: in.Hi}
			rules, err := pr.asComplexTernaryMatches(RangeConversionStrategy(in.Strategy))
			if err != nil {
				out.Err = "refused"
				return out, nil
			}
			out.Ok = true
			out.IsWild = pr.isWildcardMatch()
			for _, r := range rules {
				out.Rules = append(out.Rules, []uint32{uint32(r.port), uint32(r.mask)})
				if r.mask == 0 {
					out.WildMask = true
				}
			}
			for x := 0; x < 65536; x++ {
				c := 0
				for _, r := range rules {
					if uint16(x)&r.mask == r.port&r.mask {
						c++
					}
				}
				want := c17InRange(in.Lo, in.Hi, x)
				if (c > 0) != want {
					if out.Bad == 0 {
						out.BadAt = []int{x}
					}
					out.Bad++
				}
				if c > 1 {
					out.Overlap++
				}
			}
		case "cart":
			s := portRange{low: in.SLo, high: in.SHi}
			d := portRange{low: in.DLo, high: in.DHi}
			rules, err := CreatePortRangeCartesianProduct(s, d)
			if err != nil {
				out.Err = "refused"
				return out, nil
			}
			out.Ok = true
			for _, r := range rules {
				out.Rules = append(out.Rules, []uint32{uint32(r.srcPort), uint32(r.srcMask), uint32(r.dstPort), uint32(r.dstMask)})
				if (r.srcMask == 0 && !s.isWildcardMatch()) || (r.dstMask == 0 && !d.isWildcardMatch()) {
					out.WildMask = true
				}
			}
			// boundary grid of each side: 0, 65535, lo-1, lo, lo+1, hi-1, hi, hi+1, mid
			grid := func(lo, hi uint16) []int {
				g := []int{0, 1, 65534, 65535, int(lo) - 1, int(lo), int(lo) + 1, int(hi) - 1, int(hi), int(hi) + 1, (int(lo) + int(hi)) / 2}
				r := []int{}
				for _, v := range g {
					if v >= 0 && v <= 65535 {
						r = append(r, v)
					}
				}
				return r
			}
			for _, x := range grid(in.SLo, in.SHi) {
				for _, y := range grid(in.DLo, in.DHi) {
					c := 0
					for _, r := range rules {
						if uint16(x)&r.srcMask == r.srcPort&r.srcMask && uint16(y)&r.dstMask == r.dstPort&r.dstMask {
							c++
						}
					}
					want := c17InRange(in.SLo, in.SHi, x) && c17InRange(in.DLo, in.DHi, y)
					if (c > 0) != want {
						if out.Bad == 0 {
							out.BadAt = []int{x, y}
						}
						out.Bad++
					}
					if c > 1 {
						out.Overlap++
					}
				}
			}
		}
		return out, nil
	})
}

// c17_exhaustive: implementation-side exhaustive tiling check of the Ternary expansion for
// all ranges lo<=hi with lo in [From, To) (search support for the thorough tier; not a proof).
type c17ExIn struct {
	From, To int
}

func init() {
	verifRegister("c17_exhaustive", func(raw json.RawMessage) (interface{}, error) {
		var in c17ExIn
		if err := json.Unmarshal(raw, &in); err != nil {
			return nil, err
		}
		type res struct {
			bad, n, maxRules int
			first            []int
		}
		nw := 16
		ch := make(chan res, nw)
		for w := 0; w < nw; w++ {
			go func(w int) {
				r := res{}
				for lo := in.From + w; lo < in.To; lo += nw {
					for hi := lo; hi < 65536; hi++ {
						pr := portRange{low: uint16(lo), high: uint16(hi)}
						rules, err := pr.asComplexTernaryMatches(Ternary)
						r.n++
						if err != nil {
							r.bad++
							if r.first == nil {
								r.first = []int{lo, hi}
							}
							continue
						}
						if len(rules) > r.maxRules {
							r.maxRules = len(rules)
						}
						// rules must tile [lo,hi] (or everything when wildcard) in order, without overlap:
						// each rule is an aligned block; check contiguity arithmetically
						okTile := true
						if pr.isWildcardMatch() {
							okTile = len(rules) == 1 && rules[0].mask == 0
						} else {
							next := lo
							for _, t := range rules {
								size := int(^t.mask) + 1
								// mask must be a prefix mask: size power of two and port aligned
								if size&(size-1) != 0 || int(t.port)&(size-1) != 0 || int(t.port) != next || t.mask == 0 {
									okTile = false
									break
								}
								next += size
							}
							if next != hi+1 {
								okTile = false
							}
						}
						if !okTile {
							r.bad++
							if r.first == nil {
								r.first = []int{lo, hi}
							}
						}
					}
				}
				ch <- r
			}(w)
		}
		tot := res{}
		for w := 0; w < nw; w++ {
			r := <-ch
			tot.bad += r.bad
			tot.n += r.n
			if r.maxRules > tot.maxRules {
				tot.maxRules = r.maxRules
			}
			if tot.first == nil {
				tot.first = r.first
			}
		}
		return map[string]interface{}{"bad": tot.bad, "n": tot.n, "max_rules": tot.maxRules, "first": tot.first}, nil
	})
}
