//go:build verif

// Level-1 driver (DESIGN.md section 3.4): the real PFCP handlers, session store, IP pool, TEID
// generator and the real `bess` plug-in, driven synchronously one event at a time. The plug-in talks
// gRPC to an in-process recording BESS server (l1Bess) that gives the four lookup modules and the
// slice meter the add=upsert / delete-by-key / clear semantics.
//
// mode "l1": input  {"cfg": {...}, "events": [ {"k":"msg","conn":0,"hex":"..","draws":[..]}, ... ]}
//            output {"obs": [ per-event observation ]}
package pfcpiface

import (
	"context"
	"encoding/binary"
	"encoding/hex"
	"encoding/json"
	"fmt"
	"math/rand"
	"net"
	"runtime"
	"runtime/debug"
	"sort"
	"strings"
	"sync"
	"time"

	"github.com/google/gopacket"
	"github.com/google/gopacket/layers"
	"github.com/omec-project/upf-epc/logger"
	pb "github.com/omec-project/upf-epc/pfcpiface/bess_pb"
	"github.com/omec-project/upf-epc/pfcpiface/metrics"
	"github.com/wmnsk/go-pfcp/ie"
	"github.com/wmnsk/go-pfcp/message"
	"go.uber.org/zap/zapcore"
	"google.golang.org/grpc"
	"google.golang.org/grpc/connectivity"
	"google.golang.org/protobuf/types/known/anypb"
)

// ---------------------------------------------------------------------------------------------
// recording BESS server

type l1Cmd struct {
	M string   `json:"m"` // module
	C string   `json:"c"` // add | delete | clear
	K []uint64 `json:"k"` // key fields (values ++ masks for the wildcard module)
	V []uint64 `json:"v"` // gate, priority / rates, value fields
	E bool     `json:"e,omitempty"`
}

type l1Bess struct {
	pb.UnimplementedBESSControlServer
	mu     sync.Mutex
	log    []l1Cmd
	nclear int
	tables map[string]map[string]l1Cmd
}

func l1Key(k []uint64) string {
	s := make([]string, len(k))
	for i, v := range k {
		s[i] = fmt.Sprint(v)
	}
	return strings.Join(s, ",")
}

func l1Ints(fs []*pb.FieldData) []uint64 {
	r := make([]uint64, 0, len(fs))
	for _, f := range fs {
		switch e := f.Encoding.(type) {
		case *pb.FieldData_ValueInt:
			r = append(r, e.ValueInt)
		case *pb.FieldData_ValueBin:
			var v uint64
			for _, b := range e.ValueBin {
				v = v<<8 | uint64(b)
			}
			r = append(r, v)
		default:
			r = append(r, 0)
		}
	}
	return r
}

func (b *l1Bess) ModuleCommand(ctx context.Context, req *pb.CommandRequest) (*pb.CommandResponse, error) {
	c := l1Cmd{M: req.Name, C: req.Cmd, K: []uint64{}, V: []uint64{}}
	switch req.Cmd {
	case "clear":
	case "add":
		switch req.Name {
		case "pdrLookup":
			var a pb.WildcardMatchCommandAddArg
			if err := req.Arg.UnmarshalTo(&a); err != nil {
				return nil, err
			}
			c.K = append(l1Ints(a.Values), l1Ints(a.Masks)...)
			c.V = append([]uint64{a.Gate, uint64(a.Priority)}, l1Ints(a.Valuesv)...)
		case "farLookup":
			var a pb.ExactMatchCommandAddArg
			if err := req.Arg.UnmarshalTo(&a); err != nil {
				return nil, err
			}
			c.K = l1Ints(a.Fields)
			c.V = append([]uint64{a.Gate}, l1Ints(a.Values)...)
		default: // Qos modules and the slice meter
			var a pb.QosCommandAddArg
			if err := req.Arg.UnmarshalTo(&a); err != nil {
				return nil, err
			}
			c.K = l1Ints(a.Fields)
			c.V = append([]uint64{a.Gate, a.Cir, a.Pir, a.Cbs, a.Pbs, a.Ebs}, l1Ints(a.Values)...)
			if req.Name == "sliceMeter" {
				c.V = append(c.V, uint64(a.GetDeductLen()))
			}
		}
	case "delete":
		switch req.Name {
		case "pdrLookup":
			var a pb.WildcardMatchCommandDeleteArg
			if err := req.Arg.UnmarshalTo(&a); err != nil {
				return nil, err
			}
			c.K = append(l1Ints(a.Values), l1Ints(a.Masks)...)
		case "farLookup":
			var a pb.ExactMatchCommandDeleteArg
			if err := req.Arg.UnmarshalTo(&a); err != nil {
				return nil, err
			}
			c.K = l1Ints(a.Fields)
		default:
			var a pb.QosCommandDeleteArg
			if err := req.Arg.UnmarshalTo(&a); err != nil {
				return nil, err
			}
			c.K = l1Ints(a.Fields)
		}
	}
	b.mu.Lock()
	defer b.mu.Unlock()
	t := b.tables[req.Name]
	if t == nil {
		t = map[string]l1Cmd{}
		b.tables[req.Name] = t
	}
	resp := &pb.CommandResponse{}
	switch req.Cmd {
	case "clear":
		b.tables[req.Name] = map[string]l1Cmd{}
		b.nclear++
	case "add":
		t[l1Key(c.K)] = c
	case "delete":
		if _, ok := t[l1Key(c.K)]; !ok {
			c.E = true
			resp.Error = &pb.Error{Code: 2, Errmsg: "entry not found"}
		}
		delete(t, l1Key(c.K))
	}
	b.log = append(b.log, c)
	return resp, nil
}

func (b *l1Bess) clears() int {
	b.mu.Lock()
	defer b.mu.Unlock()
	return b.nclear
}

func (b *l1Bess) takeLog() []l1Cmd {
	b.mu.Lock()
	defer b.mu.Unlock()
	l := b.log
	b.log = nil
	if l == nil {
		l = []l1Cmd{}
	}
	sort.SliceStable(l, func(i, j int) bool {
		if l[i].M != l[j].M {
			return l[i].M < l[j].M
		}
		if l[i].C != l[j].C {
			return l[i].C < l[j].C
		}
		return l1Key(l[i].K) < l1Key(l[j].K)
	})
	return l
}

func (b *l1Bess) snapshot() map[string][][2][]uint64 {
	b.mu.Lock()
	defer b.mu.Unlock()
	out := map[string][][2][]uint64{}
	for _, name := range []string{"pdrLookup", "farLookup", "appQERLookup", "sessionQERLookup", "sliceMeter"} {
		t := b.tables[name]
		keys := make([]string, 0, len(t))
		for k := range t {
			keys = append(keys, k)
		}
		sort.Strings(keys)
		rows := make([][2][]uint64, 0, len(t))
		for _, k := range keys {
			rows = append(rows, [2][]uint64{t[k].K, t[k].V})
		}
		out[name] = rows
	}
	return out
}

// ---------------------------------------------------------------------------------------------
// fakes around a PFCPConn

type l1Addr struct{ ip string }

type l1NetConn struct {
	mu     sync.Mutex
	out    [][]byte
	closed bool
	local  *net.UDPAddr
	remote *net.UDPAddr
}

func (c *l1NetConn) Read(b []byte) (int, error) { select {} }
func (c *l1NetConn) Write(b []byte) (int, error) {
	c.mu.Lock()
	defer c.mu.Unlock()
	if c.closed {
		// like a real socket: nothing reaches the wire once the connection has been closed
		return 0, net.ErrClosed
	}
	c.out = append(c.out, append([]byte{}, b...))
	return len(b), nil
}
func (c *l1NetConn) Close() error                       { c.mu.Lock(); c.closed = true; c.mu.Unlock(); return nil }
func (c *l1NetConn) LocalAddr() net.Addr                { return c.local }
func (c *l1NetConn) RemoteAddr() net.Addr               { return c.remote }
func (c *l1NetConn) SetDeadline(t time.Time) error      { return nil }
func (c *l1NetConn) SetReadDeadline(t time.Time) error  { return nil }
func (c *l1NetConn) SetWriteDeadline(t time.Time) error { return nil }
func (c *l1NetConn) take() [][]byte {
	c.mu.Lock()
	defer c.mu.Unlock()
	o := c.out
	c.out = nil
	return o
}

// metrics sink: the sessions gauge as SaveSessions would move it
type l1Metrics struct {
	mu    sync.Mutex
	gauge int
}

func (m *l1Metrics) SaveMessages(msg *metrics.Message) {}
func (m *l1Metrics) SaveSessions(s *metrics.Session) {
	m.mu.Lock()
	defer m.mu.Unlock()
	if s.Duration == 0 {
		m.gauge++
	} else {
		m.gauge--
	}
}
func (m *l1Metrics) Stop() error { return nil }

// scripted random source: values queued by the event, then a deterministic fallback
type l1Source struct {
	queue []uint64
	next  uint64
	drawn []uint64
}

func (s *l1Source) Uint64() uint64 {
	var v uint64
	if len(s.queue) > 0 {
		v = s.queue[0]
		s.queue = s.queue[1:]
	} else {
		s.next++
		v = s.next
	}
	s.drawn = append(s.drawn, v)
	return v
}
func (s *l1Source) Int63() int64    { return int64(s.Uint64() >> 1) }
func (s *l1Source) Seed(seed int64) {}

type l1Cfg struct {
	UeIPAlloc bool   `json:"ueip_alloc"`
	Pool      string `json:"pool"`
	EndMarker bool   `json:"end_marker"`
	LogLevel  string `json:"log_level"` // "" (info) | "debug"
	HbTimer   bool   `json:"hb_timer"` // heartbeat monitor enabled (interval one hour: it never fires inside a history)
	AccessIP  string `json:"access_ip"`
	CoreIP    string `json:"core_ip"`
	N4Addr    string `json:"n4addr"`
	NodeID    string `json:"node_id"`
	Dnn       string `json:"dnn"`
	Qos       []struct {
		QCI, CBS, PBS, EBS, Dur, Prio uint32
	} `json:"qos"`
}

type l1Event struct {
	K     string   `json:"k"` // msg | report | teardown | restart
	Conn  int      `json:"conn"`
	Hex   string   `json:"hex"`
	Draws []uint64 `json:"draws"`
	Fseid uint64   `json:"fseid"`
	Quiet bool     `json:"q"` // long soak histories: no decoded view, no dumps for this event
}

type l1World struct {
	intern *l1Intern
	cfg   l1Cfg
	srv   *l1Bess
	gs    *grpc.Server
	addr  string
	u     *upf
	b     *bess
	fdp   *l1FaultDP
	sink  *l1Metrics
	conns map[int]*PFCPConn
	ncs   map[int]*l1NetConn
	srcs  map[int]*l1Source
	done  chan string
}

var l1Epoch = time.Date(2022, 1, 2, 3, 4, 5, 0, time.UTC)

// l1FaultDP is the datapath the agent sees: the real bess plug-in, except that the next `fail` calls of
// SendMsgToUPF are answered "request rejected" without reaching it (a datapath that refuses a write).
type l1FaultDP struct {
	datapath
	fail int
}

func (d *l1FaultDP) SendMsgToUPF(method upfMsgType, all PacketForwardingRules, newRules PacketForwardingRules) uint8 {
	if d.fail > 0 {
		d.fail--
		return ie.CauseRequestRejected
	}
	return d.datapath.SendMsgToUPF(method, all, newRules)
}

func l1NewWorld(cfg l1Cfg) (*l1World, error) {
	w := &l1World{cfg: cfg, intern: &l1Intern{ids: map[string]int{}}}
	w.srv = &l1Bess{tables: map[string]map[string]l1Cmd{}}
	lis, err := net.Listen("tcp", "127.0.0.1:0")
	if err != nil {
		return nil, err
	}
	w.gs = grpc.NewServer()
	pb.RegisterBESSControlServer(w.gs, w.srv)
	go func() { _ = w.gs.Serve(lis) }()
	w.addr = lis.Addr().String()
	if err := w.boot(); err != nil {
		return nil, err
	}
	w.srv.takeLog() // the start-up clear commands are not part of the first event
	return w, nil
}

// boot = a fresh incarnation of the agent against the (possibly populated) datapath
func (w *l1World) boot() error {
	cfg := w.cfg
	u := &upf{
		enableUeIPAlloc:  cfg.UeIPAlloc,
		enableEndMarker:  cfg.EndMarker,
		ippoolCidr:       cfg.Pool,
		n4addr:           cfg.N4Addr,
		accessIP:         net.ParseIP(cfg.AccessIP).To4(),
		coreIP:           net.ParseIP(cfg.CoreIP).To4(),
		nodeID:           cfg.NodeID,
		dnn:              cfg.Dnn,
		reportNotifyChan: make(chan uint64, 1024),
		fteidGenerator:   NewFTEIDGenerator(),
		maxReqRetries:    5,
		respTimeout:      2 * time.Second,
		readTimeout:      15 * time.Second,
		enableHBTimer:    cfg.HbTimer,
		hbInterval:       time.Hour,
	}
	if cfg.UeIPAlloc {
		p, err := NewIPPool(cfg.Pool)
		if err != nil {
			return err
		}
		u.ippool = p
	}
	if cfg.LogLevel == "debug" {
		logger.SetLogLevel(zapcore.DebugLevel)
	} else {
		logger.SetLogLevel(zapcore.InfoLevel)
	}
	conf := &Conf{}
	for _, q := range cfg.Qos {
		conf.QciQosConfig = append(conf.QciQosConfig, QciQosConfig{QCI: uint8(q.QCI), CBS: q.CBS, PBS: q.PBS, EBS: q.EBS,
			BurstDurationMs: q.Dur, SchedulingPriority: q.Prio})
	}
	b := &bess{}
	*bessIP = w.addr
	w.fdp = &l1FaultDP{datapath: b}
	u.datapath = w.fdp
	// timing only: a loaded machine must not turn a slow RPC into a lost datapath write
	Timeout = 3 * time.Second
	before := w.srv.clears()
	b.SetUpfInfo(u, conf) // connects, clears the four lookup modules
	// wait until the plug-in reports the datapath as connected (connection set-up is asynchronous)
	b.conn.Connect()
	for i := 0; i < 2000 && !u.isConnected(); i++ {
		time.Sleep(5 * time.Millisecond)
	}
	if w.srv.clears()-before < 4 {
		b.clearState()
	}
	w.u, w.b = u, b
	w.sink = &l1Metrics{}
	w.conns = map[int]*PFCPConn{}
	w.ncs = map[int]*l1NetConn{}
	w.srcs = map[int]*l1Source{}
	w.done = make(chan string, 1000)
	return nil
}

func (w *l1World) conn(i int) *PFCPConn {
	if c, ok := w.conns[i]; ok {
		return c
	}
	nc := &l1NetConn{
		local:  &net.UDPAddr{IP: net.ParseIP(w.cfg.N4Addr).To4(), Port: 8805},
		remote: &net.UDPAddr{IP: net.IPv4(10, 99, 0, byte(i+1)).To4(), Port: 8805},
	}
	src := &l1Source{next: uint64(i+1) * 1000000}
	c := &PFCPConn{
		ctx:            context.Background(),
		Conn:           nc,
		ts:             recoveryTS{local: l1Epoch},
		rng:            rand.New(src),
		maxRetries:     100,
		store:          NewInMemoryStore(),
		upf:            w.u,
		done:           w.done,
		shutdown:       make(chan struct{}),
		InstrumentPFCP: w.sink,
		hbReset:        make(chan struct{}, 100),
	}
	c.setLocalNodeID(w.u.nodeID)
	w.conns[i], w.ncs[i], w.srcs[i] = c, nc, src
	return c
}

// ---------------------------------------------------------------------------------------------
// decoding what the agent sent

func l1IP(ip net.IP) interface{} {
	if ip4 := ip.To4(); ip4 != nil {
		return binary.BigEndian.Uint32(ip4)
	}
	if ip == nil {
		return nil
	}
	return ip.String()
}

func l1Decode(raw []byte) map[string]interface{} {
	o := map[string]interface{}{}
	m, err := message.Parse(raw)
	if err != nil {
		o["undecodable"] = hex.EncodeToString(raw)
		return o
	}
	o["type"] = int(m.MessageType())
	o["seq"] = m.Sequence()
	// S flag and SEID straight from the header bytes
	if len(raw) > 0 && raw[0]&1 == 1 {
		o["seid"] = m.SEID()
	}
	put := func(name string, i *ie.IE, f func(*ie.IE) (interface{}, error)) {
		if i == nil {
			return
		}
		v, err := f(i)
		if err != nil {
			o[name] = "err"
		} else {
			o[name] = v
		}
	}
	cause := func(i *ie.IE) (interface{}, error) { c, e := i.Cause(); return int(c), e }
	nodeid := func(i *ie.IE) (interface{}, error) { return i.NodeID() }
	rts := func(i *ie.IE) (interface{}, error) {
		t, e := i.RecoveryTimeStamp()
		if e != nil {
			return nil, e
		}
		return t.Unix(), nil
	}
	switch r := m.(type) {
	case *message.HeartbeatResponse:
		put("rts", r.RecoveryTimeStamp, rts)
	case *message.HeartbeatRequest:
		put("rts", r.RecoveryTimeStamp, rts)
	case *message.AssociationSetupResponse:
		put("cause", r.Cause, cause)
		put("nodeid", r.NodeID, nodeid)
		put("rts", r.RecoveryTimeStamp, rts)
		if r.UPFunctionFeatures != nil {
			o["features"] = hex.EncodeToString(r.UPFunctionFeatures.Payload)
		}
		if len(r.UserPlaneIPResourceInformation) > 0 {
			f, e := r.UserPlaneIPResourceInformation[0].UserPlaneIPResourceInformation()
			if e == nil {
				o["upip"] = []interface{}{int(f.Flags), l1IP(f.IPv4Address), f.NetworkInstance, int(f.SourceInterface)}
			}
		}
	case *message.AssociationReleaseResponse:
		put("cause", r.Cause, cause)
		put("nodeid", r.NodeID, nodeid)
	case *message.PFDManagementResponse:
		put("cause", r.Cause, cause)
		if r.OffendingIE != nil {
			o["offending"] = int(r.OffendingIE.Type)
		}
	case *message.SessionEstablishmentResponse:
		put("cause", r.Cause, cause)
		put("nodeid", r.NodeID, nodeid)
		if r.OffendingIE != nil {
			o["offending"] = int(r.OffendingIE.Type)
		}
		if r.UPFSEID != nil {
			f, e := r.UPFSEID.FSEID()
			if e != nil {
				o["upfseid"] = "err"
			} else {
				o["upfseid"] = []interface{}{f.SEID, l1IP(f.IPv4Address)}
			}
		}
		cp := []interface{}{}
		for _, c := range r.CreatedPDR {
			e := map[string]interface{}{}
			if id, err := c.PDRID(); err == nil {
				e["pdr"] = int(id)
			}
			if f, err := c.FTEID(); err == nil {
				e["teid"] = f.TEID
				e["ip"] = l1IP(f.IPv4Address)
			}
			if f, err := c.UEIPAddress(); err == nil {
				e["ueip"] = l1IP(f.IPv4Address)
				e["ueflags"] = int(f.Flags)
			}
			cp = append(cp, e)
		}
		o["created"] = cp
	case *message.SessionModificationResponse:
		put("cause", r.Cause, cause)
		if r.OffendingIE != nil {
			o["offending"] = int(r.OffendingIE.Type)
		}
	case *message.SessionDeletionResponse:
		put("cause", r.Cause, cause)
	case *message.SessionReportRequest:
		if r.ReportType != nil {
			o["report_type"] = hex.EncodeToString(r.ReportType.Payload)
		}
		if r.DownlinkDataReport != nil {
			if id, err := r.DownlinkDataReport.PDRID(); err == nil {
				o["dldr_pdr"] = int(id)
			}
		}
	}
	return o
}

func l1DecodeMarker(pkt []byte) map[string]interface{} {
	o := map[string]interface{}{}
	p := gopacket.NewPacket(pkt, layers.LayerTypeEthernet, gopacket.Default)
	if l := p.Layer(layers.LayerTypeIPv4); l != nil {
		ip := l.(*layers.IPv4)
		o["src"] = l1IP(ip.SrcIP)
		o["dst"] = l1IP(ip.DstIP)
	}
	if l := p.Layer(layers.LayerTypeUDP); l != nil {
		u := l.(*layers.UDP)
		o["sport"] = int(u.SrcPort)
		o["dport"] = int(u.DstPort)
	}
	if l := p.Layer(layers.LayerTypeGTPv1U); l != nil {
		g := l.(*layers.GTPv1U)
		o["teid"] = g.TEID
		o["gtp_type"] = int(g.MessageType)
	}
	return o
}

// ---------------------------------------------------------------------------------------------
// state dumps

func l1Pdr(p pdr) map[string]interface{} {
	q := make([]uint32, len(p.qerIDList))
	copy(q, p.qerIDList)
	return map[string]interface{}{
		"id": p.pdrID, "fseid": p.fseID, "iface": p.srcIface, "iface_m": p.srcIfaceMask,
		"tdst": p.tunnelIP4Dst, "tdst_m": p.tunnelIP4DstMask, "teid": p.tunnelTEID, "teid_m": p.tunnelTEIDMask,
		"ue": p.ueAddress, "prec": p.precedence, "far": p.farID, "qers": q, "decap": p.needDecap,
		"alloc_ip": p.allocIPFlag, "choose": p.UPAllocateFteid, "ctr": p.ctrID, "fseid_ip": p.fseidIP,
		"f_sip": p.appFilter.srcIP, "f_sip_m": p.appFilter.srcIPMask, "f_dip": p.appFilter.dstIP, "f_dip_m": p.appFilter.dstIPMask,
		"f_sp": []uint16{p.appFilter.srcPortRange.low, p.appFilter.srcPortRange.high},
		"f_dp": []uint16{p.appFilter.dstPortRange.low, p.appFilter.dstPortRange.high},
		"f_proto": p.appFilter.proto, "f_proto_m": p.appFilter.protoMask,
	}
}

func l1Far(f far) map[string]interface{} {
	return map[string]interface{}{
		"id": f.farID, "fseid": f.fseID, "dst_if": f.dstIntf, "em": f.sendEndMarker, "action": f.applyAction,
		"ttype": f.tunnelType, "tsrc": f.tunnelIP4Src, "tdst": f.tunnelIP4Dst, "teid": f.tunnelTEID, "tport": f.tunnelPort,
		"fseid_ip": f.fseidIP,
	}
}

func l1Qer(q qer) map[string]interface{} {
	return map[string]interface{}{
		"id": q.qerID, "fseid": q.fseID, "level": uint8(q.qosLevel), "qfi": q.qfi, "ul": q.ulStatus, "dl": q.dlStatus,
		"ul_mbr": q.ulMbr, "dl_mbr": q.dlMbr, "ul_gbr": q.ulGbr, "dl_gbr": q.dlGbr, "fseid_ip": q.fseidIP,
	}
}

func (w *l1World) dumpStore() []interface{} {
	out := []interface{}{}
	idx := make([]int, 0, len(w.conns))
	for i := range w.conns {
		idx = append(idx, i)
	}
	sort.Ints(idx)
	for _, i := range idx {
		ss := w.conns[i].store.GetAllSessions()
		sort.Slice(ss, func(a, b int) bool { return ss[a].localSEID < ss[b].localSEID })
		for _, s := range ss {
			ps, fs, qs := []interface{}{}, []interface{}{}, []interface{}{}
			for _, p := range s.pdrs {
				ps = append(ps, l1Pdr(p))
			}
			for _, f := range s.fars {
				fs = append(fs, l1Far(f))
			}
			for _, q := range s.qers {
				qs = append(qs, l1Qer(q))
			}
			out = append(out, map[string]interface{}{"conn": i, "lseid": s.localSEID, "rseid": s.remoteSEID, "pdrs": ps, "fars": fs, "qers": qs})
		}
	}
	return out
}

func (w *l1World) dumpPools() map[string]interface{} {
	o := map[string]interface{}{"gauge": w.sink.gauge}
	if w.u.ippool != nil {
		p := w.u.ippool
		p.mu.Lock()
		inv := [][2]uint64{}
		for k, v := range p.inventory {
			inv = append(inv, [2]uint64{k, uint64(ip2int(v))})
		}
		sort.Slice(inv, func(a, b int) bool { return inv[a][0] < inv[b][0] })
		o["ip_free"] = len(p.freePool)
		o["ip_inv"] = inv
		p.mu.Unlock()
	}
	g := w.u.fteidGenerator
	g.lock.Lock()
	used := []uint32{}
	for k := range g.usedMap {
		used = append(used, k+minValue)
	}
	sort.Slice(used, func(a, b int) bool { return used[a] < used[b] })
	o["teids"] = used
	g.lock.Unlock()
	pf := map[string]interface{}{}
	for i, c := range w.conns {
		t := map[string][]string{}
		for id, a := range c.appPFDs {
			t[id] = append([]string{}, a.flowDescs...)
		}
		pf[fmt.Sprint(i)] = t
	}
	o["pfds"] = pf
	pi := map[string]interface{}{}
	for i, c := range w.conns {
		rows := [][]interface{}{}
		for id, a := range c.appPFDs {
			fl := []int{}
			for _, f := range a.flowDescs {
				fl = append(fl, w.intern.id("flow:"+f))
			}
			rows = append(rows, []interface{}{w.intern.id("app:" + id), fl})
		}
		sort.Slice(rows, func(a, b int) bool { return rows[a][0].(int) < rows[b][0].(int) })
		pi[fmt.Sprint(i)] = rows
	}
	o["pfd_ids"] = pi
	return o
}

// ---------------------------------------------------------------------------------------------

func (w *l1World) doEvent(ev l1Event) (obs map[string]interface{}) {
	obs = map[string]interface{}{}
	func() {
		defer func() {
			if r := recover(); r != nil {
				st := string(debug.Stack())
				frame := ""
				for _, l := range strings.Split(st, "\n") {
					if strings.Contains(l, "/pfcpiface/") && !strings.Contains(l, "zz_verif_") && !strings.Contains(l, "verif_l1_test") {
						frame = strings.TrimSpace(l)
						break
					}
				}
				obs["panic"] = fmt.Sprint(r)
				obs["frame"] = frame
			}
		}()
		switch ev.K {
		case "msg":
			c := w.conn(ev.Conn)
			src := w.srcs[ev.Conn]
			src.queue = append([]uint64{}, ev.Draws...)
			raw, err := hex.DecodeString(ev.Hex)
			if err != nil {
				obs["bad_hex"] = true
				return
			}
			finished := make(chan struct{})
			var pv interface{}
			var pst string
			go func() {
				defer func() {
					if r := recover(); r != nil {
						pv = r
						pst = string(debug.Stack())
					}
					close(finished)
				}()
				c.HandlePFCPMsg(raw)
			}()
			select {
			case <-finished:
				if pv != nil {
					frame, fn, prev := "", "", ""
					for _, l := range strings.Split(pst, "\n") {
						if strings.Contains(l, "/pfcpiface/") && strings.HasPrefix(l, "\t") && !strings.Contains(l, "verif_") {
							frame = strings.TrimSpace(l)
							fn = prev
							break
						}
						prev = l
					}
					// function name of the innermost frame inside the repository, without arguments
					if k := strings.LastIndex(fn, "("); k > 0 {
						fn = fn[:k]
					}
					if k := strings.LastIndex(fn, "."); k >= 0 {
						fn = fn[k+1:]
					}
					obs["panic"] = fmt.Sprint(pv)
					obs["frame"] = frame
					obs["func"] = fn
				}
			case <-time.After(8 * time.Second):
				obs["blocked"] = true
			}
			if src.drawn == nil {
				src.drawn = []uint64{}
			}
			obs["draws"] = src.drawn
			src.drawn = nil
			src.queue = nil
			if !ev.Quiet {
				obs["sem"] = l1Sem(raw, w.intern)
			}
			obs["connected"] = w.u.isConnected()
		case "report":
			if c, ok := w.conns[ev.Conn]; ok {
				c.handleDigestReport(ev.Fseid)
			}
		case "teardown":
			if c, ok := w.conns[ev.Conn]; ok {
				c.Shutdown()
			}
		case "dp_fail":
			// the datapath refuses the next ev.Conn writes
			w.fdp.fail = ev.Conn
		case "dp_down":
			// the BESS daemon goes away (crash / restart of the datapath): its gRPC server stops
			w.gs.Stop()
			for i := 0; i < 600 && w.b.conn.GetState() == connectivity.Ready; i++ {
				time.Sleep(5 * time.Millisecond)
			}
			obs["dp_state"] = w.b.conn.GetState().String()
		case "dp_up":
			lis, err := net.Listen("tcp", w.addr)
			if err != nil {
				obs["boot_err"] = err.Error()
				return
			}
			w.gs = grpc.NewServer()
			pb.RegisterBESSControlServer(w.gs, w.srv)
			go func() { _ = w.gs.Serve(lis) }()
			for i := 0; i < 2000 && w.b.conn.GetState() != connectivity.Ready; i++ {
				w.b.conn.Connect()
				time.Sleep(5 * time.Millisecond)
			}
			obs["dp_state"] = w.b.conn.GetState().String()
		case "restart":
			if w.b != nil && w.b.conn != nil {
				w.b.conn.Close()
			}
			if err := w.boot(); err != nil {
				obs["boot_err"] = err.Error()
			}
		}
	}()
	if _, stuck := obs["blocked"]; stuck {
		// the handler still holds whatever it blocked on (possibly a lock the dumps below need): report and stop here
		obs["replies"] = map[string]interface{}{}
		obs["cmds"] = []l1Cmd{}
		obs["done"] = []string{}
		return obs
	}
	dn := []string{}
drain2:
	for {
		select {
		case a := <-w.done:
			dn = append(dn, a)
		default:
			break drain2
		}
	}
	obs["done"] = dn
	// the node forgets a connection when it receives its address (pConns.Delete): the next
	// datagram from that peer creates a fresh PFCPConn
	for _, a := range dn {
		for i, c := range w.conns {
			if c.RemoteAddr().String() == a {
				delete(w.conns, i)
				delete(w.srcs, i)
			}
		}
	}
	// what the agent emitted
	replies := map[string]interface{}{}
	for i, nc := range w.ncs {
		outs := nc.take()
		if len(outs) == 0 {
			continue
		}
		l := []interface{}{}
		for _, raw := range outs {
			l = append(l, l1Decode(raw))
		}
		replies[fmt.Sprint(i)] = l
	}
	obs["replies"] = replies
	obs["cmds"] = w.srv.takeLog()
	if ev.Quiet {
		obs["cmds"] = len(obs["cmds"].([]l1Cmd))
	} else {
		obs["tables"] = w.srv.snapshot()
		obs["store"] = w.dumpStore()
		obs["pools"] = w.dumpPools()
	}
	markers := []interface{}{}
	if w.b != nil && w.b.endMarkerChan != nil && !w.cfg.EndMarker {
		// with end markers disabled the plug-in starts no sender: nobody drains the queue in production either
		obs["em_queued"] = len(w.b.endMarkerChan)
	} else if w.b != nil && w.b.endMarkerChan != nil {
	drain:
		for {
			select {
			case m := <-w.b.endMarkerChan:
				markers = append(markers, l1DecodeMarker(m))
			default:
				break drain
			}
		}
	}
	obs["markers"] = markers
	closed := []int{}
	for i, nc := range w.ncs {
		nc.mu.Lock()
		if nc.closed {
			closed = append(closed, i)
		}
		nc.mu.Unlock()
	}
	sort.Ints(closed)
	obs["closed"] = closed
	return obs
}

func init() {
	verifRegister("l1", func(raw json.RawMessage) (interface{}, error) {
		var in struct {
			Cfg    l1Cfg     `json:"cfg"`
			Events []l1Event `json:"events"`
		}
		if err := json.Unmarshal(raw, &in); err != nil {
			return nil, err
		}
		w, err := l1NewWorld(in.Cfg)
		if err != nil {
			return map[string]interface{}{"world_err": err.Error()}, nil
		}
		defer func() { w.gs.Stop() }()
		obs := []interface{}{}
		for _, ev := range in.Events {
			o := w.doEvent(ev)
			obs = append(obs, o)
			if _, dead := o["panic"]; dead {
				break // the production process would be gone
			}
			if _, dead := o["blocked"]; dead {
				break
			}
			// a goroutine left behind by the event that allocates without bound (heap far beyond anything a
			// handful of sessions needs): the agent would run out of memory
			var ms runtime.MemStats
			runtime.ReadMemStats(&ms)
			if ms.HeapAlloc > 768<<20 {
				o["runaway"] = ms.HeapAlloc
				verifAbort = "memory runaway after an l1 event"
				break
			}
		}
		return map[string]interface{}{"obs": obs}, nil
	})

	// oracle for flow descriptions: what parseFlowDesc makes of a text (never compared with a model
	// here; the L1 generators use it to know which texts are accepted)
	verifRegister("l1_flow", func(raw json.RawMessage) (interface{}, error) {
		var in struct {
			Text string `json:"text"`
			UE   string `json:"ue"`
		}
		if err := json.Unmarshal(raw, &in); err != nil {
			return nil, err
		}
		out := map[string]interface{}{}
		func() {
			defer func() {
				if r := recover(); r != nil {
					out["panic"] = fmt.Sprint(r)
				}
			}()
			f, err := parseFlowDesc(in.Text, in.UE)
			if err != nil {
				out["err"] = true
				return
			}
			out["proto"] = f.proto
			out["dir"] = f.direction
			out["src"] = []uint32{ip2int(f.src.IPNet.IP), ipMask2int(f.src.IPNet.Mask)}
			out["dst"] = []uint32{ip2int(f.dst.IPNet.IP), ipMask2int(f.dst.IPNet.Mask)}
			out["sp"] = []uint16{f.src.ports.low, f.src.ports.high}
			out["dp"] = []uint16{f.dst.ports.low, f.dst.ports.high}
		}()
		return out, nil
	})
}

var _ = anypb.New

// ---------------------------------------------------------------------------------------------
// semantic view of a datagram: for every IE a handler reads, the outcome of the accessor it calls.
// This is the input of the Coq model (Model/Agent.v: msg); strings are interned per history.

type l1Intern struct{ ids map[string]int }

func (t *l1Intern) id(s string) int {
	if s == "" {
		return 0
	}
	if v, ok := t.ids[s]; ok {
		return v
	}
	v := len(t.ids) + 1
	t.ids[s] = v
	return v
}

func l1Acc(err error, v interface{}) interface{} {
	if err != nil {
		return "err"
	}
	return map[string]interface{}{"ok": v}
}

func l1V4(ip net.IP) interface{} {
	if len(ip) == 4 {
		return binary.BigEndian.Uint32(ip)
	}
	if len(ip) == 16 {
		return binary.BigEndian.Uint32(ip[12:16])
	}
	return nil
}

// symbolic parse of a flow description: "assigned" stays a marker (found by parsing twice with
// two different UE addresses)
func l1Flow(text string) interface{} {
	defer func() { _ = recover() }()
	a, errA := parseFlowDesc(text, "250.251.252.253")
	b, errB := parseFlowDesc(text, "250.251.252.254")
	if errA != nil || errB != nil {
		return "err"
	}
	ep := func(x, y endpoint) interface{} {
		assigned := ip2int(x.IPNet.IP) != ip2int(y.IPNet.IP)
		return []interface{}{assigned, ip2int(x.IPNet.IP), ipMask2int(x.IPNet.Mask), x.ports.low, x.ports.high}
	}
	d := 0
	if a.direction == "out" {
		d = 1
	}
	return map[string]interface{}{"dir": d, "proto": a.proto, "src": ep(a.src, b.src), "dst": ep(a.dst, b.dst)}
}

func l1SemPdr(p *ie.IE, t *l1Intern) interface{} {
	o := map[string]interface{}{}
	id, err := p.PDRID()
	o["id"] = l1Acc(err, id)
	pr, err := p.Precedence()
	o["prec"] = l1Acc(err, pr)
	pdi, err := p.PDI()
	if err != nil {
		o["pdi"] = "err"
	} else {
		els := []interface{}{}
		for _, x := range pdi {
			switch x.Type {
			case ie.UEIPAddress:
				f, e := x.UEIPAddress()
				if e != nil {
					els = append(els, map[string]interface{}{"k": "ueip", "v": "err"})
				} else {
					var v4 interface{}
					if len(f.IPv4Address) == 4 {
						v4 = binary.BigEndian.Uint32(f.IPv4Address)
					}
					els = append(els, map[string]interface{}{"k": "ueip", "v": map[string]interface{}{"ok": []interface{}{f.Flags, v4}}})
				}
			case ie.SourceInterface:
				v, e := x.SourceInterface()
				els = append(els, map[string]interface{}{"k": "src", "v": l1Acc(e, v)})
			case ie.FTEID:
				f, e := x.FTEID()
				if e != nil {
					els = append(els, map[string]interface{}{"k": "fteid", "v": "err"})
				} else {
					els = append(els, map[string]interface{}{"k": "fteid", "v": map[string]interface{}{"ok": []interface{}{f.HasCh(), f.TEID, l1V4(f.IPv4Address)}}})
				}
			case ie.ApplicationID:
				v, e := x.ApplicationID()
				els = append(els, map[string]interface{}{"k": "app", "v": l1Acc(e, t.id("app:"+v))})
			case ie.SDFFilter:
				f, e := l1SdfFields(x)
				if e != nil || f.FlowDescription == "" {
					els = append(els, map[string]interface{}{"k": "sdf", "v": "err"})
				} else {
					els = append(els, map[string]interface{}{"k": "sdf", "v": map[string]interface{}{"ok": l1Flow(f.FlowDescription)}})
				}
			default:
				els = append(els, map[string]interface{}{"k": "other"})
			}
		}
		o["pdi"] = map[string]interface{}{"ok": els}
	}
	res, err := p.OuterHeaderRemovalDescription()
	o["decap"] = res == 0 && err == nil
	far, err := p.FARID()
	o["far"] = l1Acc(err, far)
	var kids []*ie.IE
	var gerr error
	switch p.Type {
	case ie.CreatePDR:
		kids, gerr = p.CreatePDR()
	case ie.UpdatePDR:
		kids, gerr = p.UpdatePDR()
	}
	o["group_ok"] = gerr == nil
	qs := []uint32{}
	for _, x := range kids {
		if x.Type == ie.QERID {
			if q, e := x.QERID(); e == nil {
				qs = append(qs, q)
			}
		}
	}
	o["qers"] = qs
	return o
}

func l1SemFwd(ies []*ie.IE, err error) interface{} {
	if err != nil {
		return "err"
	}
	els := []interface{}{}
	for _, x := range ies {
		switch x.Type {
		case ie.OuterHeaderCreation:
			f, e := x.OuterHeaderCreation()
			if e != nil {
				els = append(els, map[string]interface{}{"k": "ohc", "v": "err"})
			} else {
				els = append(els, map[string]interface{}{"k": "ohc", "v": map[string]interface{}{"ok": []interface{}{f.TEID, l1V4(f.IPv4Address)}}})
			}
		case ie.DestinationInterface:
			v, e := x.DestinationInterface()
			els = append(els, map[string]interface{}{"k": "dst", "v": l1Acc(e, v)})
		case ie.PFCPSMReqFlags:
			v, e := x.PFCPSMReqFlags()
			els = append(els, map[string]interface{}{"k": "sm", "v": l1Acc(e, v)})
		default:
			els = append(els, map[string]interface{}{"k": "other"})
		}
	}
	return map[string]interface{}{"ok": els}
}

func l1SemFar(f *ie.IE) interface{} {
	o := map[string]interface{}{}
	id, err := f.FARID()
	o["id"] = l1Acc(err, id)
	act, err := f.ApplyAction()
	if err != nil || len(act) == 0 {
		o["action"] = "err"
	} else {
		o["action"] = map[string]interface{}{"ok": act[0]}
	}
	if f.Type == ie.CreateFAR {
		fw, e := f.ForwardingParameters()
		o["fwd_c"] = l1SemFwd(fw, e)
		o["fwd_u"] = "err"
	} else {
		fw, e := f.UpdateForwardingParameters()
		o["fwd_u"] = l1SemFwd(fw, e)
		o["fwd_c"] = "err"
	}
	return o
}

func l1SemQer(q *ie.IE) interface{} {
	o := map[string]interface{}{}
	id, err := q.QERID()
	o["id"] = l1Acc(err, id)
	v8 := func(f func() (uint8, error)) uint8 { v, _ := f(); return v }
	v64 := func(f func() (uint64, error)) uint64 { v, _ := f(); return v }
	o["qfi"] = v8(q.QFI)
	o["gul"] = v8(q.GateStatusUL)
	o["gdl"] = v8(q.GateStatusDL)
	o["mul"] = v64(q.MBRUL)
	o["mdl"] = v64(q.MBRDL)
	o["gbul"] = v64(q.GBRUL)
	o["gbdl"] = v64(q.GBRDL)
	return o
}

func l1Sem(raw []byte, t *l1Intern) (out interface{}) {
	defer func() {
		if r := recover(); r != nil {
			out = map[string]interface{}{"t": "decoder-panic", "why": fmt.Sprint(r)}
		}
	}()
	m, err := message.Parse(raw)
	if err != nil {
		return map[string]interface{}{"t": "other"}
	}
	o := map[string]interface{}{"seq": m.Sequence(), "hseid": m.SEID()}
	optAcc := func(i *ie.IE, f func(*ie.IE) (interface{}, error)) interface{} {
		if i == nil {
			return nil
		}
		v, e := f(i)
		return l1Acc(e, v)
	}
	nodeid := func(i *ie.IE) (interface{}, error) {
		s, e := i.NodeID()
		if e != nil {
			return nil, e
		}
		return t.id("node:" + s), nil
	}
	fseid := func(i *ie.IE) (interface{}, error) {
		f, e := i.FSEID()
		if e != nil {
			return nil, e
		}
		return []interface{}{f.SEID, l1V4(f.IPv4Address)}, nil
	}
	pdrs := func(l []*ie.IE) []interface{} {
		r := []interface{}{}
		for _, p := range l {
			r = append(r, l1SemPdr(p, t))
		}
		return r
	}
	fars := func(l []*ie.IE) []interface{} {
		r := []interface{}{}
		for _, p := range l {
			r = append(r, l1SemFar(p))
		}
		return r
	}
	qers := func(l []*ie.IE) []interface{} {
		r := []interface{}{}
		for _, p := range l {
			r = append(r, l1SemQer(p))
		}
		return r
	}
	switch r := m.(type) {
	case *message.HeartbeatRequest:
		o["t"] = "hb"
	case *message.AssociationSetupRequest:
		o["t"] = "setup"
		o["nodeid"] = optAcc(r.NodeID, nodeid)
		o["rts"] = optAcc(r.RecoveryTimeStamp, func(i *ie.IE) (interface{}, error) {
			ts, e := i.RecoveryTimeStamp()
			if e != nil {
				return nil, e
			}
			return ts.Unix(), nil
		})
	case *message.AssociationReleaseRequest:
		o["t"] = "release"
	case *message.PFDManagementRequest:
		o["t"] = "pfd"
		apps := []interface{}{}
		for _, a := range r.ApplicationIDsPFDs {
			e := map[string]interface{}{}
			id, err := a.ApplicationID()
			e["id"] = l1Acc(err, t.id("app:"+id))
			ctx, err := l1AllPFDContents(a)
			if err != nil {
				e["ctx"] = "err"
			} else {
				cs := []interface{}{}
				for _, c := range ctx {
					f, err := l1PfdFields(c)
					if err != nil {
						cs = append(cs, "err")
					} else {
						// an absent / empty flow description is text 0 (the model's "no flow description")
						tid := 0
						if f.FlowDescription != "" {
							tid = t.id("flow:" + f.FlowDescription)
						}
						cs = append(cs, map[string]interface{}{"ok": []interface{}{tid, l1FlowOrEmpty(f.FlowDescription)}})
					}
				}
				e["ctx"] = map[string]interface{}{"ok": cs}
			}
			apps = append(apps, e)
		}
		o["apps"] = apps
	case *message.SessionEstablishmentRequest:
		o["t"] = "est"
		o["nodeid"] = optAcc(r.NodeID, nodeid)
		o["cpfseid"] = optAcc(r.CPFSEID, fseid)
		o["cp"], o["cf"], o["cq"] = pdrs(r.CreatePDR), fars(r.CreateFAR), qers(r.CreateQER)
	case *message.SessionModificationRequest:
		o["t"] = "mod"
		o["cpfseid"] = optAcc(r.CPFSEID, fseid)
		o["cp"], o["cf"], o["cq"] = pdrs(r.CreatePDR), fars(r.CreateFAR), qers(r.CreateQER)
		o["up"], o["uf"], o["uq"] = pdrs(r.UpdatePDR), fars(r.UpdateFAR), qers(r.UpdateQER)
		rm := func(l []*ie.IE, f func(*ie.IE) (uint32, error)) []interface{} {
			out := []interface{}{}
			for _, x := range l {
				v, e := f(x)
				out = append(out, l1Acc(e, v))
			}
			return out
		}
		o["rp"] = rm(r.RemovePDR, func(i *ie.IE) (uint32, error) { v, e := i.PDRID(); return uint32(v), e })
		o["rf"] = rm(r.RemoveFAR, func(i *ie.IE) (uint32, error) { return i.FARID() })
		o["rq"] = rm(r.RemoveQER, func(i *ie.IE) (uint32, error) { return i.QERID() })
	case *message.SessionDeletionRequest:
		o["t"] = "del"
	case *message.SessionReportResponse:
		o["t"] = "srrsp"
		o["cause"] = optAcc(r.Cause, func(i *ie.IE) (interface{}, error) { c, e := i.Cause(); return c, e })
	case *message.HeartbeatResponse, *message.AssociationSetupResponse:
		o["t"] = "response"
	default:
		o["t"] = "other"
	}
	return o
}

func l1FlowOrEmpty(text string) interface{} {
	if text == "" {
		return "err"
	}
	return l1Flow(text)
}


// decoder-side copies of three small accessors (kept here so that the driver does not depend on helper names of /repo)
func l1Recover(err *error) {
	if r := recover(); r != nil {
		*err = fmt.Errorf("malformed IE: %v", r)
	}
}

func l1SdfFields(i *ie.IE) (f *ie.SDFFilterFields, err error) {
	defer l1Recover(&err)
	return i.SDFFilter()
}

func l1PfdFields(i *ie.IE) (f *ie.PFDContentsFields, err error) {
	defer l1Recover(&err)
	return i.PFDContents()
}

func l1AllPFDContents(a *ie.IE) ([]*ie.IE, error) {
	children, err := a.ApplicationIDsPFDs()
	if err != nil {
		return nil, err
	}
	var out []*ie.IE
	found := false
	for _, c := range children {
		if c.Type != ie.PFDContext {
			continue
		}
		found = true
		ctx, err := c.PFDContext()
		if err != nil {
			return nil, err
		}
		out = append(out, ctx...)
	}
	if !found {
		return nil, ie.ErrIENotFound
	}
	return out, nil
}
