//go:build verif

// C11 - concurrent associations.  One scenario per process (the race detector's verdict and Go's
// "concurrent map writes" abort are process-level observations): N associations, each with its own
// goroutine streaming PFCP requests (built by tools/pfcp.py, passed in as hex) with randomised pacing, all
// sharing one upf: one IP pool, one TEID generator, one datapath.
//
// worlds: "bess"  PFCPConn literals + real bess plug-in + the recording BESS server of the L1 harness
//         "up4"   PFCPConn literals + real UP4 plug-in + the fake P4Runtime server (vp4)
//         "node"  real PFCPNode / NewPFCPConn / Serve over loopback UDP + real bess plug-in
//
// The scenario runs in phases with a barrier after each; after every phase the harness dumps the datapath
// tables, every association's session store and the shared pools.  Nothing is judged here.
package pfcpiface

import (
	"context"
	"encoding/binary"
	"encoding/hex"
	"encoding/json"
	"fmt"
	"math/rand"
	"net"
	"runtime"
	"runtime/debug"
	"sort"
	"strings"
	"sync"
	"sync/atomic"
	"time"

	reuse "github.com/libp2p/go-reuseport"
	"github.com/omec-project/upf-epc/logger"
	"github.com/wmnsk/go-pfcp/message"
	"go.uber.org/zap/zapcore"
)

type c11Event struct {
	Hex   string   `json:"hex"`
	Draws []uint64 `json:"draws"`
	Sess  int      `json:"sess"` // >= 0: the request addresses the association's k-th session (node world: SEID patched in)
}

type c11Conn struct {
	ID     int          `json:"id"`
	Phases [][]c11Event `json:"phases"`
}

type c11In struct {
	World      string           `json:"world"`
	Cfg        l1Cfg            `json:"cfg"`
	Seed       int64            `json:"seed"`
	MaxPauseUs int              `json:"max_pause_us"`
	Conns      []c11Conn        `json:"conns"`
	Reports    bool             `json:"reports"` // an extra goroutine delivers digest reports for unknown sessions
	Ddn        []uint32         `json:"ddn"`     // up4: UE addresses for which digests are injected while requests run
	Sizes      map[string]int64 `json:"sizes"`   // up4: P4Info size overrides
	WatchdogS  int              `json:"watchdog_s"`
	Storm      []string         `json:"storm"` // node world: one Association Setup Request (hex) per NEW peer, all sent at about the same time
	SerialPhases []int          `json:"serial_phases"` // phases in which the associations take turns (one finishes before the next starts)
	DropConnMs []int            `json:"drop_conn_ms"` // up4: close the plug-in's P4Runtime connection at these times (ms after start)
	Script     []c11Step        `json:"script"`       // a fixed choreography instead of free-running phases
}

// c11Step: one step of a choreographed scenario (up4 world: the P4Runtime server can hold Writes back)
//
//	run       events of one association, in this goroutine
//	start     events of one association in a goroutine called Name
//	hold      arm the server: Write RPCs with an update of Table / Type are held (Count of them, at most MaxMs each)
//	wait_held wait until N Writes have been caught by holds (at most Ms)
//	wait_done wait until goroutine Name has finished (at most Ms; going on without it is not an error)
//	release   let the held Writes go on
//	join      wait for every started goroutine
//	snap      dump datapath, stores and pools
type c11Step struct {
	Op     string     `json:"op"`
	Conn   int        `json:"conn"`
	Events []c11Event `json:"events"`
	Name   string     `json:"name"`
	Table  string     `json:"table"`
	Type   string     `json:"type"`
	Count  int        `json:"count"`
	MaxMs  int        `json:"max_ms"`
	N      int        `json:"n"`
	Ms     int        `json:"ms"`
}

type c11World struct {
	in    c11In
	w     *l1World
	srv4  *vp4Server
	up4   *UP4
	node  *PFCPNode
	peers map[int]*net.UDPConn
	init4 map[string]int
	mu    sync.Mutex
	lseid map[int][]uint64
}

func c11Frame(st string) (string, string) {
	frame, fn, prev := "", "", ""
	for _, l := range strings.Split(st, "\n") {
		if strings.Contains(l, "/pfcpiface/") && strings.HasPrefix(l, "\t") && !strings.Contains(l, "verif_") {
			frame = strings.TrimSpace(l)
			fn = prev
			break
		}
		prev = l
	}
	if k := strings.LastIndex(fn, "("); k > 0 {
		fn = fn[:k]
	}
	if k := strings.LastIndex(fn, "."); k >= 0 {
		fn = fn[k+1:]
	}
	return frame, fn
}

func c11NewWorld(in c11In) (*c11World, error) {
	cw := &c11World{in: in, peers: map[int]*net.UDPConn{}, lseid: map[int][]uint64{}}
	switch in.World {
	case "bess", "node":
		w, err := l1NewWorld(in.Cfg)
		if err != nil {
			return nil, err
		}
		cw.w = w
	case "up4":
		srv, err := vp4Start(vp4Opts{Sizes: in.Sizes})
		if err != nil {
			return nil, err
		}
		up4, u, err := vp4NewUP4(srv, vp4UP4Opts{AccessIP: in.Cfg.AccessIP + "/32", UEIPPool: in.Cfg.Pool, SliceID: 1, DefaultTC: 2,
			EnableEndMarker: in.Cfg.EndMarker, WaitMs: 30000})
		if err != nil {
			return nil, err
		}
		u.n4addr = in.Cfg.N4Addr
		u.nodeID = in.Cfg.NodeID
		u.dnn = in.Cfg.Dnn
		u.enableUeIPAlloc = in.Cfg.UeIPAlloc
		if in.Cfg.UeIPAlloc {
			p, err := NewIPPool(in.Cfg.Pool)
			if err != nil {
				return nil, err
			}
			u.ippool = p
		}
		cw.srv4, cw.up4 = srv, up4
		cw.w = &l1World{cfg: in.Cfg, intern: &l1Intern{ids: map[string]int{}}, u: u, sink: &l1Metrics{},
			conns: map[int]*PFCPConn{}, ncs: map[int]*l1NetConn{}, srcs: map[int]*l1Source{}, done: make(chan string, 1000)}
		cw.init4 = cw.up4Pools()
	default:
		return nil, fmt.Errorf("unknown world %q", in.World)
	}
	// timing only: a loaded machine must not turn a slow RPC or a paused peer into a lost write / a torn-down association
	Timeout = 60 * time.Second
	cw.w.u.readTimeout = 30 * time.Minute
	cw.w.u.respTimeout = 5 * time.Minute
	if in.World == "node" {
		sock, err := reuse.ListenPacket("udp", "127.0.0.1:0")
		if err != nil {
			return nil, err
		}
		ctx, cancel := context.WithCancel(context.Background())
		cw.node = &PFCPNode{ctx: ctx, cancel: cancel, PacketConn: sock, done: make(chan struct{}),
			pConnDone: make(chan string, 100), newPeersDone: make(chan struct{}), upf: cw.w.u, metrics: cw.w.sink}
		go cw.node.Serve()
		for _, c := range in.Conns {
			pc, err := net.DialUDP("udp", &net.UDPAddr{IP: net.IPv4(127, 0, 0, 1)}, sock.LocalAddr().(*net.UDPAddr))
			if err != nil {
				return nil, err
			}
			cw.peers[c.ID] = pc
		}
	} else {
		for _, c := range in.Conns {
			cw.w.conn(c.ID) // create the PFCPConn literals before any goroutine runs
		}
	}
	return cw, nil
}

func (cw *c11World) up4Pools() map[string]int {
	u := cw.up4
	u.tunnelPeerMu.Lock()
	tp, tpp := len(u.tunnelPeerIDs), len(u.tunnelPeerIDsPool)
	u.tunnelPeerMu.Unlock()
	u.applicationMu.Lock()
	ap, app := len(u.applicationIDs), len(u.applicationIDsPool)
	u.applicationMu.Unlock()
	return map[string]int{
		"tunnel_peers": tp, "tunnel_peer_pool": tpp, "applications": ap, "application_pool": app,
		"app_meter_pool": u.appMeterCellIDsPool.Cardinality(), "sess_meter_pool": u.sessMeterCellIDsPool.Cardinality(),
		"counter_pool": u.counters[preQosCounterID].counterIDsPool.Cardinality(),
		"meters": len(u.meters), "ue_to_fseid": len(u.ueAddrToFSEID), "fseid_to_ue": len(u.fseidToUEAddr),
	}
}

// storm: many new peers send their first datagram at about the same time.  Every peer has its own socket and its own
// sequence number; it waits 3 s for answers and reports how many answers to its own request and how many answers to
// somebody else's request it received.
func (cw *c11World) storm(msgs []string) map[string]interface{} {
	type res struct{ own, foreign int }
	out := make([]res, len(msgs))
	socks := make([]*net.UDPConn, len(msgs))
	raws := make([][]byte, len(msgs))
	for i, h := range msgs {
		raws[i], _ = hex.DecodeString(h)
		pc, err := net.DialUDP("udp", &net.UDPAddr{IP: net.IPv4(127, 0, 0, 1)}, cw.node.LocalAddr().(*net.UDPAddr))
		if err != nil {
			return map[string]interface{}{"err": err.Error()}
		}
		socks[i] = pc
	}
	var wg sync.WaitGroup
	start := make(chan struct{})
	for i := range msgs {
		wg.Add(1)
		go func(i int) {
			defer wg.Done()
			<-start
			time.Sleep(time.Duration(i%16) * 40 * time.Microsecond)
			_, wantSeq := c11Expect(raws[i])
			if _, err := socks[i].Write(raws[i]); err != nil {
				return
			}
			buf := make([]byte, 4096)
			deadline := time.Now().Add(3 * time.Second)
			for {
				_ = socks[i].SetReadDeadline(deadline)
				n, err := socks[i].Read(buf)
				if err != nil {
					return
				}
				if _, gs := c11Header(buf[:n]); gs == wantSeq {
					out[i].own++
				} else {
					out[i].foreign++
				}
			}
		}(i)
	}
	close(start)
	wg.Wait()
	own, none, foreign, dup := 0, 0, 0, 0
	for _, r := range out {
		if r.own == 0 {
			none++
		} else {
			own++
		}
		if r.own > 1 {
			dup++
		}
		foreign += r.foreign
	}
	conns := 0
	cw.node.pConns.Range(func(k, v interface{}) bool { conns++; return true })
	return map[string]interface{}{"peers": len(msgs), "answered": own, "unanswered": none, "foreign_answers": foreign, "duplicates": dup, "node_conns": conns}
}

// c11Header: message type and sequence number of a PFCP datagram (-1 when too short)
func c11Header(b []byte) (int, int) {
	if len(b) < 8 {
		return -1, -1
	}
	off := 4
	if b[0]&1 == 1 {
		off = 12
	}
	if len(b) < off+3 {
		return int(b[1]), -1
	}
	return int(b[1]), int(b[off])<<16 | int(b[off+1])<<8 | int(b[off+2])
}

// c11Expect: type and sequence number of the response that answers the request
func c11Expect(req []byte) (int, int) {
	t, s := c11Header(req)
	return t + 1, s
}

// one request of one association; returns the observation
func (cw *c11World) do(id int, ev c11Event) map[string]interface{} {
	obs := map[string]interface{}{}
	raw, err := hex.DecodeString(ev.Hex)
	if err != nil {
		obs["bad_hex"] = true
		return obs
	}
	outs := [][]byte{}
	if cw.in.World == "node" {
		if ev.Sess >= 0 && len(raw) >= 12 && raw[0]&1 == 1 {
			cw.mu.Lock()
			l := cw.lseid[id]
			cw.mu.Unlock()
			if ev.Sess < len(l) {
				binary.BigEndian.PutUint64(raw[4:12], l[ev.Sess])
			} else {
				obs["no_seid"] = true
			}
		}
		pc := cw.peers[id]
		if _, err := pc.Write(raw); err != nil {
			obs["write_err"] = err.Error()
			return obs
		}
		// the answer to THIS request: same sequence number, the request's response type; anything else that arrives
		// (an answer the agent sent for another datagram) is counted and put aside.  The request is never sent twice.
		wantType, wantSeq := c11Expect(raw)
		buf := make([]byte, 65535)
		deadline := time.Now().Add(120 * time.Second)
		strays := 0
		for {
			_ = pc.SetReadDeadline(deadline)
			n, err := pc.Read(buf)
			if err != nil {
				obs["blocked"] = true
				obs["read_err"] = err.Error()
				break
			}
			gt, gs := c11Header(buf[:n])
			if gt == wantType && gs == wantSeq {
				outs = append(outs, append([]byte{}, buf[:n]...))
				break
			}
			strays++
		}
		if strays > 0 {
			obs["strays"] = strays
		}
	} else {
		c := cw.w.conns[id]
		src := cw.w.srcs[id]
		src.queue = append([]uint64{}, ev.Draws...)
		func() {
			defer func() {
				if r := recover(); r != nil {
					frame, fn := c11Frame(string(debug.Stack()))
					obs["panic"] = fmt.Sprint(r)
					obs["frame"] = frame
					obs["func"] = fn
				}
			}()
			c.HandlePFCPMsg(raw)
		}()
		src.queue = nil
		src.drawn = nil
		outs = cw.w.ncs[id].take()
	}
	l := []interface{}{}
	for _, o := range outs {
		d := l1Decode(o)
		l = append(l, d)
		if m, err := message.Parse(o); err == nil {
			if r, ok := m.(*message.SessionEstablishmentResponse); ok && r.UPFSEID != nil {
				if f, err := r.UPFSEID.FSEID(); err == nil {
					if c, err := r.Cause.Cause(); err == nil && c == 1 {
						cw.mu.Lock()
						cw.lseid[id] = append(cw.lseid[id], f.SEID)
						cw.mu.Unlock()
					}
				}
			}
		}
	}
	if len(l) > 0 {
		obs["replies"] = map[string]interface{}{fmt.Sprint(id): l}
	} else {
		obs["replies"] = map[string]interface{}{}
	}
	return obs
}

func (cw *c11World) snapshot(final bool) map[string]interface{} {
	s := map[string]interface{}{}
	w := cw.w
	if cw.in.World == "node" {
		// the node's connections, by peer
		w.conns = map[int]*PFCPConn{}
		for id, pc := range cw.peers {
			if v, ok := cw.node.pConns.Load(pc.LocalAddr().String()); ok {
				w.conns[id] = v.(*PFCPConn)
			}
		}
		s["node_conns"] = len(w.conns)
	}
	s["store"] = w.dumpStore()
	s["pools"] = w.dumpPools()
	if cw.in.World == "up4" {
		s["up4_tables"] = cw.srv4.Tables()
		s["up4_meters"] = cw.srv4.Meters()
		s["up4_pools"] = cw.up4Pools()
		s["up4_pools_init"] = cw.init4
	} else {
		s["tables"] = w.srv.snapshot()
		w.srv.mu.Lock()
		lg := append([]l1Cmd(nil), w.srv.log...)
		w.srv.mu.Unlock()
		s["log_len"] = len(lg)
		if final {
			s["log"] = lg // arrival order at the server, since start-up
		}
	}
	return s
}

func (cw *c11World) runScript(steps []c11Step, record func(int, map[string]interface{}), snaps *[]interface{}) []interface{} {
	trace := []interface{}{}
	done := map[string]chan struct{}{}
	var wg sync.WaitGroup
	play := func(id int, evs []c11Event, step int) {
		for _, ev := range evs {
			t0 := time.Now()
			o := cw.do(id, ev)
			o["ms"] = time.Since(t0).Milliseconds()
			o["phase"] = step
			record(id, o)
			if _, dead := o["panic"]; dead {
				return
			}
		}
	}
	for i, st := range steps {
		t := map[string]interface{}{"step": i, "op": st.Op}
		switch st.Op {
		case "run":
			play(st.Conn, st.Events, i)
		case "start":
			ch := make(chan struct{})
			done[st.Name] = ch
			wg.Add(1)
			go func(st c11Step, i int) {
				defer wg.Done()
				defer close(ch)
				play(st.Conn, st.Events, i)
			}(st, i)
		case "hold":
			if cw.srv4 != nil {
				cw.srv4.HoldWrites(vp4Hold{Table: st.Table, Type: st.Type, Count: st.Count, MaxMs: st.MaxMs})
			}
		case "wait_held":
			if cw.srv4 != nil {
				t["held"] = cw.srv4.WaitHeld(st.N, st.Ms)
			}
		case "wait_done":
			select {
			case <-done[st.Name]:
				t["finished"] = true
			case <-time.After(time.Duration(st.Ms) * time.Millisecond):
				t["finished"] = false
			}
		case "release":
			if cw.srv4 != nil {
				t["held_total"] = cw.srv4.HeldTotal()
				cw.srv4.ReleaseHolds()
			}
		case "join":
			fin := make(chan struct{})
			go func() { wg.Wait(); close(fin) }()
			select {
			case <-fin:
			case <-time.After(120 * time.Second):
				t["hung"] = true
			}
		case "snap":
			*snaps = append(*snaps, cw.snapshot(false))
		}
		trace = append(trace, t)
	}
	return trace
}

func c11Run(in c11In) (interface{}, error) {
	// the logger serialises its writers: every Info line is a lock hand-over between goroutines, i.e. an
	// incidental happens-before edge that hides races from the detector (and costs time)
	logger.SetLogLevel(zapcore.ErrorLevel)
	cw, err := c11NewWorld(in)
	if err != nil {
		return map[string]interface{}{"world_err": err.Error()}, nil
	}
	nph := 0
	for _, c := range in.Conns {
		if len(c.Phases) > nph {
			nph = len(c.Phases)
		}
	}
	obs := map[int][]map[string]interface{}{}
	var omu sync.Mutex
	snaps := []interface{}{}
	out := map[string]interface{}{}
	wd := time.Duration(in.WatchdogS) * time.Second
	if wd == 0 {
		wd = 240 * time.Second
	}
	deadline := time.After(wd)
	var stop int32
	var bg sync.WaitGroup
	if in.Reports && in.World != "node" {
		bg.Add(1)
		go func() {
			defer bg.Done()
			r := rand.New(rand.NewSource(in.Seed ^ 0x5eed))
			for atomic.LoadInt32(&stop) == 0 {
				c := cw.w.conns[in.Conns[r.Intn(len(in.Conns))].ID]
				// the node goroutine delivers datapath reports into a connection; an unknown F-SEID only looks the session up
				c.handleDigestReport(0xdead000000000000 + uint64(r.Intn(1000)))
				time.Sleep(time.Duration(50+r.Intn(400)) * time.Microsecond)
			}
		}()
	}
	if len(in.Ddn) > 0 && cw.srv4 != nil {
		bg.Add(1)
		go func() {
			defer bg.Done()
			r := rand.New(rand.NewSource(in.Seed ^ 0xdd))
			for atomic.LoadInt32(&stop) == 0 {
				cw.srv4.InjectDDN(in.Ddn[r.Intn(len(in.Ddn))])
				time.Sleep(time.Duration(100+r.Intn(900)) * time.Microsecond)
			}
		}()
	}
	if len(in.DropConnMs) > 0 && cw.up4 != nil {
		// the datapath connection is lost while requests are in flight: the next SendMsgToUPF re-connects
		// (UP4.tryConnect -> setupChannel / initialize) while other associations are inside their own requests
		bg.Add(1)
		go func() {
			defer bg.Done()
			t0 := time.Now()
			for _, ms := range in.DropConnMs {
				for time.Since(t0) < time.Duration(ms)*time.Millisecond && atomic.LoadInt32(&stop) == 0 {
					time.Sleep(200 * time.Microsecond)
				}
				if atomic.LoadInt32(&stop) != 0 {
					return
				}
				cw.up4.tryConnectMu.Lock() // the harness reads p4client the way the plug-in's own re-connection does
				c := cw.up4.p4client
				cw.up4.tryConnectMu.Unlock()
				if c != nil && c.conn != nil {
					_ = c.conn.Close()
				}
			}
		}()
	}
	if len(in.Script) > 0 {
		record := func(id int, o map[string]interface{}) {
			omu.Lock()
			obs[id] = append(obs[id], o)
			omu.Unlock()
		}
		trace := cw.runScript(in.Script, record, &snaps)
		out["script_trace"] = trace
		nph = 0
	}
	var turn sync.Mutex
	if len(in.Storm) > 0 && cw.node != nil {
		out["storm"] = cw.storm(in.Storm)
		nph = 0
	}
	hung := false
phases:
	for ph := 0; ph < nph; ph++ {
		var wg sync.WaitGroup
		for ci := range in.Conns {
			c := in.Conns[ci]
			if ph >= len(c.Phases) {
				continue
			}
			serial := false
			for _, sp := range in.SerialPhases {
				if sp == ph {
					serial = true
				}
			}
			wg.Add(1)
			go func(c c11Conn, evs []c11Event) {
				defer wg.Done()
				if serial {
					turn.Lock()
					defer turn.Unlock()
				}
				r := rand.New(rand.NewSource(in.Seed + int64(c.ID)*7919 + int64(ph)))
				for _, ev := range evs {
					if in.MaxPauseUs > 0 {
						p := r.Intn(in.MaxPauseUs + 1)
						if r.Intn(10) == 0 {
							p *= 8
						}
						if p > 0 {
							time.Sleep(time.Duration(p) * time.Microsecond)
						} else {
							runtime.Gosched()
						}
					}
					t0 := time.Now()
					o := cw.do(c.ID, ev)
					o["ms"] = time.Since(t0).Milliseconds()
					o["phase"] = ph
					omu.Lock()
					obs[c.ID] = append(obs[c.ID], o)
					omu.Unlock()
					if _, dead := o["panic"]; dead {
						return
					}
					if _, dead := o["blocked"]; dead {
						return
					}
				}
			}(c, c.Phases[ph])
		}
		fin := make(chan struct{})
		go func() { wg.Wait(); close(fin) }()
		select {
		case <-fin:
		case <-deadline:
			hung = true
			buf := make([]byte, 1<<20)
			n := runtime.Stack(buf, true)
			out["hung"] = fmt.Sprintf("phase %d did not finish within %v", ph, wd)
			out["goroutines"] = string(buf[:n])
			break phases
		}
		snaps = append(snaps, cw.snapshot(ph == nph-1))
	}
	atomic.StoreInt32(&stop, 1)
	if !hung {
		bg.Wait()
	}
	cs := []interface{}{}
	ids := []int{}
	for _, c := range in.Conns {
		ids = append(ids, c.ID)
	}
	sort.Ints(ids)
	omu.Lock()
	for _, id := range ids {
		o := obs[id]
		if o == nil {
			o = []map[string]interface{}{}
		}
		cs = append(cs, map[string]interface{}{"id": id, "obs": o})
	}
	omu.Unlock()
	out["conns"] = cs
	out["snaps"] = snaps
	ls := map[string][]uint64{}
	cw.mu.Lock()
	for id, l := range cw.lseid {
		ls[fmt.Sprint(id)] = append([]uint64{}, l...)
	}
	cw.mu.Unlock()
	out["lseids"] = ls
	return out, nil
}

func init() {
	verifRegister("c11", func(raw json.RawMessage) (interface{}, error) {
		var in c11In
		if err := json.Unmarshal(raw, &in); err != nil {
			return nil, err
		}
		return c11Run(in)
	})
}
