//go:build verif

package pfcpiface

import (
	"bytes"
	"encoding/base64"
	"encoding/json"
	"errors"
	"fmt"
	"io"
	"net"
	"os"
	"regexp"
	"sort"
	"time"

	"go.uber.org/zap/zapcore"
)

// C18: LoadConfigFile on one document.
//
// in : {"doc": <base64 of the file content>}            the document is written to a temp file
//
//	{"path": <file>}                                 a shipped sample is loaded from its own path
//
// out: stripped  base64 of removeComments(doc) (the real function of config.go)
//
//	tree      the stripped text as encoding/json reads it (ordered pairs, duplicate keys kept,
//	          number literals kept as text), absent when it is not valid JSON
//	err       {kind, site, msg} when LoadConfigFile failed, else conf = the fields C18 talks about
//	oracle    answers of time.ParseDuration / net.ParseCIDR / net.ParseIP / zapcore.Level.UnmarshalText
//	          on every string value of the tree and of the returned configuration
type c18In struct {
	Doc  string `json:"doc"`
	Path string `json:"path"`
}

type c18Conf struct {
	Mode          string   `json:"mode"`
	EnableP4rt    bool     `json:"enable_p4rt"`
	AccessIP      string   `json:"access_ip"`
	DefaultTC     uint8    `json:"default_tc"`
	Peers         []string `json:"peers"`
	EnableUeAlloc bool     `json:"enable_ue_ip_alloc"`
	UEIPPool      string   `json:"ue_ip_pool"`
	ReadTimeout   uint32   `json:"read_timeout"`
	LogLevel      int      `json:"log_level"`
	MaxReqRetries uint8    `json:"max_req_retries"`
	RespTimeout   string   `json:"resp_timeout"`
	EnableHB      bool     `json:"enable_hb"`
	HBInterval    string   `json:"hb_interval"`
}

type c18Err struct {
	Kind string `json:"kind"` // syntax | type | text | valid | hb | io | other
	Site string `json:"site,omitempty"`
	Msg  string `json:"msg"`
}

type c18Oracle struct {
	Dur   bool `json:"dur"`
	Cidr  bool `json:"cidr"`
	IP    bool `json:"ip"`
	Level *int `json:"level"`
}

type c18Out struct {
	Stripped string               `json:"stripped"`
	Tree     interface{}          `json:"tree,omitempty"`
	Err      *c18Err              `json:"err,omitempty"`
	Conf     *c18Conf             `json:"conf,omitempty"`
	ErrConf  bool                 `json:"err_conf_zero"`
	Oracle   map[string]c18Oracle `json:"oracle"`
	Doc      string               `json:"doc,omitempty"` // only for path inputs: content read
}

var c18SiteRe = regexp.MustCompile(`invalid argument '([^']*)'`)

func c18Classify(err error) *c18Err {
	e := &c18Err{Msg: err.Error(), Kind: "other"}
	var se *json.SyntaxError
	var te *json.UnmarshalTypeError
	var pe *net.ParseError
	var fe *os.PathError
	switch {
	case errors.As(err, &se):
		e.Kind = "syntax"
	case errors.As(err, &te):
		e.Kind = "type"
	case errors.As(err, &pe):
		e.Kind = "text"
	case errors.As(err, &fe):
		e.Kind = "io"
	case errors.Is(err, errInvalidArgument):
		e.Kind = "valid"
		if m := c18SiteRe.FindStringSubmatch(e.Msg); m != nil {
			e.Site = m[1]
		}
	case len(e.Msg) >= 19 && e.Msg[:19] == "unrecognized level:":
		e.Kind = "text"
	case len(e.Msg) >= 5 && e.Msg[:5] == "time:":
		e.Kind = "hb"
	case err == io.ErrUnexpectedEOF || e.Msg == "unexpected end of JSON input":
		e.Kind = "syntax"
	}
	return e
}

func c18Value(dec *json.Decoder, strs map[string]struct{}) (interface{}, error) {
	tok, err := dec.Token()
	if err != nil {
		return nil, err
	}
	switch t := tok.(type) {
	case json.Delim:
		if t == '{' {
			pairs := []interface{}{}
			for dec.More() {
				k, err := dec.Token()
				if err != nil {
					return nil, err
				}
				ks, ok := k.(string)
				if !ok {
					return nil, fmt.Errorf("non-string key")
				}
				v, err := c18Value(dec, strs)
				if err != nil {
					return nil, err
				}
				pairs = append(pairs, []interface{}{ks, v})
			}
			if _, err := dec.Token(); err != nil {
				return nil, err
			}
			return []interface{}{"o", pairs}, nil
		}
		if t == '[' {
			items := []interface{}{}
			for dec.More() {
				v, err := c18Value(dec, strs)
				if err != nil {
					return nil, err
				}
				items = append(items, v)
			}
			if _, err := dec.Token(); err != nil {
				return nil, err
			}
			return []interface{}{"a", items}, nil
		}
		return nil, fmt.Errorf("unexpected delimiter %v", t)
	case string:
		strs[t] = struct{}{}
		return []interface{}{"s", t}, nil
	case json.Number:
		return []interface{}{"n", string(t)}, nil
	case bool:
		return []interface{}{"b", t}, nil
	case nil:
		return []interface{}{"z"}, nil
	}
	return nil, fmt.Errorf("unexpected token %v", tok)
}

func c18Tree(data []byte, strs map[string]struct{}) interface{} {
	if !json.Valid(data) {
		return nil
	}
	dec := json.NewDecoder(bytes.NewReader(data))
	dec.UseNumber()
	v, err := c18Value(dec, strs)
	if err != nil {
		return nil
	}
	return v
}

func c18Load(path string) (conf Conf, err error, pan interface{}) {
	defer func() {
		if r := recover(); r != nil {
			pan = r
		}
	}()
	conf, err = LoadConfigFile(path)
	return
}

func init() {
	verifRegister("c18", func(raw json.RawMessage) (interface{}, error) {
		var in c18In
		if err := json.Unmarshal(raw, &in); err != nil {
			return nil, err
		}
		var doc []byte
		var path string
		out := c18Out{Oracle: map[string]c18Oracle{}}
		if in.Path != "" {
			b, err := os.ReadFile(in.Path)
			if err != nil {
				return nil, err
			}
			doc = b
			path = in.Path
			out.Doc = base64.StdEncoding.EncodeToString(b)
		} else {
			b, err := base64.StdEncoding.DecodeString(in.Doc)
			if err != nil {
				return nil, err
			}
			doc = b
			f, err := os.CreateTemp(os.TempDir(), "verif-c18-*.jsonc")
			if err != nil {
				return nil, err
			}
			path = f.Name()
			defer os.Remove(path)
			if _, err := f.Write(doc); err != nil {
				f.Close()
				return nil, err
			}
			if err := f.Close(); err != nil {
				return nil, err
			}
		}
		stripped := removeComments(string(doc))
		out.Stripped = base64.StdEncoding.EncodeToString([]byte(stripped))
		strs := map[string]struct{}{}
		out.Tree = c18Tree([]byte(stripped), strs)

		conf, err, pan := c18Load(path)
		if pan != nil {
			return map[string]interface{}{"panic": fmt.Sprint(pan), "stripped": out.Stripped}, nil
		}
		if err != nil {
			out.Err = c18Classify(err)
			out.ErrConf = fmt.Sprintf("%+v", conf) == fmt.Sprintf("%+v", Conf{})
		} else {
			peers := append([]string{}, conf.CPIface.Peers...)
			out.Conf = &c18Conf{
				Mode: conf.Mode, EnableP4rt: conf.EnableP4rt, AccessIP: conf.P4rtcIface.AccessIP,
				DefaultTC: conf.P4rtcIface.DefaultTC, Peers: peers,
				EnableUeAlloc: conf.CPIface.EnableUeIPAlloc, UEIPPool: conf.CPIface.UEIPPool,
				ReadTimeout: conf.ReadTimeout, LogLevel: int(conf.LogLevel), MaxReqRetries: conf.MaxReqRetries,
				RespTimeout: conf.RespTimeout, EnableHB: conf.EnableHBTimer, HBInterval: conf.HeartBeatInterval,
			}
			for _, s := range peers {
				strs[s] = struct{}{}
			}
			for _, s := range []string{conf.Mode, conf.P4rtcIface.AccessIP, conf.CPIface.UEIPPool, conf.RespTimeout, conf.HeartBeatInterval} {
				strs[s] = struct{}{}
			}
		}
		strs[""] = struct{}{}
		strs["2s"] = struct{}{}
		strs["5s"] = struct{}{}
		keys := make([]string, 0, len(strs))
		for s := range strs {
			keys = append(keys, s)
		}
		sort.Strings(keys)
		for _, s := range keys {
			var o c18Oracle
			_, e1 := time.ParseDuration(s)
			o.Dur = e1 == nil
			_, _, e2 := net.ParseCIDR(s)
			o.Cidr = e2 == nil
			o.IP = net.ParseIP(s) != nil
			var l zapcore.Level
			if l.UnmarshalText([]byte(s)) == nil {
				v := int(l)
				o.Level = &v
			}
			out.Oracle[s] = o
		}
		return out, nil
	})

	// removeComments alone on a batch of texts (exhaustive small-alphabet sweep of the stripper).
	verifRegister("c18s", func(raw json.RawMessage) (interface{}, error) {
		var in struct {
			Docs []string `json:"docs"`
		}
		if err := json.Unmarshal(raw, &in); err != nil {
			return nil, err
		}
		out := make([]string, 0, len(in.Docs))
		for _, d := range in.Docs {
			b, err := base64.StdEncoding.DecodeString(d)
			if err != nil {
				return nil, err
			}
			out = append(out, base64.StdEncoding.EncodeToString([]byte(removeComments(string(b)))))
		}
		return map[string]interface{}{"stripped": out}, nil
	})
}
