//go:build verif

// Node-level leg shared by C06, C10 and C12 (mode "nl"): a real PFCPNode (NewPFCPNode, handleNewPeers,
// NewPFCPConn, PFCPConn.Serve) on a private loopback address, real UDP peers driven by a script, a recording
// datapath that accepts everything.  One scenario per process (tools/props/nlrun.py).  Self-contained: every
// identifier starts with nl.
package pfcpiface

import (
	"encoding/json"
	"errors"
	"fmt"
	"net"
	"sort"
	"strconv"
	"sync"
	"sync/atomic"
	"time"

	"github.com/omec-project/upf-epc/pfcpiface/metrics"
	"github.com/prometheus/client_golang/prometheus"
	"github.com/wmnsk/go-pfcp/ie"
	"github.com/wmnsk/go-pfcp/message"
)

type nlStep struct {
	Op    string   `json:"op"`
	P     int      `json:"p"`    // peer
	K     int      `json:"k"`    // session index of that peer
	Ms    int      `json:"ms"`   // wait limit
	Chv4  bool     `json:"chv4"` // establishment: ask the UPF to choose the UE address
	Async bool     `json:"async,omitempty"`
	Burst []nlStep `json:"burst,omitempty"` // sent back to back without waiting for the responses
}

type nlScenario struct {
	Addr          string   `json:"addr"`
	Peers         int      `json:"peers"`
	Pool          string   `json:"pool"`
	Hb            bool     `json:"hb"`
	ReadTimeoutMs int      `json:"read_timeout_ms"`
	RespTimeoutMs int      `json:"resp_timeout_ms"`
	HbIntervalMs  int      `json:"hb_interval_ms"`
	Retries       int      `json:"retries"`
	SlowDelMs     int      `json:"slow_del_ms"`
	SlowAddMs     int      `json:"slow_add_ms"`
	DeadlineMs    int      `json:"deadline_ms"`
	Steps         []nlStep `json:"steps"`
}

type nlResult struct {
	Op       string `json:"op"`
	P        int    `json:"p"`
	K        int    `json:"k"`
	Seq      uint32 `json:"seq"`
	Answered bool   `json:"answered"`
	Type     string `json:"type,omitempty"`
	SeqOK    bool   `json:"seq_ok"`
	Cause    int    `json:"cause"`
	UpSEID   string `json:"up_seid,omitempty"`
	UeIP     string `json:"ue_ip,omitempty"`
	HasTS    bool   `json:"has_ts"`
	Note     string `json:"note,omitempty"`
}

type nlObs struct {
	Results   []nlResult          `json:"results"`
	DpLog     map[string][]string `json:"dp_log"`    // F-SEID -> datapath commands in order (add, mod, del)
	Inventory map[string]string   `json:"inventory"` // UE IP pool: local SEID -> address
	FreeAddrs int                 `json:"free_addrs"`
	InMap     []bool              `json:"in_map"`    // peer still has a PFCPConn in node.pConns
	StoreLen  []int               `json:"store_len"` // sessions in that PFCPConn's store (-1: no conn)
	StopMs    int64               `json:"stop_ms"`
	Notes     []string            `json:"notes"`
}

// ---------------------------------------------------------------- datapath / metrics

type nlDatapath struct {
	mu      sync.Mutex
	log     map[uint64][]string
	slowDel time.Duration
	slowAdd time.Duration
	dels    int32
}

func (d *nlDatapath) Exit()                                                              {}
func (d *nlDatapath) SetUpfInfo(u *upf, conf *Conf)                                      {}
func (d *nlDatapath) AddSliceInfo(sliceInfo *SliceInfo) error                            { return nil }
func (d *nlDatapath) SendEndMarkers(l *[][]byte) error                                   { return nil }
func (d *nlDatapath) IsConnected(accessIP *net.IP) bool                                  { return true }
func (d *nlDatapath) SummaryLatencyJitter(uc *upfCollector, ch chan<- prometheus.Metric) {}
func (d *nlDatapath) PortStats(uc *upfCollector, ch chan<- prometheus.Metric)            {}
func (d *nlDatapath) SummaryGtpuLatency(uc *upfCollector, ch chan<- prometheus.Metric)   {}
func (d *nlDatapath) SessionStats(pc *PfcpNodeCollector, ch chan<- prometheus.Metric) error {
	return nil
}

func (d *nlDatapath) SendMsgToUPF(method upfMsgType, all PacketForwardingRules, newRules PacketForwardingRules) uint8 {
	var id uint64
	if len(all.pdrs) > 0 {
		id = all.pdrs[0].fseID
	} else if len(newRules.pdrs) > 0 {
		id = newRules.pdrs[0].fseID
	}
	switch method {
	case upfMsgTypeDel:
		atomic.AddInt32(&d.dels, 1)
		if d.slowDel > 0 {
			time.Sleep(d.slowDel)
		}
	case upfMsgTypeAdd:
		if d.slowAdd > 0 {
			time.Sleep(d.slowAdd)
		}
	}
	d.mu.Lock()
	d.log[id] = append(d.log[id], method.String())
	d.mu.Unlock()
	return ie.CauseRequestAccepted
}

type nlMetrics struct{}

func (nlMetrics) SaveMessages(m *metrics.Message) {}
func (nlMetrics) SaveSessions(s *metrics.Session) {}
func (nlMetrics) Stop() error                     { return nil }

// ---------------------------------------------------------------- peers

type nlPeer struct {
	idx   int
	conn  *net.UDPConn
	dst   *net.UDPAddr
	ip    string
	mu    sync.Mutex
	rsp   map[uint32]message.Message
	seids map[int]uint64 // session index -> UP F-SEID
	seq   uint32
	stop  int32
	ansHB int32
}

func (p *nlPeer) loop() {
	buf := make([]byte, 4096)
	for atomic.LoadInt32(&p.stop) == 0 {
		p.conn.SetReadDeadline(time.Now().Add(50 * time.Millisecond))
		n, _, err := p.conn.ReadFromUDP(buf)
		if err != nil {
			if errors.Is(err, net.ErrClosed) {
				return
			}
			continue
		}
		m, err := message.Parse(buf[:n])
		if err != nil {
			continue
		}
		if m.MessageType() == message.MsgTypeHeartbeatRequest {
			if atomic.LoadInt32(&p.ansHB) == 1 {
				rsp, _ := message.NewHeartbeatResponse(m.Sequence(), ie.NewRecoveryTimeStamp(time.Unix(1700000000, 0))).Marshal()
				p.conn.WriteToUDP(rsp, p.dst)
			}
			continue
		}
		p.mu.Lock()
		p.rsp[m.Sequence()] = m
		p.mu.Unlock()
	}
}

func (p *nlPeer) next() uint32 { return atomic.AddUint32(&p.seq, 1) }

func (p *nlPeer) get(seq uint32) message.Message {
	p.mu.Lock()
	defer p.mu.Unlock()
	return p.rsp[seq]
}

func nlMarshal(m message.Message) []byte {
	b := make([]byte, m.MarshalLen())
	if err := m.MarshalTo(b); err != nil {
		panic(err)
	}
	return b
}

// build the request of a step; returns nil for steps that send nothing
func (p *nlPeer) build(s nlStep, upfAddr string) (message.Message, uint32) {
	seq := p.next()
	switch s.Op {
	case "setup":
		return message.NewAssociationSetupRequest(seq, ie.NewNodeID(p.ip, "", ""),
			ie.NewRecoveryTimeStamp(time.Unix(1700000000, 0))), seq
	case "hb":
		return message.NewHeartbeatRequest(seq, ie.NewRecoveryTimeStamp(time.Unix(1700000000, 0)), nil), seq
	case "release":
		return message.NewAssociationReleaseRequest(seq, ie.NewNodeID(p.ip, "", "")), seq
	case "establish":
		cp := uint64(p.idx+1)*1000 + uint64(s.K) + 1
		var pdr *ie.IE
		if s.Chv4 {
			pdr = ie.NewCreatePDR(ie.NewPDRID(1), ie.NewPrecedence(100),
				ie.NewPDI(ie.NewSourceInterface(ie.SrcInterfaceCore), ie.NewUEIPAddress(0x10, "", "", 0, 0)),
				ie.NewFARID(1))
		} else {
			pdr = ie.NewCreatePDR(ie.NewPDRID(1), ie.NewPrecedence(100),
				ie.NewPDI(ie.NewSourceInterface(ie.SrcInterfaceAccess),
					ie.NewFTEID(0x01, uint32(0x1000+cp), net.ParseIP(upfAddr), nil, 0)),
				ie.NewOuterHeaderRemoval(0, 0), ie.NewFARID(1))
		}
		return message.NewSessionEstablishmentRequest(0, 0, 0, seq, 0,
			ie.NewNodeID(p.ip, "", ""), ie.NewFSEID(cp, net.ParseIP(p.ip), nil), pdr,
			ie.NewCreateFAR(ie.NewFARID(1), ie.NewApplyAction(0x02),
				ie.NewForwardingParameters(ie.NewDestinationInterface(ie.DstInterfaceCore)))), seq
	case "delete":
		return message.NewSessionDeletionRequest(0, 0, p.seids[s.K], seq, 0), seq
	case "modify":
		return message.NewSessionModificationRequest(0, 0, p.seids[s.K], seq, 0,
			ie.NewUpdateFAR(ie.NewFARID(1), ie.NewApplyAction(0x01))), seq
	}
	return nil, seq
}

func (p *nlPeer) result(s nlStep, seq uint32, limit time.Duration) nlResult {
	r := nlResult{Op: s.Op, P: s.P, K: s.K, Seq: seq, Cause: -1}
	dl := time.Now().Add(limit)
	var m message.Message
	for {
		if m = p.get(seq); m != nil || time.Now().After(dl) {
			break
		}
		time.Sleep(2 * time.Millisecond)
	}
	if m == nil {
		return r
	}
	r.Answered = true
	r.Type = m.MessageTypeName()
	r.SeqOK = m.Sequence() == seq
	switch x := m.(type) {
	case *message.HeartbeatResponse:
		r.HasTS = x.RecoveryTimeStamp != nil
	case *message.AssociationSetupResponse:
		if x.Cause != nil {
			c, _ := x.Cause.Cause()
			r.Cause = int(c)
		}
		r.HasTS = x.RecoveryTimeStamp != nil
	case *message.AssociationReleaseResponse:
		if x.Cause != nil {
			c, _ := x.Cause.Cause()
			r.Cause = int(c)
		}
	case *message.SessionEstablishmentResponse:
		if x.Cause != nil {
			c, _ := x.Cause.Cause()
			r.Cause = int(c)
		}
		if x.UPFSEID != nil {
			if f, err := x.UPFSEID.FSEID(); err == nil {
				r.UpSEID = strconv.FormatUint(f.SEID, 10)
				p.mu.Lock()
				p.seids[s.K] = f.SEID
				p.mu.Unlock()
			}
		}
		for _, cp := range x.CreatedPDR {
			if u, err := cp.UEIPAddress(); err == nil && u.IPv4Address != nil {
				r.UeIP = u.IPv4Address.String()
			}
		}
	case *message.SessionDeletionResponse:
		if x.Cause != nil {
			c, _ := x.Cause.Cause()
			r.Cause = int(c)
		}
	case *message.SessionModificationResponse:
		if x.Cause != nil {
			c, _ := x.Cause.Cause()
			r.Cause = int(c)
		}
	}
	return r
}

// ---------------------------------------------------------------- run

type nlRun struct {
	sc     nlScenario
	node   *PFCPNode
	dp     *nlDatapath
	peers  []*nlPeer
	mu     sync.Mutex
	res    []nlResult
	notes  []string
	stopMs int64
}

func (r *nlRun) note(f string, a ...interface{}) {
	r.mu.Lock()
	r.notes = append(r.notes, fmt.Sprintf(f, a...))
	r.mu.Unlock()
}

func nlDur(ms, def int) time.Duration {
	if ms <= 0 {
		ms = def
	}
	return time.Duration(ms) * time.Millisecond
}

func (r *nlRun) add(x nlResult) {
	r.mu.Lock()
	r.res = append(r.res, x)
	r.mu.Unlock()
}

func (r *nlRun) lookup(p *nlPeer) *PFCPConn {
	v, ok := r.node.pConns.Load(p.conn.LocalAddr().String())
	if !ok {
		return nil
	}
	return v.(*PFCPConn)
}

func (r *nlRun) step(s nlStep) {
	if s.Async {
		s.Async = false
		go r.step(s)
		return
	}
	var p *nlPeer
	if s.P >= 0 && s.P < len(r.peers) {
		p = r.peers[s.P]
	}
	switch s.Op {
	case "setup", "hb", "release", "establish", "delete", "modify":
		m, seq := p.build(s, r.sc.Addr)
		p.conn.WriteToUDP(nlMarshal(m), p.dst)
		r.add(p.result(s, seq, nlDur(s.Ms, 5000)))
	case "burst":
		type sent struct {
			s   nlStep
			seq uint32
		}
		var out []sent
		var bufs [][]byte
		for _, b := range s.Burst {
			bp := r.peers[b.P]
			m, seq := bp.build(b, r.sc.Addr)
			bufs = append(bufs, nlMarshal(m))
			out = append(out, sent{b, seq})
		}
		for i, b := range s.Burst {
			r.peers[b.P].conn.WriteToUDP(bufs[i], r.peers[b.P].dst)
		}
		dl := time.Now().Add(nlDur(s.Ms, 1500))
		for _, o := range out {
			left := time.Until(dl)
			if left < 0 {
				left = 0
			}
			r.add(r.peers[o.s.P].result(o.s, o.seq, left))
		}
	case "hb_stop_answering":
		atomic.StoreInt32(&p.ansHB, 0)
	case "wait_forgotten":
		dl := time.Now().Add(nlDur(s.Ms, 10000))
		for r.lookup(p) != nil && time.Now().Before(dl) {
			time.Sleep(2 * time.Millisecond)
		}
		if r.lookup(p) != nil {
			r.note("wait-failed:forgotten:%d", s.P)
		}
	case "wait_del": // until the datapath has received a delete command (a teardown is in progress)
		dl := time.Now().Add(nlDur(s.Ms, 10000))
		for atomic.LoadInt32(&r.dp.dels) == 0 && time.Now().Before(dl) {
			time.Sleep(time.Millisecond)
		}
		if atomic.LoadInt32(&r.dp.dels) == 0 {
			r.note("wait-failed:del")
		}
	case "stop":
		t0 := time.Now()
		ret := make(chan struct{})
		go func() { r.node.Stop(); r.node.Done(); close(ret) }()
		select {
		case <-ret:
			atomic.StoreInt64(&r.stopMs, time.Since(t0).Milliseconds())
		case <-time.After(nlDur(s.Ms, 10000)):
			r.note("stop-did-not-return")
		}
	case "wait_stopped":
		dl := time.Now().Add(nlDur(s.Ms, 10000))
		for atomic.LoadInt64(&r.stopMs) < 0 && time.Now().Before(dl) {
			time.Sleep(2 * time.Millisecond)
		}
	case "sleep":
		time.Sleep(nlDur(s.Ms, 10))
	default:
		r.note("unknown-op:%s", s.Op)
	}
}

func init() {
	verifRegister("nl", func(raw json.RawMessage) (interface{}, error) {
		var sc nlScenario
		if err := json.Unmarshal(raw, &sc); err != nil {
			return nil, err
		}
		dp := &nlDatapath{log: map[uint64][]string{}, slowDel: time.Duration(sc.SlowDelMs) * time.Millisecond,
			slowAdd: time.Duration(sc.SlowAddMs) * time.Millisecond}
		u := &upf{
			datapath:         dp,
			n4addr:           sc.Addr,
			accessIP:         net.ParseIP("198.18.0.1"),
			coreIP:           net.ParseIP("198.19.0.1"),
			reportNotifyChan: make(chan uint64, 1024),
			readTimeout:      nlDur(sc.ReadTimeoutMs, 3600*1000),
			respTimeout:      nlDur(sc.RespTimeoutMs, 2000),
			hbInterval:       nlDur(sc.HbIntervalMs, 50),
			maxReqRetries:    uint8(sc.Retries),
			enableHBTimer:    sc.Hb,
			fteidGenerator:   NewFTEIDGenerator(),
		}
		if sc.Pool != "" {
			pool, err := NewIPPool(sc.Pool)
			if err != nil {
				return nil, err
			}
			u.enableUeIPAlloc = true
			u.ippool = pool
		}
		r := &nlRun{sc: sc, dp: dp, stopMs: -1}
		r.node = NewPFCPNode(u)
		r.node.metrics = nlMetrics{}
		go r.node.Serve()
		dst := &net.UDPAddr{IP: net.ParseIP(sc.Addr), Port: 8805}
		for i := 0; i < sc.Peers; i++ {
			c, err := net.ListenUDP("udp", &net.UDPAddr{IP: net.ParseIP(sc.Addr), Port: 21000 + i})
			if err != nil {
				return nil, err
			}
			p := &nlPeer{idx: i, conn: c, dst: dst, ip: sc.Addr, rsp: map[uint32]message.Message{},
				seids: map[int]uint64{}, seq: uint32(i) * 100000, ansHB: 1}
			r.peers = append(r.peers, p)
			go p.loop()
		}
		finished := make(chan struct{})
		go func() {
			select {
			case <-finished:
			case <-time.After(nlDur(sc.DeadlineMs, 60000)):
				panic("nl: scenario watchdog expired")
			}
		}()
		defer close(finished)
		for _, s := range sc.Steps {
			r.step(s)
		}
		time.Sleep(50 * time.Millisecond)
		obs := nlObs{Results: r.res, DpLog: map[string][]string{}, Inventory: map[string]string{}, StopMs: atomic.LoadInt64(&r.stopMs)}
		dp.mu.Lock()
		for k, v := range dp.log {
			obs.DpLog[strconv.FormatUint(k, 10)] = append([]string(nil), v...)
		}
		dp.mu.Unlock()
		if u.ippool != nil {
			u.ippool.mu.Lock()
			for k, v := range u.ippool.inventory {
				obs.Inventory[strconv.FormatUint(k, 10)] = v.String()
			}
			obs.FreeAddrs = len(u.ippool.freePool)
			u.ippool.mu.Unlock()
		}
		for _, p := range r.peers {
			c := r.lookup(p)
			obs.InMap = append(obs.InMap, c != nil)
			if c != nil {
				obs.StoreLen = append(obs.StoreLen, len(c.store.GetAllSessions()))
			} else {
				obs.StoreLen = append(obs.StoreLen, -1)
			}
			atomic.StoreInt32(&p.stop, 1)
		}
		sort.Strings(r.notes)
		obs.Notes = r.notes
		return obs, nil
	})
}
