//go:build verif

// UP4 leg of the agent-level properties (C14 end markers, C05 reclamation, C01 liveness).
//
// An L1 world (see verif_l1_test.go: the real HandlePFCPMsg / Shutdown / handleDigestReport on PFCPConn struct
// literals, one event at a time) whose datapath is the REAL UP4 plug-in connected to the shared in-process
// P4Runtime server of verif_p4rt_test.go.  Nothing of /repo is changed:
//   - the plug-in sits behind a decorator of the `datapath` interface (c14Tap) that notes, in program order, every
//     SendMsgToUPF (method, returned cause, number of Write RPCs the switch had seen before / after) and every
//     SendEndMarkers (decoded packets handed over, number of Write RPCs seen at that moment);
//   - End Markers are observed where UP4 emits them: as PacketOut messages at the P4Runtime server, each stamped
//     with the number of Write RPCs the server had received when it arrived;
//   - Write faults are armed relative to the first Write RPC of the event (whole-RPC gRPC failure, or a p4.Error
//     list with the given per-update canonical codes);
//   - the handler runs under a watchdog: an event that does not return within 8 s is reported as blocked.
//
// mode "c14": {"cfg": {l1 cfg}, "up4": {"sizes":{..},"slice":..,"tc":..,"qfi_tc":[[q,tc]..],"peer_pool":n,"app_pool":n},
//              "events": [{"k":"msg","conn":0,"hex":"..","draws":[..],"faults":[{"at":1,"kind":"p4","code":5,"per":[0,5]}],"q":false}, ...]}
//          -> {"boot": snapshot, "obs": [per-event observation]}
package pfcpiface

import (
	"context"
	"encoding/hex"
	"encoding/json"
	"fmt"
	"math/rand"
	"net"
	"runtime/debug"
	"sort"
	"strings"
	"time"

	"google.golang.org/grpc/codes"
)

type c14Fault struct {
	At   int    `json:"at"`   // k-th Write RPC of the event (1-based)
	Kind string `json:"kind"` // grpc | p4
	Code int    `json:"code"` // grpc: status code; p4: canonical code of the updates not covered by Per
	Per  []int  `json:"per"`  // p4: canonical code per update
}

type c14Event struct {
	K      string     `json:"k"` // msg | report | teardown | reconnect
	Now    bool       `json:"now"` // reconnect: re-establish the channel at once (else the next request does it)
	Conn   int        `json:"conn"`
	Hex    string     `json:"hex"`
	Draws  []uint64   `json:"draws"`
	Fseid  uint64     `json:"fseid"`
	Quiet  bool       `json:"q"` // long histories: no dumps for this event
	Faults []c14Fault `json:"faults"`
}

type c14Up4Cfg struct {
	Sizes    map[string]int64 `json:"sizes"`
	Slice    uint8            `json:"slice"`
	TC       uint8            `json:"tc"`
	QfiTC    [][2]uint8       `json:"qfi_tc"`
	PeerPool int              `json:"peer_pool"` // > 0: shorten the tunnel-peer id queue to this many ids
	AppPool  int              `json:"app_pool"`  // > 0: shorten the application id queue
}

// c14DpCall is one call of the agent into the datapath interface.
type c14DpCall struct {
	K      string                   `json:"k"` // send | markers
	Method int                      `json:"m"`
	Cause  uint8                    `json:"cause"`
	W0     int                      `json:"w0"` // Write RPCs seen by the switch when the call started
	W1     int                      `json:"w1"` // ... when it returned (send only)
	Done   bool                     `json:"done"`
	Marks  []map[string]interface{} `json:"marks,omitempty"`
}

type c14Tap struct {
	*UP4
	w *c14World
}

func (t *c14Tap) SendMsgToUPF(method upfMsgType, all PacketForwardingRules, updated PacketForwardingRules) uint8 {
	i := len(t.w.dp)
	t.w.dp = append(t.w.dp, c14DpCall{K: "send", Method: int(method), W0: t.w.srv.WritesSeen()})
	cause := t.UP4.SendMsgToUPF(method, all, updated)
	t.w.dp[i].Cause, t.w.dp[i].W1, t.w.dp[i].Done = cause, t.w.srv.WritesSeen(), true

	return cause
}

func (t *c14Tap) SendEndMarkers(endMarkerList *[][]byte) error {
	c := c14DpCall{K: "markers", W0: t.w.srv.WritesSeen(), Marks: []map[string]interface{}{}}
	for _, m := range *endMarkerList {
		c.Marks = append(c.Marks, l1DecodeMarker(m))
	}

	i := len(t.w.dp)
	t.w.dp = append(t.w.dp, c)
	err := t.UP4.SendEndMarkers(endMarkerList) // blocks for ever on a nil channel
	t.w.dp[i].Done = true
	t.w.handed += len(*endMarkerList)

	return err
}

type c14World struct {
	intern *l1Intern
	cfg    l1Cfg
	ucfg   c14Up4Cfg
	srv    *vp4Server
	u      *upf
	up4    *UP4
	sink   *l1Metrics
	conns  map[int]*PFCPConn
	ncs    map[int]*l1NetConn
	srcs   map[int]*l1Source
	done   chan string
	dp     []c14DpCall
	handed int // End Markers handed to the plug-in so far
	pktAt  int // PacketOuts already reported
}

func c14NewWorld(cfg l1Cfg, ucfg c14Up4Cfg) (*c14World, error) {
	w := &c14World{cfg: cfg, ucfg: ucfg, intern: &l1Intern{ids: map[string]int{}}}

	// one server per world (PacketOuts and the Write count belong to this history only); never stopped: the UP4
	// objects of finished worlds stay connected and idle until the process ends (see verif_p4rt_test.go)
	srv, err := vp4Start(vp4Opts{Sizes: ucfg.Sizes})
	if err != nil {
		return nil, err
	}

	w.srv = srv

	pool := cfg.Pool
	if pool == "" {
		pool = "10.250.0.0/16"
	}

	*p4RtcServerIP = ""
	*p4RtcServerPort = ""

	qfiTC := map[uint8]uint8{}
	for _, kv := range ucfg.QfiTC {
		qfiTC[kv[0]] = kv[1]
	}

	conf := &Conf{
		EnableP4rt:      true,
		EnableEndMarker: cfg.EndMarker,
		CPIface:         CPIfaceInfo{UEIPPool: pool},
		P4rtcIface: P4rtcInfo{
			SliceID:     ucfg.Slice,
			AccessIP:    cfg.AccessIP + "/32",
			P4rtcServer: "127.0.0.1",
			P4rtcPort:   srv.Port(),
			QFIToTC:     qfiTC,
			DefaultTC:   ucfg.TC,
		},
	}

	up4 := &UP4{}
	u := &upf{
		enableUeIPAlloc:  cfg.UeIPAlloc,
		enableEndMarker:  cfg.EndMarker,
		ippoolCidr:       cfg.Pool,
		n4addr:           cfg.N4Addr,
		nodeID:           cfg.NodeID,
		dnn:              cfg.Dnn,
		reportNotifyChan: make(chan uint64, 1024),
		fteidGenerator:   NewFTEIDGenerator(),
		maxReqRetries:    5,
		respTimeout:      2 * time.Second,
		readTimeout:      15 * time.Second,
		enableHBTimer:    cfg.HbTimer,
		hbInterval:       time.Hour,
	}

	if cfg.UeIPAlloc {
		p, err := NewIPPool(cfg.Pool)
		if err != nil {
			return nil, err
		}

		u.ippool = p
	}

	u.datapath = &c14Tap{UP4: up4, w: w}
	up4.SetUpfInfo(u, conf)

	// (a start-up Read that times out on a loaded machine is retried by the plug-in after 10 s)
	deadline := time.Now().Add(25 * time.Second)
	for !u.isConnected() {
		if time.Now().After(deadline) {
			return nil, fmt.Errorf("c14: UP4 did not connect to %s", srv.Addr())
		}

		time.Sleep(2 * time.Millisecond)
	}

	if n := ucfg.PeerPool; n > 0 && n < len(up4.tunnelPeerIDsPool) {
		up4.tunnelPeerIDsPool = append([]uint8{}, up4.tunnelPeerIDsPool[:n]...)
	}

	if n := ucfg.AppPool; n > 0 && n < len(up4.applicationIDsPool) {
		up4.applicationIDsPool = append([]uint8{}, up4.applicationIDsPool[:n]...)
	}

	w.u, w.up4 = u, up4
	w.sink = &l1Metrics{}
	w.conns = map[int]*PFCPConn{}
	w.ncs = map[int]*l1NetConn{}
	w.srcs = map[int]*l1Source{}
	w.done = make(chan string, 1000)

	return w, nil
}

func (w *c14World) conn(i int) *PFCPConn {
	if c, ok := w.conns[i]; ok {
		return c
	}

	nc := &l1NetConn{
		local:  &net.UDPAddr{IP: net.ParseIP(w.cfg.N4Addr).To4(), Port: 8805},
		remote: &net.UDPAddr{IP: net.IPv4(10, 99, 0, byte(i+1)).To4(), Port: 8805},
	}
	src := &l1Source{next: uint64(i+1) * 1000000}
	c := &PFCPConn{
		ctx:            context.Background(),
		Conn:           nc,
		ts:             recoveryTS{local: l1Epoch},
		rng:            rand.New(src),
		maxRetries:     100,
		store:          NewInMemoryStore(),
		upf:            w.u,
		done:           w.done,
		shutdown:       make(chan struct{}),
		InstrumentPFCP: w.sink,
		hbReset:        make(chan struct{}, 100),
	}
	c.setLocalNodeID(w.u.nodeID)
	w.conns[i], w.ncs[i], w.srcs[i] = c, nc, src

	return c
}

// ---------------------------------------------------------------------------------- dumps

func (w *c14World) dumpStore() []interface{} {
	out := []interface{}{}
	idx := make([]int, 0, len(w.conns))

	for i := range w.conns {
		idx = append(idx, i)
	}

	sort.Ints(idx)

	for _, i := range idx {
		ss := w.conns[i].store.GetAllSessions()
		sort.Slice(ss, func(a, b int) bool { return ss[a].localSEID < ss[b].localSEID })

		for _, s := range ss {
			ps, fs, qs := []interface{}{}, []interface{}{}, []interface{}{}
			for _, p := range s.pdrs {
				ps = append(ps, l1Pdr(p))
			}

			for _, f := range s.fars {
				fs = append(fs, l1Far(f))
			}

			for _, q := range s.qers {
				qs = append(qs, l1Qer(q))
			}

			out = append(out, map[string]interface{}{"conn": i, "lseid": s.localSEID, "rseid": s.remoteSEID, "pdrs": ps, "fars": fs, "qers": qs})
		}
	}

	return out
}

func (w *c14World) dumpPools() map[string]interface{} {
	w.sink.mu.Lock()
	o := map[string]interface{}{"gauge": w.sink.gauge}
	w.sink.mu.Unlock()

	if w.u.ippool != nil {
		p := w.u.ippool
		p.mu.Lock()
		inv := [][2]uint64{}

		for k, v := range p.inventory {
			inv = append(inv, [2]uint64{k, uint64(ip2int(v))})
		}

		sort.Slice(inv, func(a, b int) bool { return inv[a][0] < inv[b][0] })

		free := []uint32{}
		for _, a := range p.freePool {
			free = append(free, ip2int(a))
		}

		sort.Slice(free, func(a, b int) bool { return free[a] < free[b] })
		o["ip_free"] = len(p.freePool)
		o["ip_free_set"] = free
		o["ip_inv"] = inv
		p.mu.Unlock()
	}

	g := w.u.fteidGenerator
	g.lock.Lock()
	used := []uint32{}

	for k := range g.usedMap {
		used = append(used, k+minValue)
	}

	sort.Slice(used, func(a, b int) bool { return used[a] < used[b] })
	o["teids"] = used
	g.lock.Unlock()

	return o
}

func c14Nums(s interface{ ToSlice() []interface{} }) []int64 {
	out := []int64{}

	if s == nil {
		return out
	}

	for _, x := range s.ToSlice() {
		switch v := x.(type) {
		case uint64:
			out = append(out, int64(v))
		case uint32:
			out = append(out, int64(v))
		default:
			out = append(out, -2)
		}
	}

	sort.Slice(out, func(i, j int) bool { return out[i] < out[j] })

	return out
}

func c14Bytes(b []uint8) []int64 {
	out := make([]int64, 0, len(b))
	for _, v := range b {
		out = append(out, int64(v))
	}

	return out
}

// the plug-in's bookkeeping, read from the struct (no event is in flight: the handler has returned)
func (w *c14World) dumpUP4() map[string]interface{} {
	up4 := w.up4
	st := map[string]interface{}{}

	pools := map[string]interface{}{"peer": c14Bytes(up4.tunnelPeerIDsPool), "appid": c14Bytes(up4.applicationIDsPool),
		"ctr": []int64{}, "ctr_post": []int64{}, "appcell": []int64{}, "sesscell": []int64{}}
	if len(up4.counters) > 1 && up4.counters[preQosCounterID].counterIDsPool != nil {
		pools["ctr"] = c14Nums(up4.counters[preQosCounterID].counterIDsPool)
		pools["ctr_post"] = c14Nums(up4.counters[postQosCounterID].counterIDsPool)
	}

	if up4.appMeterCellIDsPool != nil {
		pools["appcell"] = c14Nums(up4.appMeterCellIDsPool)
	}

	if up4.sessMeterCellIDsPool != nil {
		pools["sesscell"] = c14Nums(up4.sessMeterCellIDsPool)
	}

	st["pools"] = pools

	up4.sessionStateMu.RLock()
	meters := [][]uint64{}

	for k, m := range up4.meters {
		meters = append(meters, []uint64{k.fseid, uint64(k.qerID), uint64(m.meterType), uint64(m.uplinkCellID), uint64(m.downlinkCellID)})
	}

	ue, ue2f := [][2]uint64{}, [][2]uint64{}
	for k, v := range up4.fseidToUEAddr {
		ue = append(ue, [2]uint64{k, uint64(v)})
	}

	for k, v := range up4.ueAddrToFSEID {
		ue2f = append(ue2f, [2]uint64{uint64(k), v})
	}
	up4.sessionStateMu.RUnlock()

	sort.Slice(meters, func(i, j int) bool {
		if meters[i][0] != meters[j][0] {
			return meters[i][0] < meters[j][0]
		}

		return meters[i][1] < meters[j][1]
	})
	sort.Slice(ue, func(i, j int) bool { return ue[i][0] < ue[j][0] })
	sort.Slice(ue2f, func(i, j int) bool { return ue2f[i][0] < ue2f[j][0] })
	st["meters"], st["ue"], st["ue2f"] = meters, ue, ue2f

	pairs := func(l [][2]uint64) [][2]uint64 {
		sort.Slice(l, func(i, j int) bool {
			if l[i][0] != l[j][0] {
				return l[i][0] < l[j][0]
			}

			return l[i][1] < l[j][1]
		})

		return l
	}

	up4.tunnelPeerMu.Lock()
	peers := []map[string]interface{}{}

	for k, v := range up4.tunnelPeerIDs {
		users := [][2]uint64{}

		for _, x := range v.usedBy.ToSlice() {
			if r, ok := x.(tnlPeerReference); ok {
				users = append(users, [2]uint64{r.fseid, uint64(r.farID)})
			}
		}

		peers = append(peers, map[string]interface{}{"src": k.tunnelIP4Src, "dst": k.tunnelIP4Dst, "port": k.tunnelPort, "id": uint32(v.id), "users": pairs(users)})
	}
	up4.tunnelPeerMu.Unlock()

	sort.Slice(peers, func(i, j int) bool { return peers[i]["id"].(uint32) < peers[j]["id"].(uint32) })
	st["peers"] = peers

	up4.applicationMu.Lock()
	apps := []map[string]interface{}{}

	for k, v := range up4.applicationIDs {
		users := [][2]uint64{}

		for _, x := range v.usedBy.ToSlice() {
			if r, ok := x.(internalAppReference); ok {
				users = append(users, [2]uint64{r.fseid, uint64(r.pdrID)})
			}
		}

		apps = append(apps, map[string]interface{}{"ip": k.appIP, "lo": k.appL4Port.low, "hi": k.appL4Port.high, "proto": k.appProto, "id": uint32(v.id), "users": pairs(users)})
	}
	up4.applicationMu.Unlock()

	sort.Slice(apps, func(i, j int) bool { return apps[i]["id"].(uint32) < apps[j]["id"].(uint32) })
	st["apps"] = apps

	return st
}

func c14Short(n string) string {
	if i := strings.LastIndex(n, "."); i >= 0 {
		return n[i+1:]
	}

	return n
}

func c14Tables(srv *vp4Server) []map[string]interface{} {
	out := []map[string]interface{}{}

	for _, e := range srv.Tables() {
		m := map[string]string{}

		for _, f := range e.Match {
			switch f.Kind {
			case "lpm":
				m[f.Name] = fmt.Sprintf("%s/%d", f.Value, f.Prefix)
			case "ternary":
				m[f.Name] = f.Value + "&" + f.Mask
			case "range":
				m[f.Name] = f.Low + "-" + f.High
			default:
				m[f.Name] = f.Value
			}
		}

		p := map[string]string{}
		for _, x := range e.Params {
			p[x.Name] = x.Value
		}

		out = append(out, map[string]interface{}{"t": c14Short(e.TableName), "m": m, "a": c14Short(e.ActionName), "p": p, "prio": e.Priority})
	}

	return out
}

func c14Cells(l []vp4UpdateRec) [][2]interface{} {
	out := [][2]interface{}{}

	for _, c := range l {
		n := c.MeterName
		if c.Kind == "counter" {
			n = c.CounterName
		}

		out = append(out, [2]interface{}{c14Short(n), c.Index})
	}

	return out
}

func c14Writes(log []vp4WriteRec) []map[string]interface{} {
	out := []map[string]interface{}{}

	for _, r := range log {
		ups := []map[string]interface{}{}

		for _, u := range r.Updates {
			x := map[string]interface{}{"ty": u.Type, "k": u.Kind, "st": u.Status}

			switch u.Kind {
			case "table":
				x["n"] = c14Short(u.TableName)
			case "meter":
				x["n"] = c14Short(u.MeterName)
				x["i"] = u.Index
				x["cfg"] = u.Config != nil
			case "counter":
				x["n"] = c14Short(u.CounterName)
				x["i"] = u.Index
			}

			ups = append(ups, x)
		}

		out = append(out, map[string]interface{}{"seq": r.Seq, "faulted": r.Faulted, "code": r.Code, "ups": ups})
	}

	return out
}

func (w *c14World) snapshot(obs map[string]interface{}) {
	obs["tables"] = c14Tables(w.srv)
	obs["sw_meters"] = c14Cells(w.srv.Meters())
	obs["store"] = w.dumpStore()
	obs["pools"] = w.dumpPools()
	obs["up4"] = w.dumpUP4()
}

// ---------------------------------------------------------------------------------- events

func (w *c14World) doEvent(ev c14Event) (obs map[string]interface{}) {
	obs = map[string]interface{}{}
	w.dp = nil
	handed0 := w.handed
	w0 := w.srv.WritesSeen()
	obs["w0"] = w0

	for _, f := range ev.Faults {
		vf := vp4Fault{Kind: f.Kind, Code: codes.Code(f.Code), Msg: "c14"}
		for _, c := range f.Per {
			vf.PerUpdate = append(vf.PerUpdate, codes.Code(c))
		}

		w.srv.ArmWriteFault(f.At, vf)
	}

	run := func(f func()) {
		finished := make(chan struct{})

		var (
			pv  interface{}
			pst string
		)

		go func() {
			defer func() {
				if r := recover(); r != nil {
					pv = r
					pst = string(debug.Stack())
				}

				close(finished)
			}()
			f()
		}()

		select {
		case <-finished:
			if pv != nil {
				frame, fn, prev := "", "", ""

				for _, l := range strings.Split(pst, "\n") {
					if strings.Contains(l, "/pfcpiface/") && strings.HasPrefix(l, "\t") && !strings.Contains(l, "verif_") {
						frame = strings.TrimSpace(l)
						fn = prev

						break
					}

					prev = l
				}

				if k := strings.LastIndex(fn, "("); k > 0 {
					fn = fn[:k]
				}

				if k := strings.LastIndex(fn, "."); k >= 0 {
					fn = fn[k+1:]
				}

				obs["panic"] = fmt.Sprint(pv)
				obs["frame"] = frame
				obs["func"] = fn
			}
		case <-time.After(8 * time.Second):
			obs["blocked"] = true
		}
	}

	isMod := false

	switch ev.K {
	case "msg":
		raw, err := hex.DecodeString(ev.Hex)
		if err != nil {
			obs["bad_hex"] = true
			return obs
		}

		isMod = len(raw) > 1 && raw[1] == 52
		c := w.conn(ev.Conn)
		src := w.srcs[ev.Conn]
		src.queue = append([]uint64{}, ev.Draws...)

		run(func() { c.HandlePFCPMsg(raw) })

		if _, stuck := obs["blocked"]; !stuck {
			if src.drawn == nil {
				src.drawn = []uint64{}
			}

			obs["draws"] = src.drawn
			src.drawn = nil
			src.queue = nil
		}
	case "report":
		if c, ok := w.conns[ev.Conn]; ok {
			run(func() { c.handleDigestReport(ev.Fseid) })
		}
	case "teardown":
		if c, ok := w.conns[ev.Conn]; ok {
			run(func() { c.Shutdown() })
		}
	case "reconnect":
		// the P4Runtime channel is lost (the plug-in's gRPC connection is closed, read the way its own re-connection reads
		// it); UP4.tryConnect - called by every SendMsgToUPF and by keepTryingToConnect - sets up a new channel (a new
		// P4rtClient and StreamChannel) against the same, still populated switch
		w.up4.tryConnectMu.Lock()
		c := w.up4.p4client
		w.up4.tryConnectMu.Unlock()

		if c != nil && c.conn != nil {
			_ = c.conn.Close()
		}

		obs["connected_after_loss"] = w.u.isConnected()

		if ev.Now {
			run(func() {
				if err := w.up4.tryConnect(); err != nil {
					obs["reconnect_err"] = err.Error()
				}
			})
		}
	}

	w.srv.DisarmFaults()

	calls := w.dp
	if calls == nil {
		calls = []c14DpCall{}
	}

	obs["dp"] = append([]c14DpCall{}, calls...)

	if _, stuck := obs["blocked"]; stuck {
		// the handler goroutine is still inside the agent: nothing more can be read safely
		obs["writes"] = c14Writes(w.srv.TakeLog())
		return obs
	}

	// End Markers travel through the plug-in's queue and its sender goroutine: wait for those handed over
	if w.up4.endMarkerChan != nil {
		deadline := time.Now().Add(4 * time.Second)
		for w.srv.PacketOutsSeen() < w.pktAt+(w.handed-handed0) && time.Now().Before(deadline) {
			time.Sleep(200 * time.Microsecond)
		}

		if isMod {
			time.Sleep(2 * time.Millisecond) // a surplus packet would follow at once
		}
	}

	pk := []map[string]interface{}{}
	for _, r := range w.srv.PacketOutRecs(w.pktAt) {
		pk = append(pk, map[string]interface{}{"w": r.Writes, "m": l1DecodeMarker(r.Payload), "len": len(r.Payload)})
	}

	w.pktAt += len(pk)
	obs["pkts"] = pk
	obs["writes"] = c14Writes(w.srv.TakeLog())

	dn := []string{}
drain:
	for {
		select {
		case a := <-w.done:
			dn = append(dn, a)
		default:
			break drain
		}
	}

	obs["done"] = dn

	for _, a := range dn {
		for i, c := range w.conns {
			if c.RemoteAddr().String() == a {
				delete(w.conns, i)
				delete(w.srcs, i)
			}
		}
	}

	replies := map[string]interface{}{}

	for i, nc := range w.ncs {
		outs := nc.take()
		if len(outs) == 0 {
			continue
		}

		l := []interface{}{}
		for _, raw := range outs {
			l = append(l, l1Decode(raw))
		}

		replies[fmt.Sprint(i)] = l
	}

	obs["replies"] = replies
	obs["connected"] = w.u.isConnected()

	if !ev.Quiet {
		w.snapshot(obs)
	}

	return obs
}

func init() {
	verifRegister("c14", func(raw json.RawMessage) (interface{}, error) {
		var in struct {
			Cfg    l1Cfg      `json:"cfg"`
			Up4    c14Up4Cfg  `json:"up4"`
			Events []c14Event `json:"events"`
		}

		if err := json.Unmarshal(raw, &in); err != nil {
			return nil, err
		}

		w, err := c14NewWorld(in.Cfg, in.Up4)
		if err != nil {
			return map[string]interface{}{"world_err": err.Error()}, nil
		}

		w.srv.TakeLog()

		boot := map[string]interface{}{"em_chan": w.up4.endMarkerChan != nil}
		w.snapshot(boot)

		obs := []interface{}{}

		for _, ev := range in.Events {
			o := w.doEvent(ev)
			obs = append(obs, o)

			if _, dead := o["panic"]; dead {
				break
			}

			if _, dead := o["blocked"]; dead {
				break
			}
		}

		return map[string]interface{}{"boot": boot, "obs": obs}, nil
	})
}
