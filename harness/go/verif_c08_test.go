//go:build verif

package pfcpiface

import (
	"time"
	"encoding/json"
	"errors"
	"fmt"
	"net"
	"sort"

	"github.com/wmnsk/go-pfcp/ie"
	"github.com/wmnsk/go-pfcp/message"
)

// C08: SDF filters and PFD-backed application IDs.
//
//	op "parse": parseFlowDesc(text, ue) directly - result fields, error class or panic.
//	op "sdf"  : one text through parseFlowDesc and as the SDF filter of an access and of a core PDR.
//	op "seq"  : a history on one PFCPConn literal: PFD Management Requests through
//	            handlePFDMgmtRequest (the message goes through Marshal/Parse first, as on the wire)
//	            and Create PDR IEs through parsePDR with the connection's appPFDs.
//
// Every IE is also read back through the go-pfcp accessors the agent itself calls and the outcome
// is reported ("abs"), which is the abstract IE tree the Coq model consumes.
type c08In struct {
	Op     string      `json:"op"`
	Text   string      `json:"text"`
	UE     string      `json:"ue"`
	UEAddr *uint32     `json:"ue_addr"`
	Init   [][2]any    `json:"init"` // initial table: [id, [descs...]] (absent = nil map)
	Steps  []c08StepIn `json:"steps"`
}

type c08StepIn struct {
	Kind string `json:"kind"` // "pfd" | "pdr"
	// pfd
	Apps []c08AppIn `json:"apps"`
	// Direct: hand the message to the handler as built, without the Marshal/Parse round trip
	Direct bool `json:"direct"`
	// pdr
	Iface int         `json:"iface"` // PFCP Source Interface value (0 access, 1 core, 2 SGi-LAN, ...)
	UE    *uint32     `json:"ue"`    // nil: no UE IP Address IE
	Items []c08ItemIn `json:"items"`
}

type c08AppIn struct {
	ID   *string        `json:"id"`   // nil: no Application ID IE
	Ctxs [][]c08ChildIn `json:"ctxs"` // PFD Context IEs in order, each a list of children
	// BadCtxAt: position (among the contexts) at which a PFD Context IE with an undecodable payload
	// is inserted (only meaningful with Direct: such a message does not survive message.Parse)
	BadCtxAt *int `json:"bad_ctx_at"`
}

type c08ChildIn struct {
	FD  string `json:"fd"`
	Bad bool   `json:"bad"` // a child that is not a PFD Contents IE
}

type c08ItemIn struct {
	Kind string `json:"kind"` // "sdf" | "app"
	FD   string `json:"fd"`
	Mode string `json:"mode"` // sdf: "" normal | "emptyfd" (FD flag, length 0) | "wrongtype"
	ID   string `json:"id"`
}

type c08Net struct {
	IP   uint32 `json:"ip"`
	Mask uint32 `json:"mask"`
	V6   bool   `json:"v6,omitempty"`
	Nil  bool   `json:"nil,omitempty"`
}

func c08NetOf(n *net.IPNet) c08Net {
	if n == nil {
		return c08Net{Nil: true}
	}
	if len(n.Mask) != 4 || len(n.IP) != 4 {
		return c08Net{V6: true, IP: ip2int(n.IP), Mask: ipMask2int(n.Mask)}
	}
	return c08Net{IP: ip2int(n.IP), Mask: ipMask2int(n.Mask)}
}

type c08Filter struct {
	SrcIP     uint32    `json:"src_ip"`
	DstIP     uint32    `json:"dst_ip"`
	SrcMask   uint32    `json:"src_mask"`
	DstMask   uint32    `json:"dst_mask"`
	Proto     uint32    `json:"proto"`
	ProtoMask uint32    `json:"proto_mask"`
	SPorts    [2]uint32 `json:"sports"`
	DPorts    [2]uint32 `json:"dports"`
}

func c08FilterOf(a applicationFilter) c08Filter {
	return c08Filter{
		SrcIP: a.srcIP, DstIP: a.dstIP, SrcMask: a.srcIPMask, DstMask: a.dstIPMask,
		Proto: uint32(a.proto), ProtoMask: uint32(a.protoMask),
		SPorts: [2]uint32{uint32(a.srcPortRange.low), uint32(a.srcPortRange.high)},
		DPorts: [2]uint32{uint32(a.dstPortRange.low), uint32(a.dstPortRange.high)},
	}
}

func c08Table(m map[string]appPFD) [][2]any {
	ids := make([]string, 0, len(m))
	for k := range m {
		ids = append(ids, k)
	}
	sort.Strings(ids)
	out := make([][2]any, 0, len(ids))
	for _, k := range ids {
		ds := append([]string{}, m[k].flowDescs...)
		out = append(out, [2]any{k, ds})
	}
	return out
}

func c08Parse(in c08In) (res map[string]any) {
	defer func() {
		if r := recover(); r != nil {
			res = map[string]any{"panic": fmt.Sprint(r)}
		}
	}()
	ipf, err := parseFlowDesc(in.Text, in.UE)
	if err != nil {
		cls := "other"
		if errors.Is(err, errBadFilterDesc) {
			cls = "bad"
		}
		return map[string]any{"ok": false, "err": cls}
	}
	return map[string]any{
		"ok": true, "action": ipf.action, "dir": ipf.direction, "proto": uint32(ipf.proto),
		"src": c08NetOf(ipf.src.IPNet), "dst": c08NetOf(ipf.dst.IPNet),
		"sports": [2]uint32{uint32(ipf.src.ports.low), uint32(ipf.src.ports.high)},
		"dports": [2]uint32{uint32(ipf.dst.ports.low), uint32(ipf.dst.ports.high)},
	}
}

// c08Wire sends an IE through its wire form so that accessors work on the payload.
func c08Wire(i *ie.IE) (*ie.IE, error) {
	b, err := i.Marshal()
	if err != nil {
		return nil, err
	}
	return ie.Parse(b)
}

func c08IP(n uint32) string {
	return fmt.Sprintf("%d.%d.%d.%d", n>>24, (n>>16)&255, (n>>8)&255, n&255)
}

func c08PdrStep(pConn *PFCPConn, st c08StepIn) (res map[string]any) {
	defer func() {
		if r := recover(); r != nil {
			res = map[string]any{"kind": "pdr", "panic": fmt.Sprint(r)}
		}
	}()
	pdi := []*ie.IE{ie.NewSourceInterface(uint8(st.Iface))}
	if st.UE != nil {
		pdi = append(pdi, ie.NewUEIPAddress(0x02, c08IP(*st.UE), "", 0, 0))
	}
	abs := []any{}
	for _, it := range st.Items {
		var x *ie.IE
		switch it.Kind {
		case "sdf":
			switch it.Mode {
			case "emptyfd":
				x = ie.New(ie.SDFFilter, []byte{0x01, 0x00, 0x00, 0x00, 0x00})
			case "wrongtype":
				// an SDF Filter IE whose payload is too short for its flags
				x = ie.New(ie.SDFFilter, []byte{0x01, 0x00})
			default:
				x = ie.NewSDFFilter(it.FD, "", "", "", 0)
			}
			if x == nil {
				return map[string]any{"kind": "pdr", "harness_skip": "cannot build SDF filter IE"}
			}
			w, err := c08Wire(x)
			if err != nil {
				return map[string]any{"kind": "pdr", "harness_skip": "wire: " + err.Error()}
			}
			f, err := w.SDFFilter()
			if err != nil {
				abs = append(abs, map[string]any{"kind": "sdf", "err": true})
			} else {
				abs = append(abs, map[string]any{"kind": "sdf", "fd": f.FlowDescription})
			}
		case "app":
			x = ie.NewApplicationID(it.ID)
			w, err := c08Wire(x)
			if err != nil {
				return map[string]any{"kind": "pdr", "harness_skip": "wire: " + err.Error()}
			}
			id, err := w.ApplicationID()
			if err != nil {
				abs = append(abs, map[string]any{"kind": "app", "err": true})
			} else {
				abs = append(abs, map[string]any{"kind": "app", "id": id})
			}
		default:
			return map[string]any{"kind": "pdr", "harness_skip": "unknown item"}
		}
		pdi = append(pdi, x)
	}
	cp, err := c08Wire(ie.NewCreatePDR(
		ie.NewPDRID(7), ie.NewPrecedence(255), ie.NewPDI(pdi...), ie.NewFARID(3), ie.NewQERID(4)))
	if err != nil {
		return map[string]any{"kind": "pdr", "harness_skip": "wire: " + err.Error()}
	}
	before := c08Table(pConn.appPFDs)
	var p pdr
	err = p.parsePDR(cp, 1, pConn.appPFDs, nil)
	out := map[string]any{"kind": "pdr", "abs": abs, "table": before, "src_iface": uint32(p.srcIface)}
	if err != nil {
		out["accepted"] = false
		return out
	}
	out["accepted"] = true
	out["filter"] = c08FilterOf(p.appFilter)
	out["ue_address"] = p.ueAddress
	c08Rules(p.appFilter, out)
	return out
}

// c08Rules adds what the BESS plug-in would install for the two port ranges of the filter (the expansion addPDR and
// delPDR call): "rules" = [sport, smask, dport, dmask]*, or "rules_err" when the pair is refused, or "rules_blocked"
// when the expansion does not come back (then the process is told to stop: the goroutine cannot be killed).
func c08Rules(a applicationFilter, out map[string]any) {
	type res struct {
		rules [][4]uint32
		err   bool
		pan   string
	}
	ch := make(chan res, 1)
	go func() {
		var r res
		defer func() {
			if x := recover(); x != nil {
				r.pan = fmt.Sprint(x)
			}
			ch <- r
		}()
		prod, err := CreatePortRangeCartesianProduct(a.srcPortRange, a.dstPortRange)
		if err != nil {
			r.err = true
			return
		}
		for _, x := range prod {
			r.rules = append(r.rules, [4]uint32{uint32(x.srcPort), uint32(x.srcMask), uint32(x.dstPort), uint32(x.dstMask)})
		}
	}()
	select {
	case r := <-ch:
		switch {
		case r.pan != "":
			out["rules_panic"] = r.pan
		case r.err:
			out["rules_err"] = true
		default:
			if r.rules == nil {
				r.rules = [][4]uint32{}
			}
			out["rules"] = r.rules
		}
	case <-time.After(3 * time.Second):
		out["rules_blocked"] = true
		verifAbort = "the port-range expansion of an accepted filter does not terminate"
	}
}

func c08PfdStep(pConn *PFCPConn, st c08StepIn, seq uint32) (res map[string]any) {
	defer func() {
		if r := recover(); r != nil {
			res = map[string]any{"kind": "pfd", "panic": fmt.Sprint(r)}
		}
	}()
	var ies []*ie.IE
	for _, a := range st.Apps {
		var ch []*ie.IE
		if a.ID != nil {
			ch = append(ch, ie.NewApplicationID(*a.ID))
		}
		// a PFD Context IE (type 59, length 3) whose payload is a truncated IE header; go-pfcp
		// marshals grouped IEs from their children, so it is spliced into the raw payload below
		badCtx := []byte{0x00, 0x3b, 0x00, 0x03, 0x00, 0x3b, 0x00}
		badPos := -1
		for n, ctx := range a.Ctxs {
			if a.BadCtxAt != nil && *a.BadCtxAt == n {
				badPos = len(ch)
			}
			var cc []*ie.IE
			for _, c := range ctx {
				if c.Bad {
					cc = append(cc, ie.NewCause(ie.CauseRequestAccepted))
				} else {
					x := ie.NewPFDContents(c.FD, "", "", "", "", nil, nil, nil)
					if x == nil {
						return map[string]any{"kind": "pfd", "harness_skip": "cannot build PFD contents"}
					}
					cc = append(cc, x)
				}
			}
			ch = append(ch, ie.NewPFDContext(cc...))
		}
		if a.BadCtxAt != nil && badPos < 0 {
			badPos = len(ch)
		}
		if badPos < 0 {
			ies = append(ies, ie.NewApplicationIDsPFDs(ch...))
			continue
		}
		var raw []byte
		for n, c := range ch {
			if n == badPos {
				raw = append(raw, badCtx...)
			}
			b, err := c.Marshal()
			if err != nil {
				return map[string]any{"kind": "pfd", "harness_skip": "marshal child: " + err.Error()}
			}
			raw = append(raw, b...)
		}
		if badPos >= len(ch) {
			raw = append(raw, badCtx...)
		}
		ies = append(ies, &ie.IE{Type: ie.ApplicationIDsPFDs, Length: uint16(len(raw)), Payload: raw})
	}
	var msg message.Message
	var preq *message.PFDManagementRequest
	if st.Direct {
		preq = message.NewPFDManagementRequest(seq, ies...)
		msg = preq
	} else {
		req := message.NewPFDManagementRequest(seq, ies...)
		b, err := req.Marshal()
		if err != nil {
			return map[string]any{"kind": "pfd", "harness_skip": "marshal: " + err.Error()}
		}
		m, err := message.Parse(b)
		if err != nil {
			return map[string]any{"kind": "pfd", "harness_skip": "parse: " + err.Error()}
		}
		var ok bool
		preq, ok = m.(*message.PFDManagementRequest)
		if !ok {
			return map[string]any{"kind": "pfd", "harness_skip": "not a PFD management request"}
		}
		msg = m
	}
	// abstract tree: what the accessors used by the handler return for each Application ID's PFDs IE
	abs := []any{}
	for _, a := range preq.ApplicationIDsPFDs {
		e := map[string]any{}
		if id, err := a.ApplicationID(); err == nil {
			e["id"] = id
		} else {
			e["id"] = nil
		}
		rd := func(list []*ie.IE) []any {
			l := []any{}
			for _, c := range list {
				if f, err := c.PFDContents(); err == nil {
					l = append(l, f.FlowDescription)
				} else {
					l = append(l, nil)
				}
			}
			return l
		}
		// every PFD Context child in order: its children's outcomes, or nil when the context itself
		// cannot be read; "unreadable" when the children of the IE cannot be listed at all
		all := []any{}
		if kids, err := a.ApplicationIDsPFDs(); err == nil {
			for _, k := range kids {
				if k.Type == ie.PFDContext {
					if cs, err := k.PFDContext(); err == nil {
						all = append(all, rd(cs))
					} else {
						all = append(all, nil)
					}
				}
			}
		} else {
			e["unreadable"] = true
		}
		e["ctxs"] = all
		abs = append(abs, e)
	}
	before := c08Table(pConn.appPFDs)
	rsp, herr := pConn.handlePFDMgmtRequest(msg)
	out := map[string]any{"kind": "pfd", "abs": abs, "before": before, "after": c08Table(pConn.appPFDs),
		"nil_after": pConn.appPFDs == nil, "err": herr != nil}
	if r, ok := rsp.(*message.PFDManagementResponse); ok && r != nil && r.Cause != nil {
		c, cerr := r.Cause.Cause()
		if cerr == nil {
			out["cause"] = uint32(c)
		}
		out["seq_ok"] = r.SequenceNumber == seq
		out["offending"] = r.OffendingIE != nil
	} else {
		out["cause"] = nil
	}
	return out
}

func init() {
	verifRegister("c08", func(raw json.RawMessage) (interface{}, error) {
		var in c08In
		if err := json.Unmarshal(raw, &in); err != nil {
			return nil, err
		}
		switch in.Op {
		case "parse":
			return c08Parse(in), nil
		case "sdf":
			// one text three ways: parseFlowDesc(text, ue as dotted quad), then as the SDF filter of an
			// access PDR and of a core PDR (in.UEAddr nil: no UE IP Address IE, ue string 0.0.0.0)
			ueN := uint32(0)
			if in.UEAddr != nil {
				ueN = *in.UEAddr
			}
			out := map[string]any{"parse": c08Parse(c08In{Text: in.Text, UE: c08IP(ueN)})}
			for _, d := range []struct {
				name  string
				iface int
			}{{"access", 0}, {"core", 1}} {
				out[d.name] = c08PdrStep(&PFCPConn{}, c08StepIn{Kind: "pdr", Iface: d.iface, UE: in.UEAddr,
					Items: []c08ItemIn{{Kind: "sdf", FD: in.Text}}})
			}
			return out, nil
		case "seq":
			pConn := &PFCPConn{}
			if in.Init != nil {
				pConn.appPFDs = map[string]appPFD{}
				for _, kv := range in.Init {
					id, _ := kv[0].(string)
					ds := []string{}
					if l, ok := kv[1].([]any); ok {
						for _, d := range l {
							s, _ := d.(string)
							ds = append(ds, s)
						}
					}
					pConn.appPFDs[id] = appPFD{appID: id, flowDescs: ds}
				}
			}
			steps := []any{}
			for n, st := range in.Steps {
				var o map[string]any
				switch st.Kind {
				case "pfd":
					o = c08PfdStep(pConn, st, uint32(100+n))
				case "pdr":
					o = c08PdrStep(pConn, st)
				default:
					return nil, fmt.Errorf("unknown step kind %q", st.Kind)
				}
				steps = append(steps, o)
				if _, crashed := o["panic"]; crashed {
					break // the production process would be gone
				}
			}
			return map[string]any{"steps": steps}, nil
		}
		return nil, fmt.Errorf("unknown op %q", in.Op)
	})
}
