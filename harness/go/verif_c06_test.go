//go:build verif

package pfcpiface

import (
	"encoding/json"
	"math/rand"
	"sort"
	"sync"
)

type c06In struct {
	Cidr string      `json:"cidr"`
	Ops  [][2]uint64 `json:"ops"` // [0, seid] = LookupOrAllocIP, [1, seid] = DeallocIP
}

type c06Out struct {
	NewOk bool        `json:"new_ok"`
	Res   []int64     `json:"res"` // address as uint32, 0 for dealloc ok, -1 error
	Free  []uint32    `json:"free"`
	Inv   [][2]uint64 `json:"inv"`
}

func init() {
	verifRegister("c06", func(raw json.RawMessage) (interface{}, error) {
		var in c06In
		if err := json.Unmarshal(raw, &in); err != nil {
			return nil, err
		}
		out := c06Out{Res: []int64{}, Free: []uint32{}, Inv: [][2]uint64{}}
		pool, err := NewIPPool(in.Cidr)
		if err != nil {
			return out, nil
		}
		out.NewOk = true
		for _, op := range in.Ops {
			if op[0] == 0 {
				ip, err := pool.LookupOrAllocIP(op[1])
				if err != nil {
					out.Res = append(out.Res, -1)
				} else {
					out.Res = append(out.Res, int64(ip2int(ip)))
				}
			} else {
				if err := pool.DeallocIP(op[1]); err != nil {
					out.Res = append(out.Res, -1)
				} else {
					out.Res = append(out.Res, 0)
				}
			}
		}
		for _, ip := range pool.freePool {
			out.Free = append(out.Free, ip2int(ip))
		}
		for k, v := range pool.inventory {
			out.Inv = append(out.Inv, [2]uint64{k, uint64(ip2int(v))})
		}
		sort.Slice(out.Inv, func(i, j int) bool { return out.Inv[i][0] < out.Inv[j][0] })
		return out, nil
	})

	// Concurrent stress: G goroutines, each owning its own SEIDs, allocate / re-lookup / release.
	// Oracles need no linearization: an address is never claimed by two sessions at overlapping
	// times, re-lookup is sticky, every address is in range, conservation at quiescence.
	verifRegister("c06_conc", func(raw json.RawMessage) (interface{}, error) {
		var in struct {
			Cidr       string
			G, Iters   int
			Seed       int64
			SeidsPerG  int
			Base, Size uint32
		}
		if err := json.Unmarshal(raw, &in); err != nil {
			return nil, err
		}
		pool, err := NewIPPool(in.Cidr)
		if err != nil {
			return map[string]interface{}{"new_ok": false}, nil
		}
		var mu sync.Mutex
		owner := map[uint32]uint64{}
		viol := []string{}
		addViol := func(s string) {
			mu.Lock()
			if len(viol) < 5 {
				viol = append(viol, s)
			}
			mu.Unlock()
		}
		var wg sync.WaitGroup
		allocs, refusals := make([]int, in.G), make([]int, in.G)
		for g := 0; g < in.G; g++ {
			wg.Add(1)
			go func(g int) {
				defer wg.Done()
				r := rand.New(rand.NewSource(in.Seed + int64(g)))
				held := map[uint64]uint32{}
				for i := 0; i < in.Iters; i++ {
					seid := uint64(g*1000 + r.Intn(in.SeidsPerG) + 1)
					if a, ok := held[seid]; ok && r.Intn(3) == 0 {
						// release: drop the claim first, then dealloc
						mu.Lock()
						delete(owner, a)
						mu.Unlock()
						delete(held, seid)
						if err := pool.DeallocIP(seid); err != nil {
							addViol("dealloc of a held session failed")
						}
						continue
					}
					ip, err := pool.LookupOrAllocIP(seid)
					if err != nil {
						refusals[g]++
						if _, ok := held[seid]; ok {
							addViol("lookup of a held session refused")
						}
						continue
					}
					a := ip2int(ip)
					allocs[g]++
					if a <= in.Base || a >= in.Base+in.Size-1 {
						addViol("address out of range / network / broadcast")
					}
					if prev, ok := held[seid]; ok {
						if prev != a {
							addViol("not sticky")
						}
						continue
					}
					mu.Lock()
					if o, ok := owner[a]; ok && o != seid {
						mu.Unlock()
						addViol("address held by two sessions")
					} else {
						owner[a] = seid
						mu.Unlock()
					}
					held[seid] = a
				}
			}(g)
		}
		wg.Wait()
		conserved := len(pool.freePool)+len(pool.inventory) == int(in.Size)-2
		if !conserved {
			addViol("free + held != pool size at quiescence")
		}
		ta, tr := 0, 0
		for g := 0; g < in.G; g++ {
			ta += allocs[g]
			tr += refusals[g]
		}
		return map[string]interface{}{"new_ok": true, "violations": viol, "allocs": ta, "refusals": tr,
			"free": len(pool.freePool), "held": len(pool.inventory)}, nil
	})
}

// c06_same: rounds in which G goroutines, released by a barrier, ask at the same time for the SAME session id
// that is not yet known. Every caller must be told the same address (sticky under concurrency), and afterwards
// free + held must still be the whole pool (a lost address shows as a refusal while nothing is held).
func init() {
	verifRegister("c06_same", func(raw json.RawMessage) (interface{}, error) {
		var in struct {
			Cidr          string
			G, Rounds     int
			Size          uint32
			ReleaseEveryN int
		}
		if err := json.Unmarshal(raw, &in); err != nil {
			return nil, err
		}
		pool, err := NewIPPool(in.Cidr)
		if err != nil {
			return map[string]interface{}{"new_ok": false}, nil
		}
		viol := []string{}
		for r := 0; r < in.Rounds && len(viol) < 3; r++ {
			seid := uint64(r + 1)
			start := make(chan struct{})
			res := make([]uint32, in.G)
			errs := make([]bool, in.G)
			var wg sync.WaitGroup
			for g := 0; g < in.G; g++ {
				wg.Add(1)
				go func(g int) {
					defer wg.Done()
					<-start
					ip, err := pool.LookupOrAllocIP(seid)
					if err != nil {
						errs[g] = true
						return
					}
					res[g] = ip2int(ip)
				}(g)
			}
			close(start)
			wg.Wait()
			for g := 1; g < in.G; g++ {
				if errs[g] != errs[0] || res[g] != res[0] {
					viol = append(viol, "same-session-different-answers")
					break
				}
			}
			// keep the pool from filling up: release the session again
			if !errs[0] {
				if err := pool.DeallocIP(seid); err != nil {
					viol = append(viol, "release-of-holder-failed")
				}
			}
			pool.mu.Lock()
			total := len(pool.freePool) + len(pool.inventory)
			pool.mu.Unlock()
			if total != int(in.Size)-2 {
				viol = append(viol, "address-lost-or-duplicated")
			}
		}
		return map[string]interface{}{"new_ok": true, "violations": viol}, nil
	})
}
