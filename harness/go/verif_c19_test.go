//go:build verif

// C19 - the slice-configuration REST endpoint.
// Drives the real handler (registered by setupConfigHandler on a real http.ServeMux) with
// net/http/httptest requests.  The upf behind it uses
//   - "bess": the real bess plug-in (client/conn set as SetUpfInfo does) talking gRPC over loopback
//     to an in-process BESSControl server that records every ModuleCommand, or
//   - "up4":  the real UP4 plug-in in its connected state (struct literal: conf, connected, a
//     real P4rtClient over loopback gRPC, translator) talking to an in-process P4Runtime server
//     that records every Write (connection set-up / arbitration is not part of C19 and is skipped).
//
// One JSON object in, one observation out.
package pfcpiface

import (
	"context"
	"encoding/base64"
	"encoding/json"
	"errors"
	"fmt"
	"io"
	"net"
	"net/http"
	"net/http/httptest"
	"sync"
	"time"

	"github.com/omec-project/upf-epc/logger"
	pb "github.com/omec-project/upf-epc/pfcpiface/bess_pb"
	p4 "github.com/p4lang/p4runtime/go/p4/v1"
	"go.uber.org/zap/zapcore"
	"google.golang.org/grpc"
	"google.golang.org/grpc/codes"
	"google.golang.org/grpc/connectivity"
	"google.golang.org/grpc/credentials/insecure"
	"google.golang.org/grpc/status"
)

type c19In struct {
	Dp        string `json:"dp"`         // "bess" | "up4"
	Slice     uint8  `json:"slice"`      // UP4 conf.SliceID
	Tc        uint8  `json:"tc"`         // UP4 conf.DefaultTC
	Method    string `json:"method"`     // request method, used verbatim
	BodyB64   string `json:"body_b64"`   // request body bytes
	FailAfter int    `json:"fail_after"` // >= 0: the body reader fails after that many bytes
	Refuse    bool   `json:"refuse"`     // the datapath server answers every call of this request with an error
}

// a history against ONE ConfigHandler + upf + datapath plug-in
type c19SeqIn struct {
	Dp    string  `json:"dp"`
	Slice uint8   `json:"slice"`
	Tc    uint8   `json:"tc"`
	Reqs  []c19In `json:"reqs"` // dp / slice / tc of the elements are ignored
}

type c19SeqOut struct {
	Steps    []*c19Out  `json:"steps"`
	Final    *c19Stored `json:"final"` // upf.sliceInfo at the end, if any request replaced it
	Attempts int        `json:"attempts"`
}

type c19BessWrite struct {
	Module    string   `json:"module"`
	Cmd       string   `json:"cmd"`
	ArgType   string   `json:"arg_type"`
	Gate      uint64   `json:"gate"`
	Cir       uint64   `json:"cir"`
	Pir       uint64   `json:"pir"`
	Cbs       uint64   `json:"cbs"`
	Pbs       uint64   `json:"pbs"`
	Ebs       uint64   `json:"ebs"`
	HasDeduct bool     `json:"has_deduct"`
	Deduct    int64    `json:"deduct"`
	Fields    []uint64 `json:"fields"`
	NValues   int      `json:"n_values"`
	Refused   bool     `json:"refused"` // the server answered this call with an error
}

type c19Up4Write struct {
	Kind    string `json:"kind"` // "meter" or the entity type seen
	Update  int32  `json:"update"`
	Device  uint64 `json:"device"`
	MeterID uint32 `json:"meter_id"`
	Index   int64  `json:"index"`
	HasIdx  bool   `json:"has_index"`
	Cir     int64  `json:"cir"`
	Cburst  int64  `json:"cburst"`
	Pir     int64  `json:"pir"`
	Pburst  int64  `json:"pburst"`
	Refused bool   `json:"refused"`
}

type c19Stored struct {
	Name string      `json:"name"`
	Ul   uint64      `json:"ul"`
	Dl   uint64      `json:"dl"`
	Ulb  uint64      `json:"ulb"`
	Dlb  uint64      `json:"dlb"`
	Ue   [][2]string `json:"ue"` // (name, dnn)
}

type c19Decode struct {
	Err  bool        `json:"err"`
	Name string      `json:"name"`
	Ul   uint64      `json:"ul"`
	Dl   uint64      `json:"dl"`
	Unit string      `json:"unit"`
	Ulb  uint64      `json:"ulb"`
	Dlb  uint64      `json:"dlb"`
	Ue   [][2]string `json:"ue"` // (dnn, uePoolId)
}

type c19Out struct {
	Statuses   []int          `json:"statuses"`     // every WriteHeader call (0: a Write before any WriteHeader)
	CtAtHeader string         `json:"ct_at_header"` // Content-Type in the header map at the first WriteHeader
	CtFinal    string         `json:"ct_final"`     // Content-Type in the header map after the handler returned
	RespBody   string         `json:"resp_body"`    // bytes written
	Bess       []c19BessWrite `json:"bess"`         // commands the BESS server received, in order
	Up4        []c19Up4Write  `json:"up4"`          // updates the P4Runtime server received, in order
	Stored     *c19Stored     `json:"stored"`       // upf.sliceInfo if the request replaced it
	Decode     c19Decode      `json:"decode"`       // json.Unmarshal of the same bytes into NetworkSlice (oracle for the generator)
	Attempts   int            `json:"attempts"`
	ElapsedMs  int64          `json:"elapsed_ms"`
	Panic      string         `json:"panic,omitempty"`
}

// ---- response writer recording every WriteHeader call
type c19Writer struct {
	rec        *httptest.ResponseRecorder
	statuses   []int
	ctAtHeader string
	wrote      bool
}

func (w *c19Writer) Header() http.Header { return w.rec.Header() }
func (w *c19Writer) WriteHeader(code int) {
	if len(w.statuses) == 0 {
		w.ctAtHeader = w.rec.Header().Get("Content-Type")
	}
	w.statuses = append(w.statuses, code)
	w.wrote = true
	w.rec.WriteHeader(code)
}
func (w *c19Writer) Write(b []byte) (int, error) {
	if !w.wrote {
		// implicit 200 of net/http: recorded as 0 so that it cannot be mistaken for a WriteHeader call
		w.ctAtHeader = w.rec.Header().Get("Content-Type")
		w.statuses = append(w.statuses, 0)
		w.wrote = true
	}
	return w.rec.Write(b)
}

// ---- body reader that fails
type c19FailReader struct {
	data []byte
	pos  int
}

func (r *c19FailReader) Read(p []byte) (int, error) {
	if r.pos >= len(r.data) {
		return 0, errors.New("c19: body read failed")
	}
	n := copy(p, r.data[r.pos:])
	r.pos += n
	return n, nil
}
func (r *c19FailReader) Close() error { return nil }

// ---- recording BESS server
type c19BessServer struct {
	pb.UnimplementedBESSControlServer
	mu     sync.Mutex
	cmds   []c19BessWrite
	refuse bool
}

func (s *c19BessServer) ModuleCommand(ctx context.Context, req *pb.CommandRequest) (*pb.CommandResponse, error) {
	w := c19BessWrite{Module: req.GetName(), Cmd: req.GetCmd(), Fields: []uint64{}}
	if req.GetArg() != nil {
		w.ArgType = req.GetArg().GetTypeUrl()
		var q pb.QosCommandAddArg
		if err := req.GetArg().UnmarshalTo(&q); err == nil {
			w.Gate, w.Cir, w.Pir, w.Cbs, w.Pbs, w.Ebs = q.GetGate(), q.GetCir(), q.GetPir(), q.GetCbs(), q.GetPbs(), q.GetEbs()
			if q.GetOptionalDeductLen() != nil {
				w.HasDeduct = true
				w.Deduct = q.GetDeductLen()
			}
			for _, f := range q.GetFields() {
				if _, ok := f.GetEncoding().(*pb.FieldData_ValueInt); ok {
					w.Fields = append(w.Fields, f.GetValueInt())
				} else {
					w.Fields = append(w.Fields, ^uint64(0))
				}
			}
			w.NValues = len(q.GetValues())
		} else {
			w.ArgType = "undecodable:" + w.ArgType
		}
	}
	s.mu.Lock()
	w.Refused = s.refuse
	s.cmds = append(s.cmds, w)
	s.mu.Unlock()
	if w.Refused {
		return nil, status.Error(codes.Unavailable, "c19: BESS refuses")
	}
	return &pb.CommandResponse{}, nil
}

func (s *c19BessServer) take() []c19BessWrite {
	s.mu.Lock()
	defer s.mu.Unlock()
	out := s.cmds
	s.cmds = nil
	if out == nil {
		out = []c19BessWrite{}
	}
	return out
}

// ---- recording P4Runtime server (Write only)
type c19P4Server struct {
	p4.UnimplementedP4RuntimeServer
	mu     sync.Mutex
	writes []c19Up4Write
	refuse bool
}

func (s *c19P4Server) Write(ctx context.Context, req *p4.WriteRequest) (*p4.WriteResponse, error) {
	s.mu.Lock()
	defer s.mu.Unlock()
	for _, u := range req.GetUpdates() {
		w := c19Up4Write{Kind: "other", Update: int32(u.GetType()), Device: req.GetDeviceId()}
		if me := u.GetEntity().GetMeterEntry(); me != nil {
			w.Kind = "meter"
			w.MeterID = me.GetMeterId()
			if me.GetIndex() != nil {
				w.HasIdx = true
				w.Index = me.GetIndex().GetIndex()
			}
			c := me.GetConfig()
			w.Cir, w.Cburst, w.Pir, w.Pburst = c.GetCir(), c.GetCburst(), c.GetPir(), c.GetPburst()
		} else {
			w.Kind = fmt.Sprintf("%T", u.GetEntity().GetEntity())
		}
		w.Refused = s.refuse
		s.writes = append(s.writes, w)
	}
	if s.refuse {
		return nil, status.Error(codes.Unavailable, "c19: P4Runtime target refuses")
	}
	return &p4.WriteResponse{}, nil
}

func (s *c19P4Server) take() []c19Up4Write {
	s.mu.Lock()
	defer s.mu.Unlock()
	out := s.writes
	s.writes = nil
	if out == nil {
		out = []c19Up4Write{}
	}
	return out
}

// ---- lazily started servers + connected clients, shared by all requests of the process
var (
	c19Once     sync.Once
	c19InitErr  error
	c19BessSrv  = &c19BessServer{}
	c19P4Srv    = &c19P4Server{}
	c19BessConn *grpc.ClientConn
	c19P4Conn   *grpc.ClientConn
)

func c19Dial(addr string) (*grpc.ClientConn, error) {
	conn, err := grpc.NewClient(addr, grpc.WithTransportCredentials(insecure.NewCredentials()))
	if err != nil {
		return nil, err
	}
	conn.Connect()
	ctx, cancel := context.WithTimeout(context.Background(), 60*time.Second)
	defer cancel()
	for {
		st := conn.GetState()
		if st == connectivity.Ready {
			return conn, nil
		}
		if !conn.WaitForStateChange(ctx, st) {
			return nil, fmt.Errorf("c19: connection to %s not ready (%v)", addr, st)
		}
	}
}

func c19Init() {
	logger.SetLogLevel(zapcore.DPanicLevel)
	lb, err := net.Listen("tcp", "127.0.0.1:0")
	if err != nil {
		c19InitErr = err
		return
	}
	gb := grpc.NewServer()
	pb.RegisterBESSControlServer(gb, c19BessSrv)
	go func() { _ = gb.Serve(lb) }()
	lp, err := net.Listen("tcp", "127.0.0.1:0")
	if err != nil {
		c19InitErr = err
		return
	}
	gp := grpc.NewServer()
	p4.RegisterP4RuntimeServer(gp, c19P4Srv)
	go func() { _ = gp.Serve(lp) }()
	// the address the bess plug-in would dial is the flag variable bessIP
	*bessIP = lb.Addr().String()
	if c19BessConn, err = c19Dial(*bessIP); err != nil {
		c19InitErr = err
		return
	}
	if c19P4Conn, err = c19Dial(lp.Addr().String()); err != nil {
		c19InitErr = err
		return
	}
}

func c19Datapath(in *c19In) (datapath, error) {
	switch in.Dp {
	case "bess":
		// what bess.SetUpfInfo establishes and AddSliceInfo needs: conn + client
		return &bess{conn: c19BessConn, client: pb.NewBESSControlClient(c19BessConn)}, nil
	case "up4":
		return &UP4{
			conf:      P4rtcInfo{SliceID: in.Slice, DefaultTC: in.Tc},
			deviceID:  1,
			connected: true,
			p4client: &P4rtClient{
				client:     p4.NewP4RuntimeClient(c19P4Conn),
				conn:       c19P4Conn,
				deviceID:   1,
				electionID: p4.Uint128{High: 0, Low: 1},
			},
			p4RtTranslator: newP4RtTranslator(nil),
		}, nil
	}
	return nil, fmt.Errorf("c19: unknown datapath %q", in.Dp)
}

func c19Consts() map[string]int64 {
	idxMax, _ := GetSliceTCMeterIndex(15, 3)
	return map[string]int64{
		"KB": KB, "MB": MB, "GB": GB, "DefaultBurstSize": DefaultBurstSize,
		"sliceMeterGateMeter": int64(sliceMeterGateMeter), "sliceMeterGateUnmeter": int64(sliceMeterGateUnmeter),
		"farForwardU": farForwardU, "farForwardD": farForwardD,
		"StatusCreated": http.StatusCreated, "StatusBadRequest": http.StatusBadRequest,
		"StatusMethodNotAllowed": http.StatusMethodNotAllowed,
		"upfMsgTypeAdd":          int64(upfMsgTypeAdd), "idx_15_3": idxMax,
		"TimeoutMs": Timeout.Milliseconds(),
	}
}

func c19DecodeOracle(body []byte) c19Decode {
	var ns NetworkSlice
	d := c19Decode{Ue: [][2]string{}}
	if err := json.Unmarshal(body, &ns); err != nil {
		d.Err = true
		return d
	}
	d.Name, d.Ul, d.Dl, d.Unit = ns.SliceName, ns.SliceQos.UplinkMbr, ns.SliceQos.DownlinkMbr, ns.SliceQos.BitrateUnit
	d.Ulb, d.Dlb = ns.SliceQos.UlBurstBytes, ns.SliceQos.DlBurstBytes
	for _, r := range ns.UeResInfo {
		d.Ue = append(d.Ue, [2]string{r.Dnn, r.Name})
	}
	return d
}

// one ConfigHandler + upf + datapath plug-in, serving one request after the other
type c19Session struct {
	u        *upf
	mux      *http.ServeMux
	sentinel *SliceInfo
}

func c19NewSession(in *c19In) (*c19Session, error) {
	dp, err := c19Datapath(in)
	if err != nil {
		return nil, err
	}
	sentinel := &SliceInfo{name: "c19-sentinel"}
	u := &upf{datapath: dp, sliceInfo: sentinel}
	mux := http.NewServeMux()
	setupConfigHandler(mux, u)
	return &c19Session{u: u, mux: mux, sentinel: sentinel}, nil
}

func c19StoredOf(s *SliceInfo) *c19Stored {
	if s == nil {
		return &c19Stored{Name: "<nil>", Ue: [][2]string{}}
	}
	st := &c19Stored{Name: s.name, Ul: s.uplinkMbr, Dl: s.downlinkMbr, Ulb: s.ulBurstBytes, Dlb: s.dlBurstBytes, Ue: [][2]string{}}
	for _, r := range s.ueResList {
		st.Ue = append(st.Ue, [2]string{r.name, r.dnn})
	}
	return st
}

func c19SetRefuse(v bool) {
	c19BessSrv.mu.Lock()
	c19BessSrv.refuse = v
	c19BessSrv.mu.Unlock()
	c19P4Srv.mu.Lock()
	c19P4Srv.refuse = v
	c19P4Srv.mu.Unlock()
}

// one request; out.Stored tells whether THIS request replaced upf.sliceInfo (pointer comparison)
func (ss *c19Session) step(in *c19In, body []byte, out *c19Out) {
	u := ss.u
	before := u.sliceInfo
	var rd io.Reader
	if in.FailAfter >= 0 {
		k := in.FailAfter
		if k > len(body) {
			k = len(body)
		}
		rd = &c19FailReader{data: body[:k]}
	} else {
		rd = io.NopCloser(newC19Bytes(body))
	}
	req := httptest.NewRequest("POST", "http://upf.local/v1/config/network-slices", rd)
	req.Method = in.Method
	req.Header.Set("Content-Type", "application/json")
	w := &c19Writer{rec: httptest.NewRecorder()}
	c19BessSrv.take()
	c19P4Srv.take()
	c19SetRefuse(in.Refuse)
	t0 := time.Now()
	func() {
		defer func() {
			if r := recover(); r != nil {
				out.Panic = fmt.Sprint(r)
			}
		}()
		ss.mux.ServeHTTP(w, req)
	}()
	out.ElapsedMs = time.Since(t0).Milliseconds()
	c19SetRefuse(false)
	out.Statuses = w.statuses
	if out.Statuses == nil {
		out.Statuses = []int{}
	}
	out.CtAtHeader = w.ctAtHeader
	out.CtFinal = w.rec.Header().Get("Content-Type")
	out.RespBody = w.rec.Body.String()
	out.Bess = c19BessSrv.take()
	out.Up4 = c19P4Srv.take()
	out.Stored = nil
	if u.sliceInfo != before {
		out.Stored = c19StoredOf(u.sliceInfo)
	}
}

// one request against a fresh upf
func c19Once1(in *c19In, body []byte, out *c19Out) {
	ss, err := c19NewSession(in)
	if err != nil {
		out.Panic = "harness: " + err.Error()
		return
	}
	ss.step(in, body, out)
}

func c19RunSeq(in *c19SeqIn, bodies [][]byte) (*c19SeqOut, bool) {
	res := &c19SeqOut{Steps: []*c19Out{}}
	ss, err := c19NewSession(&c19In{Dp: in.Dp, Slice: in.Slice, Tc: in.Tc})
	if err != nil {
		res.Steps = append(res.Steps, &c19Out{Panic: "harness: " + err.Error()})
		return res, false
	}
	slow := false
	for i := range in.Reqs {
		out := &c19Out{}
		ss.step(&in.Reqs[i], bodies[i], out)
		out.Decode = c19DecodeOracle(bodies[i])
		if out.ElapsedMs >= Timeout.Milliseconds()*7/10 {
			slow = true
		}
		res.Steps = append(res.Steps, out)
	}
	if ss.u.sliceInfo != ss.sentinel {
		res.Final = c19StoredOf(ss.u.sliceInfo)
	}
	return res, slow
}

type c19Bytes struct {
	b []byte
	i int
}

func newC19Bytes(b []byte) *c19Bytes { return &c19Bytes{b: b} }
func (r *c19Bytes) Read(p []byte) (int, error) {
	if r.i >= len(r.b) {
		return 0, io.EOF
	}
	// short reads on purpose: io.ReadAll has to loop
	n := len(p)
	if n > 7 {
		n = 7
	}
	n = copy(p[:n], r.b[r.i:])
	r.i += n
	return n, nil
}

func init() {
	verifRegister("c19", func(raw json.RawMessage) (interface{}, error) {
		var in c19In
		in.FailAfter = -1
		if err := json.Unmarshal(raw, &in); err != nil {
			return nil, err
		}
		body, err := base64.StdEncoding.DecodeString(in.BodyB64)
		if err != nil {
			return nil, err
		}
		c19Once.Do(c19Init)
		if c19InitErr != nil {
			return nil, c19InitErr
		}
		out := &c19Out{}
		// bess.AddSliceInfo gives its goroutine `Timeout` (1 s) to deliver both commands; on a
		// machine so loaded that a loopback round trip comes near that, let stragglers arrive and
		// take the observation again instead of reporting a timing artefact
		for attempt := 1; attempt <= 4; attempt++ {
			*out = c19Out{}
			c19Once1(&in, body, out)
			out.Attempts = attempt
			if out.ElapsedMs < Timeout.Milliseconds()*7/10 {
				break
			}
			time.Sleep(Timeout + 500*time.Millisecond)
		}
		out.Decode = c19DecodeOracle(body)
		return out, nil
	})

	// a history of requests against one handler + upf + datapath plug-in
	verifRegister("c19_seq", func(raw json.RawMessage) (interface{}, error) {
		var in c19SeqIn
		if err := json.Unmarshal(raw, &in); err != nil {
			return nil, err
		}
		bodies := make([][]byte, len(in.Reqs))
		for i := range in.Reqs {
			b, err := base64.StdEncoding.DecodeString(in.Reqs[i].BodyB64)
			if err != nil {
				return nil, err
			}
			bodies[i] = b
		}
		c19Once.Do(c19Init)
		if c19InitErr != nil {
			return nil, c19InitErr
		}
		var res *c19SeqOut
		// same precaution as in mode c19: a request that came near bess.AddSliceInfo's 1 s budget
		// may have lost commands to timing; let stragglers arrive and run the history again
		for attempt := 1; attempt <= 4; attempt++ {
			var slow bool
			res, slow = c19RunSeq(&in, bodies)
			res.Attempts = attempt
			if !slow {
				break
			}
			time.Sleep(Timeout + 500*time.Millisecond)
		}
		return res, nil
	})

	// unit level: GetSliceTCMeterIndex over all uint8 pairs (result or -1 for an error), and the
	// named constants the model and the monitor rely on
	verifRegister("c19_unit", func(raw json.RawMessage) (interface{}, error) {
		res := make([]int64, 0, 65536)
		for s := 0; s < 256; s++ {
			for tc := 0; tc < 256; tc++ {
				v, err := GetSliceTCMeterIndex(uint8(s), uint8(tc))
				if err != nil {
					v = -1
				}
				res = append(res, v)
			}
		}
		return map[string]interface{}{"index": res, "consts": c19Consts()}, nil
	})
}
