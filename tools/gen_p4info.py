#!/usr/bin/env python3
"""T1 translator: $VERIF_REPO/conf/p4/bin/p4info.txt -> coq/Gen/P4Info_gen.v  (DESIGN.md 3.3).

A strict parser for the text-proto subset p4c emits.  Every message and field it meets must be listed in
SCHEMA below; anything else (unknown field, unknown enum value, unexpected token, duplicate singular field)
raises P4InfoSyntaxError - the check then reports a broken tie instead of silently dropping information.

Also importable: `load(path)` returns the P4Info as plain Python data for the implementation-side monitor.
"""
import os
import re
import sys

VERIF = os.path.dirname(os.path.dirname(os.path.abspath(__file__)))
REPO = os.environ.get("VERIF_REPO", "/repo")
SRC_REL = os.path.join("conf", "p4", "bin", "p4info.txt")
OUT = os.path.join(os.environ.get("VERIF_COQ_DIR", os.path.join(VERIF, "coq")), "Gen", "P4Info_gen.v")


class P4InfoSyntaxError(Exception):
    pass


# ------------------------------------------------------------------------------------------------ lexer / parser

TOKEN = re.compile(r"""
    (?P<ws>[ \t\r\n]+|\#[^\n]*)
  | (?P<str>"(?:[^"\\\n]|\\.)*")
  | (?P<num>-?\d+)(?![\w.])
  | (?P<id>[A-Za-z_][A-Za-z0-9_]*)
  | (?P<punct>[{}:])
""", re.X)


def lex(text):
    pos, out, line = 0, [], 1
    while pos < len(text):
        m = TOKEN.match(text, pos)
        if not m:
            raise P4InfoSyntaxError(f"line {line}: unexpected character {text[pos]!r}")
        kind = m.lastgroup
        if kind != "ws":
            out.append((kind, m.group(kind), line))
        line += m.group(0).count("\n")
        pos = m.end()
    return out


def unescape(lit, line):
    """Text-proto string literal -> bytes."""
    s = lit[1:-1]
    out = bytearray()
    i = 0
    simple = {"n": 10, "t": 9, "r": 13, "\\": 92, '"': 34, "'": 39}
    while i < len(s):
        c = s[i]
        if c != "\\":
            if ord(c) > 127:
                raise P4InfoSyntaxError(f"line {line}: non-ASCII character in string")
            out.append(ord(c))
            i += 1
            continue
        i += 1
        if i >= len(s):
            raise P4InfoSyntaxError(f"line {line}: dangling backslash")
        c = s[i]
        if c in simple:
            out.append(simple[c])
            i += 1
        elif c in "01234567":
            j = i
            while j < len(s) and j < i + 3 and s[j] in "01234567":
                j += 1
            v = int(s[i:j], 8)
            if v > 255:
                raise P4InfoSyntaxError(f"line {line}: octal escape out of range")
            out.append(v)
            i = j
        elif c == "x":
            j = i + 1
            while j < len(s) and j < i + 3 and s[j] in "0123456789abcdefABCDEF":
                j += 1
            if j == i + 1:
                raise P4InfoSyntaxError(f"line {line}: empty hex escape")
            out.append(int(s[i + 1:j], 16))
            i = j
        else:
            raise P4InfoSyntaxError(f"line {line}: unknown escape \\{c}")
    return bytes(out)


def parse_message(toks, i, top=False):
    """Returns (list of (name, value, line), next index). value: ('msg', fields) | ('str', bytes) | ('num', int) | ('id', str)."""
    fields = []
    while i < len(toks):
        kind, val, line = toks[i]
        if kind == "punct" and val == "}":
            if top:
                raise P4InfoSyntaxError(f"line {line}: unbalanced '}}'")
            return fields, i + 1
        if kind != "id":
            raise P4InfoSyntaxError(f"line {line}: field name expected, got {val!r}")
        name = val
        i += 1
        if i >= len(toks):
            raise P4InfoSyntaxError(f"line {line}: truncated after {name}")
        k2, v2, l2 = toks[i]
        if k2 == "punct" and v2 == "{":
            sub, i = parse_message(toks, i + 1)
            fields.append((name, ("msg", sub), line))
            continue
        if not (k2 == "punct" and v2 == ":"):
            raise P4InfoSyntaxError(f"line {l2}: ':' or '{{' expected after {name}")
        i += 1
        if i >= len(toks):
            raise P4InfoSyntaxError(f"line {l2}: value expected after {name}:")
        k3, v3, l3 = toks[i]
        if k3 == "str":
            fields.append((name, ("str", unescape(v3, l3)), line))
        elif k3 == "num":
            fields.append((name, ("num", int(v3)), line))
        elif k3 == "id":
            fields.append((name, ("id", v3), line))
        elif k3 == "punct" and v3 == "{":
            sub, i = parse_message(toks, i + 1)
            fields.append((name, ("msg", sub), line))
            continue
        else:
            raise P4InfoSyntaxError(f"line {l3}: value expected after {name}:")
        i += 1
    if not top:
        raise P4InfoSyntaxError("unexpected end of file inside a message")
    return fields, i


# ------------------------------------------------------------------------------------------------ schema

MATCH_TYPES = {"EXACT": "MK_EXACT", "LPM": "MK_LPM", "TERNARY": "MK_TERNARY", "RANGE": "MK_RANGE", "OPTIONAL": "MK_OPTIONAL"}
SCOPES = {"TABLE_AND_DEFAULT": "SC_BOTH", "TABLE_ONLY": "SC_TABLE", "DEFAULT_ONLY": "SC_DEFAULT"}
UNITS = {"UNSPECIFIED", "BYTES", "PACKETS", "BOTH"}

# field -> (kind, repeated).  kind: 'str' | 'num' | 'enum:<set name>' | 'msg:<message name>' | 'bytes'
SCHEMA = {
    "P4Info": {
        "pkg_info": ("msg:PkgInfo", False), "tables": ("msg:Table", True), "actions": ("msg:Action", True),
        "action_profiles": ("msg:ActionProfile", True), "counters": ("msg:Counter", True),
        "direct_counters": ("msg:DirectCounter", True), "meters": ("msg:Meter", True),
        "direct_meters": ("msg:DirectMeter", True), "controller_packet_metadata": ("msg:CPM", True),
        "registers": ("msg:Register", True), "digests": ("msg:Digest", True), "type_info": ("msg:TypeInfo", False),
    },
    "PkgInfo": {"arch": ("str", False), "name": ("str", False), "version": ("str", False), "organization": ("str", False),
                "contact": ("str", False), "url": ("str", False)},
    "Preamble": {"id": ("num", False), "name": ("str", False), "alias": ("str", False), "annotations": ("str", True)},
    "Table": {"preamble": ("msg:Preamble", False), "match_fields": ("msg:MatchField", True), "action_refs": ("msg:ActionRef", True),
              "const_default_action_id": ("num", False), "implementation_id": ("num", False), "direct_resource_ids": ("num", True),
              "size": ("num", False), "is_const_table": ("id", False), "idle_timeout_behavior": ("id", False)},
    "MatchField": {"id": ("num", False), "name": ("str", False), "bitwidth": ("num", False), "match_type": ("enum:match", False),
                   "annotations": ("str", True)},
    "ActionRef": {"id": ("num", False), "scope": ("enum:scope", False), "annotations": ("str", True)},
    "Action": {"preamble": ("msg:Preamble", False), "params": ("msg:Param", True)},
    "Param": {"id": ("num", False), "name": ("str", False), "bitwidth": ("num", False), "annotations": ("str", True)},
    "ActionProfile": {"preamble": ("msg:Preamble", False), "table_ids": ("num", True), "with_selector": ("id", False),
                      "size": ("num", False), "max_group_size": ("num", False)},
    "Counter": {"preamble": ("msg:Preamble", False), "spec": ("msg:Spec", False), "size": ("num", False)},
    "DirectCounter": {"preamble": ("msg:Preamble", False), "spec": ("msg:Spec", False), "direct_table_id": ("num", False)},
    "Meter": {"preamble": ("msg:Preamble", False), "spec": ("msg:Spec", False), "size": ("num", False)},
    "DirectMeter": {"preamble": ("msg:Preamble", False), "spec": ("msg:Spec", False), "direct_table_id": ("num", False)},
    "Spec": {"unit": ("enum:unit", False)},
    "CPM": {"preamble": ("msg:Preamble", False), "metadata": ("msg:Param", True)},
    "Register": {"preamble": ("msg:Preamble", False), "type_spec": ("msg:Opaque", False), "size": ("num", False)},
    "Digest": {"preamble": ("msg:Preamble", False), "type_spec": ("msg:Opaque", False)},
    "TypeInfo": {"structs": ("msg:Opaque", True), "headers": ("msg:Opaque", True), "serializable_enums": ("msg:EnumEntry", True),
                 "new_types": ("msg:Opaque", True), "enums": ("msg:Opaque", True), "errors": ("msg:Opaque", False)},
    "EnumEntry": {"key": ("str", False), "value": ("msg:EnumSpec", False)},
    "EnumSpec": {"underlying_type": ("msg:Bitwidth", False), "members": ("msg:EnumMember", True), "annotations": ("str", True)},
    "Bitwidth": {"bitwidth": ("num", False)},
    "EnumMember": {"name": ("str", False), "value": ("bytes", False), "annotations": ("str", True)},
}
ENUMS = {"match": set(MATCH_TYPES), "scope": set(SCOPES), "unit": UNITS}


def check(fields, mname):
    """Validates `fields` against SCHEMA[mname] and returns {name: value | [values]}."""
    if mname == "Opaque":      # carried along unparsed (type specs the agent does not use); syntax was checked by the parser
        return {}
    sch = SCHEMA[mname]
    out = {k: [] for k, (_, rep) in sch.items() if rep}
    for name, (kind, val), line in fields:
        if name not in sch:
            raise P4InfoSyntaxError(f"line {line}: field {name!r} of {mname} is not understood by this translator")
        want, rep = sch[name]
        if want.startswith("msg:"):
            if kind != "msg":
                raise P4InfoSyntaxError(f"line {line}: {mname}.{name} must be a message")
            v = check(val, want[4:])
        elif want == "num":
            if kind != "num" or val < 0:
                raise P4InfoSyntaxError(f"line {line}: {mname}.{name} must be a non-negative integer")
            v = val
        elif want == "str":
            if kind != "str":
                raise P4InfoSyntaxError(f"line {line}: {mname}.{name} must be a string")
            try:
                v = val.decode("ascii")
            except UnicodeDecodeError:
                raise P4InfoSyntaxError(f"line {line}: {mname}.{name} is not ASCII")
        elif want == "bytes":
            if kind != "str":
                raise P4InfoSyntaxError(f"line {line}: {mname}.{name} must be a byte string")
            v = val
        elif want == "id":
            if kind != "id":
                raise P4InfoSyntaxError(f"line {line}: {mname}.{name} must be an identifier")
            v = val
        elif want.startswith("enum:"):
            if kind != "id" or val not in ENUMS[want[5:]]:
                raise P4InfoSyntaxError(f"line {line}: {mname}.{name} has unknown value {val!r}")
            v = val
        else:
            raise AssertionError(want)
        if rep:
            out[name].append(v)
        else:
            if name in out:
                raise P4InfoSyntaxError(f"line {line}: {mname}.{name} given twice")
            out[name] = v
    return out


def need(d, key, what):
    if key not in d:
        raise P4InfoSyntaxError(f"{what}: missing {key}")
    return d[key]


def load(path=None):
    """P4Info as plain data: dict with tables/actions/... (see the code below for the shape)."""
    path = path or os.path.join(REPO, SRC_REL)
    text = open(path, encoding="ascii", errors="strict").read()
    fields, _ = parse_message(lex(text), 0, top=True)
    top = check(fields, "P4Info")

    def pre(d, what):
        p = need(d, "preamble", what)
        return need(p, "id", what), need(p, "name", what), p.get("alias", "")

    info = {"tables": [], "actions": [], "action_profiles": [], "counters": [], "direct_counters": [], "meters": [],
            "direct_meters": [], "controller_packet_metadata": [], "registers": [], "digests": [], "enums": []}
    for t in top["tables"]:
        i, n, a = pre(t, "table")
        info["tables"].append({
            "id": i, "name": n, "alias": a, "size": t.get("size", 0),
            "const_default_action_id": t.get("const_default_action_id", 0),
            "fields": [{"id": need(f, "id", n), "name": need(f, "name", n), "bitwidth": need(f, "bitwidth", n),
                        "match_type": need(f, "match_type", n)} for f in t["match_fields"]],
            "action_refs": [{"id": need(r, "id", n), "scope": r.get("scope", "TABLE_AND_DEFAULT")} for r in t["action_refs"]]})
    for x in top["actions"]:
        i, n, a = pre(x, "action")
        info["actions"].append({"id": i, "name": n, "alias": a,
                                "params": [{"id": need(p, "id", n), "name": need(p, "name", n), "bitwidth": need(p, "bitwidth", n)}
                                           for p in x["params"]]})
    for key in ("counters", "meters", "registers", "action_profiles"):
        for x in top[key]:
            i, n, a = pre(x, key)
            info[key].append({"id": i, "name": n, "alias": a, "size": x.get("size", 0)})
    for key in ("direct_counters", "direct_meters", "digests"):
        for x in top[key]:
            i, n, a = pre(x, key)
            info[key].append({"id": i, "name": n, "alias": a})
    for x in top["controller_packet_metadata"]:
        i, n, a = pre(x, "controller_packet_metadata")
        info["controller_packet_metadata"].append({"id": i, "name": n, "alias": a,
                                                   "metadata": [{"id": need(p, "id", n), "name": need(p, "name", n),
                                                                 "bitwidth": need(p, "bitwidth", n)} for p in x["metadata"]]})
    ti = top.get("type_info", {})
    for e in ti.get("serializable_enums", []):
        k = need(e, "key", "serializable_enums")
        v = need(e, "value", "serializable_enums")
        info["enums"].append({"name": k, "bitwidth": need(need(v, "underlying_type", k), "bitwidth", k),
                              "members": [{"name": need(m, "name", k), "value": need(m, "value", k)} for m in v["members"]]})
    for lst, what in ((info["tables"], "table"), (info["actions"], "action"), (info["counters"], "counter"), (info["meters"], "meter")):
        ids = [x["id"] for x in lst]
        if len(set(ids)) != len(ids):
            raise P4InfoSyntaxError(f"duplicate {what} id")
    return info


# ------------------------------------------------------------------------------------------------ Gallina printer

def gs(s):
    if any(ord(c) > 126 or ord(c) < 32 for c in s):
        raise P4InfoSyntaxError(f"name {s!r} is not printable ASCII")
    return '"' + s.replace('"', '""') + '"'


def gn(n):
    return f"{int(n)}"


def gl(xs, indent="    "):
    if not xs:
        return "[]"
    return "[\n" + ";\n".join(indent + x for x in xs) + "]"


def render(info, src):
    o = []
    o.append(f"(* GENERATED by tools/gen_p4info.py from {src} - do not edit. *)")
    o.append("From Coq Require Import NArith List String.")
    o.append("From UPF Require Import Model.P4Info.")
    o.append("Import ListNotations.")
    o.append("Open Scope N_scope.")
    o.append("Open Scope string_scope.")
    o.append("")
    tabs = []
    for t in info["tables"]:
        fs = gl([f"MF {gn(f['id'])} {gs(f['name'])} {gn(f['bitwidth'])} {MATCH_TYPES[f['match_type']]}" for f in t["fields"]], "       ")
        rs = gl([f"AR {gn(r['id'])} {SCOPES[r['scope']]}" for r in t["action_refs"]], "       ")
        tabs.append(f"Tbl {gn(t['id'])} {gs(t['name'])} {gs(t['alias'])}\n      {fs}\n      {rs}\n      {gn(t['size'])} {gn(t['const_default_action_id'])}")
    o.append("Definition tables : list table := " + gl(tabs, "  ") + ".\n")
    acts = []
    for a in info["actions"]:
        ps = gl([f"Prm {gn(p['id'])} {gs(p['name'])} {gn(p['bitwidth'])}" for p in a["params"]], "       ")
        acts.append(f"Act {gn(a['id'])} {gs(a['name'])} {gs(a['alias'])} {ps}")
    o.append("Definition actions : list action := " + gl(acts, "  ") + ".\n")
    for key, name in (("action_profiles", "action_profiles"), ("counters", "counters"), ("meters", "meters"), ("registers", "registers")):
        o.append(f"Definition {name} : list sized := " + gl([f"Sz {gn(x['id'])} {gs(x['name'])} {gn(x['size'])}" for x in info[key]], "  ") + ".\n")
    for key, name in (("direct_counters", "direct_counters"), ("direct_meters", "direct_meters"), ("digests", "digests"),
                      ("controller_packet_metadata", "ctrl_metadata")):
        o.append(f"Definition {name} : list named := " + gl([f"Nm {gn(x['id'])} {gs(x['name'])}" for x in info[key]], "  ") + ".\n")
    ens = []
    for e in info["enums"]:
        ms = gl(["(" + gs(m["name"]) + ", [" + "; ".join(gn(b) for b in m["value"]) + "])" for m in e["members"]], "       ")
        ens.append(f"En {gs(e['name'])} {gn(e['bitwidth'])} {ms}")
    o.append("Definition enums : list enum := " + gl(ens, "  ") + ".\n")
    o.append("Definition info : p4info :=\n  P4I tables actions action_profiles counters direct_counters meters direct_meters ctrl_metadata registers digests enums.")
    return "\n".join(o) + "\n"


def write_if_changed(path, text):
    os.makedirs(os.path.dirname(path), exist_ok=True)
    old = open(path).read() if os.path.exists(path) else None
    if old != text:
        with open(path, "w") as f:
            f.write(text)
        return True
    return False


def main(repo=None):
    repo = repo or REPO
    info = load(os.path.join(repo, SRC_REL))
    return write_if_changed(OUT, render(info, SRC_REL))


if __name__ == "__main__":
    try:
        changed = main()
    except (P4InfoSyntaxError, OSError, UnicodeDecodeError) as e:
        print(f"gen_p4info: {e}", file=sys.stderr)
        sys.exit(2)
    print("P4Info_gen.v " + ("rewritten" if changed else "unchanged"))
