#!/usr/bin/env python3
"""Debug aid: python3 tools/l1diag.py <replay.json> - reruns the history on the implementation and prints where the
Coq agent model and the implementation first disagree."""
import json, re, sys, os
sys.path.insert(0, os.path.dirname(os.path.abspath(__file__)))
import lib
from props import l1model

d = json.load(open(sys.argv[1]))
case = (d.get("first_disagreeing_case") or d)["case"]["input"]
b = lib.build_harness()
obs = lib.run_harness(b, "l1", [case])[0]["obs"]
t = l1model.case_term(case, obs)
lib.coq_make(["Run/Eval_L1.vo"])
rc, out = lib.coq_eval_text("L1dbg", l1model.HEADER + f"Definition c := {t}.\nDefinition D := Eval vm_compute in diag c.\nPrint D.\n")
flat = " ".join(out.split())
print("MODEL", flat[:2500])
m = re.search(r"Some\s*\(\s*(\d+)", out)
if m:
    j = int(m.group(1))
    o = obs[j]
    print("EVENT", j, case["events"][j]["k"], case["events"][j].get("hex", "")[:200])
    print("impl reply", l1model.enc_reply(o), "seq", l1model.reply_seq(o), "ncmds", len([c for c in o["cmds"] if c["c"] != "clear"]), "gauge", o["pools"]["gauge"],
          "teids", o["pools"]["teids"], "inv", o["pools"].get("ip_inv"), "free", o["pools"].get("ip_free"))
    print("impl store", [(s["conn"], s["lseid"], s["rseid"], [l1model.enc_pdr(p) for p in s["pdrs"]], [l1model.enc_far(f) for f in s["fars"]],
                          [l1model.enc_qer(q) for q in s["qers"]]) for s in o["store"]])
    print("impl tables", {m: len(v) for m, v in o["tables"].items()}, "markers", o["markers"], "done", o["done"], "pfd", o["pools"].get("pfd_ids"), "panic", o.get("panic"))
    print("sem", json.dumps(o.get("sem"))[:3000])
