#!/usr/bin/env python3
"""Validate a seeded change with tools/seedtest.py and store it under seeded/<name>/ with meta.json.

  python3 tools/seedstore.py <source dir> <property> <name> [--first-caught yes|no] [--strengthened "text"] [--checks C15,C04]
"""
import argparse
import json
import os
import shutil
import subprocess
import sys

V = os.path.dirname(os.path.dirname(os.path.abspath(__file__)))


def main():
    ap = argparse.ArgumentParser()
    ap.add_argument("src")
    ap.add_argument("prop")
    ap.add_argument("name")
    ap.add_argument("--first-caught", default="yes")
    ap.add_argument("--strengthened", default="")
    ap.add_argument("--checks")
    ap.add_argument("--note", default="")
    a = ap.parse_args()
    wt = f"/tmp/rw-store-{a.name}"
    cmd = [sys.executable, os.path.join(V, "tools", "seedtest.py"), a.src, a.prop, "--worktree", wt]
    if a.checks:
        cmd += ["--checks", a.checks]
    out = subprocess.run(cmd, cwd=V, stdout=subprocess.PIPE, stderr=subprocess.STDOUT, text=True, errors="replace").stdout
    subprocess.run(["git", "-C", "/repo", "worktree", "remove", "--force", wt], stdout=subprocess.DEVNULL, stderr=subprocess.DEVNULL)
    shutil.rmtree(os.path.join(V, "build", "seed-" + os.path.basename(wt)), ignore_errors=True)
    try:
        j = json.loads(out[out.index('{\n "dir"'):])
    except ValueError:
        print(a.name, "seedtest failed:", out[-800:])
        sys.exit(2)
    dst = os.path.join(V, "seeded", a.name)
    os.makedirs(dst, exist_ok=True)
    for f in os.listdir(a.src):
        if f in ("seedtest.out", "__pycache__"):
            continue
        src = os.path.join(a.src, f)
        if os.path.isdir(src):
            shutil.copytree(src, os.path.join(dst, f), dirs_exist_ok=True, ignore=shutil.ignore_patterns("__pycache__"))
        elif os.path.getsize(src) < 300000:
            shutil.copy(src, os.path.join(dst, f))
    notes = open(os.path.join(a.src, "notes.txt"), errors="replace").read() if os.path.exists(os.path.join(a.src, "notes.txt")) else ""
    head = subprocess.check_output(["git", "-C", "/repo", "log", "--oneline", "-1"], text=True).split()[0]
    meta = {
        "property": a.prop,
        "origin": "independent sub-agent given only the property text and a scratch worktree of /repo (later round)",
        "base_commit": f"written against 956e246; validated at {head}" + (" (patch.diff rebased by hand, the author's patch is patch.orig-956e246.diff)" if os.path.exists(os.path.join(a.src, "patch.orig-956e246.diff")) else ""),
        "what_it_needs_to_manifest": " ".join(notes.split())[:900],
        "validated": {"patch_applies": j.get("applies"), "existing_suite_passes_with_patch": j.get("suite_passes"),
                      "demo_passes_on_clean_tree": j.get("demo_clean_passes"), "demo_fails_with_patch": j.get("demo_fails_with_patch")},
        "ran": f"python3 tools/seedtest.py <dir> {a.prop}" + (f" --checks {a.checks}" if a.checks else "") + "  (scratch worktree; git apply; repo suite; demo with/without; VERIF_REPO=<worktree>, own build and coq directories; python3 tools/check.py <check> --tier quick)",
        "check_result": {c: {"violation_reported": r["violation"], "lines": r["lines"]} for c, r in j.get("checks", {}).items()},
        "caught_by_first_version_of_the_check": a.first_caught == "yes",
    }
    if a.strengthened:
        meta["check_strengthened_by"] = a.strengthened
    if a.note:
        meta["note"] = a.note
    json.dump(meta, open(os.path.join(dst, "meta.json"), "w"), indent=1)
    print(a.name, {c: r["violation"] for c, r in j.get("checks", {}).items()}, meta["validated"])


if __name__ == "__main__":
    main()
