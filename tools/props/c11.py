"""C11 - concurrent associations do not interfere.

tie T1   harness/skel_c11 extracts the lock table (shared field x function x read|write x locks held x goroutine
         classes) from pfcpiface/*.go into coq/Gen/Locks_gen.v; Props/C11.v re-evaluates the lockset discipline on it.
tie T2   race-enabled harness (harness/go/verif_c11_test.go), one scenario per process: 2..8 associations stream
         establish / modify / delete requests concurrently against one upf (worlds: PFCPConn literals + bess, PFCPConn
         literals + UP4, real PFCPNode over UDP + bess).  Oracles: race detector reports (mapped to shared fields through
         the lock table's source positions), Go's "concurrent map writes" abort, panics, hangs; at every barrier the
         datapath tables = union of the images of every association's sessions, every association's stored rules =
         what that association asked for, every response correct (l1.mon_c02); after all deletions the shared pools are
         back to their initial occupancy.
model    the BESS server's command log (arrival order) of every run is replayed on the Coq table model and the
         hypotheses of C11_interleaving_serializable are evaluated on it (Run/Eval_C11.v).
"""
import copy
import re
import threading

from lib import *
from props.l1common import L1_TRUSTED
import l1
import pfcp as P

TARGETS = ["Props/C11.vo", "Run/Eval_C11.vo"]
SKEL = os.path.join(VERIF, "harness", "skel_c11")
HEADER = ("From Coq Require Import NArith List Bool.\nFrom UPF Require Import Model.Agent Model.Locks Run.Eval_C11.\n"
          "Import ListNotations.\nOpen Scope N_scope.\n")
MODS = {"pdrLookup": 0, "farLookup": 1, "appQERLookup": 2, "sessionQERLookup": 3}
# fields that UP4.tryConnect's re-initialisation rewrites under tryConnectMu only (C11_lockset_up4_reconnect_refuted)
RECONNECT_FIELDS = ("UP4.appMeterCellIDsPool", "UP4.endMarkerChan", "UP4.p4RtTranslator", "UP4.p4client",
                    "UP4.sessMeterCellIDsPool", "counter.counterIDsPool")
ENBS = [l1.ip(192, 168, 200, k) for k in (1, 2, 3)]
APP_SDFS = [("permit out udp from 8.8.8.8/32 53 to assigned", l1.ip(8, 8, 8, 8), l1.M32, 17, (53, 53)),
            ("permit out tcp from 1.2.3.4/32 443 to assigned", l1.ip(1, 2, 3, 4), l1.M32, 6, (443, 443)),
            ("permit out udp from 9.9.9.9/32 4500 to assigned", l1.ip(9, 9, 9, 9), l1.M32, 17, (4500, 4500))]


# ------------------------------------------------------------------------------------------------ tie T1: lock table

def lock_table():
    """-> (table dict, error string)"""
    env = dict(os.environ)
    env.update({"GOFLAGS": "", "GOTOOLCHAIN": "local", "GOPROXY": "off", "VERIF_REPO": REPO})
    env.pop("GOSUMDB", None)
    try:
        p = subprocess.run(["go", "run", "."], cwd=SKEL, env=env, stdout=subprocess.PIPE, stderr=subprocess.PIPE, text=True, timeout=300)
    except subprocess.TimeoutExpired:
        return None, "lock-table extractor timed out"
    if p.returncode != 0:
        return None, "lock-table extractor failed: " + p.stderr[-1500:]
    try:
        t = json.loads(p.stdout)
    except ValueError:
        return None, "lock-table extractor printed no JSON: " + p.stdout[-500:]
    if "error" in t:
        return None, "lock-table extractor: " + t["error"]
    gen = os.path.join(COQ, "Gen", "Locks_gen.v")
    old = open(gen).read() if os.path.exists(gen) else None
    if old != t["coq"]:
        with open(gen, "w") as f:
            f.write(t["coq"])
    os.makedirs(BUILD, exist_ok=True)
    with open(os.path.join(BUILD, "c11_locktable.json"), "w") as f:
        json.dump({k: v for k, v in t.items() if k != "coq"}, f, indent=0)
    return t, None


def lockset_python(rows):
    """the same discipline as Model/Locks.v, evaluated in Python on the rows with positions: used to name the
    offending access pair when the Coq obligations break (search step of the protocol)"""
    def live(r):
        return r["phase"] in ("run", "reinit")

    def real(c):
        return c["name"] != "init" and not c["name"].startswith("api:")

    def par(a, b):
        return any(real(c1) and real(c2) and (c1["name"] != c2["name"] or c1["multi"]) for c1 in a["classes"] for c2 in b["classes"])
    by = {}
    for r in rows:
        by.setdefault(r["field"], []).append(r)
    bad = {}
    for f, rs in by.items():
        for a in rs:
            for b in rs:
                if (a["rw"] == "W" or b["rw"] == "W") and live(a) and live(b) and par(a, b) and not set(a["locks"]) & set(b["locks"]):
                    bad.setdefault(f, []).append((a, b))
    return bad


# ------------------------------------------------------------------------------------------------ scenarios

class AGen(l1.Gen):
    """one association's control plane: keeps its own view; identifiers it chooses itself (TEIDs for the uplink
    tunnel, UE addresses it assigns) come from a range of its own - the envelope of the statement"""

    def __init__(self, rng, cfg, conn):
        super().__init__(rng, cfg, nconn=conn + 1)
        self.conn = conn
        self.next_teid = 0x100 + conn * 0x100000
        self.nue = 0
        self.order = []          # local SEIDs in establishment order

    def own_ue(self):
        self.nue += 1
        return l1.ip(10, 60 + self.conn, self.nue >> 8, self.nue & 255)

    def est(self, **kw):
        r = self.rng
        chv4 = kw.pop("chv4", self.cfg["ueip_alloc"] and r.random() < 0.5)
        l = self.establish(self.conn, chv4=chv4, fixed_ue=self.own_ue(), **kw)
        self.order.append(l)
        self.events[-1]["sess"] = -1
        return l

    def mod(self, lseid):
        s = self.sessions[lseid]
        kinds = ["upd_far", "upd_far", "upd_far_em", "upd_qer", "rm_pair", "upd_pdr_prec", "cp_fseid", "upd_far_buffer"]
        if not any(p.get("ue") == "chv4" for p in s["pdrs"].values()):
            kinds.append("add_pair")
        self.modify(lseid, kind=self.rng.choice(kinds))
        self.events[-1]["sess"] = self.order.index(lseid)

    def dele(self, lseid):
        self.delete(lseid)
        self.events[-1]["sess"] = self.order.index(lseid)


class U4Gen(AGen):
    """sessions the UP4 plug-in supports: one uplink / downlink pair, precedence below 2^16, at most two QERs,
    downlink tunnels to a small set of base stations and application filters shared by all associations"""

    def est(self, **kw):
        r = self.rng
        seq = self._seq()
        ue = "chv4" if (self.cfg["ueip_alloc"] and r.random() < 0.4 and not kw.get("plain")) else self.own_ue()
        nq = kw["nq"] if "nq" in kw else r.choice([0, 1, 2])
        qids = list(range(1, nq + 1))
        prec = r.choice([10, 100, 200, 255])
        choose = r.random() < 0.5 and not kw.get("plain")
        ul = {"id": 1, "prec": prec, "iface": 0, "fteid": "choose" if choose else (self._teid(), l1.ACCESS_IP),
              "ue": (None if ue == "chv4" else ue), "ohr": True, "far": 1, "qers": qids}
        dl = {"id": 2, "prec": prec, "iface": 1, "ue": ue, "far": 2, "qers": qids}
        if (kw["app"] is not None) if "app" in kw else (r.random() < 0.7):
            k = kw["app"] if kw.get("app") is not None else r.randrange(len(APP_SDFS))
            t = APP_SDFS[k]
            # the Applications entry is inserted with the first user's precedence as priority and deleted with the last
            # user's (sequential behaviour, C04's business): sessions sharing a filter use one precedence here
            ul["prec"] = dl["prec"] = 100 + k
            sd = {"text": t[0], "rip": t[1], "rmask": t[2], "proto": t[3], "ports": t[4]}
            ul["sdf"], ul["sdf_sem"] = sd["text"], sd
            dl["sdf"], dl["sdf_sem"] = sd["text"], sd
        ulf = {"id": 1, "action": 2, "fwd": {"dst_if": 1}}
        dlf = {"id": 2, "action": 2, "fwd": {"dst_if": 0, "ohc": (self._teid(), kw["enb"] if "enb" in kw else r.choice(ENBS))}}
        qers = [{"id": q, "qfi": r.choice([5, 9]), "gate": (0, 0), "mbr": r.choice([(1000, 2000), (50000, 60000)]), "gbr": (0, 0)} for q in qids]
        pdrs, fars = [ul, dl], [ulf, dlf]
        k = self.next_lseid.get(self.conn, 0) + 1
        self.next_lseid[self.conn] = k
        lseid = (self.conn + 1) * 1000000 + k
        cp_seid = r.randrange(1, 1 << 40)
        ies = [P.node_id_v4(l1.peer_ip(self.conn)), P.fseid(cp_seid, l1.peer_ip(self.conn))]
        ies += [l1.pdr_ie(P.CREATE_PDR, p) for p in pdrs] + [l1.far_ie(P.CREATE_FAR, f) for f in fars] + [l1.qer_ie(P.CREATE_QER, q) for q in qers]
        self.emit(self.conn, P.message(P.SE_REQ, seq, ies, seid=0),
                  {"op": "est", "seq": seq, "req": P.SE_REQ, "wf": True, "expect": "accept", "lseid": lseid, "cp_seid": cp_seid,
                   "pdrs": pdrs, "fars": fars, "qers": qers})
        self.sessions[lseid] = {"conn": self.conn, "cp_seid": cp_seid, "pdrs": {p["id"]: p for p in pdrs},
                                "fars": {f["id"]: f for f in fars}, "qers": {q["id"]: q for q in qers}}
        self.order.append(lseid)
        self.events[-1]["sess"] = -1
        return lseid

    def mod(self, lseid):
        # a handover inside the same base station: new downlink TEID, same tunnel peer
        s = self.sessions[lseid]
        seq = self._seq()
        old = s["fars"][2]
        nf = {"id": 2, "action": 2, "fwd": {"dst_if": 0, "ohc": (self._teid(), old["fwd"]["ohc"][1])}}
        s["fars"][2] = nf
        self.emit(self.conn, P.message(P.SM_REQ, seq, [l1.far_ie(P.UPDATE_FAR, nf)], seid=lseid),
                  {"op": "mod", "seq": seq, "req": P.SM_REQ, "wf": True, "lseid": lseid, "expect": "accept", "kind": "upd_far",
                   "markers": [], "cp_seid": s["cp_seid"]})
        self.events[-1]["sess"] = self.order.index(lseid)


def build_scenario(rng, world, nconn, nsess, tag, pool="10.250.0.0/22", pause=600, reports=True):
    """-> scenario dict: harness input + per association (intents, views after each phase)"""
    cfg = l1.default_cfg(pool=pool, end_marker=(world != "up4"))
    if world == "up4":
        cfg["core_ip"] = "0.0.0.0"
    if world == "node":
        cfg["n4addr"] = "127.0.0.1"      # the node's socket is bound to the loopback address
    G = U4Gen if world == "up4" else AGen
    conns, meta = [], []
    for c in range(nconn):
        g = G(random.Random(rng.getrandbits(64)), cfg, c)
        phases, views = [], []
        # phase 0: association, first sessions, modifications in between
        g.setup(c)
        g.events[-1]["sess"] = -1
        if world == "node":
            # the associations are set up one after the other, before any session traffic: while the node creates the socket
            # of a new peer (bind, then connect) that socket takes datagrams of OTHER peers (finding F1103, scenario
            # node_setup_storm); the streams of this scenario start when every peer has its connection
            phases.append(len(g.events))
            views.append(g.view())
        for _ in range(nsess):
            g.est()
            if g.sessions and g.rng.random() < 0.5:
                g.mod(g.rng.choice(list(g.sessions)))
        phases.append(len(g.events))
        views.append(g.view())
        # phase 1: modifications, deletions, new sessions
        for _ in range(nsess + 1):
            r = g.rng.random()
            live = list(g.sessions)
            if r < 0.45 and live:
                g.mod(g.rng.choice(live))
            elif r < 0.75 and live:
                g.dele(g.rng.choice(live))
            else:
                g.est()
        phases.append(len(g.events))
        views.append(g.view())
        # phase 2: everything ends
        for l in list(g.sessions):
            g.dele(l)
        phases.append(len(g.events))
        views.append(g.view())
        evs = [{"hex": e["hex"], "draws": e.get("draws", []), "sess": e.get("sess", -1)} for e in g.events]
        cut = [0] + phases
        conns.append({"id": c, "phases": [evs[cut[i]:cut[i + 1]] for i in range(len(phases))]})
        meta.append({"id": c, "intents": g.intents, "views": views, "order": g.order})
    inp = {"world": world, "cfg": cfg, "seed": rng.getrandbits(40), "max_pause_us": pause, "conns": conns,
           "reports": reports and world != "node", "watchdog_s": 300,
           "ddn": ([l1.ip(10, 60, 0, 1), l1.ip(10, 61, 0, 1)] if world == "up4" else []),
           "sizes": {}}
    if world == "node":
        inp["serial_phases"] = [0]
    return {"tag": tag, "world": world, "input": inp, "meta": meta, "final_empty": True}


def reconnect_scenario(rng, nconn, nsess, tag):
    """UP4 loses its P4Runtime connection while requests are in flight (closed from the harness at a few random
    instants); judged on race reports / aborts / hangs only"""
    sc = build_scenario(rng, "up4", nconn, nsess, tag, pause=100)
    sc["input"]["drop_conn_ms"] = sorted(rng.randrange(5, 500) for _ in range(8))
    sc["judge"] = "races"
    return sc


HANDOFF_KINDS = {   # kind -> (table held, update type, what association A does meanwhile, shared object)
    "peer-delete": ("tunnel_peers", "DELETE", "del", "peer"),
    "peer-insert": ("tunnel_peers", "INSERT", "est", "peer"),
    "app-delete": ("applications", "DELETE", "del", "app"),
    "app-insert": ("applications", "INSERT", "est", "app"),
}


def handoff_scenario(rng, kind, mode, tag):
    """two associations and one shared UP4 object (a tunnel peer or an application filter).  mode "hold": the P4Runtime
    server holds association A's write of the shared object's table while association B establishes a session that uses the
    same object; modes "AB" / "BA": the same two requests one after the other (the one-at-a-time outcomes)."""
    table, utype, a_does, shared = HANDOFF_KINDS[kind]
    cfg = l1.default_cfg(pool="10.250.0.0/22", end_marker=False)
    cfg["core_ip"] = "0.0.0.0"
    ga, gb = U4Gen(random.Random(rng.getrandbits(64)), cfg, 0), U4Gen(random.Random(rng.getrandbits(64)), cfg, 1)
    spec = {"plain": True, "nq": 0}
    sa = dict(spec, enb=ENBS[0], app=(0 if shared == "app" else None))
    sb = dict(spec, enb=(ENBS[0] if shared == "peer" else ENBS[1]), app=(0 if shared == "app" else None))

    def cut(g):
        evs = [{"hex": e["hex"], "draws": e.get("draws", []), "sess": e.get("sess", -1)} for e in g.events[g._cut:]]
        g._cut = len(g.events)
        return evs
    ga._cut = gb._cut = 0
    script, views = [], []
    ga.setup(0), gb.setup(1)
    if a_does == "del":
        la = ga.est(**sa)
    script.append({"op": "run", "conn": 0, "events": cut(ga)})
    script.append({"op": "run", "conn": 1, "events": cut(gb)})
    if a_does == "del":
        ga.dele(la)
    else:
        la = ga.est(**sa)
    lb = gb.est(**sb)
    ea, eb = cut(ga), cut(gb)
    if mode == "hold":
        script += [{"op": "hold", "table": table, "type": utype, "count": 1, "max_ms": 4000},
                   {"op": "start", "conn": 0, "events": ea, "name": "a"},
                   {"op": "wait_held", "n": 1, "ms": 2000},
                   {"op": "start", "conn": 1, "events": eb, "name": "b"},
                   {"op": "wait_done", "name": "b", "ms": 500},
                   {"op": "release"}, {"op": "join"}]
    elif mode == "AB":
        script += [{"op": "run", "conn": 0, "events": ea}, {"op": "run", "conn": 1, "events": eb}]
    else:
        script += [{"op": "run", "conn": 1, "events": eb}, {"op": "run", "conn": 0, "events": ea}]
    script.append({"op": "snap"})
    views.append((ga.view(), gb.view()))
    for l in list(ga.sessions):
        ga.dele(l)
    for l in list(gb.sessions):
        gb.dele(l)
    script += [{"op": "run", "conn": 0, "events": cut(ga)}, {"op": "run", "conn": 1, "events": cut(gb)}, {"op": "snap"}]
    views.append((ga.view(), gb.view()))
    inp = {"world": "up4", "cfg": cfg, "seed": 1, "max_pause_us": 0, "conns": [{"id": 0, "phases": []}, {"id": 1, "phases": []}],
           "reports": False, "watchdog_s": 120, "ddn": [], "sizes": {}, "script": script}
    meta = [{"id": 0, "intents": ga.intents, "views": [v[0] for v in views], "order": ga.order},
            {"id": 1, "intents": gb.intents, "views": [v[1] for v in views], "order": gb.order}]
    return {"tag": tag, "world": "up4", "input": inp, "meta": meta, "final_empty": True, "handoff": [kind, mode]}


def up4_abstract(snap):
    """the UP4 datapath state up to the identifiers the plug-in chooses: what two runs must agree on"""
    tabs = {}
    for r in snap["up4_tables"]:
        tabs.setdefault(r["table_name"].split(".")[-1], []).append(r)
    peers = {}
    for r in tabs.get("tunnel_peers", []):
        m, p = up4_fields(r)
        peers[int(list(m.values())[0]["value"])] = p.get("dst_addr")
    apps = {}
    for r in tabs.get("applications", []):
        m, p = up4_fields(r)
        apps[p.get("app_id")] = json.dumps(sorted((k, {x: v.get(x) for x in ("value", "mask", "low", "high", "prefix")}) for k, v in m.items()))
    dl = []
    for r in tabs.get("sessions_downlink", []):
        m, p = up4_fields(r)
        pid = p.get("tunnel_peer_id")
        dl.append((int(m["ue_address"]["value"]), "none" if pid is None else peers.get(pid, "DANGLING")))
    term = []
    for t in ("terminations_uplink", "terminations_downlink"):
        for r in tabs.get(t, []):
            m, _ = up4_fields(r)
            aid = int(m["app_id"]["value"]) if "app_id" in m and m["app_id"].get("value") else 0
            term.append((t, int(m["ue_address"]["value"]), "any" if aid == 0 else apps.get(aid, "DANGLING")))
    pools, init = snap["up4_pools"], snap["up4_pools_init"]
    return {"peers": sorted(peers.values()), "apps": sorted(apps.values()), "sessions_downlink": sorted(dl), "terminations": sorted(term),
            "sessions_uplink": len(tabs.get("sessions_uplink", [])),
            "pool_deltas": {k: init[k] - pools[k] for k in ("tunnel_peer_pool", "application_pool", "counter_pool")},
            "plugin_counts": {k: pools[k] for k in ("tunnel_peers", "applications", "ue_to_fseid", "fseid_to_ue")}}


def collision_history(rng):
    """F32 on the real code, sequentially: both associations' random sources yield the same draw"""
    cfg = l1.default_cfg()
    g0, g1 = AGen(random.Random(rng.getrandbits(64)), cfg, 0), AGen(random.Random(rng.getrandbits(64)), cfg, 1)
    d = 4242
    events, who = [], []

    def take(g):
        while len(g.events) > g._taken:
            events.append(g.events[g._taken])
            who.append((g.conn, g._taken))
            g._taken += 1
    g0._taken = g1._taken = 0
    g0.setup(0), take(g0)
    g1.setup(1), take(g1)
    g0.establish(0, npairs=1, nqers=1, chv4=False, choose=False, with_sdf=False, fixed_ue=g0.own_ue(), draws=[d]), take(g0)
    v0 = g0.view()
    g1.establish(1, npairs=1, nqers=1, chv4=False, choose=False, with_sdf=False, fixed_ue=g1.own_ue(), draws=[d]), take(g1)
    g1.delete(d), take(g1)
    for e in events:
        e.pop("sess", None)
    return {"cfg": cfg, "events": events}, who, v0, d


# ------------------------------------------------------------------------------------------------ running one scenario

RACE_RE = re.compile(r"WARNING: DATA RACE\n(.*?)\n==================", re.S)


def run_scenario(binary, sc, timeout=420):
    """one process; -> dict(rc, out, obs or None)"""
    tag = "c11_" + sc["tag"]
    os.makedirs(os.path.join(BUILD, "io"), exist_ok=True)
    fin = os.path.join(BUILD, "io", f"{tag}.in.jsonl")
    fout = os.path.join(BUILD, "io", f"{tag}.out.jsonl")
    with open(fin, "w") as f:
        f.write(json.dumps(sc["input"], separators=(",", ":")) + "\n")
    if os.path.exists(fout):
        os.remove(fout)
    env = go_env()
    env.update({"VERIF_MODE": "c11", "VERIF_IN": fin, "VERIF_OUT": fout, "VERIF_REPO": REPO,
                "GORACE": "halt_on_error=0 exitcode=66 history_size=3"})
    t0 = time.time()
    try:
        p = subprocess.run([binary, "-test.run", "^TestVerifHarness$", "-test.count=1", "-test.timeout", f"{timeout}s"],
                           cwd=os.path.join(REPO, "pfcpiface"), env=env, timeout=timeout + 60,
                           stdout=subprocess.PIPE, stderr=subprocess.STDOUT, text=True, errors="replace")
        rc, out = p.returncode, p.stdout
    except subprocess.TimeoutExpired as e:
        rc, out = -9, (e.stdout or b"").decode("utf-8", "replace") if isinstance(e.stdout, bytes) else (e.stdout or "")
    obs = None
    if os.path.exists(fout):
        for line in open(fout):
            if line.strip():
                try:
                    obs = json.loads(line)
                except ValueError:
                    obs = None
    return {"rc": rc, "out": out, "obs": obs, "wall": round(time.time() - t0, 1)}


def frames(block):
    """stack block -> [(func, file, line)] for frames inside the repository's pfcpiface package"""
    out = []
    ls = block.split("\n")
    for i, l in enumerate(ls):
        m = re.match(r"\s+(\S*/pfcpiface/([A-Za-z0-9_]+\.go)):(\d+)", l)
        if m and i > 0:
            fn = ls[i - 1].strip()
            fn = re.sub(r"\([^()]*\)$", "", fn)
            fn = fn.split("/")[-1]
            fn = fn[fn.index(".") + 1:] if "." in fn else fn
            fn = fn.replace("(*", "").replace(")", "")
            out.append((fn, m.group(2), int(m.group(3))))
    return out


def race_signatures(out, table):
    """-> list of (signature, text) for every race report in the process output"""
    pos = {}
    for r in (table or {}).get("rows", []):
        pos.setdefault((r["file"], r["line"]), set()).add(r["field"])
    sigs = []
    for m in RACE_RE.finditer(out):
        rep = m.group(1)
        # the two accesses: "Write at ... by goroutine N:" / "Previous read at ... by goroutine M:"
        parts = re.split(r"\n\n", rep)
        accs = [p for p in parts if re.match(r"\s*(Previous )?(atomic )?(read|write) at", p.strip(), re.I)][:2]
        fields, funcs, harness_only = None, [], True
        for a in accs:
            fr = [f for f in frames(a) if not f[1].startswith("zz_verif") and not f[1].startswith("verif_")]
            if fr:
                harness_only = False
                fn, fl, ln = fr[0]
                funcs.append(f"{fl}:{fn}")
                fs = pos.get((fl, ln), set())
                if fs:      # both accesses touch the same memory: the field is in both lines' sets
                    fields = set(fs) if fields is None else ((fields & fs) or (fields | fs))
            else:
                hf = frames(a)
                funcs.append("harness:" + (hf[0][0] if hf else "?"))
        fields = fields or set()
        if harness_only:
            sig = "race:harness/" + "+".join(sorted(set(funcs)))
        elif len(fields) == 1:
            sig = "race:" + sorted(fields)[0]
        elif fields:
            sig = "race:" + "+".join(sorted(fields))
        else:
            sig = "race:" + "+".join(sorted(set(funcs)))
        sigs.append((sig, rep[:3000], [f.split(":", 1)[1] for f in funcs if not f.startswith("harness:")]))
    return sigs


def reinit_functions(table):
    """functions that only run inside UP4.tryConnect's re-connection (they inherit tryConnectMu from every caller, or all
    their rows are in the reinit phase)"""
    fs = {f for f, locks in (table or {}).get("entry_locks", {}).items() if "UP4.tryConnectMu" in locks}
    fs |= {r["func"] for r in (table or {}).get("rows", []) if r["phase"] == "reinit"}
    return fs


def fatal_signature(out, table):
    m = re.search(r"fatal error: ([^\n]+)\n(.*)", out, re.S)
    if not m:
        return None
    what = m.group(1).strip()
    if what.startswith("concurrent map"):
        what = "concurrent map access"          # "concurrent map writes" / "concurrent map read and map write" / "... iteration and map write"
    pos = {}
    for r in (table or {}).get("rows", []):
        pos.setdefault((r["file"], r["line"]), set()).add(r["field"])
    first = m.group(2).split("\n\n")[0:2]
    fr = [f for f in frames("\n\n".join(first)) if not f[1].startswith("zz_verif")]
    fields = pos.get((fr[0][1], fr[0][2]), set()) if fr else set()
    where = "+".join(sorted(fields)) if fields else (f"{fr[0][1]}:{fr[0][0]}" if fr else "?")
    return "fatal:" + what.replace(" ", "-") + ":" + where, ("fatal error: " + m.group(1) + "\n" + m.group(2))[:3000]


# ------------------------------------------------------------------------------------------------ monitors

def rename_view(view, order, actual):
    """node world: the agent's random source chose the local SEIDs; map the predicted ones to the ones answered"""
    ren = {p: a for p, a in zip(order, actual)}
    return {ren.get(l, l): v for l, v in view.items()}, ren


def up4_fields(rec):
    return {f["name"]: f for f in rec.get("match", [])}, {p["name"]: int(p["value"]) for p in rec.get("params", [])}


def mon_up4(snap, views, ph):
    """structural reading of the UP4 tables: every live PDR has its sessions / terminations entry, tunnel peers and
    applications exist exactly while some live session uses them and are referred to consistently"""
    out = []
    tabs = {}
    for r in snap["up4_tables"]:
        tabs.setdefault(r["table_name"].split(".")[-1], []).append(r)
    store = snap["store"]
    live_dl = [(s, p) for s in store for p in s["pdrs"] if p["iface"] == 2]
    live_ul = [(s, p) for s in store for p in s["pdrs"] if p["iface"] == 1]
    # tunnel peers: one per distinct base station in use
    want_peers = {}
    for s in store:
        for f in s["fars"]:
            if f["action"] & 2 and f["dst_if"] == 0 and f["teid"] != 0:
                want_peers.setdefault(f["tdst"], set()).add((s["lseid"], f["id"]))
    peers = {}
    for r in tabs.get("tunnel_peers", []):
        m, p = up4_fields(r)
        pid = int(list(m.values())[0]["value"])
        peers[pid] = p
    got_dst = sorted(p.get("dst_addr") for p in peers.values())
    if got_dst != sorted(want_peers):
        out.append((f"up4-tunnel-peers", f"phase {ph}: tunnel_peers holds destinations {got_dst}, the live sessions use {sorted(want_peers)}"))
    if len(set(peers)) != len(peers) or any(not (2 <= i <= 254) for i in peers):
        out.append(("up4-tunnel-peer-ids", f"phase {ph}: tunnel peer ids {sorted(peers)}"))
    if snap["up4_pools"]["tunnel_peers"] != len(want_peers) or snap["up4_pools"]["tunnel_peer_pool"] != snap["up4_pools_init"]["tunnel_peer_pool"] - len(want_peers):
        out.append(("up4-tunnel-peer-count", f"phase {ph}: plug-in counts {snap['up4_pools']['tunnel_peers']} tunnel peers / "
                    f"{snap['up4_pools']['tunnel_peer_pool']} free ids, {len(want_peers)} are in use"))
    # applications: one per distinct filter in use
    def filt(p):
        if p["iface"] == 1:
            return (p["f_dip"], tuple(p["f_dp"]), p["f_proto"]) if (p["f_dip_m"] or p["f_proto_m"] or tuple(p["f_dp"]) not in ((0, 0), (0, 65535))) else None
        return (p["f_sip"], tuple(p["f_sp"]), p["f_proto"]) if (p["f_sip_m"] or p["f_proto_m"] or tuple(p["f_sp"]) not in ((0, 0), (0, 65535))) else None
    want_apps = {}
    for s in store:
        for p in s["pdrs"]:
            f = filt(p)
            if f is not None:
                want_apps.setdefault(f, set()).add((s["lseid"], p["id"]))
    apps = tabs.get("applications", [])
    if len(apps) != len(want_apps):
        out.append(("up4-applications", f"phase {ph}: applications table has {len(apps)} entries, the live sessions use {len(want_apps)} distinct filters"))
    if snap["up4_pools"]["applications"] != len(want_apps) or snap["up4_pools"]["application_pool"] != snap["up4_pools_init"]["application_pool"] - len(want_apps):
        out.append(("up4-application-count", f"phase {ph}: plug-in counts {snap['up4_pools']['applications']} applications / "
                    f"{snap['up4_pools']['application_pool']} free ids, {len(want_apps)} are in use"))
    app_ids = set()
    for r in apps:
        _, p = up4_fields(r)
        app_ids.add(p.get("app_id"))
    if len(app_ids) != len(apps):
        out.append(("up4-application-ids", f"phase {ph}: application ids not distinct: {sorted(app_ids)}"))
    # sessions / terminations: counts and references
    su, sd = tabs.get("sessions_uplink", []), tabs.get("sessions_downlink", [])
    tu, td = tabs.get("terminations_uplink", []), tabs.get("terminations_downlink", [])
    want_su = {(p["tdst"], p["teid"]) for _, p in live_ul}
    got_su = set()
    for r in su:
        m, _ = up4_fields(r)
        got_su.add((int(m["n3_address"]["value"]), int(m["teid"]["value"])))
    if got_su != want_su:
        out.append(("up4-sessions-uplink", f"phase {ph}: sessions_uplink keys differ from the live uplink PDRs: missing {sorted(want_su - got_su)[:3]}, extra {sorted(got_su - want_su)[:3]}"))
    want_sd = {}
    for s, p in live_dl:
        far = next((f for f in s["fars"] if f["id"] == p["far"]), None)
        want_sd[p["ue"]] = far["tdst"] if far else None
    got_sd = {}
    for r in sd:
        m, p = up4_fields(r)
        got_sd[int(m["ue_address"]["value"])] = p
    if set(got_sd) != set(want_sd):
        out.append(("up4-sessions-downlink", f"phase {ph}: sessions_downlink keys differ from the live UE addresses: missing "
                    f"{sorted(set(want_sd) - set(got_sd))[:3]}, extra {sorted(set(got_sd) - set(want_sd))[:3]}"))
    else:
        for ue, p in got_sd.items():
            pid = p.get("tunnel_peer_id")
            if pid is not None and want_sd[ue] and (pid not in peers or peers[pid].get("dst_addr") != want_sd[ue]):
                out.append(("up4-session-peer-ref", f"phase {ph}: session of UE {ue} points at tunnel peer {pid} "
                            f"({peers.get(pid)}), its FAR tunnels to {want_sd[ue]}"))
                break
    if len(tu) != len(live_ul) or len(td) != len(live_dl):
        out.append(("up4-terminations", f"phase {ph}: terminations hold {len(tu)} uplink / {len(td)} downlink entries, live PDRs: {len(live_ul)} / {len(live_dl)}"))
    for r in tu + td:
        m, _ = up4_fields(r)
        aid = int(m["app_id"]["value"]) if "app_id" in m and m["app_id"].get("value") else 0
        if aid != 0 and aid not in app_ids:
            out.append(("up4-termination-app-ref", f"phase {ph}: a termination refers to application id {aid}, the table holds {sorted(app_ids)}"))
            break
    # bookkeeping
    pools, init = snap["up4_pools"], snap["up4_pools_init"]
    npdr = sum(len(s["pdrs"]) for s in store)
    if pools["counter_pool"] != init["counter_pool"] - npdr:
        out.append(("up4-counter-pool", f"phase {ph}: {init['counter_pool'] - pools['counter_pool']} counter cells taken, {npdr} PDRs live"))
    return out


def monitor(sc, res, table):
    """-> list of (signature, message)"""
    out = []
    o = res["obs"]
    world = sc["world"]
    text = res["out"]
    reinit = reinit_functions(table)
    for sig, rep, fns in race_signatures(text, table):
        if sc.get("judge") == "races" and any(f in reinit for f in fns):
            # one side of the report is the re-connection code itself (site), racing with a reader elsewhere (shape)
            sig = "reconnect:race-with-reinitialisation"
        out.append((sig, "race detector: " + rep))
    ft = fatal_signature(text, table)
    if ft:
        out.append((ft[0], "the agent process died: " + ft[1]))
    elif re.search(r"^panic: ", text, re.M):
        m = re.search(r"^panic: ([^\n]*)\n(.*)", text, re.M | re.S)
        fr = [f for f in frames(m.group(2)) if not f[1].startswith("zz_verif")]
        out.append(("panic:" + (f"{fr[0][1]}:{fr[0][0]}" if fr else "?"), "the agent process panicked: " + m.group(0)[:3000]))
    if sc.get("judge") == "storm":
        st = (o or {}).get("storm")
        if o is None and not out:
            out.append(("no-observation", f"scenario process ended with status {res['rc']} without an observation: " + text[-2500:]))
        elif st and (st.get("foreign_answers") or st.get("unanswered") or st.get("duplicates")):
            out.append(("setup-storm:answer-to-wrong-peer",
                        f"{st['peers']} new peers sent their Association Setup Request at about the same time: {st['unanswered']} got no answer, "
                        f"{st['foreign_answers']} answers (other sequence number) went to a peer that had not asked, the node holds {st['node_conns']} connections"))
        return out
    if sc.get("judge") == "races":
        # the datapath connection is cut on purpose: requests in flight fail, only memory safety is judged
        if o is None and not out:
            out.append(("no-observation", f"scenario process ended with status {res['rc']} without an observation: " + text[-2500:]))
        if o and o.get("hung"):
            out.append(("hung", o["hung"] + "\n" + o.get("goroutines", "")[:4000]))
        return out
    if o is None:
        if not out:
            out.append(("no-observation", f"scenario process ended with status {res['rc']} without an observation: " + text[-2500:]))
        return out
    if "world_err" in o or "harness_error" in o:
        out.append(("harness-world", f"the harness could not set the scenario up: {o.get('world_err') or o.get('harness_error')}"))
        return out
    if o.get("hung"):
        out.append(("hung", o["hung"] + "\n" + o.get("goroutines", "")[:4000]))
    if res["rc"] not in (0, 1, 66) and not out:
        out.append(("exit-status", f"scenario process exit status {res['rc']}: " + text[-2500:]))
    byid = {c["id"]: c["obs"] for c in o.get("conns", [])}
    case = {"cfg": sc["input"]["cfg"]}
    all_views = [dict() for _ in range(8)]
    for m in sc["meta"]:
        ob = byid.get(m["id"], [])
        intents = copy.deepcopy(m["intents"])
        views = m["views"]
        if world == "node":
            actual = o.get("lseids", {}).get(str(m["id"]), [])
            ren = {p: a for p, a in zip(m["order"], actual)}
            for it in intents:
                if it.get("lseid") in ren:
                    it["lseid"] = ren[it["lseid"]]
            views = [rename_view(v, m["order"], actual)[0] for v in views]
        for i, x in enumerate(ob):
            if "panic" in x:
                out.append((f"panic:{x.get('func', '?')}", f"association {m['id']} event {i}: HandlePFCPMsg panicked: {x['panic']} @ {x.get('frame')}"))
            if x.get("blocked"):
                out.append(("blocked", f"association {m['id']} event {i}: no response within the watchdog ({x.get('read_err', '')})"))
        if len(ob) < len(intents) and not o.get("hung") and not any("panic" in x or x.get("blocked") for x in ob):
            out.append(("stream-cut", f"association {m['id']}: {len(ob)} of {len(intents)} requests were processed"))
        saved_n4 = l1.N4_IP
        try:
            if world == "node":
                l1.N4_IP = l1.ip(127, 0, 0, 1)
            c02 = l1.mon_c02(case, intents, ob)
        finally:
            l1.N4_IP = saved_n4
        for sig, msg, i in c02:
            out.append((f"response:{sig}", f"association {m['id']}: {msg}"))
        for ph, v in enumerate(views):
            all_views[ph].update({(m["id"], l): s for l, s in v.items()})
        m["_views"] = views
    # at every barrier: stored rules = requests, tables = union of the images, pools
    for ph, snap in enumerate(o.get("snaps", [])):
        store = snap["store"]
        for m in sc["meta"]:
            mine = [s for s in store if s["conn"] == m["id"]]
            saved = l1.CORE_IP
            try:
                if world == "up4":
                    l1.CORE_IP = 0
                ms = l1.compare_store(m["_views"][ph], mine)
            finally:
                l1.CORE_IP = saved
            if ms:
                out.append(("store-not-request", f"phase {ph} association {m['id']}: stored rules differ from what the association asked for: {ms[:4]}"))
        pools = snap["pools"]
        nlive = len(store)
        if pools["gauge"] != nlive:
            out.append(("gauge", f"phase {ph}: sessions gauge {pools['gauge']} with {nlive} live sessions"))
        ues = [ue for s in store for ue in sorted({p["ue"] for p in s["pdrs"] if p["alloc_ip"] and p["iface"] == 2})]
        if len(set(ues)) != len(ues):
            out.append(("ue-address-shared", f"phase {ph}: one UE address allocated to two sessions: {sorted(ues)}"))
        held = sorted(a for _, a in pools.get("ip_inv", []))
        if held != sorted(set(ues)):
            out.append(("ip-pool-count", f"phase {ph}: the pool holds {len(held)} addresses for {len(set(ues))} allocating sessions"))
        teids = sorted(p["teid"] for s in store for p in s["pdrs"] if p["choose"] and p["teid"] != 0)
        if len(set(teids)) != len(teids):
            out.append(("teid-shared", f"phase {ph}: one chosen TEID in two PDRs: {teids}"))
        if sorted(pools["teids"]) != teids:
            out.append(("teid-count", f"phase {ph}: generator holds {len(pools['teids'])} TEIDs, live sessions own {len(teids)}"))
        lse = [(s["conn"], s["lseid"]) for s in store]
        if world != "up4":
            act = l1.tables_of(snap)
            img = l1.image(store, sc["input"]["cfg"])
            d = l1.diff_tables(act, img)
            if d:
                kinds = sorted({f"{mm}:{k}" for mm, k, _ in d})
                out.append(("tables-not-union/" + ",".join(kinds),
                            f"phase {ph}: BESS tables differ from the union of the images of the associations' sessions: {d[:4]} ({len(d)} differences)"))
        else:
            for sig, msg in mon_up4(snap, None, ph):
                out.append((sig, msg))
        if ph == len(o["snaps"]) - 1 and sc.get("final_empty", len(o["snaps"]) == 3):
            # everything was deleted
            if store:
                out.append(("sessions-left", f"after all deletions {len(store)} sessions are still stored: {lse[:5]}"))
            if world != "up4":
                left = {mm: len(t) for mm, t in l1.tables_of(snap).items() if t}
                if left:
                    out.append(("entries-left", f"after all deletions the BESS tables still hold {left}"))
            else:
                for k, v in snap["up4_pools"].items():
                    if v != snap["up4_pools_init"][k]:
                        out.append((f"up4-pool-not-restored:{k}", f"after all deletions {k} = {v}, initially {snap['up4_pools_init'][k]}"))
                rest = [r["table_name"] for r in snap["up4_tables"] if not r["table_name"].endswith("interfaces")]
                if rest:
                    out.append(("up4-entries-left", f"after all deletions UP4 tables still hold entries in {sorted(set(rest))}"))
                if snap["up4_meters"]:
                    cfgd = [m_ for m_ in snap["up4_meters"] if m_.get("config") and any(m_["config"].values())]
                    if cfgd:
                        out.append(("up4-meters-left", f"after all deletions {len(cfgd)} meter cells are still configured"))
            if pools.get("ip_inv"):
                out.append(("ip-pool-not-restored", f"after all deletions the pool still holds {pools['ip_inv'][:4]}"))
            if pools["teids"]:
                out.append(("teids-not-restored", f"after all deletions TEIDs {pools['teids'][:6]} are still marked used"))
    return out


def coq_cases(sc, o):
    """the BESS server's log (arrival order) up to each barrier with live sessions, its projection on the associations, the
    tables found at that barrier -> [Eval_C11.case terms], number of commands"""
    snaps = o["snaps"]
    log = snaps[-1].get("log")
    if log is None:
        return [], 0
    owner = {}
    for c in log:
        if c["c"] == "add":
            m = MODS.get(c["m"])
            if m is None:
                continue
            fseid = c["v"][3] if m == 0 else (c["k"][1] if m in (1, 3) else c["k"][2])
            owner[(m, tuple(c["k"]))] = fseid
    sess_conn = {}
    for snap in snaps:
        for s in snap["store"]:
            sess_conn.setdefault(s["lseid"], s["conn"])
    for cid, ls in o.get("lseids", {}).items():
        for l in ls:
            sess_conn.setdefault(l, int(cid))
    terms, ncmd = [], 0
    for snap in snaps[:-1]:
        threads, sched = {}, []
        for c in log[:snap["log_len"]]:
            m = MODS.get(c["m"])
            if m is None or c["c"] == "clear":
                continue
            k = tuple(c["k"])
            add = c["c"] == "add"
            term = f"C {m} {gbool(add)} {glist([str(x) for x in k])} {glist([str(x) for x in c['v']]) if add else '[]'}"
            sched.append(term)
            threads.setdefault(sess_conn.get(owner.get((m, k)), -1), []).append(term)
        rows = []
        for mname, mcode in MODS.items():
            for k, v in snap["tables"].get(mname, []):
                rows.append(f"({mcode}, {glist([str(x) for x in k])}, {glist([str(x) for x in v])})")
        terms.append(f"Case {glist([glist(threads[c]) for c in sorted(threads)])} {glist(sched)} {glist(rows)}")
        ncmd += len(sched)
    return terms, ncmd


# ------------------------------------------------------------------------------------------------ the check

def storm_scenario(npeers, tag):
    """node world: npeers NEW peers send their Association Setup Request at about the same time, each from its own socket
    with its own sequence number (F1103)"""
    cfg = l1.default_cfg()
    cfg["n4addr"] = "127.0.0.1"
    msgs = [P.message(P.AS_REQ, i + 1, [P.node_id_v4(l1.ip(10, 77, i >> 8, i & 255)), P.recovery_ts(2000)]).hex() for i in range(npeers)]
    inp = {"world": "node", "cfg": cfg, "seed": 1, "max_pause_us": 0, "conns": [], "reports": False, "watchdog_s": 120, "ddn": [], "sizes": {},
           "storm": msgs}
    return {"tag": tag, "world": "node", "input": inp, "meta": [], "judge": "storm"}


def handoff_scenarios(hseed):
    scs = []
    for kind in HANDOFF_KINDS:
        for mode in ("hold", "AB", "BA"):
            sc = handoff_scenario(random.Random(f"{hseed}-{kind}"), kind, mode, f"handoff_{kind}_{mode}")
            sc["hseed"] = hseed
            scs.append(sc)
    return scs


def judge_handoffs(scs, results):
    """a held run must end in the state of one of the two one-at-a-time orders (up to the identifiers the plug-in chooses);
    if it does not, that is the failure (its symptoms - dangling references, later rejections, leaks - go into the message)"""
    by = {}
    for sc, res in zip(scs, results):
        if sc.get("handoff"):
            by.setdefault(sc["handoff"][0], {})[sc["handoff"][1]] = (sc, res)
    for kind, runs in by.items():
        if "hold" not in runs:
            continue
        sc, res = runs["hold"]
        o = res["obs"]
        if not o or not o.get("snaps"):
            continue
        tr = [t for t in o.get("script_trace", []) if t.get("op") == "wait_held"]
        res["overlap"] = bool(tr and tr[0].get("held"))
        mine = up4_abstract(o["snaps"][0])
        serial = []
        for mode in ("AB", "BA"):
            if mode in runs and runs[mode][1]["obs"] and runs[mode][1]["obs"].get("snaps"):
                serial.append(up4_abstract(runs[mode][1]["obs"]["snaps"][0]))
        if serial and mine not in serial:
            hard = [f for f in res["fails"] if f[0].startswith(("race:", "fatal:", "panic", "hung"))]
            soft = [f for f in res["fails"] if f not in hard]
            diff = {k: (mine[k], serial[0][k]) for k in mine if mine[k] != serial[0][k]}
            table, utype, a_does, shared = HANDOFF_KINDS[kind]
            msg = (f"association 0's {utype} of {table} was held at the P4Runtime server while association 1 established a session using the same "
                   f"{'tunnel peer' if shared == 'peer' else 'application filter'}: the datapath ends in a state that neither one-at-a-time order "
                   f"produces (held run vs serial: {json.dumps(diff)[:1200]}); symptoms: " + "; ".join(m for _, m in soft[:5]))
            res["fails"] = hard + [(f"handoff:{kind}:not-a-serial-outcome", msg)]


def revive(sc):
    """a scenario read back from a replay file: JSON turned the integer keys of the views into strings"""
    def fix(x):
        if isinstance(x, dict):
            return {(int(k) if isinstance(k, str) and k.isdigit() else k): fix(v) for k, v in x.items()}
        if isinstance(x, list):
            return [fix(v) for v in x]
        return x
    for m in sc["meta"]:
        m["views"] = fix(m["views"])
    return sc


def scenarios_for(rng, tier):
    n = lambda lo, hi: rng.randrange(lo, hi + 1)
    scs = []
    if tier == "quick":
        scs.append(build_scenario(rng, "bess", n(5, 8), 5, "bess_a"))
        scs.append(build_scenario(rng, "bess", 2, 8, "bess_b", pause=150))
        scs.append(build_scenario(rng, "node", n(3, 6), 4, "node_a"))
        scs.append(build_scenario(rng, "node", 8, 3, "node_b", pause=0))
        scs.append(build_scenario(rng, "up4", n(4, 8), 5, "up4_a", pause=200))
        scs.append(build_scenario(rng, "up4", 2, 6, "up4_b", pause=50))
        scs.append(build_scenario(rng, "bess", n(3, 5), 3, "bess_small_pool", pool="10.250.0.0/26", pause=0))
        scs.append(reconnect_scenario(rng, 6, 6, "up4_reconnect"))
        scs.append(storm_scenario(300, "node_setup_storm"))
    else:
        for i in range(40):
            scs.append(build_scenario(rng, "bess", n(2, 8), n(3, 8), f"bess_{i}", pause=rng.choice([0, 100, 600, 2000]),
                                      pool=rng.choice(["10.250.0.0/22", "10.250.0.0/25"])))
        for i in range(20):
            scs.append(build_scenario(rng, "node", n(2, 8), n(3, 6), f"node_{i}", pause=rng.choice([0, 300, 1500])))
        for i in range(30):
            scs.append(build_scenario(rng, "up4", n(2, 8), n(3, 8), f"up4_{i}", pause=rng.choice([0, 100, 600])))
        for i in range(6):
            scs.append(reconnect_scenario(rng, n(3, 8), n(4, 8), f"up4_reconnect_{i}"))
        for i in range(3):
            scs.append(storm_scenario(300, f"node_setup_storm_{i}"))
    return scs


def run(tier, seed, replay=None):
    ck = Check("C11", tier, seed)
    ck.trusted = L1_TRUSTED + [
        "harness/skel_c11 (go/parser + go/ast only): syntactic lock table - lock regions, call-graph inheritance of held locks, "
        "goroutine classes from the root list in main.go (rootClasses), pseudo locks for sync.Map / thread-safe golang-set fields",
        "harness/go/verif_c11_test.go: one goroutine per association calling the real HandlePFCPMsg (or real PFCPNode / NewPFCPConn over UDP) "
        "against one shared upf; harness/go/verif_p4rt_test.go fake P4Runtime server for the UP4 world",
        "the Go race detector (-race): reports only races that actually happen in the run; used as witness generator, not as proof",
    ]
    ck.assumptions = [
        "theorems are about the syntactic lock table and about interleavings of the model's atomic steps (datapath commands, allocator "
        "methods), not about the Go memory model",
        "lock identity is per struct field, not per object instance; a lock held by RLock counts for reads only",
        "per-request order of the BESS plug-in's per-rule goroutines is covered by taking single commands as the atomic steps",
        "scenario streams stay inside the envelope: identifiers chosen by a control plane (uplink TEIDs, UE addresses) are distinct across "
        "associations; UP4 sessions are the shapes the UP4 plug-in supports (C04/C15 own the rest)",
    ]
    ck.rule = ("per scenario 2..8 associations x 3..8 sessions, 3 phases (establish+modify | modify+delete+establish | delete all) with a barrier "
               "and full dumps after each; worlds bess / node (real PFCPNode over UDP) / up4; randomised pacing from the seed; "
               "distinct = distinct request byte streams per association; non-trivial = at least 2 associations with at least 2 accepted sessions")
    t0 = time.time()
    table, terr = lock_table()
    ck.tie("T1: lock table extracted from pfcpiface/*.go by harness/skel_c11", table is not None, terr or "")
    if table is not None:
        ck.notes["lock_table"] = {"rows": len(table["rows"]), "coq_rows": table["coq_rows"], "functions": table["n_functions"],
                                  "call_edges": table["n_edges"], "unsafe_sets": table["unsafe_sets"],
                                  "roots": {k: v["name"] for k, v in sorted(table["roots"].items()) if not v["name"].startswith("go:")}}
    proved = ck.prove(TARGETS)
    rng = rng_for(seed, "C11")
    if not proved and table is not None:
        # search step: name the access pair that broke the discipline (only meaningful for the lockset obligations)
        exp_run = {"upf.sliceInfo"}            # written by the HTTP handler only (C19's object, not on the request path)
        exp_all = exp_run | set(RECONNECT_FIELDS)
        bad_run = lockset_python([r for r in table["rows"] if r["phase"] != "reinit"])
        bad_all = lockset_python(table["rows"])
        new_bad = {f: bad_run[f] for f in bad_run if f not in exp_run}
        new_bad.update({f: bad_all[f] for f in bad_all if f not in exp_all and f not in new_bad})
        for f in sorted(new_bad):
            a, b = new_bad[f][0]
            ck.fail(f"lockset:{f}", f"lock table: {f} is accessed by {a['func']} ({a['rw']}, {a['file']}:{a['line']}, locks {a['locks']}) and "
                    f"{b['func']} ({b['rw']}, {b['file']}:{b['line']}, locks {b['locks']}) from goroutines that may run at the same time with no common lock",
                    {"field": f, "access_1": a, "access_2": b})
    # ---- scenarios
    if replay:
        rp = json.load(open(replay))["case"]
        scs = []
        if "scenario" in rp:
            if rp["scenario"].get("handoff"):
                scs = [h for h in handoff_scenarios(rp["scenario"].get("hseed", seed)) if h["handoff"][0] == rp["scenario"]["handoff"][0]]
            else:
                scs = [revive(rp["scenario"])]
    else:
        scs = scenarios_for(rng, tier) + handoff_scenarios(seed)
    try:
        binary = build_harness(race=True)
    except HarnessError as e:
        ck.tie("race-enabled harness builds against the current tree", False, str(e)[-1500:])
        return ck.finish()
    ck.tie("race-enabled harness builds against the current tree", True)
    results = [None] * len(scs)

    def job(i):
        r = run_scenario(binary, scs[i])
        r["fails"] = monitor(scs[i], r, table)       # every scenario is judged on its one and only run
        results[i] = r
    ths = [threading.Thread(target=job, args=(i,)) for i in range(len(scs))]
    par = 7
    for k in range(0, len(ths), par):
        for t in ths[k:k + par]:
            t.start()
        for t in ths[k:k + par]:
            t.join()
    judge_handoffs(scs, results)
    # a failure that is neither a race report / abort / hand-off outcome is confirmed by running the scenario again, alone
    # (nothing else of this check runs at that time), up to twice: it is reported only if the same failure shows again
    hard = ("race:", "fatal:", "handoff:", "reconnect:", "setup-storm:", "lockset:")
    unconfirmed = []
    for i, (sc, res) in enumerate(zip(scs, results)):
        soft = [f for f in res["fails"] if not f[0].startswith(hard)]
        if not soft or replay:
            continue
        again = set()
        for _ in range(2):
            r2 = run_scenario(binary, sc)
            again |= {f[0] for f in monitor(sc, r2, table)}
            if {f[0] for f in soft} <= again:
                break
        dropped = [f for f in soft if f[0] not in again]
        for f in dropped:
            unconfirmed.append({"scenario": sc["tag"], "signature": f[0], "what": f[1][:300]})
        res["fails"] = [f for f in res["fails"] if f not in dropped]
    ck.notes["unconfirmed_failures"] = {"count": len(unconfirmed), "list": unconfirmed[:10]}
    ck.notes["handoff"] = {sc["tag"]: {"overlap_reached": res.get("overlap")} for sc, res in zip(scs, results)
                           if sc.get("handoff") and sc["handoff"][1] == "hold"}
    if table is not None:
        ck.notes["atomic_regions"] = {a["func"]: {"covered": a["covered"], "dp_inside": a["dp_inside"], "regions": len(a["regions"])}
                                      for a in table.get("atomic", [])}
    dist = {}
    cases, kept = [], []
    for sc, res in zip(scs, results):
        o = res["obs"]
        acc = 0
        if o and "conns" in o:
            for c in o["conns"]:
                acc += sum(1 for x in c["obs"] for rs in x.get("replies", {}).values() for m in rs if m.get("type") == P.SE_RSP and m.get("cause") == 1)
        nt = o is not None and len(sc["meta"]) >= 2 and acc >= 2 * len(sc["meta"])
        ck.count([[e["hex"] for ph in c["phases"] for e in ph] for c in sc["input"]["conns"]], nt)
        k = f"{sc['world']}/assoc={len(sc['meta'])}"
        dist[k] = dist.get(k, 0) + 1
        dist[f"{sc['world']}/requests"] = dist.get(f"{sc['world']}/requests", 0) + sum(len(m["intents"]) for m in sc["meta"])
        dist[f"{sc['world']}/accepted_establishments"] = dist.get(f"{sc['world']}/accepted_establishments", 0) + acc
        fails = res["fails"]
        seen = set()
        for sig, msg in fails:
            if sig in seen:
                continue
            seen.add(sig)
            if sig.startswith("race:"):
                dist["race_reports/" + sig[5:]] = dist.get("race_reports/" + sig[5:], 0) + 1
            slim = {"tag": sc["tag"], "world": sc["world"], "judge": sc.get("judge"), "handoff": sc.get("handoff"), "hseed": sc.get("hseed"),
                    "final_empty": sc.get("final_empty"), "input": sc["input"], "meta": [{k2: v for k2, v in m.items() if not k2.startswith("_")} for m in sc["meta"]]}
            ck.fail(sig, f"[{sc['tag']}] {msg}"[:6000], {"scenario": slim, "exit_status": res["rc"]})
        ck.notes.setdefault("scenario_wall_s", {})[sc["tag"]] = res["wall"]
        if o and sc["world"] != "up4" and o.get("snaps") and len(o["snaps"]) == 3:
            terms, ncmd = coq_cases(sc, o) if len(cases) < 60 else ([], 0)
            for t in terms:
                cases.append(t)
                kept.append((sc["tag"], ncmd // max(1, len(terms)), 0))
    # ---- F32 on the real code (sequential, scripted draws)
    try:
        plain = build_harness()
        case, who, v0, d = collision_history(rng)
        ob = run_harness(plain, "l1", [case], tag="c11_collision")[0].get("obs", [])
        ck.evaluations += 1
        if len(ob) == len(case["events"]) and not any("panic" in x for x in ob):
            far_after_1 = {tuple(k): tuple(v) for k, v in ob[2]["tables"]["farLookup"]}
            far_after_2 = {tuple(k): tuple(v) for k, v in ob[3]["tables"]["farLookup"]}
            same_seid = [m for rs in ob[3].get("replies", {}).values() for m in rs if m.get("upfseid") and m["upfseid"][0] == d]
            over = [k for k in far_after_1 if k in far_after_2 and far_after_1[k] != far_after_2[k]]
            store_end = [s for s in ob[4]["store"] if s["conn"] == 0]
            img = l1.image(store_end, case["cfg"])
            lost = [k for k in img["farLookup"] if list(k) not in [r[0] for r in ob[4]["tables"]["farLookup"]]]
            ck.notes["seid_collision"] = {"second_association_got_same_seid": bool(same_seid), "overwritten_far_keys": [list(k) for k in over],
                                          "entries_lost_after_other_association_deleted": len(lost)}
            if same_seid and (over or lost):
                ck.fail("seid-collision:far-overwritten",
                        f"two associations drew local SEID {d}: association 1's establishment overwrote farLookup {over[:2]} of association 0, "
                        f"its deletion removed {len(lost)} farLookup entries of association 0's live session",
                        {"input": case, "who": who})
        else:
            ck.tie("F32 scenario runs on the L1 harness", False, f"{len(ob)} of {len(case['events'])} events")
    except HarnessError as e:
        ck.tie("F32 scenario runs on the L1 harness", False, str(e)[-800:])
    # ---- Coq: log replay + hypotheses of the serializability theorem on the observed runs
    if cases:
        try:
            idx = coq_eval_shards("C11", HEADER, cases, shard=1, timeout=600)
            for i in idx:
                ck.mismatch(f"scenario {kept[i][0]}: the table model replayed on the server's command log disagrees with the server's tables, "
                            f"or the associations' commands are not key-disjoint", {"scenario": kept[i][0]})
            ck.tie("correspondence: command log replayed on the Coq table model = BESS tables; associations' commands pairwise key-disjoint; "
                   "log is an interleaving; serial order gives the same tables", not idx, f"{len(idx)} of {len(cases)} runs" if idx else f"{len(cases)} runs, "
                   f"{sum(k[1] for k in kept)} commands")
        except RuntimeError as e:
            ck.tie("correspondence: command log replayed on the Coq table model", False, str(e)[-800:])
    ck.distribution = dict(sorted(dist.items()))
    ck.samples = [{"tag": sc["tag"], "world": sc["world"], "associations": len(sc["meta"]), "requests": sum(len(m["intents"]) for m in sc["meta"]),
                   "exit_status": r["rc"], "wall_s": r["wall"]} for sc, r in zip(scs, results)][:6]
    return ck.finish()
