"""Shared by the agent-level checks (C01, C02, C03, C05, C14): run L1 histories on the implementation in
several harness processes, apply a monitor, tag corpus scenarios, shrink a failing history."""
from concurrent.futures import ThreadPoolExecutor

from lib import *
import l1

L1_TRUSTED = COMMON_TRUSTED + [
    "harness/go/verif_l1_test.go: drives the real HandlePFCPMsg / Shutdown / handleDigestReport and the real bess plug-in over gRPC against an "
    "in-process recording BESS server whose modules have add=upsert / delete-by-key / clear semantics (the reading of pkg/fake_bess)",
    "tools/pfcp.py (PFCP encoder) and go-pfcp v0.0.24 (decoding of requests inside the agent and of replies inside the harness)",
    "tools/l1.py: generator's control-plane view, the reference reading of valid requests and the Python image of the BESS tables",
]


def run_l1(binary, cases, workers=8, tag="l1"):
    """cases: list of harness inputs -> list of obs lists (same order)"""
    if not cases:
        return []
    n = max(1, min(workers, (len(cases) + 19) // 20))
    chunks = [cases[i::n] for i in range(n)]

    def job(k):
        return run_harness(binary, "l1", chunks[k], tag=f"{tag}_{k}", timeout=1500)

    with ThreadPoolExecutor(max_workers=n) as ex:
        res = list(ex.map(job, range(n)))
    out = [None] * len(cases)
    skipped = []
    for k in range(n):
        for j, o in enumerate(res[k]):
            if isinstance(o, dict) and "skipped" in o:
                skipped.append(k + j * n)
                out[k + j * n] = [{"skipped": True}]
            else:
                out[k + j * n] = o.get("obs", []) if isinstance(o, dict) else []
    # cases skipped because an earlier case of their process left a runaway goroutine: run them again in fresh processes
    rounds = 0
    while skipped and rounds < 4:
        rounds += 1
        redo = run_harness(binary, "l1", [cases[i] for i in skipped], tag=f"{tag}_redo", timeout=1500)
        still = []
        for i, o in zip(skipped, redo):
            if isinstance(o, dict) and "skipped" in o:
                still.append(i)
            else:
                out[i] = o.get("obs", []) if isinstance(o, dict) else []
        skipped = still
    return out


def shrink(binary, case, intents, views, pred, max_runs=40):
    """delta-debug the event list: drop events while `pred(case, intents, obs, views)` still reports the same signature"""
    ev, it, vw = list(case["events"]), list(intents), list(views) if views else None
    runs = 0
    i = len(ev) - 1
    while i >= 0 and runs < max_runs:
        ev2, it2 = ev[:i] + ev[i + 1:], it[:i] + it[i + 1:]
        vw2 = (vw[:i] + vw[i + 1:]) if vw else None
        if not ev2:
            break
        runs += 1
        try:
            obs = run_harness(binary, "l1", [{"cfg": case["cfg"], "events": ev2}], tag="l1_shrink")[0].get("obs", [])
        except HarnessError:
            break
        if pred({"cfg": case["cfg"], "events": ev2}, it2, obs, vw2):
            ev, it, vw = ev2, it2, vw2
        i -= 1
    return {"cfg": case["cfg"], "events": ev}, it


def confirmed(binary, case, sig, check, tag="l1_confirm", tries=2):
    """A failure seen in a parallel run is reported only if it shows again when the history runs alone (a loaded
    machine can delay a gRPC batch beyond the plug-in's timeout; a real defect reproduces). check(obs) -> list of
    (signature, message, event index)."""
    for _ in range(tries):
        try:
            ob = run_harness(binary, "l1", [case], tag=tag, timeout=600)[0].get("obs", [])
        except HarnessError:
            return True
        if not any(s2 == sig for s2, _, _ in check(ob)):
            return False
    return True


def run_soak(ck, binary, rng, monitor, dist, only=None, scenarios=None):
    """Runs l1.soak_scenarios (long histories of valid requests; or the given fixed scenarios) and applies
    monitor(case, intents, obs) -> failures; the probe events at the end must be answered."""
    for name, scase, sint, nprobe in (scenarios if scenarios is not None else l1.soak_scenarios(rng)):
        if only and not any(name.startswith(o) for o in only):
            continue
        try:
            sob = run_harness(binary, "l1", [scase], tag="soak", timeout=900)[0].get("obs", [])
        except HarnessError as e:
            ck.fail("soak:harness-died", str(e)[-600:], {"input": {"cfg": scase["cfg"], "events": scase["events"][-8:]}, "soak": name})
            continue
        ck.count(["soak", name], True)
        res = list(monitor(scase, sint, sob))
        if any("panic" in o or o.get("blocked") for o in sob) and not res:
            res.append(("agent-died", "the agent panicked or blocked during the soak", len(sob) - 1))
        if not res:
            for i in range(len(sob) - nprobe, len(sob)):
                if not sob[i].get("replies"):
                    res.append(("probe-unanswered", f"{name}: probe event {i} got no response after the soak", i))
                    break
        for sig, msg, i in res[:1]:
            ck.fail(f"soak:{name}:{sig}", msg, {"soak": name, "n_events": len(scase["events"]), "impl_event": sob[i] if i < len(sob) else None,
                                              "input": {"cfg": scase["cfg"], "events": scase["events"][:4] + scase["events"][-6:]}})
        dist[f"soak/{name}:{'ok' if not res else 'failed'}"] = 1
