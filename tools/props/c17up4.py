"""UP4 leg shared by C17 (port ranges) and C08 (application filters): the `applications` entries the REAL UP4 plug-in installs.

PFCP histories (harness mode "c14": real handlers + real UP4 plug-in + in-process P4Runtime server) establish sessions whose
PDRs carry SDF filters or name PFD-provisioned applications.  After every event the monitor reads, from the switch's table dump
and the agent's session store, for EVERY stored PDR:
    PDR --(terminations_<direction> entry with the PDR's counter cell and UE address)--> app_id
        --(applications entry whose action carries that app_id)--> match fields
and demands (nothing here comes from a model):
  * the stored filter is the one written in the request (remote prefix, protocol, port range - the side UP4 classifies on);
  * a PDR without remote constraint uses app id 0; any other PDR's app id leads to exactly one applications entry;
  * that entry matches exactly the ports written: its app_l4_port RANGE field as an interval (field absent = every port)
    equals the written range as a set of ports - compared on all of 0..65535, which for two intervals is equality of the
    end points; a wildcard entry only for 0-65535;
  * its app_ip_addr LPM field is the written prefix (absent only for 'any'), its app_ip_proto TERNARY field the written
    protocol with mask 0xff (absent only for 'ip');
  * two live PDRs lead to the same application id iff their filters are equal (prefix, prefix length, protocol, port set)."""
import copy

from lib import *
import l1
import pfcp as P
from props import c14up4 as U
from props.c04 import GNBS

M32 = 0xFFFFFFFF
PROTO_NUM = {"ip": 0, "tcp": 6, "udp": 17}


def mask_of(n):
    return (M32 << (32 - n)) & M32 if n else 0


def ipstr(n):
    return ".".join(str((n >> s) & 255) for s in (24, 16, 8, 0))


def flt(ip=0, plen=0, ports=None, proto="ip", via="sdf"):
    """a filter on the remote side: prefix ip/plen ('any' for plen 0), ports None | (lo, hi), proto 'ip' | 'tcp' | 'udp' | number"""
    return {"ip": ip & mask_of(plen), "plen": plen, "ports": ports, "proto": proto, "via": via}


def proto_num(f):
    return PROTO_NUM.get(f["proto"], f["proto"] if isinstance(f["proto"], int) else 0)


def port_set(r):
    """the set of ports a stored / written range denotes, as an interval"""
    if r is None or (r[0] == 0 and r[1] in (0, 65535)):
        return (0, 65535)
    return (r[0], r[1])


def key_of(f):
    """what 'equal filters' means: prefix, prefix length, protocol, port set"""
    return (f["ip"], f["plen"], proto_num(f), port_set(f["ports"]))


def remote_text(f):
    if f["plen"] == 0:
        return "any"
    return ipstr(f["ip"]) + ("" if f["plen"] == 32 else f"/{f['plen']}")


def ports_text(f):
    if f["ports"] is None:
        return ""
    lo, hi = f["ports"]
    return f" {lo}" if lo == hi else f" {lo}-{hi}"


def sdf_text(f):
    return f"permit out {f['proto']} from {remote_text(f)}{ports_text(f)} to assigned"


def pfd_text(f, uplink):
    # a provisioned flow description is taken verbatim: the remote end is the packet's destination uplink, its source downlink
    if uplink:
        return f"permit out {f['proto']} from any to {remote_text(f)}{ports_text(f)}"
    return f"permit in {f['proto']} from {remote_text(f)}{ports_text(f)} to any"


class GenA(U.GenU):
    """sessions whose PDR pairs carry given remote filters; keeps per PDR the filter written"""

    def __init__(self, rng, cfg=None):
        super().__init__(rng, cfg or l1.default_cfg(end_marker=False, ueip_alloc=False, pool=""), nconn=2)
        self.apps = {}        # conn -> app id -> [flow texts]
        self.nue = 0

    def provision(self, conn, specs):
        """specs: list of (filter, uplink) that will be used through PFD on this association; one application per spec"""
        t = {}
        for f, uplink in specs:
            name = f"app{len(t) + 1}"
            t[name] = [pfd_text(f, uplink)]
            f.setdefault("_app", {})[(conn, uplink)] = name
        if t:
            self.pfd(conn, t)

    def est_pairs(self, conn, pairs, prec=100, kind="filters"):
        """pairs: list of (uplink filter | None, downlink filter | None)"""
        r = self.rng
        self.nue += 1
        ue = l1.ip(10, 60, self.nue // 250, self.nue % 250 + 1)
        gnb = r.choice(GNBS)
        pdrs, fars, written = [], [], {}
        for k, (fu, fd) in enumerate(pairs):
            ul = {"id": 2 * k + 1, "prec": prec, "iface": 0, "fteid": (self._teid(), l1.ACCESS_IP), "ue": ue, "ohr": True, "far": 2 * k + 1, "qers": []}
            dl = {"id": 2 * k + 2, "prec": prec, "iface": 1, "ue": ue, "far": 2 * k + 2, "qers": []}
            for p, f, uplink in ((ul, fu, True), (dl, fd, False)):
                if f is None:
                    continue
                if f["via"] == "pfd":
                    p["appid"] = f["_app"][(conn, uplink)]
                else:
                    p["sdf"] = sdf_text(f)
                written[p["id"]] = {k_: v for k_, v in f.items() if k_ != "_app"}
            pdrs += [ul, dl]
            fars += [{"id": 2 * k + 1, "action": 2, "fwd": {"dst_if": 1}},
                     {"id": 2 * k + 2, "action": 2, "fwd": {"dst_if": 0, "ohc": (self._teid(), gnb)}}]
        seq = self._seq()
        k = self.next_lseid.get(conn, 0) + 1
        self.next_lseid[conn] = k
        lseid = (conn + 1) * 1000000 + k
        cp_seid = r.randrange(1 << 32)
        ies = [P.node_id_v4(l1.peer_ip(conn)), P.fseid(cp_seid, l1.peer_ip(conn))]
        ies += [l1.pdr_ie(P.CREATE_PDR, p) for p in pdrs] + [l1.far_ie(P.CREATE_FAR, f) for f in fars]
        self.emit(conn, P.message(P.SE_REQ, seq, ies, seid=0),
                  {"op": "est", "seq": seq, "req": P.SE_REQ, "wf": True, "expect": "accept", "lseid": lseid, "cp_seid": cp_seid, "kind": kind,
                   "written": written, "ue": ue})
        self.sessions[lseid] = {"conn": conn, "cp_seid": cp_seid, "pdrs": {p["id"]: p for p in pdrs}, "fars": {f["id"]: f for f in fars}, "qers": {}}
        self.meta[lseid] = {"gnb": gnb, "npairs": len(pairs)}
        return lseid


# =========================================================================================== monitor

def plen_of(mask):
    n = 0
    while n < 32 and mask & (1 << (31 - n)):
        n += 1
    return n if mask == mask_of(n) else None


def stored_remote(p):
    """the side of the stored PDR's filter UP4 classifies on: (ip, mask, port range, proto, proto mask)"""
    if p["iface"] == 1:      # access: uplink
        return p["f_dip"], p["f_dip_m"], tuple(p["f_dp"]), p["f_proto"], p["f_proto_m"]
    return p["f_sip"], p["f_sip_m"], tuple(p["f_sp"]), p["f_proto"], p["f_proto_m"]


def entry_ports(e):
    r = e["m"].get("app_l4_port")
    if r is None:
        return (0, 65535)
    lo, hi = r.split("-")
    return (int(lo), int(hi))


def same_ports_everywhere(a, b):
    """two intervals match the same ports on all of 0..65535"""
    if a == b:
        return True, None
    # first port on which they differ (for the message)
    for x in sorted({0, 65535, a[0], a[1], b[0], b[1], max(a[0] - 1, 0), min(a[1] + 1, 65535), max(b[0] - 1, 0), min(b[1] + 1, 65535)}):
        if (a[0] <= x <= a[1]) != (b[0] <= x <= b[1]):
            return False, x
    return False, None


def mon_apps(case, out):
    """-> list of (signature, message, event index)"""
    d = U.died(out)
    if d:
        return [d]
    res, seen = [], set()

    def flag(i, sig, msg):
        if sig not in seen:
            seen.add(sig)
            res.append((sig, msg, i))

    written = {}       # (lseid, pdr id) -> filter written
    for i, (it, o) in enumerate(zip(case["intents"], out["obs"])):
        if "store" not in o:
            continue
        rs = l1.replies_of(o)
        cause = rs[0][1].get("cause") if rs else None
        if it.get("op") == "est" and it.get("expect") == "accept":
            if cause != P.CAUSE_ACCEPTED:
                flag(i, "up4-app:valid-establishment-rejected", f"event {i}: establishment with filters {it.get('written')} refused with cause {cause}")
                continue
            for pid, f in it.get("written", {}).items():
                written[(it["lseid"], int(pid))] = f
        tabs = o["tables"]
        apps = {}
        for e in tabs:
            if e["t"] == "applications":
                apps.setdefault(int(e["p"].get("app_id", "0")), []).append(e)
        by_filter, by_id = {}, {}
        for s in o["store"]:
            ue = next((p["ue"] for p in s["pdrs"] if p["iface"] == 2), 0)
            for p in s["pdrs"]:
                who = f"PDR {p['id']} of session {s['lseid']} ({'uplink' if p['iface'] == 1 else 'downlink'})"
                ip_, m_, pr_, proto_, pm_ = stored_remote(p)
                w = written.get((s["lseid"], p["id"]))
                exp = w or flt()
                # the stored filter is the one written
                if (ip_, m_, port_set(pr_), proto_) != (exp["ip"], mask_of(exp["plen"]), port_set(exp["ports"]), proto_num(exp)) or \
                        (proto_ != 0 and pm_ != 255):
                    flag(i, f"up4-app:stored-filter-differs/{exp['via']}", f"event {i}: {who}: written {exp}, stored remote side ip {ip_} mask {m_} ports {pr_} "
                         f"proto {proto_}/{pm_}")
                    continue
                tname = "terminations_uplink" if p["iface"] == 1 else "terminations_downlink"
                term = [e for e in tabs if e["t"] == tname and int(e["p"].get("ctr_idx", "-1")) == p["ctr"] and int(e["m"].get("ue_address", "0")) == ue]
                if len(term) != 1:
                    flag(i, "up4-app:no-terminations-entry", f"event {i}: {who}: {len(term)} {tname} entries carry its counter cell {p['ctr']} and UE address")
                    continue
                aid = int(term[0]["m"].get("app_id", "0"))
                empty = proto_ == 0 and ip_ == 0 and port_set(pr_) == (0, 65535)
                if empty:
                    if aid != 0:
                        flag(i, "up4-app:unfiltered-pdr-has-application", f"event {i}: {who} has no remote constraint but its terminations entry names application {aid}")
                    continue
                k = (exp["ip"], exp["plen"], proto_num(exp), port_set(exp["ports"]))
                by_filter.setdefault(k, set()).add(aid)
                by_id.setdefault(aid, {})[k] = who
                ents = apps.get(aid, [])
                if aid == 0 or len(ents) != 1:
                    flag(i, "up4-app:no-applications-entry", f"event {i}: {who} with filter {exp}: terminations entry names application {aid}, "
                         f"{len(ents)} applications entries carry that id")
                    continue
                e = ents[0]
                cls = "wildcard" if exp["ports"] is None else ("exact" if exp["ports"][0] == exp["ports"][1] else "range")
                same, at = same_ports_everywhere(entry_ports(e), port_set(exp["ports"]))
                if not same:
                    what = "every port" if "app_l4_port" not in e["m"] else f"ports {e['m']['app_l4_port']}"
                    flag(i, f"up4-app:port-set/{cls}/{'field-absent' if 'app_l4_port' not in e['m'] else 'other-interval'}",
                         f"event {i}: {who}: written ports {exp['ports']} ({cls}), its applications entry (id {aid}) matches {what}: they differ e.g. on port {at}")
                lpm = e["m"].get("app_ip_addr")
                want_lpm = None if exp["plen"] == 0 else f"{exp['ip']}/{exp['plen']}"
                if lpm != want_lpm:
                    flag(i, "up4-app:prefix", f"event {i}: {who}: written prefix {remote_text(exp)}, applications entry (id {aid}) has app_ip_addr {lpm}")
                tern = e["m"].get("app_ip_proto")
                want_t = None if proto_num(exp) == 0 else f"{proto_num(exp)}&255"
                if tern != want_t:
                    flag(i, "up4-app:protocol", f"event {i}: {who}: written protocol {exp['proto']}, applications entry (id {aid}) has app_ip_proto {tern}")
        for aid, ks in by_id.items():
            if len(ks) > 1:
                (ka, wa), (kb, wb) = list(ks.items())[:2]
                comp = [n for n, x, y in (("prefix", ka[0], kb[0]), ("prefix-length", ka[1], kb[1]), ("protocol", ka[2], kb[2]), ("ports", ka[3], kb[3])) if x != y]
                flag(i, "up4-app:one-id-for-different-filters/" + "+".join(comp),
                     f"event {i}: application id {aid} is shared by {wa} with filter {ka} and {wb} with filter {kb} (prefix, length, protocol, ports)")
        for k, ids in by_filter.items():
            if len(ids) > 1:
                flag(i, "up4-app:equal-filters-different-ids", f"event {i}: live PDRs with the equal filter {k} use application ids {sorted(ids)}")
    if len(out["obs"]) < len(case["input"]["events"]) and not res:
        res.append(("up4:history-cut", "harness stopped early without a recorded reason", len(out["obs"])))
    return res


# =========================================================================================== histories

def finish(g, name, tag=None):
    return U.finish(g, U.up4_cfg(sizes=None), tag=tag, name=name)


def history(rng, filters_per_session, name, tag=None, delete_some=False):
    """filters_per_session: list of lists of (uplink filter, downlink filter); sessions alternate over two associations"""
    g = GenA(rng)
    for c in (0, 1):
        g.setup(c)
    use = {0: [], 1: []}
    for n, pairs in enumerate(filters_per_session):
        for fu, fd in pairs:
            for f, uplink in ((fu, True), (fd, False)):
                if f is not None and f["via"] == "pfd":
                    use[n % 2].append((f, uplink))
    for c in (0, 1):
        g.provision(c, use[c])
    ls = []
    for n, pairs in enumerate(filters_per_session):
        ls.append(g.est_pairs(n % 2, pairs))
    if delete_some:
        for l in ls:
            if g.meta[l]["npairs"] == 1 and rng.random() < 0.5:
                g.delete(l)
        g.heartbeat(0)
    return finish(g, name, tag)


def c17_port_specs(rng, boundary_ports, gen_range):
    """the port classes C17 enumerates: wildcard, every boundary port as a single port, true ranges of every class"""
    specs = [None]
    specs += [(p, p) for p in boundary_ports if p >= 1]
    for cls in ("narrow", "edge", "wide", "zero_to", "to_max"):
        for _ in range(8):
            lo, hi = gen_range(rng, cls)
            if (lo, hi) not in ((0, 0), (0, 65535)) and lo <= hi:
                specs.append((lo, hi))
    specs += [(1, 65535), (0, 65534), (0, 1), (65534, 65535), (1, 2), (1024, 65535)]
    return specs


def c17_histories(rng, boundary_ports, gen_range):
    """every port spec x uplink / downlink x SDF filter / PFD, three single-pair sessions per history"""
    slots = []
    for ports in c17_port_specs(rng, boundary_ports, gen_range):
        for via in ("sdf", "pfd"):
            for uplink in (True, False):
                slots.append((ports, via, uplink))
    rng.shuffle(slots)
    ups = [s for s in slots if s[2]]
    downs = [s for s in slots if not s[2]]
    out = []
    nets = [(l1.ip(8, 8, 8, 0), 24), (l1.ip(1, 2, 3, 4), 32), (0, 0), (l1.ip(10, 0, 0, 0), 8), (l1.ip(172, 16, 5, 128), 25)]
    k = 0
    while ups or downs:
        sess = []
        for _ in range(3):
            if not ups and not downs:
                break

            def mk(slot):
                if slot is None:
                    return None
                ip_, pl = rng.choice(nets)
                return flt(ip_, pl, slot[0], rng.choice(["ip", "tcp", "udp", 132]), slot[1])
            fu = mk(ups.pop() if ups else None)
            fd = mk(downs.pop() if downs else None)
            sess.append([(fu, fd)])
        k += 1
        out.append(history(random.Random(rng.getrandbits(64)), sess, f"c17-ports-{k}"))
    return out


def variants(base):
    """filters that differ from `base` in exactly one component"""
    v = {}
    v["protocol"] = [dict(base, proto=p) for p in ("ip", "tcp", "udp", 132) if p != base["proto"]]
    v["prefix"] = [dict(base, ip=(base["ip"] + (1 << (32 - base["plen"]))) & mask_of(base["plen"]))] if base["plen"] else [dict(base, ip=l1.ip(9, 9, 0, 0), plen=16)]
    if 0 < base["plen"] < 32 and base["ip"] & mask_of(base["plen"] + 8 if base["plen"] <= 24 else 32) == base["ip"]:
        v["prefix-length"] = [dict(base, plen=min(32, base["plen"] + 8))]
    if base["ports"] is None:
        v["ports"] = [dict(base, ports=(80, 80)), dict(base, ports=(1, 65535))]
    else:
        lo, hi = base["ports"]
        v["ports"] = [dict(base, ports=(lo + 1, hi + 1) if hi < 65535 else (lo - 1, hi - 1)), dict(base, ports=(lo, hi + 1) if hi < 65535 else (lo - 1, hi)), dict(base, ports=None)]
    return v


BASES = [
    lambda via: flt(l1.ip(10, 1, 0, 0), 16, (80, 80), "tcp", via),
    lambda via: flt(l1.ip(8, 8, 8, 0), 24, (5000, 5010), "udp", via),
    lambda via: flt(l1.ip(1, 2, 3, 4), 32, None, "tcp", via),
    lambda via: flt(0, 0, (53, 53), "udp", via),
    lambda via: flt(l1.ip(172, 16, 0, 0), 16, (65535, 65535), 132, via),
    # odd and extreme prefix lengths
    lambda via: flt(l1.ip(172, 16, 5, 128), 25, (443, 443), "tcp", via),
    lambda via: flt(l1.ip(128, 0, 0, 0), 1, None, "udp", via),
    lambda via: flt(l1.ip(10, 1, 2, 2), 31, (8080, 8090), "tcp", via),
    lambda via: flt(l1.ip(192, 168, 128, 0), 17, (1, 1), "ip", via),
]


def c08_histories(rng, n_random, skip=("prefix-length",)):
    """sequences of PDRs whose filters differ in exactly one component, or are equal, over two UEs / several pairs of a session.
    `skip`: components left to the tagged finding scenarios"""
    out = []
    k = 0
    for b in BASES:
        for comp, vs in variants(b("sdf")).items():
            if comp in skip:
                continue
            for v in vs:
                for shape in ("two-ues", "one-session"):
                    k += 1
                    via = rng.choice(["sdf", "pfd"])
                    via2 = rng.choice(["sdf", "pfd"])
                    f0, f1, f2 = dict(b(via)), dict(v, via=via2), dict(b(via2))
                    order = [f0, f1] if rng.random() < 0.5 else [f1, f0]
                    if shape == "two-ues":
                        sess = [[(order[0], copy.deepcopy(order[0]))], [(order[1], copy.deepcopy(order[1]))], [(f2, copy.deepcopy(f2))]]
                    else:
                        sess = [[(order[0], copy.deepcopy(order[0])), (order[1], copy.deepcopy(order[1]))], [(f2, None)]]
                    out.append(history(random.Random(rng.getrandbits(64)), sess, f"c08-{comp}-{shape}-{k}", delete_some=(shape == "two-ues" and rng.random() < 0.4)))
    for n in range(n_random):
        sub = random.Random(rng.getrandbits(64))
        pool = []
        b = sub.choice(BASES)
        for comp, vs in variants(b("sdf")).items():
            if comp not in skip:
                pool += vs
        pool += [b("sdf")] * 3
        sess = []
        for _ in range(sub.choice([2, 3, 4])):
            pairs = []
            used = set()
            npairs = sub.choice([1, 1, 2])
            for _ in range(npairs):
                f = dict(sub.choice(pool), via=sub.choice(["sdf", "pfd"]))
                if key_of(f) in used:
                    continue          # PDRs of one session and direction need distinct match keys
                used.add(key_of(f))
                # (an unfiltered downlink PDR only in single-pair sessions: PDRs of one session and direction need distinct match keys)
                pairs.append((f, copy.deepcopy(f) if npairs > 1 or sub.random() < 0.7 else None))
            if pairs:
                sess.append(pairs)
        out.append(history(sub, sess, f"c08-random-{n}", delete_some=sub.random() < 0.5))
    return out


def corpus():
    """fixed scenarios reproducing recorded findings of the unchanged tree (failures carry the tag)"""
    out = []
    # two filters with the same remote address VALUE, port and protocol but different prefix lengths (10.1.0.0/16 and 10.1.0.0/24): the
    # plug-in's key for sharing applications entries (up4ApplicationFilter: address, ports, protocol) has no prefix length
    a = flt(l1.ip(10, 1, 0, 0), 16, (80, 80), "tcp", "sdf")
    b = flt(l1.ip(10, 1, 0, 0), 24, (80, 80), "tcp", "sdf")
    out.append(history(random.Random("c08-corpus-F0803"), [[(a, copy.deepcopy(a))], [(b, copy.deepcopy(b))]], "F0803", tag="F0803"))
    return out


# =========================================================================================== wiring into a check

TRUSTED = [
    "UP4 leg: harness/go/verif_c14_test.go (real HandlePFCPMsg + REAL UP4 plug-in; session store and switch table dump) and harness/go/verif_p4rt_test.go "
    "(fake P4Runtime server: table semantics, decoding of match fields); tools/props/c17up4.py (filter texts, attribution PDR -> terminations entry by "
    "counter cell and UE address -> applications entry by app id)"]


def run_leg(ck, binary, cases, confirm=True):
    """runs the histories, applies mon_apps, records failures; returns the number of PDR filters judged"""
    try:
        outs = U.run_up4(binary, [c["input"] for c in cases], tag=ck.prop.lower() + "u")
    except HarnessError as e:
        ck.tie("UP4 leg: harness builds and runs against the current tree", False, str(e)[-1500:])
        return 0
    ck.tie("UP4 leg: harness builds and runs against the current tree", True)
    dist = ck.distribution if isinstance(ck.distribution, dict) else {}
    npdr = nconfirm = 0
    for c, o in zip(cases, outs):
        ck.count(["up4-app"] + [e.get("hex", e["k"]) for e in c["input"]["events"]], True)
        for it in c["intents"]:
            for f in (it.get("written") or {}).values():
                npdr += 1
                cls = "wildcard" if f["ports"] is None else ("exact" if f["ports"][0] == f["ports"][1] else "range")
                k = f"up4-app:{f['via']}:{cls}"
                dist[k] = dist.get(k, 0) + 1
        seen = set()
        for sig0, msg, i in mon_apps(c, o):
            sig = f"{c['tag']}:{sig0}" if c.get("tag") else sig0
            if sig in seen:
                continue
            seen.add(sig)
            if confirm and not c.get("tag") and nconfirm < 8:
                nconfirm += 1
                if not U.confirmed(binary, c, sig0, mon_apps):
                    ck.notes["unconfirmed_failures"] = ck.notes.get("unconfirmed_failures", 0) + 1
                    continue
            ob = o.get("obs", [])
            ck.fail(sig, f"UP4 {c['name']}: {msg}", {"leg": "up4-app", "tag": c.get("tag"), "name": c["name"], "input": c["input"], "intents": c["intents"], "event": i,
                                                     "impl_tables": [e for e in (ob[i].get("tables", []) if i < len(ob) else []) if e["t"] in ("applications", "terminations_uplink", "terminations_downlink")]})
    ck.distribution = dist
    ck.notes["up4_leg"] = {"histories": len(cases), "pdr_filters_judged": npdr}
    return npdr
