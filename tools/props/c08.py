"""C08 - SDF filters and PFD-backed application IDs mean what they say.

Implementation-side monitor: an independent reading of the IPFilterRule GRAMMAR (not of the Go code and
not of the Coq model): `classify` recognises a text as well-formed (-> AST), structurally malformed (the
kinds the property lists) or outside the grammar; for well-formed texts the expected PDR filter is computed
from the AST (remote prefix, protocol, port range, orientation) and compared with the filter of the PDR the
implementation built; for malformed ones the PDR must be refused or carry the UE-only filter; a panic is
always a violation.  The Coq model is evaluated on the same inputs (correspondence)."""
import re
from lib import *

TARGETS = ["Props/C08.vo", "Run/Eval_C08.vo"]
HEADER = ("From Coq Require Import NArith List Ascii String.\n"
          "From UPF Require Import Model.PortRange Model.FlowDesc Run.Eval_C08.\n"
          "Import ListNotations.\nOpen Scope N_scope.\n")

M32 = 0xFFFFFFFF
WS = " \t\n\v\f\r"
ALL_PORTS = (0, 65535)


# ----------------------------------------------------------------------------- grammar: AST <-> text

def ipstr(n):
    return ".".join(str((n >> s) & 255) for s in (24, 16, 8, 0))


def mask(ln):
    return (M32 << (32 - ln)) & M32 if ln else 0


def ep_text(ep):
    k = ep[0]
    if k in ("any", "assigned"):
        return k
    return ipstr(ep[1]) + ("" if ep[2] is None else "/" + str(ep[2]))


def port_text(p):
    return None if p is None else ("%d" % p[0] if len(p) == 1 else "%d-%d" % p)


def proto_text(p):
    return p if isinstance(p, str) else str(p)


def ast_tokens(a):
    t = [a["action"], a["dir"], proto_text(a["proto"]), "from", ep_text(a["frm"])]
    if a["fport"] is not None:
        t.append(port_text(a["fport"]))
    t += ["to", ep_text(a["to"])]
    if a["tport"] is not None:
        t.append(port_text(a["tport"]))
    return t


def render(a):
    return " ".join(ast_tokens(a))


# ----------------------------------------------------------------------------- independent reading of the grammar

def go_fields(s):
    out, cur = [], ""
    for ch in s:
        if ch in WS:
            if cur:
                out.append(cur)
            cur = ""
        else:
            cur += ch
    if cur:
        out.append(cur)
    return out


DEC = re.compile(r"^[0-9]+$")


def read_num(s, mx):
    """-> ('ok', n) canonical decimal | ('lz', n) decimal with leading zeros | ('bad',)"""
    if not DEC.match(s):
        return ("bad",)
    n = int(s)
    if n > mx:
        return ("bad",)
    return ("ok", n) if (s == "0" or s[0] != "0") else ("lz", n)


def read_addr(tok):
    """-> ('ok', ep) | ('outside',) non-canonical or IPv6 spelling | ('bad',) not an address"""
    if tok in ("any", "assigned"):
        return ("ok", (tok, None, None))
    if ":" in tok:
        return ("outside",)
    parts = tok.split("/")
    if len(parts) > 2:
        return ("bad",)
    octs = parts[0].split(".")
    if len(octs) != 4:
        return ("bad",)
    outside = False
    ip = 0
    for o in octs:
        r = read_num(o, 255)
        if r[0] == "bad":
            return ("bad",)
        outside |= r[0] == "lz"
        ip = (ip << 8) | r[1]
    ln = None
    if len(parts) == 2:
        r = read_num(parts[1], 32)
        if r[0] == "bad":
            return ("bad",)
        outside |= r[0] == "lz"
        ln = r[1]
    return ("outside",) if outside else ("ok", ("ip", ip, ln))


def read_port(tok):
    """-> ('ok', (lo,) | (lo, hi)) | ('outside',) | ('bad', why)"""
    parts = tok.split("-")
    if len(parts) > 2:
        return ("bad", "unparsable port")
    vals, outside = [], False
    for p in parts:
        r = read_num(p, 65535)
        if r[0] == "bad":
            return ("bad", "unparsable port")
        outside |= r[0] == "lz"
        vals.append(r[1])
    if len(vals) == 2 and vals[0] > vals[1]:
        return ("bad", "inverted port range")
    return ("outside",) if outside else ("ok", tuple(vals))


def classify(text):
    """('wf', ast) | ('mal', reason) | ('other', reason).  'mal' = the structural defects the property lists:
    unknown action or direction, missing or unparsable address or port token, inverted port range."""
    t = go_fields(text)
    if len(t) < 1 or t[0] not in ("permit", "deny"):
        return ("mal", "unknown action")
    if len(t) < 2 or t[1] not in ("in", "out"):
        return ("mal", "unknown direction")
    if len(t) < 3:
        return ("mal", "missing protocol and addresses")
    rest = t[3:]
    if "from" not in rest or "to" not in rest:
        return ("mal", "missing from/to clause")
    outside = None
    if t[2] in ("ip", "tcp", "udp"):
        proto = t[2]
    else:
        r = read_num(t[2], 255)
        if r[0] == "ok":
            proto = r[1]
        else:
            proto, outside = None, "protocol token outside the grammar"
    if rest[0] != "from":
        return ("other", "tokens before 'from'")
    # -- from clause
    if len(rest) < 2 or rest[1] in ("from", "to"):
        return ("mal", "missing from address")
    fa = read_addr(rest[1])
    if fa[0] == "bad":
        return ("mal", "unparsable from address")
    if fa[0] == "outside":
        outside = outside or "non-canonical from address"
    k = 2
    fport = None
    if k < len(rest) and rest[k] != "to":
        fp = read_port(rest[k])
        if fp[0] == "bad":
            return ("mal", fp[1] + " (from)")
        if fp[0] == "outside":
            outside = outside or "non-canonical from port"
        else:
            fport = fp[1]
        k += 1
    if k >= len(rest):
        return ("mal", "missing to clause")
    if rest[k] != "to":
        return ("other", "extra tokens after the from clause")
    # -- to clause
    if k + 1 >= len(rest) or rest[k + 1] in ("from", "to"):
        return ("mal", "missing to address")
    ta = read_addr(rest[k + 1])
    if ta[0] == "bad":
        return ("mal", "unparsable to address")
    if ta[0] == "outside":
        outside = outside or "non-canonical to address"
    tport = None
    if k + 2 < len(rest):
        tp = read_port(rest[k + 2])
        if tp[0] == "bad":
            return ("mal", tp[1] + " (to)")
        if tp[0] == "outside":
            outside = outside or "non-canonical to port"
        else:
            tport = tp[1]
    if k + 3 < len(rest):
        return ("other", "trailing tokens")
    if outside:
        return ("other", outside)
    return ("wf", {"action": t[0], "dir": t[1], "proto": proto, "frm": fa[1], "fport": fport,
                   "to": ta[1], "tport": tport})


def prefix_of(ep, ue):
    """(value, mask) of an endpoint; 'assigned' is the UE address as a host prefix (None: no UE address, the
    statement leaves the meaning open)."""
    if ep[0] == "any":
        return (0, 0)
    if ep[0] == "assigned":
        return (ue, M32) if ue else None
    ln = 32 if ep[2] is None else ep[2]
    return (ep[1] & mask(ln), mask(ln))


def range_of(p):
    if p is None:
        return ALL_PORTS
    return (p[0], p[0]) if len(p) == 1 else (p[0], p[1])


def norm_range(r):
    """denotation of a stored port range: 0-0 and 0-65535 both mean every port (C17)."""
    r = tuple(r)
    return ALL_PORTS if r in ((0, 0), (0, 65535)) else r


def proto_of(p):
    if p == "ip":
        return (0, 0)
    if p == "tcp":
        return (6, 255)
    if p == "udp":
        return (17, 255)
    return (p, 255)


def ue_only(iface, ue):
    f = {"src": (0, 0), "dst": (0, 0), "proto": (0, 0), "sports": ALL_PORTS, "dports": ALL_PORTS}
    if ue:
        if iface == 1:
            f["dst"] = (ue, M32)
        elif iface == 0:
            f["src"] = (ue, M32)
    return f


def impl_filter(fl):
    return {"src": (fl["src_ip"], fl["src_mask"]), "dst": (fl["dst_ip"], fl["dst_mask"]),
            "proto": (fl["proto"], fl["proto_mask"]),
            "sports": norm_range(fl["sports"]), "dports": norm_range(fl["dports"])}


def expected_sdf(a, iface, ue):
    """expected filter of an inline SDF filter, or None for a field the statement leaves open"""
    remote, ueside = prefix_of(a["frm"], ue), prefix_of(a["to"], ue)
    e = {"proto": proto_of(a["proto"])}
    if iface == 1:
        e["src"], e["dst"] = remote, ueside
    else:
        e["src"], e["dst"] = ueside, remote
    if a["fport"] is None or a["tport"] is None:
        written = range_of(a["fport"] if a["fport"] is not None else a["tport"])
        written = norm_range(written)
        if iface == 1:
            e["sports"], e["dports"] = written, ALL_PORTS
        else:
            e["sports"], e["dports"] = ALL_PORTS, written
    else:
        e["sports"] = e["dports"] = None       # two ports: the statement presupposes one
    return e


def expected_verbatim(a, ue):
    return {"src": prefix_of(a["frm"], ue), "dst": prefix_of(a["to"], ue), "proto": proto_of(a["proto"]),
            "sports": norm_range(range_of(a["fport"])), "dports": norm_range(range_of(a["tport"]))}


def diff_filter(exp, got):
    """names of the fields on which the implementation's filter differs from the expectation"""
    return [k for k in ("src", "dst", "proto", "sports", "dports") if exp.get(k) is not None and tuple(exp[k]) != tuple(got[k])]


# ----------------------------------------------------------------------------- generators

BOUND_PORTS = [0, 1, 2, 79, 80, 1023, 1024, 32767, 32768, 65534, 65535]
BOUND_IPS = [0, 1, 0x0A000001, 0x7F000001, 0xC0A80101, 0xFFFFFFFF, 0xFFFFFFFE, 0x80000000, 0x01020304, 0x3C3C0066]


def g_ip(rng):
    return rng.choice(BOUND_IPS) if rng.random() < 0.3 else rng.getrandbits(32)


def g_port(rng, kind):
    if kind == "none":
        return None
    if kind == "single":
        return (rng.choice(BOUND_PORTS) if rng.random() < 0.4 else rng.randrange(65536),)
    lo = rng.choice(BOUND_PORTS) if rng.random() < 0.4 else rng.randrange(65536)
    hi = rng.choice([lo, 65535, min(65535, lo + rng.randrange(0, 200))] + [p for p in BOUND_PORTS if p >= lo])
    return (lo, hi)


def g_ep(rng, kind, ln=None):
    if kind in ("any", "assigned"):
        return (kind, None, None)
    if kind == "ip":
        return ("ip", g_ip(rng), None)
    return ("ip", g_ip(rng), rng.randrange(33) if ln is None else ln)


EP_KINDS = ["any", "assigned", "ip", "ipl"]
PORT_FORMS = [("none", "none"), ("single", "none"), ("range", "none"), ("none", "single"), ("none", "range"),
              ("single", "single"), ("range", "range"), ("single", "range")]
PROTOS = ["ip", "tcp", "udp", 0, 1, 6, 17, 50, 132, 254, 255]


def g_ast(rng, **kw):
    a = {"action": kw.get("action", rng.choice(["permit", "permit", "deny"])),
         "dir": kw.get("dir", rng.choice(["in", "out", "out"])),
         "proto": kw.get("proto", rng.choice(PROTOS + [rng.randrange(256)]))}
    fk, tk = kw.get("fk", rng.choice(EP_KINDS)), kw.get("tk", rng.choice(EP_KINDS))
    a["frm"] = g_ep(rng, fk, kw.get("flen"))
    a["to"] = g_ep(rng, tk, kw.get("tlen"))
    pf = kw.get("pf", rng.choice(PORT_FORMS[:5] * 3 + PORT_FORMS[5:]))
    a["fport"], a["tport"] = g_port(rng, pf[0]), g_port(rng, pf[1])
    return a


def g_ue(rng):
    r = rng.random()
    if r < 0.08:
        return None
    if r < 0.3:
        return rng.choice([1, 0x0A000001, 0xFFFFFFFF, 0x11000001, 0x0A3C0001])
    return rng.getrandbits(32) or 1


def gen_wf(rng, tier):
    asts = []
    for ln in range(33):                                   # every prefix length on either side
        asts.append(g_ast(rng, fk="ipl", flen=ln, tk=rng.choice(["assigned", "any", "ip"])))
        asts.append(g_ast(rng, tk="ipl", tlen=ln, fk=rng.choice(["assigned", "any", "ip"])))
    for p in PROTOS:                                       # every protocol form, both directions
        for d in ("in", "out"):
            asts.append(g_ast(rng, proto=p, dir=d))
    for fk in EP_KINDS:                                    # endpoint kinds x port forms x direction keyword
        for tk in EP_KINDS:
            for pf in PORT_FORMS:
                asts.append(g_ast(rng, fk=fk, tk=tk, pf=pf))
    for p in BOUND_PORTS:                                  # boundary ports, either endpoint
        for q in (p, 65535):
            if p <= q:
                asts.append(g_ast(rng, pf=("none", "none")) | {"fport": (p, q)})
                asts.append(g_ast(rng, pf=("none", "none")) | {"tport": (p, q)})
        asts.append(g_ast(rng, pf=("none", "none")) | {"fport": (p,)})
        asts.append(g_ast(rng, pf=("none", "none")) | {"tport": (p,)})
    for ip in BOUND_IPS:
        asts.append(g_ast(rng, fk="ip") | {"frm": ("ip", ip, None)})
        asts.append(g_ast(rng, tk="ip") | {"to": ("ip", ip, rng.choice([None, 0, 1, 31, 32]))})
    n_extra = 150 if tier == "quick" else 10000
    for _ in range(n_extra):
        asts.append(g_ast(rng))
    return asts


SEEDS_FIXED = [
    "permit out ip from any to assigned",
    "permit out udp from 192.168.1.1/24 8080-8090 to assigned",
    "deny in tcp from assigned to 10.20.30.40/32 443",
    "permit out 17 from 60.60.0.102 53 to 10.0.0.0/8 1024-65535",
]
CORRUPT_CHARS = ["0", "9", "x", "/", "-", ".", ":", " "]
JUNK_TOKENS = ["from", "to", "any", "assigned", "permit", "in", "x", "-1", "65536", "1.2.3", "80-79", "0x10", "/", "-", "999999999999999999999"]


def token_mutants(toks):
    n = len(toks)
    out = []
    for i in range(n):
        out.append(("del", toks[:i] + toks[i + 1:]))
        out.append(("dup", toks[:i + 1] + toks[i:]))
        for j in range(i + 1, n):
            t = list(toks)
            t[i], t[j] = t[j], t[i]
            out.append(("swap", t))
        for jt in JUNK_TOKENS:
            if jt != toks[i]:
                out.append(("repl", toks[:i] + [jt] + toks[i + 1:]))
    for i in range(n + 1):
        out.append(("trunc", toks[:i]))
    return out


def char_mutants(text):
    out = []
    for i in range(len(text)):
        out.append(("cdel", text[:i] + text[i + 1:]))
        out.append(("cdup", text[:i + 1] + text[i:]))
        for ch in CORRUPT_CHARS:
            if ch != text[i]:
                out.append(("crepl", text[:i] + ch + text[i + 1:]))
    return out


def gen_corrupt(rng, tier, wf_texts):
    n_seeds = 2 if tier == "quick" else 100
    seeds = list(SEEDS_FIXED) + rng.sample(wf_texts, min(n_seeds, len(wf_texts)))
    out, seen = [], set()
    for s in seeds:
        toks = go_fields(s)
        for kind, t in token_mutants(toks):
            out.append((kind, " ".join(t)))
        for kind, t in char_mutants(s):
            out.append((kind, t))
    res = []
    for kind, t in out:
        if t not in seen:
            seen.add(t)
            res.append((kind, t))
    return res


OTHER_TEXTS = [
    "", " ", "\t\n", "permit", "permit out", "permit out ip", "permit out ip from", "permit out ip to", "permit out ip from any",
    "permit out ip from any to", "permit out ip from 1.2.3.4", "permit out ip from 1.2.3.4 80", "permit out ip to assigned from any",
    "permit out ip to assigned 80 from 1.2.3.4", "permit out ip x y from any to assigned", "permit out ip from any to assigned 80 trailing",
    "permit out ip from any 80 junk to assigned", "permit out ip from any to assigned from 1.2.3.4 to 5.6.7.8",
    "permit out ip from 010.0.0.1 to assigned", "permit out ip from 10.0.0.1/032 to assigned", "permit out 017 from any 0080 to assigned",
    "permit out 256 from any to assigned", "permit out +6 from any to assigned", "permit out junk from any to assigned",
    "permit out ip from ::1 to assigned", "permit out ip from 2001:db8::/32 to assigned", "permit out ip from any to ::ffff:1.2.3.4",
    "permit\tout\nip\vfrom\fany\rto assigned", "  permit   out ip from any to assigned  ", "permit out ip from any to assigned\x1c",
    "PERMIT out ip from any to assigned", "permit OUT ip from any to assigned", "permit out ip FROM any TO assigned",
    "permit out ip from 1.2.3.4/8/9 to assigned", "permit out ip from 1.2.3.4/ to assigned", "permit out ip from /8 to assigned",
    "permit out ip from any 1-2-3 to assigned", "permit out ip from any 5- to assigned", "permit out ip from any -5 to assigned",
    "permit out ip from any 65536 to assigned", "permit out ip from any 65535-65536 to assigned", "permit out ip from any 2-1 to assigned",
    "permit out ip from any to assigned 2-1", "permit out ip from 256.0.0.1 to assigned", "permit out ip from 1.2.3.4/33 to assigned",
    "permit out ip from 1.2.3.4.5 to assigned", "permit out ip from 1..2.3 to assigned", "permit out ip from .1.2.3 to assigned",
    "permit out ip from any to", "permit out ip from to assigned", "permit out ip from from any to assigned", "permit out ip from any to to",
    "allow out ip from any to assigned", "permit both ip from any to assigned", "out permit ip from any to assigned",
]
UE_STRINGS = ["", "<nil>", "0.0.0.0", "10.0.0.1", "junk", "10.0.0.0/8", "1.2.3.4/8/9", "assigned", "any", "255.255.255.255", "01.2.3.4"]


def sdf_case(text, ue):
    """one text: parseFlowDesc(text, ue as dotted quad) + SDF filter of an access PDR + of a core PDR"""
    return {"op": "sdf", "text": text, "ue_addr": ue}


APP_IDS = ["app1", "app2", "video", "a", "X y"]


def g_fd(rng, wf_texts, want_dir=None):
    r = rng.random()
    if r < 0.78:
        t = rng.choice(wf_texts)
        if want_dir:
            toks = t.split(" ")
            toks[1] = want_dir
            t = " ".join(toks)
        return t
    if r < 0.9:
        return rng.choice(OTHER_TEXTS[3:])
    return rng.choice(["permit out ip from any", "deny in ip from 1.2.3.4 99-1 to assigned", "x", "permit out ip from any to assigned"])


def g_pfd_step(rng, wf_texts, flavour):
    """flavour: ok | reject | multi | empty (a request without any application: withdraws every PFD)"""
    if flavour == "empty":
        return {"kind": "pfd", "apps": []}
    apps = []
    for _ in range(rng.choice([1, 1, 2, 3])):
        n = rng.choice([0, 1, 1, 2, 3, 4])
        ctx = [{"fd": g_fd(rng, wf_texts, rng.choice([None, "in", "out"]))} for _ in range(n)]
        ctx = [c for c in ctx if len(c["fd"]) >= 2]          # shorter ones are refused by go-pfcp's own decoder
        apps.append({"id": rng.choice(APP_IDS), "ctxs": [ctx]})
    if flavour == "multi":                                  # several PFD Contexts for one application
        a = rng.choice(apps)
        for _ in range(rng.choice([1, 1, 2])):
            extra = [{"fd": g_fd(rng, wf_texts, rng.choice(["in", "out"]))} for _ in range(rng.choice([0, 1, 1, 2]))]
            a["ctxs"].insert(rng.randrange(len(a["ctxs"]) + 1), [c for c in extra if len(c["fd"]) >= 2])
    st = {"kind": "pfd", "apps": apps}
    if flavour == "reject":
        a = rng.choice(apps)
        k = rng.randrange(7)
        if k == 0:
            a["id"] = None
        elif k == 1:
            a["ctxs"] = []
        elif k == 2:
            a["ctxs"][0].insert(rng.randrange(len(a["ctxs"][0]) + 1), {"fd": ""})
        elif k == 3:
            a["ctxs"][0].insert(rng.randrange(len(a["ctxs"][0]) + 1), {"bad": True})
        elif k == 4:
            a["ctxs"][0].insert(rng.randrange(len(a["ctxs"][0]) + 1), {"fd": "x"})
        elif k == 5:                                        # the defect sits in a later PFD Context
            a["ctxs"].append([{"fd": g_fd(rng, wf_texts, "out")}, rng.choice([{"fd": ""}, {"bad": True}])])
        else:                                               # a PFD Context that cannot be decoded
            a["bad_ctx_at"] = rng.randrange(len(a["ctxs"]) + 1)
            st["direct"] = True                             # message.Parse itself refuses such a request
    return st


def g_pdr_app_step(rng, ids):
    items = [{"kind": "app", "id": rng.choice(ids + ["missing"]) if rng.random() < 0.9 else rng.choice(APP_IDS)}]
    return {"kind": "pdr", "iface": rng.choice([0, 1, 0, 1, 0, 1, 2, 3]), "ue": g_ue(rng), "items": items}


def gen_pfd_seqs(rng, tier, wf_texts):
    n = 200 if tier == "quick" else 4000
    seqs = []
    for _ in range(n):
        steps = []
        ids = []
        for _ in range(rng.choice([1, 2, 2, 3, 4])):
            st = g_pfd_step(rng, wf_texts, rng.choice(["ok", "ok", "ok", "reject", "multi"] + (["empty", "empty"] if ids else [])))
            steps.append(st)
            ids += [a["id"] for a in st["apps"] if a["id"] is not None]
            for _ in range(rng.choice([0, 1, 2, 3])):
                steps.append(g_pdr_app_step(rng, ids or ["app1"]))
                if rng.random() < 0.3:                      # a second PDR of the same direction naming the same id
                    steps.append(json.loads(json.dumps(steps[-1])))
        init = None
        if rng.random() < 0.3:
            init = [[i, [g_fd(rng, wf_texts) for _ in range(rng.randrange(3))]] for i in rng.sample(APP_IDS, rng.randrange(3))]
        c = {"op": "seq", "steps": steps}
        if init is not None:
            c["init"] = init
        seqs.append(c)
    # PDRs with unusual item lists
    for _ in range(40 if tier == "quick" else 800):
        its = rng.choice([[], [{"kind": "sdf", "fd": "", "mode": "emptyfd"}], [{"kind": "sdf", "fd": "", "mode": "wrongtype"}], [{"kind": "sdf", "fd": ""}],
                          [{"kind": "sdf", "fd": rng.choice(wf_texts)}, {"kind": "app", "id": "app1"}],
                          [{"kind": "app", "id": "app1"}, {"kind": "sdf", "fd": rng.choice(wf_texts)}],
                          [{"kind": "sdf", "fd": rng.choice(wf_texts)}, {"kind": "sdf", "fd": rng.choice(wf_texts)}],
                          [{"kind": "sdf", "fd": "permit out ip from any"}, {"kind": "sdf", "fd": rng.choice(wf_texts)}]])
        seqs.append({"op": "seq", "init": [["app1", [rng.choice(wf_texts), rng.choice(wf_texts)]]],
                     "steps": [{"kind": "pdr", "iface": rng.choice([0, 1, 2, 3, 4, 5]), "ue": g_ue(rng), "items": its}]})
    return seqs


def gen_cases(rng, tier):
    cases = []
    asts = gen_wf(rng, tier)
    wf_texts = [render(a) for a in asts]
    for t in wf_texts:
        cases.append({"cls": "wf", "in": sdf_case(t, g_ue(rng))})
    for t in wf_texts[:60]:                                 # white-space variants of well-formed texts
        sep = rng.choice(["  ", "\t", " \n", "\r\n", "\v", "\f "])
        cases.append({"cls": "wf-ws", "in": sdf_case(rng.choice(["", " ", "\t"]) + sep.join(t.split(" ")) + rng.choice(["", " ", "\n"]), g_ue(rng))})
    for kind, t in gen_corrupt(rng, tier, wf_texts):
        cases.append({"cls": "cor-" + kind, "in": sdf_case(t, g_ue(rng) or 0x0A000001)})
    for t in OTHER_TEXTS:
        cases.append({"cls": "other", "in": sdf_case(t, 0x0A000001)})
        cases.append({"cls": "other", "in": sdf_case(t, None)})
    for t in OTHER_TEXTS + rng.sample(wf_texts, 40):        # parseFlowDesc with UE strings that are not dotted quads
        for u in UE_STRINGS:
            cases.append({"cls": "ue-string", "in": {"op": "parse", "text": t, "ue": u}})
    for s in gen_pfd_seqs(rng, tier, wf_texts):
        cases.append({"cls": "pfd-seq", "in": s})
    return cases


# ----------------------------------------------------------------------------- monitor (implementation side)

def side_ports(rules, col):
    """the set of ports the installed rules match on one side, as sorted disjoint intervals; None = a mask that is not a prefix mask"""
    iv = set()
    for r in rules:
        v, m = r[col], r[col + 1]
        if m == 0:
            iv.add((0, 65535))
        elif m == 0xFFFF:
            iv.add((v, v))
        else:
            k = (~m) & 0xFFFF
            if k & (k + 1):
                return None
            iv.add((v & m, (v & m) | k))
    out = []
    for lo, hi in sorted(iv):
        if out and lo <= out[-1][1] + 1:
            out[-1] = (out[-1][0], max(out[-1][1], hi))
        else:
            out.append((lo, hi))
    return out


def mon_installed(o):
    """what BESS would be given for the accepted filter's port ranges matches exactly the ranges of the filter (or the
    pair is refused: allowed, nothing is installed then) and the expansion terminates"""
    if o.get("rules_blocked"):
        return ("installed-port-rules:expansion-does-not-terminate", f"the port-range expansion of the accepted filter {o.get('filter')} does not terminate")
    if o.get("rules_panic"):
        return ("installed-port-rules:panic", "the port-range expansion panicked: " + o["rules_panic"])
    if "rules" not in o:
        return None
    fl = o["filter"]
    for name, col in (("sports", 0), ("dports", 2)):
        lo, hi = fl[name]
        want = [(0, 65535)] if (lo, hi) in ((0, 0), (0, 65535)) else [(lo, hi)]
        got = side_ports(o["rules"], col)
        if got != want:
            return ("installed-port-rules:other-ports", f"{name} {fl[name]} of the accepted filter are installed as rules matching {got} ({len(o['rules'])} rules)")
    return None


def mon_sdf(text, iface, ue, o):
    """inline SDF filter on an access (0) / core (1) PDR"""
    m_ = mon_installed(o) if o.get("accepted") else None
    if m_:
        return m_
    cls = classify(text)
    if cls[0] == "other":
        return None
    if cls[0] == "mal":
        if not o["accepted"]:
            return None
        if diff_filter(ue_only(iface, ue), impl_filter(o["filter"])):
            return ("malformed-text-yields-a-filter", f"structurally malformed description ({cls[1]}) accepted with a filter other than the UE-only one")
        return None
    a = cls[1]
    if not o["accepted"]:
        return ("wellformed-sdf-rejected", "PDR with a well-formed flow description was rejected")
    got = impl_filter(o["filter"])
    d = diff_filter(expected_sdf(a, iface, ue or 0), got)
    if not d:
        return None
    if d == ["proto"] and a["proto"] == 255 and got["proto"] == (0, 0):
        return ("proto-255-matches-every-protocol", "protocol number 255 is accepted and the filter matches every protocol")
    if not diff_filter(ue_only(iface, ue), got) and diff_filter(expected_sdf(a, iface, ue or 0), ue_only(iface, ue)):
        return ("wellformed-sdf-ignored", "well-formed flow description ignored: the PDR matches on the UE address only")
    return ("sdf-filter-differs:" + ",".join(d), f"filter differs from the description in {d}")


def mon_app(st, o):
    iface, ue = st["iface"], st["ue"]
    if iface not in (0, 1) or len(st["items"]) != 1:
        return None
    m_ = mon_installed(o) if o.get("accepted") else None
    if m_:
        return m_
    table = {k: v for k, v in o["table"]}
    descs = table.get(st["items"][0]["id"])
    ueo = ue_only(iface, ue)
    if descs is None:
        if o["accepted"] and diff_filter(ueo, impl_filter(o["filter"])):
            return ("unknown-appid-yields-a-filter", "application id without PFDs gave a filter")
        return None
    want_dir = "out" if iface == 0 else "in"
    allowed, saw_mal = [], False
    for d in descs:
        c = classify(d)
        if c[0] == "other":
            return None
        if c[0] == "mal":
            saw_mal = True
            continue
        if c[1]["dir"] == want_dir:
            allowed.append(c[1])
    if not o["accepted"]:
        return None if saw_mal else ("appid-pdr-rejected", "PDR naming a provisioned application id was rejected")
    got = impl_filter(o["filter"])
    if saw_mal or not allowed:
        if not diff_filter(ueo, got):
            return None
    for a in allowed:
        if not diff_filter(expected_verbatim(a, ue or 0), got):
            return None
    if allowed and all(diff_filter(expected_verbatim(a, ue or 0), got) == ["proto"] and a["proto"] == 255 and got["proto"] == (0, 0) for a in allowed[:1]):
        return ("proto-255-matches-every-protocol", "protocol number 255 is accepted and the filter matches every protocol")
    if allowed and not diff_filter(ueo, got):
        return ("appid-flow-description-ignored", f"a provisioned '{want_dir}' flow description exists but the PDR matches on the UE address only")
    if not allowed:
        return ("appid-filter-without-matching-description", f"no provisioned '{want_dir}' flow description, yet the PDR carries a filter")
    return ("appid-filter-not-verbatim", "application filter is not the provisioned flow description taken verbatim (src->src, dst->dst)")


def provisioned(apps_abs, first_only=False):
    """the table a request carries: per application (a later IE for the same id wins) the flow descriptions
    of all its PFD Contexts in order"""
    t = {}
    for a in apps_abs:
        ds = []
        for ctx in (a["ctxs"][:1] if first_only else a["ctxs"]):
            ds += [d for d in (ctx or []) if d is not None]
        t[a["id"]] = ds
    return t


def mon_pfd(o):
    before = {k: v for k, v in o["before"]}
    after = {k: v for k, v in o["after"]}
    if o.get("cause") is None or not o.get("seq_ok"):
        return ("pfd-no-response", "PFD Management Request got no response with a cause / wrong sequence number")
    if o["cause"] == 1:
        want = provisioned(o["abs"])
        if after == want:
            return None
        if after == provisioned(o["abs"], first_only=True) and any(len(a["ctxs"]) > 1 for a in o["abs"]):
            return ("pfd-accepted-later-pfd-context-dropped",
                    "accepted PFD Management Request: flow descriptions of the 2nd and later PFD Context IEs of an application are dropped")
        return ("pfd-accepted-table-differs", "accepted PFD Management Request did not replace the table by its contents")
    if after != before:
        return ("pfd-rejected-table-changed", "rejected PFD Management Request changed the application table")
    return None


def monitor(c, o):
    if isinstance(o, dict) and o.get("skipped"):
        return []          # the harness process was told to stop after a runaway expansion; that case is reported
    """-> list of (signature, what, detail)"""
    i = c["in"]
    if "panic" in o:
        return [("panic", "parseFlowDesc panicked: " + o["panic"], None)]
    if i["op"] == "parse":
        cls = classify(i["text"])
        if cls[0] == "mal" and o["ok"]:
            return [("malformed-text-parsed", f"structurally malformed description ({cls[1]}) was parsed", None)]
        canon = read_addr(i["ue"])[0] == "ok" and "/" not in i["ue"] and i["ue"] not in ("any", "assigned")
        if cls[0] == "wf" and not o["ok"] and (canon or i["ue"] in ("", "<nil>")):
            return [("wellformed-text-refused", "well-formed description refused by parseFlowDesc", None)]
        return []
    out = []
    if i["op"] == "sdf":
        po = o["parse"]
        cls = classify(i["text"])
        if "panic" in po:
            out.append(("panic", "parseFlowDesc panicked: " + po["panic"], "parse"))
        elif cls[0] == "mal" and po["ok"]:
            out.append(("malformed-text-parsed", f"structurally malformed description ({cls[1]}) was parsed", "parse"))
        elif cls[0] == "wf" and not po["ok"]:
            out.append(("wellformed-text-refused", "well-formed description refused by parseFlowDesc", "parse"))
        for name, iface in (("access", 0), ("core", 1)):
            so = o[name]
            if "panic" in so:
                out.append(("panic", f"parsePDR ({name} PDR) panicked: " + so["panic"], name))
            elif "harness_skip" not in so and i["text"]:
                m = mon_sdf(i["text"], iface, i["ue_addr"], so)
                if m:
                    out.append((m[0], m[1], name))
        return out
    same = {}
    for st, so in zip(i["steps"], o["steps"]):
        if "panic" in so:
            out.append(("panic", f"{st['kind']} step panicked: " + so["panic"], st))
            break
        if st["kind"] == "pdr" and "harness_skip" not in so:
            # the same table, direction, UE and item list must give the same outcome for every PDR
            key = json.dumps([so["table"], st["iface"], st["ue"], st["items"]], sort_keys=True)
            res = json.dumps([so["accepted"], so.get("filter")], sort_keys=True)
            if same.setdefault(key, res) != res:
                out.append(("appid-filter-differs-between-pdrs", "two PDRs of the same direction naming the same application id got different filters", st))
        if "harness_skip" in so:
            continue
        if st["kind"] == "pfd":
            m = mon_pfd(so)
        elif len(st["items"]) == 1 and st["items"][0]["kind"] == "sdf" and not st["items"][0].get("mode") and st["iface"] in (0, 1) \
                and so["abs"][0].get("fd"):
            m = mon_sdf(st["items"][0]["fd"], st["iface"], st["ue"], so)
        elif len(st["items"]) == 1 and st["items"][0]["kind"] == "app":
            m = mon_app(st, so)
        else:
            m = None
        if m:
            out.append((m[0], m[1], st))
    return out


# ----------------------------------------------------------------------------- Coq terms

def cstr(s):
    """Gallina term of type str (list ascii) for an ASCII Python string"""
    if not s:
        return "[]"
    parts, cur = [], ""
    for ch in s:
        if 0x20 <= ord(ch) <= 0x7e:
            cur += ch
        else:
            if cur:
                parts.append('K "' + cur.replace('"', '""') + '"')
                cur = ""
            parts.append(f"[ascii_of_N {ord(ch)}]")
    if cur:
        parts.append('K "' + cur.replace('"', '""') + '"')
    return "(" + " ++ ".join(parts) + ")"


def ctable(t):
    return glist([f"({cstr(k)}, {glist([cstr(d) for d in v])})" for k, v in t])


def in_model(*strings):
    return all(":" not in s and all(ord(ch) < 128 for ch in s) for s in strings)


def pobs_term(o, i):
    if o["ok"]:
        if o["src"].get("v6") or o["dst"].get("v6") or o["src"].get("nil") or o["dst"].get("nil"):
            return "(OOk [] [] 0 0 0 0 0 0 0 0 0)"      # IPv6 or nil net for ASCII IPv4 text: forces a mismatch
        return (f"(OOk {cstr(o['action'])} {cstr(o['dir'])} {o['proto']} {o['src']['ip']} {o['src']['mask']} {o['sports'][0]} {o['sports'][1]} "
                f"{o['dst']['ip']} {o['dst']['mask']} {o['dports'][0]} {o['dports'][1]})")
    return f"(OErr {gbool(o['err'] == 'bad')})"


def pdr_obs_term(so):
    if not so["accepted"]:
        return "None"
    f = so["filter"]
    return "(Some " + glist([str(v) for v in (f["src_ip"], f["dst_ip"], f["src_mask"], f["dst_mask"], f["proto"], f["proto_mask"],
                                              f["sports"][0], f["sports"][1], f["dports"][0], f["dports"][1])]) + ")"


def coq_terms(c, o):
    """-> list of (term, description) for the Coq evaluation"""
    i = c["in"]
    if "panic" in o:
        return []
    if i["op"] == "parse":
        if not in_model(i["text"], i["ue"]):
            return []
        return [(f"CParse {cstr(i['text'])} {cstr(i['ue'])} {pobs_term(o, i)}", repr(i))]
    if i["op"] == "sdf":
        if not in_model(i["text"]) or any("panic" in o[k] or "harness_skip" in o[k] for k in ("parse", "access", "core")):
            return []
        for k in ("access", "core"):
            x = o[k]["abs"][0]
            if not (x.get("fd") == i["text"] or (i["text"] == "" and x.get("err"))):
                return [("CParse [] [] (OErr false)", "SDF Filter IE does not carry the text given: " + repr(i))]
        return [(f"CSdf {cstr(i['text'])} {i['ue_addr'] or 0} {pobs_term(o['parse'], i)} {pdr_obs_term(o['access'])} {pdr_obs_term(o['core'])}", repr(i))]
    out = []
    for st, so in zip(i["steps"], o["steps"]):
        if "panic" in so or "harness_skip" in so:
            continue
        if st["kind"] == "pdr":
            strs = [x.get("fd", "") or x.get("id", "") for x in so["abs"]] + [d for k, v in so["table"] for d in v + [k]]
            if not in_model(*strs):
                continue
            its = []
            for x in so["abs"]:
                val = "None" if x.get("err") else f"(Some {cstr(x['fd'] if x['kind'] == 'sdf' else x['id'])})"
                its.append(("ISdf " if x["kind"] == "sdf" else "IApp ") + val)
            out.append((f"CPdr {st['iface']} {st['ue'] or 0} {ctable(so['table'])} {glist(its)} {pdr_obs_term(so)}", repr(st)))
        else:
            strs = [d for k, v in so["before"] + so["after"] for d in v + [k]]
            for a in so["abs"]:
                strs += [a["id"] or ""] + [d or "" for ctx in a["ctxs"] for d in (ctx or [])]
            if not in_model(*strs):
                continue
            req = []
            for a in so["abs"]:
                aid = "None" if a["id"] is None else f"(Some {cstr(a['id'])})"
                ctxs = glist(["None" if ctx is None else
                              "(Some " + glist(["None" if d is None else f"(Some {cstr(d)})" for d in ctx]) + ")" for ctx in a["ctxs"]])
                req.append(f"AppIE {aid} {ctxs}")
            out.append((f"CPfd {ctable(so['before'])} {glist(req)} {gbool(so['cause'] == 1)} {ctable(so['after'])}", repr(st)))
    return out


# ----------------------------------------------------------------------------- driver

def accessor_tie(c, o):
    """the harness' abstract IE tree must be what the generator built (else the correspondence is about other inputs)"""
    i = c["in"]
    if i["op"] != "seq":
        return None
    for st, so in zip(i["steps"], o["steps"]):
        if "panic" in so or "harness_skip" in so:
            continue
        if st["kind"] == "pfd":
            for a, x in zip(st["apps"], so["abs"]):
                if x.get("unreadable"):
                    if a.get("bad_ctx_at") is None:
                        return f"Application ID's PFDs IE unreadable although built well-formed: {a}"
                    continue
                want = len(a["ctxs"]) + (1 if a.get("bad_ctx_at") is not None else 0)
                if len(x["ctxs"]) != want or x["id"] != a["id"]:
                    return f"PFD accessor tree differs from the request built: {a} vs {x}"
    return None


def run(tier, seed, replay=None):
    ck = Check("C08", tier, seed)
    ck.trusted = COMMON_TRUSTED + [
        "harness/go/verif_c08_test.go (direct parseFlowDesc calls; Create PDR IEs and PFD Management Requests built with go-pfcp, "
        "sent through Marshal/Parse, handed to parsePDR / handlePFDMgmtRequest on a PFCPConn literal)",
        "ASCII models of strings.Fields / strings.Split / strconv.ParseUint / net.ParseCIDR (IPv4 text, Go 1.24) / net.IP.String in Model/FlowDesc.v, "
        "exercised by the differential run; go-pfcp accessors enter the model as their observed outcome",
        "tools/props/c08.py classify(): the independent reading of the IPFilterRule grammar used by the monitor"]
    ck.assumptions = ["flow descriptions and UE address strings are ASCII; a token containing ':' (IPv6 text) is outside the model and the grammar "
                      "(the monitor then only demands crash-freedom)",
                      "a stored port range 0-0 denotes every port (documented zero value, as in C17); 'assigned' without a UE address is left open",
                      "the application filter is read at parsePDR's result (the fields the datapath plug-ins are given), not at the BESS/UP4 servers"]
    ck.rule = ("grammar generator (every prefix length 0..32 on either endpoint, every protocol form, endpoint kinds x port forms, boundary ports/addresses, "
               "random rest) each as an access and a core PDR; every single-token deletion / duplication / swap / replacement / truncation and every "
               "single-character deletion / duplication / replacement of the seed texts; hand-written outside-grammar texts x UE strings; random PFD "
               "provisioning histories (accept / reject / re-provision / several PFD contexts) interleaved with PDRs naming application ids. "
               "distinct = distinct harness input; non-trivial = not a plain well-formed text without address, protocol or port constraint; "
               "UP4 leg: for 5 base filters every variant that differs in exactly one component (protocol, prefix, port, end of the port range, wildcard port) "
               "and the equal filter again, as SDF filter or PFD application, on two UEs and as two PDR pairs of one session, plus random sequences with "
               "deletions, on the real UP4 plug-in: every PDR's application id leads to an applications entry carrying that PDR's prefix, protocol and port "
               "range, and two PDRs share an id iff their filters are equal")
    ck.prove(TARGETS)
    rng = rng_for(seed, "C08")
    from props import c17up4 as A
    ck.trusted = ck.trusted + A.TRUSTED
    if replay is not None and json.load(open(replay))["case"].get("leg") == "up4-app":
        try:
            A.run_leg(ck, build_harness(), [json.load(open(replay))["case"]], confirm=False)
        except HarnessError as e:
            ck.tie("harness builds and runs against the current tree", False, str(e)[-1500:])
        return ck.finish()
    if replay is None:
        cases = gen_cases(rng, tier)
    else:
        rc = json.load(open(replay))["case"]
        cases = [{"cls": "replay", "in": rc["input"]}]
    try:
        binary = build_harness()
        obs = run_harness(binary, "c08", [c["in"] for c in cases])
        nskip = sum(1 for o in obs if isinstance(o, dict) and o.get("skipped"))
        if nskip:
            # a runaway expansion made the harness stop early: the case that caused it is reported by the monitor, the
            # cases behind it were not run
            ck.notes["cases_not_run_after_runaway"] = nskip
            pairs = [(c, o) for c, o in zip(cases, obs) if not (isinstance(o, dict) and o.get("skipped"))]
            cases, obs = [c for c, _ in pairs], [o for _, o in pairs]
    except HarnessError as e:
        ck.tie("harness builds and runs against the current tree", False, str(e)[-1500:])
        return ck.finish()
    ck.tie("harness builds and runs against the current tree", True)
    dist = {}
    bad_tie = None
    for c, o in zip(cases, obs):
        if "harness_error" in o:
            bad_tie = bad_tie or ("harness error: " + o["harness_error"])
            continue
        i = c["in"]
        ck.count(i, not (i["op"] == "sdf" and i["text"].split() in (["permit", "out", "ip", "from", "any", "to", "assigned"],)))
        bad_tie = bad_tie or accessor_tie(c, o)
        if i["op"] == "parse":
            k = c["cls"] + ":" + ("panic" if "panic" in o else "ok" if o["ok"] else "err-" + o["err"])
            dist[k] = dist.get(k, 0) + 1
        elif i["op"] == "sdf":
            po = o["parse"]
            k = c["cls"] + ":" + classify(i["text"])[0] + ":" + ("panic" if "panic" in po else "ok" if po["ok"] else "err-" + po["err"])
            dist[k] = dist.get(k, 0) + 1
            for name, iface in (("access", 0), ("core", 1)):
                so = o[name]
                k = "panic" if "panic" in so else "skip" if "harness_skip" in so else "rejected" if not so["accepted"] else \
                    "ue-only" if not diff_filter(ue_only(iface, i["ue_addr"]), impl_filter(so["filter"])) else "filter"
                k = f"{c['cls']}:pdr:{k}"
                dist[k] = dist.get(k, 0) + 1
        else:
            for st, so in zip(i["steps"], o["steps"]):
                if "panic" in so:
                    k = "panic"
                elif "harness_skip" in so:
                    k = "skip"
                elif st["kind"] == "pfd":
                    k = "accepted" if so.get("cause") == 1 else "rejected"
                else:
                    k = "rejected" if not so["accepted"] else "ue-only" if not diff_filter(ue_only(st["iface"], st["ue"]), impl_filter(so["filter"])) else "filter"
                k = f"{c['cls']}:{st['kind']}:{k}"
                dist[k] = dist.get(k, 0) + 1
        for sig, what, detail in monitor(c, o):
            ck.fail(sig, what, {"input": i, "step": detail, "impl": o})
    ck.tie("harness inputs reach the code as built (go-pfcp accessor tree = generated request)", bad_tie is None, bad_tie or "")
    ck.distribution = dist
    if replay is None:
        # UP4: the applications entries behind the application ids (tools/props/c17up4.py)
        A.run_leg(ck, binary, A.corpus() + A.c08_histories(random.Random(rng.getrandbits(64)), 40 if tier == "quick" else 1500))
    ck.samples = [{"input": c["in"], "impl": o} for c, o in list(zip(cases, obs))[:3]]
    if replay is not None:
        print(json.dumps({"input": cases[0]["in"], "impl": obs[0], "monitor": monitor(cases[0], obs[0])}, indent=1, default=str))
    try:
        terms, origin = [], []
        # the monitor above saw every case; the model is evaluated on all of them except that the largest
        # corruption class (single-character replacement) is thinned, and the thorough tier is capped
        n_crepl = 0
        cap = 10 ** 9 if tier == "quick" else 40000
        for c, o in zip(cases, obs):
            if "harness_error" in o:
                continue
            if c["cls"] == "cor-crepl":
                n_crepl += 1
                if n_crepl % (2 if tier == "quick" else 8):
                    continue
            if len(terms) >= cap:
                break
            for t, d in coq_terms(c, o):
                terms.append(t)
                origin.append((c, o, d))
        ck.notes["model_evaluations"] = len(terms)
        idx = coq_eval_shards("C08", HEADER, terms, shard=max(200, (len(terms) + 13) // 14))
        for j in idx:
            c, o, d = origin[j]
            ck.mismatch(f"model and implementation disagree on {d}", {"input": c["in"], "impl": o, "term": terms[j][:2000]})
        ck.tie("correspondence: Coq model output = implementation output on every case", not idx,
               f"{len(idx)} mismatching cases, first: {origin[idx[0]][2]}" if idx else "")
    except RuntimeError as e:
        ck.tie("correspondence: Coq model output = implementation output on every case", False, str(e)[-800:])
    return ck.finish()
