"""C07 - UP-chosen identifiers are unique among live users and are those programmed."""
import itertools
import random
from lib import *

TARGETS = ["Props/C07.vo", "Run/Eval_C07.vo"]
HEADER = ("From Coq Require Import NArith List Bool.\nFrom UPF Require Import Model.Fteid Run.Eval_C07.\n"
          "Import ListNotations.\nOpen Scope N_scope.\n")

U32 = 1 << 32
M = U32 - 1                     # maxValue: ids are 1..M, offsets 0..M-1
SPEC_FLAG = 1000000000          # Eval_C07.report: i = mismatch, SPEC_FLAG + i = property failure
CAUSE_ACCEPTED, CAUSE_REJECTED, CAUSE_NO_ASSOC, CAUSE_NO_RES = 1, 64, 72, 75
ACCESS = (192 << 24) | (168 << 16) | (1 << 8) | 1


# ----------------------------------------------------------------------------- source tie (T1)

def skeleton_tie(sk):
    """Every method of FTEIDGenerator that touches offset/usedMap holds lock over its whole body
    (Lock as first statement after a prefix that touches nothing, defer Unlock next, no other
    Unlock, no go statement) or is an unexported helper called only from such methods after the
    Lock; nothing else in package pfcpiface touches the fields. Returns list of problems."""
    if "error" in sk:
        return ["skeleton extractor failed: " + sk["error"]]
    bad = []
    funcs = sk["funcs"]
    meths = {f["name"]: f for f in funcs if f["recv"] == "FTEIDGenerator"}
    if sorted(sk.get("gen_fields", [])) != ["lock", "offset", "usedMap"]:
        bad.append(f"FTEIDGenerator fields are {sk.get('gen_fields')}, the model knows lock/offset/usedMap")
    for name in ("Allocate", "FreeID", "IsAllocated"):
        if name not in meths:
            bad.append(f"method {name} not found")

    def locked(f):
        return (f["lock_idx"] >= 0 and f["defer_unlock"] and not f["prefix_dirty"]
                and f["extra_unlock"] == 0 and not f["has_go"])
    helpers = set()
    for name, f in meths.items():
        if locked(f):
            continue
        if not f["touches"] and not f["recv_calls"]:
            continue
        if f["lock_idx"] >= 0:
            bad.append(f"{name}: takes the lock but not as `Lock(); defer Unlock()` over the whole body: {f}")
            continue
        helpers.add(name)
    for h in sorted(helpers):
        f = meths[h]
        if h[0].isupper():
            bad.append(f"exported method {h} touches offset/usedMap without holding the lock")
        if f["has_go"] or any(c in helpers and c == h for c in f["recv_calls"]):
            bad.append(f"helper {h}: go statement or recursion")
        callers = [g for g in meths.values() if h in g["recv_calls"]]
        if not callers:
            continue
        for g in callers:
            if not locked(g) and g["name"] not in helpers:
                bad.append(f"helper {h} is called from {g['name']} which does not hold the lock")
    for f in funcs:
        if f["recv"] == "FTEIDGenerator":
            continue
        if f["touches"]:
            bad.append(f"{f['file']}:{f['name']} touches offset/usedMap of the generator outside its methods")
        if f["constructs"] and f["name"] != "NewFTEIDGenerator":
            bad.append(f"{f['file']}:{f['name']} constructs an FTEIDGenerator literal")
    return bad


# ----------------------------------------------------------------------------- generators

def gen_gen_cases(rng, tier):
    cases = []
    # bounded-exhaustive around the wrap point: every cursor near the wrap, every subset of the
    # offsets next to it, every op sequence up to length L over a small alphabet
    cursors = [M - 3, M - 2, M - 1, 0, 1]
    window = [M - 2, M - 1, 0]
    alpha = [[0], [1, M], [1, 1], [1, 0], [2, M], [2, 1]]
    L = 3 if tier == "quick" else 4
    for off in cursors:
        for bits in range(1 << len(window)):
            used = [w for i, w in enumerate(window) if bits >> i & 1]
            for n in range(0, L + 1):
                for seq in itertools.product(alpha, repeat=n):
                    cases.append({"kind": "gen", "cls": "exh", "off": off, "used": used, "ops": [list(o) for o in seq]})
    # longer all-alloc / free sequences over a smaller alphabet
    alpha2 = [[0], [1, M], [1, 1], [2, 2]]
    L2 = 5 if tier == "quick" else 6
    for off in (M - 2, M - 1):
        for used in ([], [M - 1], [M - 1, 0], [0, 1]):
            for seq in itertools.product(alpha2, repeat=L2):
                cases.append({"kind": "gen", "cls": "exh5", "off": off, "used": used, "ops": [list(o) for o in seq]})
    # cursor in front of a used run of length 0..5, everywhere interesting
    for off in (M - 4, M - 3, M - 2, M - 1, 0, 7, 1 << 31):
        for r in range(0, 6):
            for skip in (0, 1):
                used = [(off + skip + i) % M for i in range(r)]
                cases.append({"kind": "gen", "cls": "run", "off": off, "used": used,
                              "ops": [[0], [0], [2, (off + 1) % U32], [0], [1, (off + r + 1) % U32], [0]]})
    # random long histories
    n_rand = 500 if tier == "quick" else 6000
    for _ in range(n_rand):
        off = rng.choice([M - 1, M - 2, M - rng.randrange(1, 40), rng.randrange(0, 30), rng.randrange(M), 0])
        width = rng.choice([8, 16, 40])
        win = [(off - 4 + i) % M for i in range(width)]
        used = sorted(set(rng.sample(win, rng.randrange(0, width))))
        ops = []
        for _ in range(rng.randrange(5, 60 if tier == "quick" else 200)):
            x = rng.random()
            if x < 0.5:
                ops.append([0])
            elif x < 0.85:
                y = rng.random()
                if y < 0.7:
                    ident = (rng.choice(win) + 1) % U32
                elif y < 0.8:
                    ident = 0
                elif y < 0.9:
                    ident = M
                else:
                    ident = rng.randrange(U32)
                ops.append([1, ident])
            else:
                ops.append([2, (rng.choice(win) + 1) % U32 if rng.random() < 0.9 else rng.choice([0, M, 1])])
        cases.append({"kind": "gen", "cls": "rand", "off": off, "used": used, "ops": ops})
    # states outside the class (cursor value 2^32-1, key 2^32-1 in the map): correspondence only
    for used in ([], [M], [0], [M, 0]):
        for ops in ([[0], [0], [0]], [[0], [2, 0], [1, 0], [0]], [[2, 0], [1, U32 - 1], [0]]):
            cases.append({"kind": "gen", "cls": "outside", "off": M, "used": used, "ops": ops})
    for used in ([M], [M, M - 1]):
        cases.append({"kind": "gen", "cls": "outside", "off": M - 1, "used": used, "ops": [[0], [0], [2, 0], [1, 0], [0]]})
    return cases


def gen_seid_cases(rng, tier, retries):
    cases = []
    scripts = [
        [[2, 1]] * 4,
        [[2, 1], [2, 1], [1, 1], [2, 1], [2, 0], [2, 1]],
        [[0, 1], [0, 2], [2, 1], [1, 2], [2, 1], [2, 1]],
        [[2, 0], [2, 0], [2, 1], [1, 1], [1, 2], [2, 1], [2, 1]],
    ]
    # bounded-exhaustive: tiny retry budgets, every draw cycle of length <= 4 over {0,1,2}
    for r in (1, 2, 3):
        for n in (1, 2, 3, 4):
            for cyc in itertools.product([0, 1, 2], repeat=n):
                for sc in scripts:
                    cases.append({"kind": "seid", "cls": "exh", "retries": r, "draws": list(cyc), "steps": sc})
    big = [(1 << 64) - 1, 1 << 63, (1 << 32), 1, 2, 3]
    R = retries
    # the retry budget of the source: constant, period-2, period-k, zeros, exactly R-1 / R / R+1 bad draws
    for c in (0, 5, (1 << 64) - 1):
        cases.append({"kind": "seid", "cls": "const", "retries": R, "draws": [c], "steps": [[2, 1], [2, 1], [1, c], [2, 1], [2, 1]]})
    for a, b in ((7, 9), (0, 9), ((1 << 64) - 1, 1)):
        cases.append({"kind": "seid", "cls": "period2", "retries": R, "draws": [a, b],
                      "steps": [[2, 1], [2, 1], [2, 1], [1, b], [2, 1], [0, a], [0, b], [2, 1]]})
    for nbad in (R - 1, R, R + 1, 2 * R - 1, 2 * R, 2 * R + 1):
        for badv in (0, 7):
            cases.append({"kind": "seid", "cls": "edge", "retries": R, "draws": [badv] * max(nbad, 0) + [11],
                          "steps": [[0, 7], [2, 1], [2, 1], [2, 0], [1, 11], [2, 1]]})
    n_rand = 150 if tier == "quick" else 2000
    for _ in range(n_rand):
        uni = rng.sample(big + list(range(4, 12)), rng.randrange(1, 6)) + [0]
        k = rng.randrange(1, 8)
        draws = [rng.choice(uni) for _ in range(k)]
        if rng.random() < 0.3:
            draws = [rng.choice(uni[:2] + [0])] * rng.choice([R - 1, R, R + 1]) + draws
        steps = []
        for _ in range(rng.randrange(2, 14)):
            x = rng.random()
            if x < 0.2:
                steps.append([0, rng.choice(uni)])        # PutSession(0) is refused by the store
            elif x < 0.4:
                steps.append([1, rng.choice(uni)])
            else:
                steps.append([2, 1 if rng.random() < 0.8 else 0])
        cases.append({"kind": "seid", "cls": "rand", "retries": rng.choice([R, R, R, 1, 2, 5]), "draws": draws, "steps": steps})
    return cases


def gen_est_cases(rng, tier, retries):
    cases = []
    n = 260 if tier == "quick" else 3000
    for ci in range(n):
        K = rng.choice([1, 2, 2, 3])
        uni = rng.sample([1, 2, 3, 5, 8, (1 << 64) - 1, 1 << 40], rng.randrange(1, 4))
        conns = []
        for _ in range(K):
            k = rng.randrange(1, 5)
            conns.append([rng.choice(uni + [0]) for _ in range(k)])
        off = rng.choice([M - 1, M - 2, M - 3, M - rng.randrange(1, 12), 0, rng.randrange(M)])
        win = [(off - 2 + i) % M for i in range(12)]
        used = sorted(set(rng.sample(win, rng.randrange(0, 7))))
        evs = []
        for _ in range(rng.randrange(2, 12)):
            k = rng.randrange(K)
            x = rng.random()
            if x < 0.22:
                evs.append({"kind": "del", "k": k, "nth": rng.randrange(4)})
                continue
            if x < 0.30:
                # Session Modification creating a PDR whose PDI has F-TEID(CHOOSE) and/or an explicit F-TEID
                t = rng.choice([0, 0, (off + 1) % U32 or 1, (off + 2) % U32 or 1, (off + 3) % U32 or 1, M, 77])
                evs.append({"kind": "mod", "k": k, "nth": rng.randrange(4), "ch": rng.random() < 0.6, "teid": t,
                            "pdr_id": 100 + len(evs), "expl_first": rng.random() < 0.4})
                continue
            pdrs = []
            ids = rng.sample(range(1, 40), rng.randrange(0, 5))
            for pid in ids:
                x = rng.random()
                if x < 0.6:
                    pdrs.append({"id": pid, "ok": True, "ch": True, "teid": 0, "ip": 0})
                elif x < 0.8:
                    # a CP-provided F-TEID, sometimes equal to an id the generator is about to choose
                    t = rng.choice([77, (off + 1) % U32 or 1, (off + 2) % U32 or 1, M, rng.randrange(1, U32)])
                    pdrs.append({"id": pid, "ok": True, "ch": False, "teid": t, "ip": (10 << 24) + rng.randrange(1, 1 << 16)})
                elif x < 0.9:
                    pdrs.append({"id": pid, "ok": True, "ch": False, "teid": 0, "ip": 0})
                else:
                    pdrs.append({"id": pid, "ok": False, "ch": rng.random() < 0.7, "teid": 0, "ip": 0})
            evs.append({"kind": "est", "k": k, "aok": rng.random() < 0.93, "dok": rng.random() < 0.85, "pdrs": pdrs, "nth": 0})
        cases.append({"kind": "est", "cls": "rand", "access": ACCESS, "retries": retries if rng.random() < 0.8 else rng.choice([1, 2, 3]),
                      "gen_off": off, "gen_used": used, "conns": conns, "events": evs})
    # fixed shapes: constant source (second establishment refused), cross-association equal draws,
    # draw colliding with the k-th live session, release and reuse
    ch = {"id": 1, "ok": True, "ch": True, "teid": 0, "ip": 0}
    ch2 = {"id": 2, "ok": True, "ch": True, "teid": 0, "ip": 0}
    e = lambda k, **kw: dict({"kind": "est", "k": k, "aok": True, "dok": True, "pdrs": [ch, ch2], "nth": 0}, **kw)
    d = lambda k, nth=0: {"kind": "del", "k": k, "nth": nth}
    md = lambda k, nth, chf, t, pid, first=False: {"kind": "mod", "k": k, "nth": nth, "ch": chf, "teid": t, "pdr_id": pid, "expl_first": first}
    plain = {"id": 7, "ok": True, "ch": False, "teid": 500, "ip": (10 << 24) + 1}
    for off in (M - 1, M - 2, M - 3, 0):
        cases.append({"kind": "est", "cls": "fixed", "access": ACCESS, "retries": retries, "gen_off": off, "gen_used": [0],
                      "conns": [[5], [5], [0, 5, 6]],
                      "events": [e(0), e(1), e(0), e(2), e(2), e(2), d(0), e(0), e(1, dok=False), e(1), d(2, 1), e(2), e(2)]})
        cases.append({"kind": "est", "cls": "fixed", "access": ACCESS, "retries": retries, "gen_off": off, "gen_used": [M - 1, 1],
                      "conns": [[1, 2, 3, 1, 1, 2, 3, 4]],
                      "events": [e(0), e(0), e(0), e(0), d(0, 2), e(0), e(0, pdrs=[ch, {"id": 9, "ok": False, "ch": True, "teid": 0, "ip": 0}]), e(0)]})
    # modification shapes: CHOOSE alone, explicit TEID alone, both (the second session then claims
    # the first session's TEID and releases it when deleted), a session claiming its own TEID
    for off in (M - 1, 5):
        t1 = (off + 1) % U32
        cases.append({"kind": "est", "cls": "mod", "access": ACCESS, "retries": retries, "gen_off": off, "gen_used": [],
                      "conns": [[11, 22, 33]],
                      "events": [e(0), e(0, pdrs=[plain]), md(0, 1, True, 0, 101), md(0, 1, False, t1, 102), d(0, 1), e(0, pdrs=[ch])]})
        cases.append({"kind": "est", "cls": "mod", "access": ACCESS, "retries": retries, "gen_off": off, "gen_used": [],
                      "conns": [[11, 22, 33]],
                      "events": [e(0), md(0, 0, True, t1, 101), e(0, pdrs=[plain]), d(0, 0), e(0, pdrs=[ch])]})
        cases.append({"kind": "est", "cls": "mod-claim", "access": ACCESS, "retries": retries, "gen_off": off, "gen_used": [],
                      "conns": [[11, 22, 33], [11]],
                      "events": [e(0), e(1, pdrs=[plain]), md(1, 0, True, t1, 101), d(1, 0), e(1, pdrs=[ch])]})
        cases.append({"kind": "est", "cls": "mod-claim", "access": ACCESS, "retries": retries, "gen_off": off, "gen_used": [],
                      "conns": [[11, 22, 33]],
                      "events": [e(0), e(0, pdrs=[plain]), md(0, 1, True, (off + 2) % U32 or 1, 101, True), d(0, 1), e(0, pdrs=[ch])]})
    return cases


# ----------------------------------------------------------------------------- monitors
# The property's sentences evaluated on what the implementation did, independent of the Coq model.

def in_class(c):
    return c["off"] < M and all(u < M for u in c["used"]) and len(set(c["used"])) == len(c["used"])


def monitor_gen(c, o):
    if "panic" in o:
        return ("gen:panic", "FTEIDGenerator panicked: " + o["panic"])
    if not in_class(c):
        return None
    held = set(u + 1 for u in c["used"])
    for op, r in zip(c["ops"], o["res"]):
        if op[0] == 0:
            if r < 0:
                if len(held) < M:
                    return ("gen:refused-while-free", f"Allocate refused with {M - len(held)} ids free")
            else:
                if r == 0:
                    return ("gen:zero-id", "Allocate returned TEID 0")
                if not (1 <= r <= M):
                    return ("gen:out-of-range", f"Allocate returned {r}")
                if r in held:
                    return ("gen:duplicate", f"Allocate returned {r}, which is held and not released")
                held.add(r)
        elif op[0] == 1:
            held.discard(op[1])
        else:
            if bool(r) != (op[1] in held):
                return ("gen:is-allocated-wrong", f"IsAllocated({op[1]}) = {bool(r)} but held = {op[1] in held}")
    if set(u + 1 for u in o["used"]) != held:
        return ("gen:used-differs-from-held", "the used set differs from the ids handed out and not released: "
                f"used+1 minus held = {sorted(set(u + 1 for u in o['used']) - held)[:4]}, held minus used+1 = {sorted(held - set(u + 1 for u in o['used']))[:4]}")
    if o["off"] >= M:
        return ("gen:cursor-out-of-range", f"cursor {o['off']} after the history")
    return None


def draws_at(draws, i, n):
    return [draws[(i + k) % len(draws)] if draws else 0 for k in range(n)]


def monitor_seid(c, o):
    if "panic" in o:
        return ("seid:panic", "NewPFCPSession panicked: " + o["panic"])
    store = set()
    drawn = 0
    news = iter(o["news"])
    for st in c["steps"]:
        if st[0] == 0:
            if st[1] != 0:
                store.add(st[1])
        elif st[0] == 1:
            store.discard(st[1])
        else:
            n = next(news)
            first = draws_at(c["draws"], drawn, c["retries"])
            all_bad = all(d == 0 or d in store for d in first)
            used = n["drawn"] - drawn
            if used > c["retries"]:
                return ("seid:too-many-draws", f"{used} draws for one session, maxRetries = {c['retries']}")
            if n["ok"]:
                if n["lseid"] == 0:
                    return ("seid:zero", "NewPFCPSession chose local SEID 0")
                if n["lseid"] in store:
                    return ("seid:duplicate", f"NewPFCPSession chose {n['lseid']}, the SEID of a stored session")
                if n["rseid"] != 4242:
                    return ("seid:remote-seid", "remote SEID not recorded")
                if st[1] == 1:
                    if n.get("put_fail"):
                        return ("seid:not-storable", "the store refused the new session")
                    store.add(n["lseid"])
            else:
                if not all_bad:
                    return ("seid:refused-unjustified", f"refused although draw {[d == 0 or d in store for d in first].index(False)} of the first {c['retries']} was usable")
            drawn = n["drawn"]
    if set(o["store"]) != store:
        return ("seid:store-differs", "store keys differ from the sessions put and not deleted")
    return None


def monitor_est(c, o):
    if any(s != CAUSE_ACCEPTED for s in o["setup"]):
        return ("est:setup", f"association setup not accepted: {o['setup']}")
    K = len(c["conns"])
    live_seids = [dict() for _ in range(K)]     # seid -> list of chosen TEIDs
    live_teids = set(u + 1 for u in c["gen_used"])
    drawn = [0] * K
    claims = [dict() for _ in range(K)]         # seid -> TEIDs named by CHOOSE+explicit-TEID modifications
    released_claims = set()
    for e, ob in zip(c["events"], o["events"]):
        k = e["k"]
        if ob.get("panic"):
            return ("est:panic", f"{e['kind']} panicked: {ob['panic']}")
        if ob["replies"] != 1:
            return ("est:replies", f"{ob['replies']} datagrams written for one request")
        if e["kind"] == "del":
            if ob["seid"] in live_seids[k]:
                if ob["cause"] != CAUSE_ACCEPTED:
                    return ("est:del-refused", "deletion of a live session refused")
                for t in live_seids[k].pop(ob["seid"]):
                    live_teids.discard(t)
                released_claims |= set(claims[k].pop(ob["seid"], []))
            elif ob["cause"] == CAUSE_ACCEPTED:
                return ("est:del-unknown-accepted", "deletion of an unknown session accepted")
        elif e["kind"] == "mod":
            # nothing is demanded of the modification itself; remember what the session now claims
            if ob["seid"] in live_seids[k] and ob["mod_stored"] and ob["mod_ch"] and ob["mod_teid"] != 0:
                claims[k].setdefault(ob["seid"], []).append(ob["mod_teid"])
        else:
            first = draws_at(c["conns"][k], drawn[k], c["retries"])
            all_bad = all(d == 0 or d in live_seids[k] for d in first)
            if ob["drawn"] - drawn[k] > c["retries"]:
                return ("est:too-many-draws", f"{ob['drawn'] - drawn[k]} draws for one establishment")
            adds = [x for x in ob["calls"] if x["method"] == "add"]
            if len(ob["calls"]) != len(adds) or len(adds) > 1:
                return ("est:datapath-calls", f"datapath calls {[x['method'] for x in ob['calls']]} for one establishment")
            if ob["cause"] == CAUSE_ACCEPTED:
                if not ob["has_fseid"]:
                    return ("est:no-up-fseid", "accepted without UP F-SEID")
                l = ob["up_fseid"]
                if l == 0:
                    return ("est:seid-zero", "accepted session with UP F-SEID 0")
                if l in live_seids[k]:
                    return ("est:seid-duplicate", f"UP F-SEID {l} is that of another live session of the association")
                if not e["aok"]:
                    return ("est:no-association", "accepted for a Node ID that is not associated")
                if len(adds) != 1:
                    return ("est:not-programmed", "accepted but nothing was handed to the datapath")
                prog = adds[0]["new"]
                for p in prog + adds[0]["all"]:
                    if p["fseid"] != l:
                        return ("est:fseid-differs", f"PDR {p['id']} programmed with F-SEID {p['fseid']}, response says {l}")
                want = [p["id"] for p in e["pdrs"] if p["ch"]]
                got = [x["id"] for x in ob["created"]]
                if got != want or ob["other_created"]:
                    return ("est:created-pdrs", f"Created PDRs {got} for CHOOSE PDRs {want}")
                seen = set()
                byid = {p["id"]: p for p in prog}
                if len(byid) != len(prog) or sorted(byid) != sorted(p["id"] for p in e["pdrs"]):
                    return ("est:programmed-pdrs", f"programmed PDR ids {[p['id'] for p in prog]} for request {[p['id'] for p in e['pdrs']]}")
                for x in ob["created"]:
                    t = x["teid"]
                    if t == 0:
                        return ("est:teid-zero", f"PDR {x['id']}: chosen TEID 0")
                    if t in live_teids or t in seen:
                        if t in released_claims and t not in seen:
                            return ("est:mod-choose-with-explicit-teid:foreign-teid-released",
                                    f"PDR {x['id']}: TEID {t} belongs to a live session; it was released by the deletion of a session that named it in a modification")
                        return ("est:teid-duplicate", f"PDR {x['id']}: TEID {t} is chosen and not released")
                    seen.add(t)
                    p = byid[x["id"]]
                    if p["teid"] != t:
                        return ("est:teid-differs", f"PDR {x['id']}: response says TEID {t}, datapath got {p['teid']}")
                    if p["ip"] != x["ip"]:
                        return ("est:teid-ip-differs", f"PDR {x['id']}: response says address {x['ip']}, datapath got {p['ip']}")
                    if x["ip"] != c["access"]:
                        return ("est:teid-ip-not-access", f"PDR {x['id']}: F-TEID address {x['ip']} is not the access address")
                    if p["teid_mask"] != 0xFFFFFFFF or p["ip_mask"] != 0xFFFFFFFF:
                        return ("est:teid-mask", f"PDR {x['id']}: tunnel match masks {p['teid_mask']:#x}/{p['ip_mask']:#x}")
                if ob["stored"] != adds[0]["all"] or adds[0]["all"] != prog:
                    return ("est:stored-differs", "the session stored differs from the rules handed to the datapath")
                live_seids[k][l] = sorted(seen)
                live_teids |= seen
            else:
                if ob["has_fseid"] or ob["created"]:
                    return ("est:refusal-carries-ids", "refusal with UP F-SEID or Created PDR")
                if ob["cause"] == CAUSE_NO_RES:
                    if not all_bad:
                        return ("est:refused-unjustified", f"answered 'no resources' although a usable draw was among the first {c['retries']}")
                    if ob["calls"]:
                        return ("est:refused-but-programmed", "SEID refusal after a datapath write")
                elif ob["cause"] == CAUSE_NO_ASSOC:
                    if e["aok"]:
                        return ("est:assoc-refused", "refused as not associated")
                elif ob["cause"] != CAUSE_REJECTED:
                    return ("est:cause", f"cause {ob['cause']}")
            drawn[k] = ob["drawn"]
        if set(ob["store"]) != set(live_seids[k]):
            return ("est:store-differs", f"association {k}: stored SEIDs {ob['store']} vs live {sorted(live_seids[k])}")
        marked = set(u + 1 for u in ob["gen_used"])
        chosen_live = set(t for ls in live_seids for ts in ls.values() for t in ts)
        if not chosen_live <= marked:
            lost = chosen_live - marked
            if lost <= released_claims:
                return ("est:mod-choose-with-explicit-teid:foreign-teid-released",
                        f"TEIDs {sorted(lost)[:4]} of live sessions were released by the deletion of another session that had named them "
                        "in a modification (PDI with CHOOSE F-TEID and explicit F-TEID)")
            return ("est:live-teid-not-marked", f"TEIDs {sorted(lost)[:4]} of live sessions are not marked used")
        if ob["gen_off"] >= M:
            return ("est:cursor-out-of-range", f"cursor {ob['gen_off']}")
    return None


# ----------------------------------------------------------------------------- Gallina printers

def g_nat(n):
    return f"{int(n)}%nat"


def coq_gen(c, o):
    ops, res = [], []
    for op, r in zip(c["ops"], o["res"]):
        if op[0] == 0:
            ops.append("OAlloc")
            res.append("RErr" if r < 0 else f"ROk {r}")
        elif op[0] == 1:
            ops.append(f"OFree {op[1]}")
            res.append("RNone")
        else:
            ops.append(f"OIsAlloc {op[1]}")
            res.append(f"RBool {gbool(r)}")
    return (f"CGen {c['off']} {glist(map(str, c['used']))} {glist(ops)} {glist(res)} "
            f"{o['off']} {glist(map(str, o['used']))}")


def coq_seid(c, o):
    steps = []
    news = iter(o["news"])
    for st in c["steps"]:
        if st[0] == 0:
            # PutSession(0) is refused by the store: not a step of the model
            if st[1] != 0:
                steps.append(f"SPut {st[1]}")
        elif st[0] == 1:
            steps.append(f"SDel {st[1]}")
        else:
            n = next(news)
            steps.append(f"SNew {gbool(st[1] == 1)} {gbool(n['ok'])} {n['lseid']} {g_nat(n['drawn'])}")
    return f"CSeid {g_nat(c['retries'])} {glist(map(str, c['draws']))} {glist(steps)}"


def coq_dpdr(p):
    return f"DPdr {p['fseid']} {p['id']} {p['teid']} {p['ip']} {gbool(p['choose'])}"


def coq_est(c, o):
    es = []
    for e, ob in zip(c["events"], o["events"]):
        if e["kind"] == "est":
            ps = glist([f"CPdr {p['id']} {gbool(p['ok'])} {gbool(p['ch'])} {p['teid']} {p['ip']}" for p in e["pdrs"]])
            ev = f"EvEst {g_nat(e['k'])} {gbool(e['aok'])} {gbool(e['dok'])} {ps}"
        elif e["kind"] == "mod":
            ev = f"EvMod {g_nat(e['k'])} {ob['seid']} {gbool(ob['mod_stored'] and ob['mod_ch'])} {ob['mod_teid']}"
        else:
            ev = f"EvDel {g_nat(e['k'])} {ob['seid']}"
        batch = "None"
        if len(ob["calls"]) == 1 and ob["calls"][0]["method"] == "add":
            batch = "(Some " + glist([coq_dpdr(p) for p in ob["calls"][0]["new"]]) + ")"
        created = glist([f"({x['id']}, {x['teid']}, {x['ip']})" for x in ob["created"]])
        obs = (f"EObs {max(ob['cause'], 0)} {gopt(ob['up_fseid'] if ob['has_fseid'] else None)} {created} {batch} "
               f"{g_nat(ob['drawn'])} {ob['gen_off']} {glist(map(str, ob['gen_used']))} {glist(map(str, ob['store']))}")
        es.append(f"({ev}, {obs})")
    conns = glist([glist(map(str, d)) for d in c["conns"]])
    return (f"CEst {g_nat(c['retries'])} {c['access']} {conns} {c['gen_off']} {glist(map(str, c['gen_used']))} "
            + glist(es))


MODE = {"gen": "c07", "seid": "c07_seid", "est": "c07_est"}
MON = {"gen": monitor_gen, "seid": monitor_seid, "est": monitor_est}
COQ = {"gen": coq_gen, "seid": coq_seid, "est": coq_est}


def harness_input(c):
    if c["kind"] == "gen":
        return {"off": c["off"], "used": c["used"], "ops": c["ops"]}
    if c["kind"] == "seid":
        return {"retries": c["retries"], "draws": c["draws"], "steps": c["steps"]}
    return {"access": c["access"], "retries": c["retries"], "gen_off": c["gen_off"], "gen_used": c["gen_used"],
            "conns": c["conns"], "events": c["events"]}


def nontrivial(c, o):
    if c["kind"] == "gen":
        return sum(1 for op, r in zip(c["ops"], o.get("res", [])) if op[0] == 0 and r > 0) >= 1 and len(c["ops"]) >= 2
    if c["kind"] == "seid":
        return any(n["ok"] for n in o.get("news", [])) or any(not n["ok"] for n in o.get("news", []))
    return any(ob["cause"] == CAUSE_ACCEPTED and ob["created"] for ob in o.get("events", []))


def branch(c, o):
    """which model branches a case exercised (evidence)"""
    out = set()
    if c["kind"] == "gen":
        ids = [r for op, r in zip(c["ops"], o.get("res", [])) if op[0] == 0 and r > 0]
        if any(b < a for a, b in zip(ids, ids[1:])) or (ids and ids[0] - 1 < c["off"] and c["off"] < M):
            out.add("gen:wrapped")
        if ids and c["off"] < M and ids[0] - 1 != c["off"]:
            out.add("gen:skipped-used")
        if any(op[0] == 1 for op in c["ops"]):
            out.add("gen:free")
    elif c["kind"] == "seid":
        for n in o.get("news", []):
            out.add("seid:ok" if n["ok"] else "seid:refused")
    else:
        for e, ob in zip(c["events"], o.get("events", [])):
            if e["kind"] == "est":
                out.add({CAUSE_ACCEPTED: "est:accepted", CAUSE_NO_RES: "est:no-seid", CAUSE_NO_ASSOC: "est:no-assoc",
                         CAUSE_REJECTED: "est:rejected-dp" if ob["calls"] else "est:rejected-parse"}.get(ob["cause"], "est:other"))
            elif e["kind"] == "mod":
                out.add("est:mod-claims" if ob["mod_stored"] and ob["mod_ch"] and ob["mod_teid"] else
                        ("est:mod-ok" if ob["cause"] == CAUSE_ACCEPTED else "est:mod-refused"))
            else:
                out.add("est:del-ok" if ob["cause"] == CAUSE_ACCEPTED else "est:del-unknown")
    return out


def run(tier, seed, replay=None):
    ck = Check("C07", tier, seed)
    ck.trusted = COMMON_TRUSTED + [
        "harness/go/verif_c07_test.go: sets FTEIDGenerator.offset/usedMap directly, scripted rand.Source64, PFCPConn literal with fake net.Conn, "
        "recording fake of the datapath interface (observes the pdr structs handed to SendMsgToUPF, not the BESS/P4 encoding), no-op metrics",
        "go/parser + go/ast walker inside the harness (lock skeleton of fteid.go, maxRetries literal of NewPFCPConn)",
        "go-pfcp encodes the requests and decodes the responses on both sides of the comparison"]
    ck.assumptions = [
        "the Go map usedMap is modelled as a duplicate-free list of offsets; the cursor is < 2^32-1 (true of every state NewFTEIDGenerator/updateOffset can produce)",
        "atomicity of Allocate/FreeID/IsAllocated (mutex held over the whole body) is established syntactically on the source and by the race detector, not by a proof about the Go memory model",
        "the random source is an arbitrary stream of draws; PDR parsing is abstracted to ok / fails; Session Modification is outside the establishment model",
        "TEID exhaustion (2^32-1 ids held) is covered by the theorems only: it cannot be produced on the implementation"]
    ck.rule = ("gen: all op sequences <= L over {Allocate, FreeID x3, IsAllocated x2} from every cursor in {2^32-4..2^32-2, 0, 1} x every subset of the "
               "offsets {2^32-3, 2^32-2, 0} (L=3 quick, 4 thorough), all sequences of length 5 (6) over a 4-letter alphabet at the wrap, used runs of "
               "length 0..5 in front of the cursor, random histories; seid: every draw cycle of length <= 4 over {0,1,2} with retry budgets 1..3 x 4 "
               "scripts, constant / period-2 / R-1, R, R+1 bad draws with the source's maxRetries, random scripts; est: random and fixed establishment / "
               "deletion histories over 1..3 associations sharing one generator started near the wrap. non-trivial = at least one id was chosen "
               "(gen, est) or one NewPFCPSession ran (seid); distinct = distinct input")
    ck.prove(TARGETS)
    rng = rng_for(seed, "C07")
    try:
        binary = build_harness()
        sk = run_harness(binary, "c07_skel", [{"dir": "."}], tag="c07_skel")[0]
    except HarnessError as e:
        ck.tie("harness builds and runs against the current tree", False, str(e)[-1500:])
        return ck.finish()
    ck.tie("harness builds and runs against the current tree", True)
    problems = skeleton_tie(sk)
    ck.tie("source skeleton: Allocate/FreeID/IsAllocated hold FTEIDGenerator.lock over the whole body; nothing else touches offset/usedMap",
           not problems, "; ".join(problems)[:1500])
    retries = sk.get("max_retries", -1)
    ck.tie("maxRetries literal of NewPFCPConn is readable (the SEID theorems hold for every retry budget; C07_seid_uses_at_most_100_draws is about 100)",
           isinstance(retries, int) and retries >= 0, f"max_retries = {retries}")
    if not isinstance(retries, int) or retries < 0:
        retries = 100
    ck.notes["max_retries_in_source"] = retries
    if replay is not None:
        cases = [json.load(open(replay))["case"]["input"]]
        cases = [c for c in cases if isinstance(c, dict) and c.get("kind") in MODE]
    else:
        cases = gen_gen_cases(rng, tier) + gen_seid_cases(rng, tier, retries) + gen_est_cases(rng, tier, retries)
    obs = [None] * len(cases)
    try:
        for kind, mode in MODE.items():
            idx = [i for i, c in enumerate(cases) if c["kind"] == kind]
            if not idx:
                continue
            out = run_harness(binary, mode, [harness_input(cases[i]) for i in idx], tag=mode)
            for i, ob in zip(idx, out):
                obs[i] = ob
    except HarnessError as e:
        ck.tie("harness runs all cases", False, str(e)[-1500:])
        return ck.finish()
    dist, branches = {}, {}
    for c, o in zip(cases, obs):
        ck.count(harness_input(c), nontrivial(c, o))
        key = f"{c['kind']}/{c['cls']}"
        dist[key] = dist.get(key, 0) + 1
        for b in branch(c, o):
            branches[b] = branches.get(b, 0) + 1
        if "harness_error" in o:
            ck.tie("harness runs all cases", False, o["harness_error"])
            continue
        m = MON[c["kind"]](c, o)
        if m:
            ck.fail(m[0], m[1], {"input": c, "impl": o})
    ck.distribution = dist
    ck.notes["model_branches_hit"] = branches
    ck.samples = [{"input": c, "impl": o} for c, o in list(zip(cases, obs))[-2:]]
    name = "correspondence: model = implementation (results, cursor, used set, draws consumed, store, response, datapath batch)"
    try:
        kept = [(c, o) for c, o in zip(cases, obs) if "panic" not in o and "harness_error" not in o
                and not any(ob.get("panic") for ob in o.get("events", []))]
        rep = coq_eval_shards("C07", HEADER, [COQ[c["kind"]](c, o) for c, o in kept], shard=500, expr="report cases")
        mism = [i for i in rep if i < SPEC_FLAG]
        spec = [i - SPEC_FLAG for i in rep if i >= SPEC_FLAG]
        for i in mism[:20]:
            ck.mismatch(f"model and implementation disagree on {json.dumps(kept[i][0])[:600]}", {"input": kept[i][0], "impl": kept[i][1]})
        ck.tie(name, not mism, f"{len(mism)} mismatching cases" if mism else "")
        # the Coq-defined monitor (hist_ok / est_spec / seid spec) on the implementation's observations
        already = set(json.dumps(f[2]["input"], sort_keys=True) for f in ck.failures if isinstance(f[2], dict) and "input" in f[2])
        for i in spec:
            c, o = kept[i]
            if json.dumps(c, sort_keys=True) not in already:
                ck.fail(f"{c['kind']}:coq-monitor", "the Coq-defined monitor of the property fails on the implementation's observation",
                        {"input": c, "impl": o})
        ck.notes["coq_monitor_failures"] = len(spec)
    except RuntimeError as e:
        ck.tie(name, False, str(e)[-800:])
    # concurrent stress under the race detector (search support, not proof)
    conc_in = None
    if replay is None:
        runs = 6 if tier == "quick" else 40
        conc_in = []
        for i in range(runs):
            off = rng.choice([M - 50, M - 500, M - 1, 0])
            conc_in.append({"G": 16, "Iters": 300 if tier == "quick" else 3000, "Seed": rng.randrange(1 << 30), "Off": off,
                            "Used": sorted(set((off + rng.randrange(0, 200)) % M for _ in range(rng.randrange(0, 60))))})
    else:
        rc_in = json.load(open(replay))["case"].get("input")
        if isinstance(rc_in, dict) and "G" in rc_in:
            conc_in = [rc_in]
        elif isinstance(rc_in, list):
            conc_in = rc_in
    if conc_in:
        try:
            rb = build_harness(race=True)
            rc, txt, cobs = run_conc(rb, conc_in)
            ck.notes["concurrent_stress"] = {"runs": len(conc_in), "goroutines": 16, "allocs": sum(o.get("allocs", 0) for o in cobs)}
            for ci, o in zip(conc_in, cobs):
                ck.evaluations += 1
                if "panic" in o:
                    ck.fail("conc:panic", "panic under concurrency: " + o["panic"], {"input": ci})
                elif o.get("violations"):
                    ck.fail("conc:" + o["violations"][0], "concurrent stress: " + "; ".join(o["violations"]), {"input": ci, "impl": o})
            if "DATA RACE" in txt or "fatal error: concurrent map" in txt:
                i = txt.find("DATA RACE") if "DATA RACE" in txt else txt.find("fatal error: concurrent map")
                ck.fail("conc:data-race", "race detector / runtime report in the FTEIDGenerator stress (16 goroutines)",
                        {"input": conc_in, "log": txt[max(0, i - 100):i + 2500]})
            elif rc != 0 or len(cobs) != len(conc_in):
                ck.tie("race-enabled harness runs the stress to completion", False, txt[-1500:])
        except HarnessError as e:
            ck.tie("race-enabled harness builds", False, str(e)[-1500:])
    # agent level (real handlers + real bess plug-in, L1 harness): along random histories with UP-chosen TEIDs - incl.
    # modifications that remove a PDR which is not the last one of its session - the TEIDs in use are exactly those of
    # the live CHOOSE PDRs, all non-zero and pairwise distinct, and each Created PDR reports the TEID that is stored
    if replay is None:
        try:
            import l1
            from props.l1common import run_l1
            lcases = []
            for k in range(120 if tier == "quick" else 1500):
                sub = random.Random(rng.getrandbits(64))
                case, intents, views = l1.random_history(sub, cfg=l1.default_cfg(), length=sub.choice([10, 18, 30]), restarts=False)
                lcases.append((case, intents))
            lobs = run_l1(build_harness(), [c[0] for c in lcases], workers=8, tag="c07l1")
            for (case, intents), ob in zip(lcases, lobs):
                ck.evaluations += 1
                bad = None
                for i, o in enumerate(ob):
                    if "panic" in o or o.get("blocked") or "pools" not in o:
                        break
                    own = [(s_["lseid"], p_["id"], p_["teid"]) for s_ in o["store"] for p_ in s_["pdrs"] if p_["choose"]]
                    teids = [t for _, _, t in own]
                    if 0 in teids:
                        bad = ("agent:chosen-teid-zero", f"event {i}: a UP-chosen TEID is 0: {own}", i)
                    elif len(set(teids)) != len(teids):
                        bad = ("agent:teid-held-twice", f"event {i}: two live PDRs hold the same UP-chosen TEID: {own}", i)
                    elif sorted(o["pools"]["teids"]) != sorted(teids):
                        bad = ("agent:teids-in-use-differ", f"event {i} ({intents[i].get('op')}/{intents[i].get('kind', '')}): generator holds {sorted(o['pools']['teids'])}, "
                               f"live CHOOSE PDRs hold {sorted(teids)}", i)
                    if bad:
                        break
                if bad:
                    ck.fail(bad[0], bad[1], {"input": case, "event": bad[2]})
            ck.notes["agent_level_histories"] = len(lcases)
        except HarnessError as e:
            ck.tie("agent-level histories run", False, str(e)[-800:])
    return ck.finish()


def run_conc(binary, inputs, timeout=1200):
    """like lib.run_harness, but keeps the whole output: a race report or a runtime abort
    (`fatal error: concurrent map writes`) is the observation"""
    os.makedirs(os.path.join(BUILD, "io"), exist_ok=True)
    fin = os.path.join(BUILD, "io", "c07_conc.in.jsonl")
    fout = os.path.join(BUILD, "io", "c07_conc.out.jsonl")
    with open(fin, "w") as f:
        for c in inputs:
            f.write(json.dumps(c, separators=(",", ":")) + "\n")
    if os.path.exists(fout):
        os.remove(fout)
    env = go_env()
    env.update({"VERIF_MODE": "c07_conc", "VERIF_IN": fin, "VERIF_OUT": fout})
    rc, txt = sh([binary, "-test.run", "^TestVerifHarness$", "-test.count=1", "-test.timeout", f"{timeout}s"],
                 cwd=os.path.join(REPO, "pfcpiface"), env=env, timeout=timeout + 30)
    obs = []
    if os.path.exists(fout):
        for line in open(fout):
            if line.strip():
                obs.append(json.loads(line))
    return rc, txt, obs
