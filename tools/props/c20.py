"""C20 - BESS route modules mirror the kernel's routes and neighbours (conf/route_control.py)."""
import itertools
import re
from lib import *

TARGETS = ["Props/C20.vo", "Run/Eval_C20.vo"]
HEADER = ("From Coq Require Import NArith ZArith List.\nFrom UPF Require Import Model.RouteCtl Run.Eval_C20.\n"
          "Import ListNotations.\nOpen Scope N_scope.\n")
HARNESS_PY = os.path.join(VERIF, "harness", "py", "c20_harness.py")

# --------------------------------------------------------------------------- universes
# events in id form: ["NR",p,nh,i] ["DR",p,nh,i] ["NN",nh,m[,i]] ["NF",nh[,i]] ["DN",nh[,i]] ["X",k]   (indices into the
# universe's lists; NF = RTM_NEWNEIGH without NDA_LLADDR (ARP timeout), DN = RTM_DELNEIGH, i = interface of the neighbour)
PFX = [("0.0.0.0", 0), ("192.168.1.0", 24), ("192.168.1.0", 25), ("10.10.0.0", 16)]
NHS = ["10.0.0.1", "10.0.1.1", "10.0.0.9", "10.9.9.9"]      # the last one is never a gateway: nobody waits for it
MACS = ["02:00:00:00:00:01", "02:00:00:00:00:02", "00:1a:2b:3c:4d:5e", "02:00:00:00:09:09"]
IFS = [(2, "access", True), (3, "core", True), (7, "mgmt0", False)]

UNIVERSES = {
    "u1": {"ifs": [0], "np": 2, "nn": 2},          # one managed interface
    "u2": {"ifs": [0, 1], "np": 2, "nn": 2},       # two managed interfaces, next hops free
    "ur": {"ifs": [0, 1, 2], "np": 4, "nn": 3},    # random: + unmanaged interface, more prefixes, a third next hop
}


def mac_int(m):
    return int(m.replace(":", ""), 16)


def alphabet(u, failed=True):
    """NEWROUTE / DELROUTE over the universe, a resolving NEWNEIGH per next hop and (failed=True) the address-less
    NEWNEIGH of an ARP timeout per next hop."""
    U = UNIVERSES[u]
    ev = []
    for k in ("NR", "DR"):
        for p in range(U["np"]):
            for n in range(U["nn"]):
                for i in U["ifs"]:
                    ev.append([k, p, n, i])
    for n in range(U["nn"]):
        ev.append(["NN", n, n])
    if failed:
        for n in range(U["nn"]):
            ev.append(["NF", n])
    return ev


# kernel view kept by the test --------------------------------------------------------------
class Kernel(object):
    """What the kernel holds after a history, and whether each event is one the kernel can emit:
    an addition only for a prefix it does not have, a deletion only of a route it has, a neighbour's
    MAC never changes.  Routes on unmanaged interfaces and noise are outside the controller's job."""

    def __init__(self):
        self.routes = {}     # prefix id -> (nh, iface)
        self.neigh = {}      # nh -> mac index

    def admissible(self, ev):
        k = ev[0]
        if k == "NR":
            return (not IFS[ev[3]][2]) or ev[1] not in self.routes
        if k == "DR":
            return (not IFS[ev[3]][2]) or self.routes.get(ev[1]) == (ev[2], ev[3])
        if k == "NN":
            return self.neigh.get(ev[1], ev[2]) == ev[2]
        if k in ("NF", "DN"):
            # INCOMPLETE / FAILED notifications and deletions concern neighbours the kernel has no address for;
            # losing a resolved neighbour is outside "neighbour resolutions"
            return ev[1] not in self.neigh
        return True

    def apply(self, ev):
        k = ev[0]
        if k == "NR" and IFS[ev[3]][2]:
            self.routes[ev[1]] = (ev[2], ev[3])
        elif k == "DR" and IFS[ev[3]][2]:
            if self.routes.get(ev[1]) == (ev[2], ev[3]):
                del self.routes[ev[1]]
        elif k == "NN":
            self.neigh[ev[1]] = ev[2]
        elif k in ("NF", "DN"):
            self.neigh.pop(ev[1], None)


def canonical(h):
    """Representative of a history up to renaming of prefixes, next hops (with their MACs) and
    interfaces of the small universes: each kind is numbered in order of first mention."""
    mp, mn, mi = {}, {}, {}
    for e in h:
        if e[0] in ("NR", "DR"):
            mp.setdefault(e[1], len(mp))
            mn.setdefault(e[2], len(mn))
            mi.setdefault(e[3], len(mi))
        else:
            mn.setdefault(e[1], len(mn))
    return all(k == v for m in (mp, mn, mi) for k, v in m.items())


def admissible_histories(u, depth):
    """All kernel-admissible event sequences of exactly `depth` events (pruned DFS), one per
    symmetry class (the unreduced 'all' classes cover every concrete naming at smaller depth)."""
    alpha = alphabet(u, failed=False)
    out = []

    def rec(k, hist):
        if len(hist) == depth:
            out.append([list(e) for e in hist])
            return
        for ev in alpha:
            if not k.admissible(ev):
                continue
            if not canonical(hist + [ev]):
                continue
            k2 = Kernel()
            k2.routes = dict(k.routes)
            k2.neigh = dict(k.neigh)
            k2.apply(ev)
            hist.append(ev)
            rec(k2, hist)
            hist.pop()
    rec(Kernel(), [])
    return out


def random_history(rng, n):
    """Mostly admissible long histories over the big universe; some inadmissible events, noise,
    unmanaged interface, a third next hop that shares the first one's MAC, a MAC change."""
    U = UNIVERSES["ur"]
    k = Kernel()
    h = []
    style = rng.random()
    # bind each next hop to an interface in most histories
    bind = {nh: rng.choice([0, 1]) for nh in range(U["nn"])} if style < 0.8 else None
    p_wild = rng.choice([0.0, 0.0, 0.05, 0.2])
    for _ in range(n):
        x = rng.random()
        if x < p_wild:
            kind = rng.choice(["NR", "DR", "NN", "X", "NF", "DN"])
            if kind in ("NR", "DR"):
                ev = [kind, rng.randrange(U["np"]), rng.randrange(U["nn"]), rng.choice(U["ifs"])]
            elif kind == "NN":
                ev = ["NN", rng.randrange(U["nn"]), rng.randrange(len(MACS))]
            elif kind in ("NF", "DN"):
                ev = [kind, rng.randrange(len(NHS))]
            else:
                ev = ["X", rng.randrange(5)]
        else:
            opts = []
            free = [p for p in range(U["np"]) if p not in k.routes]
            for p in free:
                opts.append(("add", p))
            for p in k.routes:
                opts.append(("del", p))
            for nh in range(U["nn"]):
                opts.append(("nn", nh))
            opts.append(("x", 0))
            opts.append(("unmanaged", 0))
            for nh in range(len(NHS)):
                if nh not in k.neigh:
                    opts.append(("nf", nh))       # ARP timeout of an unresolved neighbour (possibly with routes waiting)
                    opts.append(("dn", nh))
            opts.append(("nn", 3))                # a neighbour nobody waits for
            w = []
            for o in opts:
                w.append({"add": 3.0, "del": 2.0, "nn": 0.7, "x": 0.4, "unmanaged": 0.4, "nf": 0.7, "dn": 0.3}[o[0]])
            o = rng.choices(opts, w)[0]
            if o[0] == "add":
                nh = rng.randrange(U["nn"])
                i = bind[nh] if bind else rng.choice([0, 1])
                ev = ["NR", o[1], nh, i]
            elif o[0] == "del":
                nh, i = k.routes[o[1]]
                ev = ["DR", o[1], nh, i]
            elif o[0] == "nn":
                nh = o[1]
                ev = ["NN", nh, k.neigh.get(nh, 0 if nh == 2 and rng.random() < 0.7 else nh)]
                if rng.random() < 0.3:
                    ev.append(rng.choice([0, 1, 2]))     # seen on this interface (2 = not managed); the handler ignores it
            elif o[0] in ("nf", "dn"):
                ev = ["NF" if o[0] == "nf" else "DN", o[1]]
                if rng.random() < 0.3:
                    ev.append(rng.choice([0, 1, 2]))
            elif o[0] == "x":
                ev = ["X", rng.randrange(5)]
            else:
                ev = [rng.choice(["NR", "DR"]), rng.randrange(U["np"]), rng.randrange(U["nn"]), 2]
        h.append(ev)
        if k.admissible(ev):
            k.apply(ev)
        else:
            k.apply(ev)   # keep generating from the replaced view; the monitor stops at this event anyway
    return h


def gen_cases(rng, tier):
    cases = []
    quick = tier == "quick"
    # (a) ALL event sequences (admissible or not) up to a length: model = code on every branch
    for u, L in (("u1", 4 if quick else 5), ("u2", 3 if quick else 4)):
        alpha = alphabet(u)
        for n in range(0, L + 1):
            for seq in itertools.product(alpha, repeat=n):
                cases.append({"u": u, "ev": [list(e) for e in seq], "cls": f"all/{u}", "chk": "final"})
    # (b) all kernel-admissible sequences, deeper (the monitor's domain)
    for u, L in (("u1", 7 if quick else 8), ("u2", 6 if quick else 7)):
        for d in range((5 if u == "u1" else 4), L + 1):
            for h in admissible_histories(u, d):
                # the monitor looks at every step, so only the deepest level needs it
                cases.append({"u": u, "ev": h, "cls": f"adm/{u}", "chk": "final", "mon": d == L})
    # (b') neighbour messages that are not resolutions, at every position of every short admissible history:
    #      ARP timeout (NF) / DELNEIGH (DN) of each next hop - in particular between the NEWROUTE of an unresolved next hop
    #      and the NEWNEIGH that resolves it, and before the DELROUTE of a waiting route -, on an unmanaged interface, a
    #      resolution of an address nobody waits for; singly and NF followed by DN
    for u, depths in (("u1", (2, 3, 4) if quick else (2, 3, 4, 5)), ("u2", (3,) if quick else (3, 4))):
        extra = [["NF", 0], ["NF", 1], ["DN", 0], ["DN", 1], ["NF", 0, 2], ["NN", 3, 3], ["NN", 0, 0, 2]]
        for d in depths:
            for h in admissible_histories(u, d):
                for pos in range(len(h) + 1):
                    for x in extra:
                        for ins in ([x], [x, ["DN", x[1]]] if x[0] == "NF" and len(x) == 2 else None):
                            if ins is None:
                                continue
                            h2 = h[:pos] + [list(e) for e in ins] + h[pos:]
                            k = Kernel()
                            ok = True
                            for e in h2:
                                if not k.admissible(e):
                                    ok = False
                                    break
                                k.apply(e)
                            if ok:
                                cases.append({"u": u, "ev": h2, "cls": f"neigh/{u}", "chk": "all"})
    # (c) random long histories over the larger universe, checked after every event
    for _ in range(500 if quick else 5000):
        cases.append({"u": "ur", "ev": random_history(rng, rng.choice([12, 30, 30, 40])), "cls": "rand/ur", "chk": "all"})
    return cases


# --------------------------------------------------------------------------- harness I/O
NOISE = [
    lambda: {"event": "RTM_NEWROUTE", "dst_len": 24, "attrs": [("RTA_OIF", 2), ("RTA_DST", "192.168.9.0")]},      # no gateway
    lambda: {"event": "RTM_NEWROUTE", "dst_len": 24, "attrs": [("RTA_GATEWAY", "10.0.0.1"), ("RTA_DST", "192.168.9.0")]},  # no oif
    lambda: {"event": "RTM_DELROUTE", "dst_len": 24, "attrs": [("RTA_GATEWAY", "10.0.0.1"), ("RTA_OIF", 2)]},     # no prefix
    lambda: {"event": "RTM_GETROUTE", "dst_len": 24,
             "attrs": [("RTA_GATEWAY", "10.0.0.1"), ("RTA_OIF", 2), ("RTA_DST", "192.168.1.0")]},                 # other event
    lambda: {"dst_len": 24, "attrs": [("RTA_GATEWAY", "10.0.0.1"), ("RTA_OIF", 2), ("RTA_DST", "192.168.1.0")]},  # no event
]


def to_harness(c):
    U = UNIVERSES[c["u"]]
    ev = []
    for e in c["ev"]:
        if e[0] in ("NR", "DR"):
            dst, ln = PFX[e[1]]
            ev.append([e[0], dst, ln, NHS[e[2]], IFS[e[3]][0]])
        elif e[0] == "NN":
            ev.append(["NN", NHS[e[1]], MACS[e[2]]] + ([IFS[e[3]][0]] if len(e) > 3 else []))
        elif e[0] in ("NF", "DN"):
            ev.append([e[0], NHS[e[1]]] + ([IFS[e[2]][0]] if len(e) > 2 else []))
        else:
            ev.append(["RAW", NOISE[e[1]]()])
    return {"ifs": [list(IFS[i]) for i in U["ifs"]], "ev": ev}


def run_py_harness(inputs, tag="c20", procs=8):
    """Runs the real route_control.py of REPO on the histories (several interpreter processes)."""
    iod = os.path.join(BUILD, "io")
    os.makedirs(iod, exist_ok=True)
    n = len(inputs)
    procs = max(1, min(procs, (n + 499) // 500))
    chunks = [inputs[k::procs] for k in range(procs)]
    ps = []
    env = dict(os.environ)
    env["VERIF_REPO"] = REPO
    env["PYTHONDONTWRITEBYTECODE"] = "1"
    for k, ch in enumerate(chunks):
        fin = os.path.join(iod, f"{tag}.{k}.in.jsonl")
        fout = os.path.join(iod, f"{tag}.{k}.out.jsonl")
        with open(fin, "w") as f:
            for c in ch:
                f.write(json.dumps(c, separators=(",", ":")) + "\n")
        if os.path.exists(fout):
            os.remove(fout)
        ps.append((subprocess.Popen([sys.executable, HARNESS_PY, fin, fout], env=env, stdout=subprocess.PIPE,
                                    stderr=subprocess.STDOUT, text=True), fout, len(ch)))
    outs = []
    for p, fout, want in ps:
        try:
            o, _ = p.communicate(timeout=1800)
        except subprocess.TimeoutExpired:
            p.kill()
            raise HarnessError("python harness timed out")
        got = []
        if os.path.exists(fout):
            with open(fout) as f:
                got = [json.loads(l) for l in f if l.strip()]
        if p.returncode != 0 or len(got) != want:
            raise HarnessError(f"python harness rc={p.returncode} got {len(got)}/{want} observations:\n" + (o or "")[-3000:])
        outs.append(got)
    obs = [None] * n
    for k, got in enumerate(outs):
        for j, o in enumerate(got):
            obs[k + j * procs] = o
    return obs


# --------------------------------------------------------------------------- names -> ids
IF_ID = {name: i for i, (_, name, _) in enumerate(IFS)}
NH_ID = {ip: i for i, ip in enumerate(NHS)}
PFX_ID = {p: i for i, p in enumerate(PFX)}
_ifalt = "|".join(re.escape(n) for n in IF_ID)
RE_MOD = re.compile(rf"^({_ifalt})(Routes|Merge|DstMAC([0-9A-F]{{12}})|RoutesDstMAC([0-9A-F]{{12}}))$")


class Untranslatable(Exception):
    pass


class Table(object):
    """Interns the Gallina sub-terms of the cases (numerals, module names, map entries, whole
    observations, events) as named constants of one table module that is compiled once; the shards
    then consist of a few identifiers per case.  (Elaborating literal numerals and nested pairs
    case by case costs Coq ~10 ms per case; the table makes it ~0.3 ms.)"""

    def __init__(self):
        self.names = {}
        self.defs = []

    def intern(self, kind, typ, term):
        key = (kind, term)
        n = self.names.get(key)
        if n is None:
            n = f"{kind}{len(self.defs)}"
            self.names[key] = n
            self.defs.append(f"Definition {n} : {typ} := {term}.")
        return n

    def num(self, n):
        n = int(n)
        if n < 0:
            raise Untranslatable(f"negative number {n}")
        return self.intern("k", "N", f"{n}%N")

    def znum(self, z):
        z = int(z)
        return self.intern("z", "Z", f"({z})%Z")

    def text(self):
        return ("From Coq Require Import NArith ZArith List.\nFrom UPF Require Import Model.RouteCtl Run.Eval_C20.\n"
                "Import ListNotations.\nOpen Scope N_scope.\n" + "\n".join(self.defs) + "\n")


def mod_term(T, name):
    m = RE_MOD.match(name)
    if not m:
        raise Untranslatable("module name " + repr(name))
    i = T.num(IF_ID[m.group(1)])
    if m.group(2) == "Routes":
        t = f"MRoutes {i}"
    elif m.group(2) == "Merge":
        t = f"MMerge {i}"
    elif m.group(3):
        t = f"MUpdI {i} {T.num(int(m.group(3), 16))}"
    else:
        t = f"MUpdR {i} {T.num(int(m.group(4), 16))}"
    return T.intern("m", "modname", t)


def obs_term(T, step, pings_so_far):
    try:
        lpm = []
        for mod, p, ln, g in step["lpm"]:
            if not mod.endswith("Routes") or mod[:-6] not in IF_ID:
                raise Untranslatable("lookup table of " + repr(mod))
            lpm.append(T.intern("l", "N * N * N", f"(({T.num(IF_ID[mod[:-6]])}, {T.num(PFX_ID[(p, ln)])}), {T.num(g)})"))
        upd = []
        for name, cls, val in step["mods"]:
            if cls != "Update" or not isinstance(val, int):
                raise Untranslatable(f"module {name} of class {cls}")
            upd.append(T.intern("u", "modname * N", f"({mod_term(T, name)}, {T.num(val)})"))
        links = [T.intern("c", "(modname * N) * (modname * N)",
                          f"(({mod_term(T, a)}, {T.num(og)}), ({mod_term(T, b)}, {T.num(ig)}))") for a, og, b, ig in step["links"]]
        nc = [T.intern("n", "N * (N * N * Z)", f"({T.num(NH_ID[k])}, ({T.num(g)}, {T.num(mac_int(mac))}, {T.znum(cnt)}))")
              for k, g, mac, cnt in step["nc"]]
        un = [T.intern("p", "N * list (N * N * N)",
                       f"({T.num(NH_ID[k])}, " + glist([f"({T.num(PFX_ID[(p, ln)])}, {T.num(NH_ID[nh])}, {T.num(IF_ID[ifn])})"
                                                        for p, ln, nh, ifn in rows]) + ")")
              for k, rows in step["un"]]
        gcd = {}
        for mod, n in step["gc"]:
            if not mod.endswith("Routes") or mod[:-6] not in IF_ID:
                raise Untranslatable("gate counter of " + repr(mod))
            gcd[IF_ID[mod[:-6]]] = int(n)
        gc = T.intern("g", "list (N * N)", glist([f"({T.num(i)}, {T.num(gcd.get(i, 0))})" for i in range(len(IFS))]))
        pings = T.intern("q", "list N", glist([T.num(NH_ID[p]) for p in pings_so_far]))
    except (KeyError, ValueError, TypeError) as e:
        raise Untranslatable(f"{type(e).__name__}: {e}")
    return T.intern("o", "obs", f"Obs {glist(lpm)} {glist(upd)} {glist(links)} {glist(nc)} {glist(un)} {gc} {pings}")


def ev_term(T, e):
    if e[0] == "NR":
        t = f"NewRoute (Route {T.num(e[1])} {T.num(e[2])} {T.num(e[3])})"
    elif e[0] == "DR":
        t = f"DelRoute (Route {T.num(e[1])} {T.num(e[2])} {T.num(e[3])})"
    elif e[0] == "NN":
        t = f"NewNeigh {T.num(e[1])} {T.num(mac_int(MACS[e[2]]))}"
    elif e[0] == "NF":
        t = f"NeighNoAddr {T.num(e[1])}"
    elif e[0] == "DN":
        t = f"DelNeigh {T.num(e[1])}"
    else:
        t = "Noise"
    return T.intern("e", "event", t)


def to_coq(T, c, o):
    U = UNIVERSES[c["u"]]
    managed = T.intern("i", "list N", glist([T.num(i) for i in U["ifs"] if IFS[i][2]]))
    steps = o["steps"]
    chk = []
    pings = []
    for k, s in enumerate(steps):
        pings = pings + list(s["pings"])
        if c["chk"] == "all" or k == len(steps) - 1:
            chk.append(f"({T.num(k + 1)}, {obs_term(T, s, pings)})")
    return f"Case {managed} {glist([ev_term(T, e) for e in c['ev']])} {glist(chk)}"


def coq_compare(terms, T):
    """Compiles the table module once, then evaluates `mismatches` over the shards."""
    tbl = os.path.join(COQ, "Run", "cases_C20_tbl.v")
    with open(tbl, "w") as f:
        f.write(T.text())
    try:
        rc, out = sh(["timeout", "1200", "coqc", "-Q", ".", "UPF", "Run/cases_C20_tbl.v"], cwd=COQ)
        if rc != 0:
            raise RuntimeError("table of interned terms does not compile:\n" + out[-2000:])
        return coq_eval_shards("C20", HEADER + "From UPF Require Import Run.cases_C20_tbl.\n", terms, shard=2500)
    finally:
        for ext in (".v", ".vo", ".glob", ".vok", ".vos"):
            try:
                os.remove(tbl[:-2] + ext)
            except OSError:
                pass
        try:
            os.remove(os.path.join(COQ, "Run", ".cases_C20_tbl.aux"))
        except OSError:
            pass


# --------------------------------------------------------------------------- the property, on the implementation
RE_UPD = re.compile(r"^(.*)DstMAC([0-9A-F]{12})$")


def monitor(c, o):
    """Evaluates C20 after every event of a history on the BESS graph rebuilt from the recorded
    pybess calls against the kernel view kept here.  Returns a list of (signature, text).
    "MAC known" = the kernel has reported the neighbour WITH a link-layer address (RTM_NEWNEIGH carrying
    NDA_LLADDR); an address-less RTM_NEWNEIGH (INCOMPLETE / FAILED) or RTM_DELNEIGH does not make it known, so no
    route through such a next hop may be installed.  Independent of the Coq model.  Monitoring stops when the history leaves the kernel-admissible
    domain, or after a failure whose known cause leaves BESS with an entry the kernel never had
    (everything later would be a consequence)."""
    k = Kernel()
    fails = []
    seen = set()
    # bookkeeping for the shapes of the known findings F29c / F40 and for naming the two defects repaired in
    # /repo 1b62c73 (F29a, F29b) should they come back - they are NOT known findings any more (facts about the
    # HISTORY, not about the code)
    waiting = {}            # unresolved nh -> [prefix...] kernel routes added while unresolved, oldest first
    overwritten = set()     # prefixes of kernel routes that were waiting when a later route for the same nh arrived
    deleted_pending = set() # (iface, prefix, nh) deleted from the kernel while the next hop was unresolved
    nh_ifaces = {}          # nh -> set of managed interfaces it was used on
    destroy_failed = set()  # names whose destroy_module failed with ENOENT since the module they shadow was last used

    def fail(sig, text):
        if sig not in seen:
            seen.add(sig)
            fails.append((sig, f"after event {step_no} of {c['ev']}: {text}"))

    monitor.judged = 0
    for step_no, (ev, s) in enumerate(zip(c["ev"], o["steps"]), 1):
        if not k.admissible(ev):
            break
        monitor.judged = step_no
        # history facts
        if ev[0] == "NR" and IFS[ev[3]][2]:
            p, nh, i = ev[1], ev[2], ev[3]
            nh_ifaces.setdefault(nh, set()).add(i)
            deleted_pending.discard((i, p, nh))      # the kernel has it again
            if nh not in k.neigh:
                w = waiting.setdefault(nh, [])
                overwritten.update(w)
                w.append(p)
        elif ev[0] == "DR" and IFS[ev[3]][2]:
            p, nh, i = ev[1], ev[2], ev[3]
            overwritten.discard(p)
            if nh not in k.neigh:
                deleted_pending.add((i, p, nh))
                if p in waiting.get(nh, []):
                    waiting[nh].remove(p)
        elif ev[0] == "NN":
            waiting.pop(ev[1], None)
        k.apply(ev)

        if "exc" in s and not (ev[0] == "NF" and s["exc"].startswith("KeyError") and "NDA_LLADDR" in s["exc"]):
            # (the unchanged handler answers an address-less RTM_NEWNEIGH with KeyError: 'NDA_LLADDR' before it touches
            # anything; NDB logs it - that is not a statement of C20, what the tables look like afterwards is)
            fail("handler-raised", "an exception escaped the netlink handler: " + s["exc"])
        lpm = {(m, p, ln): g for m, p, ln, g in s["lpm"]}
        mods = {n: (cls, val) for n, cls, val in s["mods"]}
        links = {(a, og): (b, ig) for a, og, b, ig in s["links"]}
        for call in s["calls"]:
            if call[0] == "destroy" and call[-1] != 0:
                destroy_failed.add(call[1])
            if call[0] == "cmd_add" and call[-1] == 0:
                # a successful add through gate g of module m: the update module behind it is in use again
                mname = call[1]
                g = call[2].rsplit(">", 1)[-1]
                tgt = links.get((mname, int(g))) if g.isdigit() else None
                if tgt:
                    mm = RE_UPD.match(tgt[0])
                    if mm:
                        destroy_failed.discard(mm.group(1) + "RoutesDstMAC" + mm.group(2))
        poisoned = False
        displaced = set()     # MACs of next hops whose route was overwritten by a stale pending route at this step
        # (iface id, prefix id) written into a lookup table at THIS step, a NEWNEIGH event, although that route was
        # deleted from the kernel while this very next hop was unresolved: the shape of the defect F29b (repaired in 1b62c73; a VIOLATION if seen)
        stale_adds = set()
        if ev[0] == "NN":
            for call in s["calls"]:
                if call[0] == "cmd_add" and call[-1] == 0 and call[1].endswith("Routes") and call[1][:-6] in IF_ID:
                    dst, _, rest = call[2].partition("/")
                    ln = rest.split(">")[0]
                    pid = PFX_ID.get((dst, int(ln))) if ln.isdigit() else None
                    if pid is not None and (IF_ID[call[1][:-6]], pid, ev[1]) in deleted_pending \
                            and k.routes.get(pid) != (ev[1], IF_ID[call[1][:-6]]):
                        stale_adds.add((IF_ID[call[1][:-6]], pid))
        installed = {}        # prefix -> gate for kernel routes present in their interface's table
        # mirror, completeness: kernel route with known MAC => installed
        for p, (nh, i) in sorted(k.routes.items()):
            name = IFS[i][1]
            key = (name + "Routes", PFX[p][0], PFX[p][1])
            if key in lpm:
                installed[p] = lpm[key]
            elif nh in k.neigh:
                if p in overwritten:
                    fail("mirror:route-not-installed:pending-route-overwritten",
                         f"kernel route {PFX[p]} via {NHS[nh]} on {name}, MAC known, is not in {name}Routes "
                         f"(it was waiting for the unresolved next hop when a later route for the same next hop arrived)")
                else:
                    fail("mirror:route-not-installed", f"kernel route {PFX[p]} via {NHS[nh]} on {name}, MAC known, is not in {name}Routes")
        # mirror, soundness: table entry => kernel has that route on that interface and the MAC is known
        for (m, dst, ln), g in sorted(lpm.items()):
            p = PFX_ID.get((dst, ln))
            ifn = m[:-6] if m.endswith("Routes") else None
            kr = k.routes.get(p) if p is not None else None
            ok = kr is not None and ifn == IFS[kr[1]][1] and kr[0] in k.neigh
            if not ok:
                if ifn in IF_ID and (IF_ID[ifn], p) in stale_adds:
                    poisoned = True
                    fail("stale-pending-route-installed",
                         f"{m} holds {dst}/{ln} -> gate {g} but the kernel has no such route "
                         f"(it was deleted while its next hop was unresolved and installed when the neighbour appeared)")
                else:
                    fail("mirror:phantom-route", f"{m} holds {dst}/{ln} -> gate {g} but the kernel has no such route with a known MAC")
        # one gate and one MAC-rewrite module per next hop; distinct gates for distinct next hops
        per_nh = {}
        for p, g in sorted(installed.items()):
            nh, i = k.routes[p]
            name = IFS[i][1]
            tgt = links.get((name + "Routes", g))
            want = mac_int(MACS[k.neigh[nh]]) if nh in k.neigh else None
            good = tgt is not None and tgt[0] in mods and mods[tgt[0]][0] == "Update" and mods[tgt[0]][1] == want
            if not good:
                if (i, p) in stale_adds:
                    poisoned = True
                    displaced.add(want)
                    fail("stale-pending-route-installed",
                         f"route {PFX[p]} via {NHS[nh]} uses gate {g} of {name}Routes, which belongs to {NHS[ev[1]]}: "
                         f"a route for the same prefix deleted while pending was installed over it")
                elif len(nh_ifaces.get(nh, ())) > 1:
                    poisoned = True
                    fail("next-hop-on-two-interfaces:gate-without-rewrite-module",
                         f"route {PFX[p]} via {NHS[nh]} on {name} uses gate {g} of {name}Routes, which does not lead to an Update "
                         f"module writing {MACS[k.neigh[nh]] if nh in k.neigh else None} (the next hop was first used on another interface)")
                else:
                    fail("gate-without-rewrite-module",
                         f"route {PFX[p]} via {NHS[nh]} uses gate {g} of {name}Routes, which does not lead to an Update module "
                         f"writing the next hop's MAC (link: {tgt})")
            else:
                fwd = links.get((tgt[0], 0))
                if fwd is None or fwd[0] != name + "Merge":
                    fail("rewrite-module-not-forwarding", f"{tgt[0]} (gate {g} of {name}Routes) is not linked to {name}Merge")
            per_nh.setdefault((nh, i), []).append((p, g, tgt[0] if tgt else None))
        for (nh, i), lst in sorted(per_nh.items()):
            if len({g for _, g, _ in lst}) > 1 or len({u for _, _, u in lst}) > 1:
                if any((i, p) in stale_adds for p, _, _ in lst):
                    poisoned = True
                    fail("stale-pending-route-installed", f"routes via {NHS[nh]} on {IFS[i][1]} use different gates/modules: {lst}")
                else:
                    fail("routes-of-one-next-hop-differ", f"routes via {NHS[nh]} on {IFS[i][1]} use different gates/modules: {lst}")
        keys = sorted(per_nh)
        for a in range(len(keys)):
            for b in range(a + 1, len(keys)):
                (nh1, i1), (nh2, i2) = keys[a], keys[b]
                if i1 != i2 or nh1 == nh2:
                    continue
                g1 = {g for _, g, _ in per_nh[keys[a]]}
                g2 = {g for _, g, _ in per_nh[keys[b]]}
                if g1 & g2:
                    ps = [p for p, _, _ in per_nh[keys[a]] + per_nh[keys[b]]]
                    if any((i1, p) in stale_adds for p in ps):
                        poisoned = True
                        fail("stale-pending-route-installed",
                             f"{NHS[nh1]} and {NHS[nh2]} share gate {sorted(g1 & g2)} of {IFS[i1][1]}Routes")
                    elif len(nh_ifaces.get(nh1, ())) > 1 or len(nh_ifaces.get(nh2, ())) > 1:
                        poisoned = True
                        fail("next-hop-on-two-interfaces:gate-without-rewrite-module",
                             f"{NHS[nh1]} and {NHS[nh2]} share gate {sorted(g1 & g2)} of {IFS[i1][1]}Routes")
                    else:
                        fail("gate-shared-by-two-next-hops",
                             f"{NHS[nh1]} and {NHS[nh2]} share gate {sorted(g1 & g2)} of {IFS[i1][1]}Routes")
        # the rewrite module exists iff at least one installed route uses it
        used = set()
        for (m, dst, ln), g in lpm.items():
            tgt = links.get((m, g))
            if tgt:
                used.add(tgt[0])
        for name, (cls, val) in sorted(mods.items()):
            if name in used:
                continue
            mm = RE_UPD.match(name)
            shadow = mm.group(1) + "RoutesDstMAC" + mm.group(2) if mm else None
            if val in displaced:
                fail("stale-pending-route-installed",
                     f"module {name} lost its only route to a stale pending route installed over it")
            elif shadow and shadow in destroy_failed and shadow not in mods:
                fail("update-module-unused:destroyed-under-other-name",
                     f"module {name} ({cls}) is used by no installed route; the controller tried to destroy {shadow}, which does not exist")
            else:
                fail("update-module-unused", f"module {name} ({cls}) is used by no installed route")
        if any(len(v) > 1 and nh_ in k.neigh for nh_, v in nh_ifaces.items()):
            # a resolved next hop is now in use on two managed interfaces (F40): its single cache entry (gate, count)
            # serves both, so gates and reference counts are off from here on, whether or not a sentence failed yet
            poisoned = True
        if poisoned or stale_adds:
            # a route the kernel no longer has was written into a table at this step (F29b, repaired).  If a sentence of C20
            # fails here it has been reported above; if none does yet (the stale route sits on top of a live route
            # whose next hop happens to have the same MAC) nothing is reported, but reference counts and gates are
            # off from here on, so the rest of this history is not judged.
            break
    return fails


def nontrivial(c, o):
    return len(c["ev"]) >= 2 and any(s["lpm"] for s in o.get("steps", []))


def run(tier, seed, replay=None):
    ck = Check("C20", tier, seed)
    ck.trusted = COMMON_TRUSTED + [
        "harness/py/c20_harness.py: stand-ins for pyroute2 / pybess.bess / scapy.all injected into sys.modules; the recording BESS "
        "implements bessd's failure semantics as documented in that file (EEXIST, ENOENT, EBUSY on a taken output gate, "
        "rte_lpm add = overwrite, delete of an absent prefix = EINVAL); time.sleep and send_ping replaced",
        "the test's kernel view (class Kernel): one route per prefix, neighbour MACs stable; events outside it end the monitoring of a history",
        "structured module names in the model (MUpdI / MUpdR) stand for the strings <iface>DstMAC<MAC> / <iface>RoutesDstMAC<MAC>",
    ]
    ck.assumptions = [
        "gate numbers stay below MAX_GATES (8192); the stand-in checks it, the model does not",
        "next hop addresses are IPv4 and MAC strings well-formed (validate_ipv4 / mac_to_int failure paths not modelled)",
        "the netlink handlers run one at a time (they take RouteController._lock over the whole body); the ping thread only reads",
        "reconfigure (SIGHUP) and bootstrap_routes are outside the modelled event set",
        "losing a RESOLVED neighbour (address-less RTM_NEWNEIGH / RTM_DELNEIGH for a next hop whose MAC the kernel has reported) is outside the "
        "property's domain ('neighbour resolutions'); such events are compared with the model but not judged",
    ]
    ck.rule = ("(a) ALL sequences over {NEWROUTE,DELROUTE} x 2 prefixes x 2 next hops x interfaces + resolving NEWNEIGH x 2 + address-less "
               "NEWNEIGH (ARP timeout) x 2: length <= 4 (5 thorough) on one managed interface, <= 3 (4) on two, final state compared; "
               "(b) all kernel-admissible sequences of routes and resolutions of length 5..7 (..8) resp. 4..6 (..7), one per renaming class, "
               "final state compared, monitor on every step; (b') every admissible history of length 2..4 (..5) resp. 3 (..4) with one "
               "non-resolving neighbour message (address-less NEWNEIGH, DELNEIGH, on an unmanaged interface, resolution of an address "
               "nobody waits for; NEWNEIGH-without-address followed by DELNEIGH) inserted at every position, compared after every event; "
               "(c) 500 (5000) seeded random histories of 12-40 events over 4 prefixes, 3 next hops (one sharing a MAC) + an address that is "
               "never a gateway, 2 managed + 1 unmanaged interface, noise, ARP timeouts / DELNEIGH of unresolved neighbours and "
               "inadmissible events, compared after every event. non-trivial = >= 2 events and a route installed at some point; "
               "distinct = distinct (universe, event list)")
    ck.prove(TARGETS)
    rng = rng_for(seed, "C20")
    if replay is None:
        cases = gen_cases(rng, tier)
    else:
        rc = json.load(open(replay))["case"]["input"]
        cases = [dict(rc, chk="all")]
    try:
        obs = run_py_harness([to_harness(c) for c in cases])
        bad = [o for o in obs if "steps" not in o]
        if bad:
            raise HarnessError("harness could not run a history: " + json.dumps(bad[0])[:800])
    except HarnessError as e:
        ck.tie("python harness imports and drives conf/route_control.py of the current tree", False, str(e)[-1500:])
        return ck.finish()
    ck.tie("python harness imports and drives conf/route_control.py of the current tree", True)
    dist = {}
    sigs = {}
    judged, total = {}, {}
    for c, o in zip(cases, obs):
        ck.count([c["u"], c["ev"]], nontrivial(c, o))
        ms = monitor(c, o) if c.get("mon", True) else []
        if c.get("mon", True):
            judged[c["cls"]] = judged.get(c["cls"], 0) + monitor.judged
            total[c["cls"]] = total.get(c["cls"], 0) + len(c["ev"])
        key = c["cls"] + ":" + ("fails" if ms else "holds")
        dist[key] = dist.get(key, 0) + 1
        for sig, text in ms:
            sigs[sig] = sigs.get(sig, 0) + 1
            ck.fail(sig, text, {"input": {"u": c["u"], "ev": c["ev"], "cls": c["cls"]}, "impl_last_step": o["steps"][-1] if o["steps"] else None})
    ck.distribution = dist
    ck.notes["monitor_signatures"] = sigs
    ck.notes["monitor_steps_judged_of_total"] = {k_: [judged[k_], total[k_]] for k_ in sorted(judged)}
    ck.samples = [{"input": c, "impl_last_step": o["steps"][-1]} for c, o in list(zip(cases, obs))[-2:] if o["steps"]]
    if replay is not None:
        print(json.dumps({"input": cases[0], "impl": obs[0], "monitor": monitor(cases[0], obs[0])}, indent=1))
    name = "correspondence: model state (lookup table, modules, links, neighbour cache, pending cache, gate counters, pings) = implementation"
    try:
        terms = []
        kept = []
        T = Table()
        for c, o in zip(cases, obs):
            if not c["ev"]:
                continue
            try:
                terms.append(to_coq(T, c, o))
                kept.append((c, o))
            except Untranslatable as e:
                ck.mismatch(f"implementation state outside the model's vocabulary ({e}) on {c['ev']}", {"input": c, "impl": o["steps"][-1]})
        idx = coq_compare(terms, T)
        ck.notes["interned_terms"] = len(T.defs)
        for i in idx[:50]:
            ck.mismatch(f"model and implementation disagree on {kept[i][0]['u']} {kept[i][0]['ev']}",
                        {"input": kept[i][0], "impl_last_step": kept[i][1]["steps"][-1]})
        ck.tie(name, not idx and not any(b.startswith("correspondence") for b in ck.broken), f"{len(idx)} mismatching cases" if idx else "")
    except RuntimeError as e:
        ck.tie(name, False, str(e)[-800:])
    return ck.finish()
