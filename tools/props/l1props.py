"""Common driver of C02, C03, C05, C14: random L1 histories inside the envelope (any failure is a violation)
plus the fixed finding scenarios (their failures carry the finding's tag in the signature)."""
from props.l1common import *
from props import l1model
import l1

MONITORS = {
    "C02": lambda case, intents, obs, views: l1.mon_c02(case, intents, obs),
    "C03": lambda case, intents, obs, views: l1.mon_c03(case, intents, obs, views),
    "C05": lambda case, intents, obs, views: l1.mon_c05(case, intents, obs),
    "C14": lambda case, intents, obs, views: l1.mon_c14(case, intents, obs),
}


def cfg_variants(rng):
    r = rng.random()
    if r < 0.15:
        return l1.default_cfg(end_marker=False)
    if r < 0.3:
        return l1.default_cfg(pool="10.250.0.0/29")
    if r < 0.4:
        return l1.default_cfg(ueip_alloc=False, pool="")
    if r < 0.55:
        return l1.default_cfg(qos=[{"QCI": 9, "CBS": 2048, "PBS": 9000, "EBS": 4096, "Dur": 87, "Prio": 1},
                                   {"QCI": 5, "CBS": 1, "PBS": 1, "EBS": 1, "Dur": 0, "Prio": 2}])
    return l1.default_cfg()


def run_prop(prop, tier, seed, replay, nquick, nthorough, extra_cases=None, rule="", length=14, soak=None, fixed=None, fixed_mon=None):
    ck = Check(prop, tier, seed)
    ck.trusted = L1_TRUSTED
    ck.rule = rule
    ck.prove([f"Props/{prop}.vo", "Run/Eval_L1.vo"])
    rng = rng_for(seed, prop)
    cases = []
    if replay:
        rp = json.load(open(replay))["case"]
        cases.append((rp.get("tag"), rp["input"], rp["intents"], rp.get("views")))
    else:
        for tag, case, intents, views in l1.corpus_scenarios():
            cases.append((tag, case, intents, views))
        if extra_cases:
            cases += extra_cases(rng, tier)
        n = nquick if tier == "quick" else nthorough
        for _ in range(n):
            sub = random.Random(rng.getrandbits(64))
            case, intents, views = l1.random_history(sub, cfg=cfg_variants(sub), length=sub.choice([8, length, length, 24]))
            cases.append((None, case, intents, views))
    try:
        binary = build_harness()
        obs = run_l1(binary, [c[1] for c in cases], workers=10, tag=prop.lower())
    except HarnessError as e:
        ck.tie("harness builds and runs against the current tree", False, str(e)[-1500:])
        return ck.finish(), None
    ck.tie("harness builds and runs against the current tree", True)
    mon = MONITORS[prop]
    dist = {}
    nconfirm = 0
    for (tag, case, intents, views), ob in zip(cases, obs):
        for it in intents:
            k = f"{it.get('op')}/{it.get('kind', '')}/{it.get('expect', '')}"
            dist[k] = dist.get(k, 0) + 1
        ck.count([e.get("hex", e["k"]) for e in case["events"]], len(case["events"]) > 2)
        res = mon(case, intents, ob, views)
        # a panic ends the history: every agent-level property is then violated at that point
        for i, o in enumerate(ob):
            if "panic" in o or o.get("blocked"):
                res.append(("agent-died", f"event {i}: the agent panicked or blocked ({o.get('panic')})", i))
        seen = set()
        for sig, msg, i in res:
            s = f"{tag}:{sig}" if tag else sig
            if s in seen:
                continue
            seen.add(s)
            if not replay and nconfirm < 12:
                nconfirm += 1

                def again(ob2, case=case, intents=intents, views=views):
                    r2 = mon(case, intents, ob2, views)
                    for j, o2 in enumerate(ob2):
                        if "panic" in o2 or o2.get("blocked"):
                            r2.append(("agent-died", "", j))
                    return r2
                if not confirmed(binary, case, sig, again):
                    ck.notes["unconfirmed_failures"] = ck.notes.get("unconfirmed_failures", 0) + 1
                    continue
            ck.fail(s, msg, {"tag": tag, "input": case, "intents": intents, "views": views, "event": i,
                             "impl_event": {k: v for k, v in (ob[i] if i < len(ob) else {}).items() if k != "tables"}})
    if soak and not replay:
        run_soak(ck, binary, rng, lambda c, it, ob: mon(c, it, ob, None), dist, only=soak)
    if fixed and not replay:
        run_soak(ck, binary, rng, fixed_mon or (lambda c, it, ob: mon(c, it, ob, None)), dist, scenarios=fixed(rng))
    model_correspondence(ck, [(c[1], ob) for c, ob in zip(cases, obs)], limit=(150 if tier == "quick" else 1200), name=prop, binary=binary)
    ck.distribution = dict(sorted(dist.items(), key=lambda kv: -kv[1])[:40])
    ck.samples = [{"events": [(it.get("op"), it.get("kind"), it.get("expect")) for it in c[2]]} for c in cases[-3:]]
    return ck, (cases, obs)


def model_correspondence(ck, pairs, limit, name, binary=None):
    """Coq agent model (Model/Agent.v) replayed on the histories the implementation ran: replies, sequence numbers,
    number of datapath commands, gauge, end markers, shutdown after every event; tables, store, pools, PFD tables at
    the sampled events (see tools/props/l1model.py)."""
    terms = []
    kept = []
    for case, ob in pairs[:limit]:
        t = l1model.case_term(case, ob)
        if t is not None:
            terms.append(t)
            kept.append((case, ob))
    ck.notes["model_evaluations"] = len(terms)
    try:
        idx = coq_eval_shards("L1" + name, l1model.HEADER, terms, shard=6, timeout=1500)
    except RuntimeError as e:
        ck.tie("correspondence: Coq agent model = implementation on the replayed histories", False, str(e)[-800:])
        return
    if idx and binary is not None:
        # a disagreement seen on an observation taken in the parallel run is reported only if it shows again when the
        # history runs alone (a command batch cut short by the plug-in's timeout on a loaded machine is not a disagreement)
        still = []
        for i in idx[:8]:
            try:
                ob2 = run_harness(binary, "l1", [kept[i][0]], tag="l1_reconfirm", timeout=600)[0].get("obs", [])
                t2 = l1model.case_term(kept[i][0], ob2)
                if t2 is None or coq_eval_shards("L1" + name + "re", l1model.HEADER, [t2], shard=6, timeout=600):
                    kept[i] = (kept[i][0], ob2)
                    still.append(i)
            except (HarnessError, RuntimeError):
                still.append(i)
        ck.notes["unconfirmed_model_disagreements"] = len(idx[:8]) - len(still)
        idx = still + idx[8:]
    for i in idx[:5]:
        ck.mismatch("agent model and implementation disagree on a replayed history",
                    {"input": kept[i][0], "impl_last_event": {k: v for k, v in (kept[i][1][-1] if kept[i][1] else {}).items() if k != "tables"}})
    ck.tie("correspondence: Coq agent model = implementation on the replayed histories", not idx,
           f"{len(idx)} of {len(terms)} histories disagree" if idx else f"{len(terms)} histories")
