"""C16 - Every P4Runtime write is valid for the shipped pipeline.

1. T1: regenerate coq/Gen/P4Info_gen.v and P4Const_gen.v from VERIF_REPO, build the proofs.
2. Constants: p4constants.go against p4info.txt in Python (independent of Coq); the real generator
   (`go run ./cmd/p4info_code_gen` as the Makefile does, 5 runs + gofmt) byte for byte against the committed file.
3. Writes: scenarios over PDR/FAR/QER/config values (boundary values of every field) are run on the REAL UP4
   plug-in against the fake P4Runtime server; EVERY recorded update is judged by the Python monitor below
   (a re-implementation of the conformance rules reading p4info.txt directly) and by the Coq `valid_update`;
   the Coq builders are compared with the recorded batches (correspondence)."""
import copy
import shutil
from lib import *
import gen_p4info
import gen_p4const

TARGETS = ["Props/C16.vo", "Run/Eval_C16.vo"]
HEADER = ("From Coq Require Import NArith List String Bool.\n"
          "From UPF Require Import Model.P4Info Model.P4Valid Model.P4Build Proofs.P4ValidProofs Run.Eval_C16.\n"
          "Import ListNotations.\nOpen Scope N_scope.\n")

ACCEPTED = 1        # ie.CauseRequestAccepted
ACCESS, CORE = 1, 2
F25_SIG = "PreQosPipe.applications:priority-zero:precedence-65535"
M32 = 0xFFFFFFFF


def ip(a, b, c, d):
    return (a << 24) | (b << 16) | (c << 8) | d


def cidr(s):
    """'a.b.c.d/n' -> (masked base, n) as net.ParseCIDR / MustParseStrIP give it."""
    a, n = s.split("/")
    n = int(n)
    parts = [int(x) for x in a.split(".")]
    v = ip(*parts)
    mask = (M32 << (32 - n)) & M32 if n else 0
    return v & mask, n


# =========================================================================================== implementation-side monitor

class P4Model:
    """The P4Info as served by the harness server: p4info.txt plus the scenario's size overrides."""

    def __init__(self, info, sizes):
        self.tables = {t["id"]: t for t in info["tables"]}
        self.actions = {a["id"]: a for a in info["actions"]}
        self.meters = {m["id"]: dict(m) for m in info["meters"]}
        self.counters = {c["id"]: dict(c) for c in info["counters"]}
        for d in (self.meters, self.counters):
            for x in d.values():
                for key in (x["name"], x["alias"]):
                    if key in sizes:
                        x["size"] = sizes[key]


KIND_OF = {"EXACT": "exact", "LPM": "lpm", "TERNARY": "ternary", "RANGE": "range", "OPTIONAL": "optional"}


def check_update(pm, u):
    """Every sentence of the property on one recorded update. Returns [(rule signature, message)]."""
    bad = []
    k = u["kind"]
    if k == "table":
        t = pm.tables.get(u.get("table_id", 0))
        if t is None:
            return [(f"table#{u.get('table_id', 0)}:unknown-table", "the table does not exist in the P4Info")]
        tn = t["name"]
        fields = {f["id"]: f for f in t["fields"]}
        seen = set()
        for m in u.get("match") or []:
            f = fields.get(m["id"])
            if f is None:
                bad.append((f"{tn}:unknown-field", f"match field id {m['id']} does not belong to {tn}"))
                continue
            if m["id"] in seen:
                bad.append((f"{tn}:duplicate-field:{f['name']}", "match field given twice"))
            seen.add(m["id"])
            w = f["bitwidth"]
            if m["kind"] != KIND_OF[f["match_type"]]:
                bad.append((f"{tn}:match-kind:{f['name']}", f"{m['kind']} match on a {f['match_type']} field"))
                continue
            if m["kind"] in ("exact", "optional"):
                if int(m["value"]) >= 1 << w:
                    bad.append((f"{tn}:field-width:{f['name']}", f"value {m['value']} does not fit {w} bits"))
            elif m["kind"] == "lpm":
                v, p = int(m["value"]), m["prefix"]
                if v >= 1 << w:
                    bad.append((f"{tn}:field-width:{f['name']}", f"value {v} does not fit {w} bits"))
                if not 0 <= p <= w:
                    bad.append((f"{tn}:lpm-prefix:{f['name']}", f"prefix length {p} exceeds {w}"))
                elif v < 1 << w and v & ((1 << (w - p)) - 1):
                    bad.append((f"{tn}:lpm-low-bits:{f['name']}", f"value {v}/{p} has bits below the prefix"))
            elif m["kind"] == "ternary":
                v, mk = int(m["value"]), int(m["mask"])
                if mk >= 1 << w or v >= 1 << w:
                    bad.append((f"{tn}:field-width:{f['name']}", f"value/mask {v}/{mk} does not fit {w} bits"))
                if v & ~mk:
                    bad.append((f"{tn}:ternary-value-outside-mask:{f['name']}", f"value {v} has bits outside mask {mk}"))
            elif m["kind"] == "range":
                lo, hi = int(m["low"]), int(m["high"])
                if hi >= 1 << w or lo >= 1 << w:
                    bad.append((f"{tn}:field-width:{f['name']}", f"range {lo}-{hi} does not fit {w} bits"))
                if lo > hi:
                    bad.append((f"{tn}:range-order:{f['name']}", f"range {lo}-{hi} has low > high"))
        ak = u.get("action_kind")
        if ak == "none":
            if u["type"] != "DELETE":
                bad.append((f"{tn}:no-action", "entry written without an action"))
        elif ak != "action":
            bad.append((f"{tn}:action-kind", "entry action is not a plain action"))
        else:
            aid = u.get("action_id", 0)
            allowed = [r for r in t["action_refs"] if r["id"] == aid and r["scope"] != "DEFAULT_ONLY"]
            a = pm.actions.get(aid)
            an = a["name"] if a else f"action#{aid}"
            if not allowed or a is None:
                bad.append((f"{tn}:action-not-allowed:{an}", f"action {an} is not allowed in entries of {tn}"))
            if a is not None:
                declared = {p["id"]: p for p in a["params"]}
                got = [p["id"] for p in (u.get("params") or [])]
                if sorted(got) != sorted(declared):
                    bad.append((f"{tn}:action-params:{an}", f"parameters {got} instead of exactly {sorted(declared)}"))
                for p in u.get("params") or []:
                    d = declared.get(p["id"])
                    if d is not None and int(p["value"]) >= 1 << d["bitwidth"]:
                        bad.append((f"{tn}:param-width:{an}.{d['name']}", f"value {p['value']} does not fit {d['bitwidth']} bits"))
        needs = any(f["match_type"] in ("TERNARY", "RANGE", "OPTIONAL") for f in t["fields"])
        pr = u.get("priority", 0)
        if needs and pr == 0:
            bad.append((f"{tn}:priority-zero", "priority 0 on a table with ternary/range fields"))
        elif needs and not 0 < pr < 1 << 31:
            bad.append((f"{tn}:priority-negative", f"priority {pr}"))
        elif not needs and pr != 0:
            bad.append((f"{tn}:priority-nonzero", f"priority {pr} on a table without ternary/range fields"))
    elif k in ("meter", "counter"):
        d = pm.meters if k == "meter" else pm.counters
        x = d.get(u.get(k + "_id", 0))
        if x is None:
            return [(f"{k}#{u.get(k + '_id', 0)}:unknown-{k}", f"the {k} does not exist in the P4Info")]
        if u.get("has_index") and not 0 <= u["index"] < x["size"]:
            bad.append((f"{x['name']}:{k}-index", f"index {u['index']} outside the declared size {x['size']}"))
    else:
        bad.append((f"entity:{k}", "the update is not a table, meter or counter entry"))
    return bad


# =========================================================================================== Gallina printers

def g_update(u):
    ty = {"INSERT": "UInsert", "MODIFY": "UModify", "DELETE": "UDelete"}.get(u["type"], "UUnspec")
    k = u["kind"]
    if k == "table":
        fs = []
        for m in u.get("match") or []:
            mk = m["kind"]
            if mk == "exact":
                fm = f"FExact {m['value']}"
            elif mk == "optional":
                fm = f"FOptional {m['value']}"
            elif mk == "lpm":
                fm = f"FLpm {m['value']} {m['prefix'] % (1 << 32)}"
            elif mk == "ternary":
                fm = f"FTernary {m['value']} {m['mask']}"
            elif mk == "range":
                fm = f"FRange {m['low']} {m['high']}"
            else:
                fm = "FOther"
            fs.append(f"Fld {m['id']} ({fm})")
        ak = u.get("action_kind")
        if ak == "action":
            ps = glist(["AP %d %s" % (p["id"], p["value"]) for p in (u.get("params") or [])])
            act = "(AAct %d %s)" % (u.get("action_id", 0), ps)
        elif ak == "none":
            act = "ANone"
        else:
            act = "AOther"
        ent = f"ETable (TE {u.get('table_id', 0)} {glist(fs)} {act} {u.get('priority', 0) % (1 << 32)})"
    elif k == "meter":
        idx = f"(Some {u['index'] % (1 << 64)})" if u.get("has_index") else "None"
        ent = f"EMeter {u.get('meter_id', 0)} {idx} {gbool(u.get('config') is not None)}"
    elif k == "counter":
        idx = f"(Some {u['index'] % (1 << 64)})" if u.get("has_index") else "None"
        ent = f"ECounter {u.get('counter_id', 0)} {idx}"
    else:
        ent = "EOtherEnt"
    return f"(Upd {ty} ({ent}))"


def g_cfg(c):
    n3, n3l = cidr(c["access"])
    pool, pl = cidr(c["pool"])
    return f"(Cfg {c['slice']} {c['tc']} {glist([f'({k}, {v})' for k, v in c['qfi_tc']])} {n3} {n3l} {pool} {pl})"


def g_pdr(p, ctr):
    a = p["af"]
    af = (f"(AF {a['src_ip']} {a['dst_ip']} (PR {a['src_lo']} {a['src_hi']}) (PR {a['dst_lo']} {a['dst_hi']}) "
          f"{a['proto']} {a['src_mask']} {a['dst_mask']} {a['proto_mask']})")
    return (f"(Pdr {p['src_iface']} {p['tun_ip']} {p['teid']} {p['ue']} {af} {p['prec']} {p['id']} {ctr} {p['far']} "
            f"{glist([str(q) for q in p['qers']])})")


def g_far(f):
    return f"(Far {f['id']} {f['dst_intf']} {f['action']} {f['tun_dst']} {f['teid']} {f['port']})"


def g_qer(q):
    return f"(Qer {q['id']} {q['level']} {q['qfi']} {q['ul_status']} {q['dl_status']})"


# =========================================================================================== the plug-in's control flow seen from outside
# (only to cut an operation's Write log into batches and to pick the oracle values out of the bookkeeping
#  snapshot; what each batch must contain is decided by the Coq model)

def is_wild(lo, hi):
    return (lo == 0 and hi == 65535) or (lo == 0 and hi == 0)


def app_key(p):
    a = p["af"]
    if p["src_iface"] == ACCESS:
        return (a["dst_ip"], a["dst_lo"], a["dst_hi"], a["proto"])
    if p["src_iface"] == CORE:
        return (a["src_ip"], a["src_lo"], a["src_hi"], a["proto"])
    return (0, 0, 0, a["proto"])


def app_empty(p):
    a = p["af"]
    return a["proto"] == 0 and ((p["src_iface"] == ACCESS and a["dst_ip"] == 0 and is_wild(a["dst_lo"], a["dst_hi"])) or
                                (p["src_iface"] == CORE and a["src_ip"] == 0 and is_wild(a["src_lo"], a["src_hi"])))


def needs_peer(f):
    return bool(f["action"] & 2) and f["dst_intf"] == 0 and f["teid"] != 0


class Agent:
    """Driver-side mirror of what was sent (sessions) for segmentation."""

    def __init__(self, cfg):
        self.cfg = cfg
        self.n3 = cidr(cfg["access"])[0]
        self.sessions = {}


def peers_of(state):
    return {(p["src"], p["dst"], p["port"]): p for p in state["peers"]}


def apps_of(state):
    return {(a["ip"], a["lo"], a["hi"], a["proto"]): a for a in state["apps"]}


def meters_of(state):
    return {(m["qer"], m["fseid"]): m for m in state["meters"]}


def pdr_event(ty, ag, sess, p, rules, st, app_entry, ctr):
    """Gallina WPdr event for one PDR with the oracle taken from bookkeeping snapshot `st`; None if the plug-in bails out."""
    far = next((f for f in rules["fars"] if f["id"] == p["far"]), None)
    if far is None:
        return None
    q = next((x for x in rules["qers"] if p["qers"] and x["id"] == p["qers"][0]), None)
    peer = peers_of(st).get((ag.n3, far["tun_dst"], far["port"]))
    ms = meters_of(st)
    zero = {"ul": 0, "dl": 0}
    sessm = ms.get((p["qers"][1], sess), zero) if len(p["qers"]) == 2 else zero
    appm = ms.get((p["qers"][0], sess), zero) if p["qers"] else zero
    ue = st["ue"].get(str(sess), 0)
    app = apps_of(st).get(app_key(p))
    app_id = app["id"] if app else 0
    o = (f"(PO {gbool(peer is not None)} {peer['id'] if peer else 0} (MC {sessm['ul']} {sessm['dl']}) "
         f"(MC {appm['ul']} {appm['dl']}) {ue} {app_id} {gbool(app_entry)})")
    return f"(WPdr {ty} {g_cfg(ag.cfg)} {g_pdr(p, ctr)} {g_far(far)} {gopt(g_qer(q) if q else None)} {o})"


def segment(ag, op, o, before):
    """Cuts the Write log of an accepted operation into (Gallina event, observed updates) pairs.
    Returns (pairs, error or None)."""
    W = [w["updates"] for w in o["writes"]]
    after = o["state"]
    pairs = []
    kind = op["op"]
    pos = 0

    def take(ev):
        nonlocal pos
        if pos >= len(W):
            raise IndexError(f"fewer Write RPCs ({len(W)}) than the model's control flow expects")
        pairs.append((ev, W[pos]))
        pos += 1

    try:
        if kind == "slice":
            take(f"(WSlice {g_cfg(ag.cfg)})")
        elif kind == "add":
            sess = op["sess"]
            for p in op["pdrs"]:
                take("(WCounter %d)" % after["ctr"]["%d:%d" % (sess, p["id"])])
            ms = meters_of(after)
            for q in op["qers"]:
                if q["level"] in (0, 1):
                    m = ms[(q["id"], sess)]
                    take(f"(WMeterConfig {q['level']} (MC {m['ul']} {m['dl']}))")
            seen_peers = set(peers_of(before))
            for f in op["fars"]:
                if needs_peer(f):
                    key = (ag.n3, f["tun_dst"], f["port"])
                    ty = "UModify" if key in seen_peers else "UInsert"
                    seen_peers.add(key)
                    take(f"(WPeer {ty} {g_cfg(ag.cfg)} {g_far(f)} {peers_of(after)[key]['id']})")
            seen_apps = set(apps_of(before))
            for p in op["pdrs"]:
                new = False
                if not app_empty(p):
                    new = app_key(p) not in seen_apps
                    seen_apps.add(app_key(p))
                ev = pdr_event("UInsert", ag, sess, p, op, after, new, after["ctr"]["%d:%d" % (sess, p["id"])])
                if ev is None:
                    raise IndexError("accepted although a PDR has no FAR")
                take(ev)
        elif kind == "mod":
            sess = op["sess"]
            seen_peers = set(peers_of(before))
            for f in op["fars"]:
                if f["id"] in op.get("upd_fars", []) and needs_peer(f):
                    key = (ag.n3, f["tun_dst"], f["port"])
                    ty = "UModify" if key in seen_peers else "UInsert"
                    seen_peers.add(key)
                    take(f"(WPeer {ty} {g_cfg(ag.cfg)} {g_far(f)} {peers_of(after)[key]['id']})")
            seen_apps = set(apps_of(before))
            for p in op["pdrs"]:
                new = False
                if not app_empty(p):
                    new = app_key(p) not in seen_apps
                    seen_apps.add(app_key(p))
                ev = pdr_event("UModify", ag, sess, p, op, after, new, after["ctr"].get("%d:%d" % (sess, p["id"]), 0))
                if ev is None:
                    raise IndexError("accepted although a PDR has no FAR")
                take(ev)
        elif kind == "del":
            sess = op["sess"]
            rules = ag.sessions[sess]
            refs = {k: a["refs"] for k, a in apps_of(before).items()}
            for p in rules["pdrs"]:
                last = False
                if not app_empty(p) and app_key(p) in refs:
                    refs[app_key(p)] -= 1
                    last = refs[app_key(p)] == 0
                ev = pdr_event("UDelete", ag, sess, p, rules, before, last, before["ctr"].get("%d:%d" % (sess, p["id"]), 0))
                if ev is None:
                    raise IndexError("accepted although a PDR has no FAR")
                take(ev)
            ms = meters_of(before)
            for q in rules["qers"]:
                m = ms.get((q["id"], sess))
                if m is not None:
                    ms.pop((q["id"], sess))
                    take(f"(WMeterReset {0 if m['type'] == 1 else 1} (MC {m['ul']} {m['dl']}))")
            # remaining writes: tunnel peers whose last user went away (the id is read from the write, the FAR from the session)
            bp = {p["id"]: p for p in before["peers"]}
            while pos < len(W):
                ups = W[pos]
                pid = None
                if len(ups) == 1 and ups[0].get("table_name") == "PreQosPipe.tunnel_peers" and ups[0].get("match"):
                    pid = int(ups[0]["match"][0].get("value", "0"))
                peer = bp.get(pid)
                f = next((x for x in rules["fars"] if peer and x["tun_dst"] == peer["dst"] and x["port"] == peer["port"]), None)
                if f is None:
                    raise IndexError("a trailing write of a deletion is not the removal of a tunnel peer of that session")
                take(f"(WPeer UDelete {g_cfg(ag.cfg)} {g_far(f)} {pid})")
        elif kind == "restart":
            # ClearTables deletes what it read back (validated by the monitors), then initInterfaces
            if not W:
                raise IndexError("no writes at restart")
            pos = len(W) - 1
            take(f"(WInterfaces {g_cfg(ag.cfg)})")
            return pairs, None
    except (IndexError, KeyError) as e:
        return pairs, f"{kind}: {e!r}"
    if pos != len(W):
        return pairs, f"{kind}: {len(W)} Write RPCs, the model's control flow accounts for {pos}"
    return pairs, None


# =========================================================================================== generators

AF0 = {"src_ip": 0, "dst_ip": 0, "src_mask": 0, "dst_mask": 0, "src_lo": 0, "src_hi": 65535, "dst_lo": 0, "dst_hi": 65535,
       "proto": 0, "proto_mask": 0}
PRECS = [0, 1, 2, 255, 256, 32767, 32768, 65533, 65534, 65535]
QFIS = [0, 1, 9, 31, 62, 63]
PORTS = [(0, 65535), (0, 0), (1, 1), (65535, 65535), (1, 65535), (0, 1), (80, 443), (1024, 2048), (0, 65534), (65534, 65535)]
ADDRS = [0, 1, M32, ip(10, 250, 0, 1), ip(192, 168, 1, 7), 1 << 31, (1 << 31) - 1]
TEIDS = [0, 1, 2, M32, M32 - 1, 1 << 31, 0x01020304]
PLENS = [0, 1, 8, 16, 24, 31, 32]
PROTOS = [0, 1, 6, 17, 255]
CFG_ACCESS = ["198.18.0.1/32", "10.0.0.1/24", "255.255.255.255/32", "0.0.0.1/32", "172.16.0.9/12"]
CFG_POOLS = ["10.250.0.0/16", "10.0.0.0/8", "192.168.1.0/24", "172.16.5.5/32", "128.0.0.0/1"]


def mask_of(n):
    return (M32 << (32 - n)) & M32 if n else 0


def rand_af(rng, side, shape=None):
    """An application filter as the SDF/PFD parser leaves it: address already masked, protocol mask 0xFF or 0."""
    a = dict(AF0)
    shape = shape if shape is not None else rng.choice(["empty", "ip", "ports", "proto", "all", "ip+ports", "all"])
    if shape == "empty":
        return a
    pre = "dst" if side == ACCESS else "src"
    if "ip" in shape or shape == "all":
        n = rng.choice(PLENS)
        m = mask_of(n)
        a[pre + "_ip"] = rng.choice(ADDRS + [rng.getrandbits(32)]) & m
        a[pre + "_mask"] = m
    if "ports" in shape or shape == "all":
        lo, hi = rng.choice(PORTS + [tuple(sorted((rng.randrange(65536), rng.randrange(65536))))])
        a[pre + "_lo"], a[pre + "_hi"] = lo, hi
    if "proto" in shape or shape == "all":
        a["proto"] = rng.choice(PROTOS[1:])
        a["proto_mask"] = 255
    # the other direction's half is ignored by the P4 translator; fill it sometimes
    if rng.random() < 0.3:
        oth = "src" if pre == "dst" else "dst"
        n = rng.choice(PLENS)
        a[oth + "_ip"] = rng.getrandbits(32) & mask_of(n)
        a[oth + "_mask"] = mask_of(n)
        a[oth + "_lo"], a[oth + "_hi"] = rng.choice(PORTS)
    return a


def rand_cfg(rng, sizes=None):
    m = []
    for qfi in rng.sample(QFIS, rng.choice([0, 1, 2, 3])):
        m.append([qfi, rng.randrange(4)])
    return {"slice": rng.choice([0, 1, 7, 14, 15, rng.randrange(16)]), "tc": rng.randrange(4), "qfi_tc": m,
            "access": rng.choice(CFG_ACCESS), "pool": rng.choice(CFG_POOLS), "sizes": dict(sizes or {})}


def rand_qer(rng, qid, level):
    return {"id": qid, "level": level, "qfi": rng.choice(QFIS), "ul_status": rng.choice([0, 0, 1]), "dl_status": rng.choice([0, 0, 1]),
            "ul_mbr": rng.choice([0, 1, 1000, 1 << 32, (1 << 63) // 1000]), "dl_mbr": rng.choice([0, 1, 2000, 1 << 20]),
            "ul_gbr": rng.choice([0, 500]), "dl_gbr": rng.choice([0, 500])}


def session_rules(rng, cfg, sess, ue, n_qers=None, far_action=None, af_shape=None, prec=None, gnb=None, teid=None):
    """One UE session as the session layer hands it to the plug-in: UL PDR + DL PDR, their FARs, 0..2 QERs."""
    n3 = cidr(cfg["access"])[0]
    n_qers = rng.choice([0, 1, 2, 2]) if n_qers is None else n_qers
    qers, qids = [], []
    if n_qers >= 1:
        qers.append(rand_qer(rng, 1, 0))
        qids.append(1)
    if n_qers >= 2:
        qers.append(rand_qer(rng, 2, 1))
        qids.append(2)
    if n_qers >= 3:
        qers.append(rand_qer(rng, 3, rng.choice([0, 1, 2])))
    act = far_action if far_action is not None else rng.choice([2, 2, 2, 1, 4, 6, 12, 3])
    gnb = gnb if gnb is not None else rng.choice(ADDRS[1:] + [rng.getrandbits(32)])
    if teid is None and not act & 2 and rng.random() < 0.75:
        teid = 0            # a FAR that does not forward normally carries no outer header (else the plug-in refuses: no tunnel peer)
    fars = [{"id": 1, "dst_intf": 1, "action": rng.choice([2, 2, 1]), "tun_dst": 0, "teid": 0, "port": 0},
            {"id": 2, "dst_intf": 0, "action": act, "tun_dst": gnb, "teid": rng.choice(TEIDS) if teid is None else teid,
             "port": rng.choice([2152, 2152, 0, 1, 65535])}]
    p = rng.choice(PRECS) if prec is None else prec
    shape = af_shape
    pdrs = [{"id": 1, "src_iface": ACCESS, "tun_ip": rng.choice([n3, n3, 0, M32]), "teid": rng.choice(TEIDS[1:]), "ue": 0,
             "prec": p, "far": 1, "qers": list(qids), "af": rand_af(rng, ACCESS, shape)},
            {"id": 2, "src_iface": CORE, "tun_ip": 0, "teid": 0, "ue": ue,
             "prec": rng.choice(PRECS) if prec is None else prec, "far": 2, "qers": list(qids), "af": rand_af(rng, CORE, shape)}]
    return {"op": "add", "sess": sess, "pdrs": pdrs, "fars": fars, "qers": qers}


def gen_cases(rng, tier):
    cases = []
    scale = 1 if tier == "quick" else 6

    def sc(cls, cfg, ops):
        cases.append({"cls": cls, "cfg": cfg, "ops": ops})

    # 0. the witness of C16_valid_refuted (F25) and its neighbours, first
    for prec, shape in ((65535, "ports"), (65534, "ports"), (65535, "empty"), (65535, "all"), (0, "all")):
        cfg = {"slice": 0, "tc": 0, "qfi_tc": [], "access": "198.18.0.1/32", "pool": "10.250.0.0/16", "sizes": {}}
        a = session_rules(rng, cfg, 1, ip(10, 250, 0, 1), n_qers=0, far_action=2, af_shape=shape, prec=prec)
        sc(f"witness/prec{prec}/{shape}", cfg, [a, {"op": "del", "sess": 1}])
    # 1. one session, one boundary value at a time: precedence x filter shape, all 16 FAR action combinations,
    #    QER counts x gate x QFI, addresses / TEIDs / ports
    for prec in PRECS:
        for shape in ("empty", "ip", "ports", "proto", "all"):
            cfg = rand_cfg(rng)
            a = session_rules(rng, cfg, 1, rng.choice(ADDRS), af_shape=shape, prec=prec)
            sc(f"prec/{shape}", cfg, [a, {"op": "del", "sess": 1}])
    for act in range(16):
        for nq in (0, 1, 2):
            cfg = rand_cfg(rng)
            a = session_rules(rng, cfg, 1, rng.choice(ADDRS), n_qers=nq, far_action=act)
            for p in a["pdrs"]:
                p["far"] = rng.choice([1, 2]) if rng.random() < 0.2 else p["far"]
            sc(f"far/{act}", cfg, [a, {"op": "del", "sess": 1}])
    for qfi in QFIS:
        for ul in (0, 1):
            for dl in (0, 1):
                for tc in range(4):
                    cfg = rand_cfg(rng)
                    cfg["tc"] = tc
                    if rng.random() < 0.5:
                        cfg["qfi_tc"] = [[qfi, rng.randrange(4)]]
                    a = session_rules(rng, cfg, 1, rng.choice(ADDRS), n_qers=rng.choice([1, 2]), far_action=2)
                    a["qers"][0].update(qfi=qfi, ul_status=ul, dl_status=dl)
                    sc("qer/gates", cfg, [a, {"op": "del", "sess": 1}])
    for addr in ADDRS:
        for teid in TEIDS:
            cfg = rand_cfg(rng)
            a = session_rules(rng, cfg, 1, addr, gnb=addr, teid=teid, far_action=2)
            a["pdrs"][0]["teid"] = teid
            a["pdrs"][0]["tun_ip"] = addr
            sc("addr/teid", cfg, [a, {"op": "del", "sess": 1}])
    for lo, hi in PORTS:
        for n in PLENS:
            cfg = rand_cfg(rng)
            a = session_rules(rng, cfg, 1, ip(10, 250, 0, 9), af_shape="empty", far_action=2)
            for p, pre in ((a["pdrs"][0], "dst"), (a["pdrs"][1], "src")):
                p["af"][pre + "_lo"], p["af"][pre + "_hi"] = lo, hi
                p["af"][pre + "_mask"] = mask_of(n)
                p["af"][pre + "_ip"] = rng.getrandbits(32) & mask_of(n)
                if rng.random() < 0.5:
                    p["af"]["proto"], p["af"]["proto_mask"] = rng.choice(PROTOS[1:]), 255
            sc("ports/prefix", cfg, [a, {"op": "del", "sess": 1}])
    # 2. every slice x TC (slice meter index), slice rates at the extremes
    for s in range(16):
        for tc in range(4):
            cfg = rand_cfg(rng)
            cfg["slice"], cfg["tc"] = s, tc
            sc("slice", cfg, [{"op": "slice", "ul": rng.choice([0, 1, 1 << 40]), "dl": rng.choice([0, 5, (1 << 63) - 1]),
                               "ulb": rng.choice([0, 1 << 20]), "dlb": rng.choice([0, 7])}])
    # 3. several sessions sharing gNBs and application filters, modifications, deletions in any order, restart
    for _ in range(60 * scale):
        cfg = rand_cfg(rng)
        ops, live = [], []
        gnbs = [rng.getrandbits(32) for _ in range(2)]
        shapes = [rng.choice(["all", "ports", "ip"]) for _ in range(2)]
        frozen = random.Random(rng.getrandbits(32))
        for s in range(1, rng.choice([2, 3, 4]) + 1):
            sub = random.Random(frozen.getrandbits(16) if rng.random() < 0.5 else rng.getrandbits(32))   # shared filters now and then
            a = session_rules(sub, cfg, s, ip(10, 250, 0, s), gnb=rng.choice(gnbs), af_shape=rng.choice(shapes + ["empty"]),
                              prec=rng.choice(PRECS[:-1] + [rng.randrange(65535)]))
            ops.append(a)
            live.append(a)
            if rng.random() < 0.35:
                m = copy.deepcopy(a)
                m["op"] = "mod"
                m["fars"][1].update(action=rng.choice([2, 4, 1, 6]), tun_dst=rng.choice(gnbs), teid=rng.choice(TEIDS))
                m["upd_fars"] = [2]
                m["upd_pdrs"] = []
                ops.append(m)
                live[-1] = m
            if rng.random() < 0.2:
                ops.append({"op": "slice", "ul": 1000, "dl": 2000, "ulb": 100, "dlb": 200})
        rng.shuffle(live)
        for a in live:
            if rng.random() < 0.8:
                ops.append({"op": "del", "sess": a["sess"]})
        if rng.random() < 0.3:
            ops.append({"op": "restart"})
            ops.append(session_rules(rng, cfg, 9, ip(10, 250, 0, 99)))
        sc("multi", cfg, ops)
    # 4. small pools (size overrides at the server): run the cell pools dry, release, allocate again
    for _ in range(14 * scale):
        k = rng.choice([2, 3, 4, 5])
        sizes = {"PreQosPipe.app_meter": rng.choice([k, k + 1]), "PreQosPipe.session_meter": rng.choice([k, k + 2]),
                 "PreQosPipe.pre_qos_counter": rng.choice([k + 1, 2 * k]), "PostQosPipe.post_qos_counter": rng.choice([2 * k, 2 * k + 1])}
        sizes["PostQosPipe.post_qos_counter"] = max(sizes["PostQosPipe.post_qos_counter"], sizes["PreQosPipe.pre_qos_counter"])
        cfg = rand_cfg(rng, sizes)
        ops = []
        for s in range(1, 2 * k + 3):
            ops.append(session_rules(rng, cfg, s, ip(10, 250, 1, s), n_qers=rng.choice([1, 2]), far_action=2, prec=rng.randrange(65535)))
        for s in rng.sample(range(1, 2 * k + 3), k):
            ops.append({"op": "del", "sess": s})
        for s in range(20, 20 + k):
            ops.append(session_rules(rng, cfg, s, ip(10, 250, 2, s), n_qers=rng.choice([1, 2]), far_action=2, prec=rng.randrange(65535)))
        sc("smallpools", cfg, ops)
    # 5. inputs the plug-in itself refuses (no write may result): precedence above 65535, unknown source interface, missing FAR
    for _ in range(10 * scale):
        cfg = rand_cfg(rng)
        a = session_rules(rng, cfg, 1, ip(10, 250, 0, 1), far_action=2)
        which = rng.choice(["prec", "iface", "nofar"])
        if which == "prec":
            a["pdrs"][rng.randrange(2)]["prec"] = rng.choice([65536, 65537, 1 << 31, M32])
        elif which == "iface":
            a["pdrs"][rng.randrange(2)]["src_iface"] = rng.choice([0, 3, 255])
        else:
            a["pdrs"][rng.randrange(2)]["far"] = 77
        sc("refused/" + which, cfg, [a])
    # 6. identifiers the control plane chooses must never reach an index: PDR IDs over the whole 16-bit range and QER IDs over the 32-bit
    #    range (beyond every array size), the sessions deleted, then enough establishments to pop EVERY cell of the pools (a foreign value
    #    put into a pool by the deletion is handed out whatever order the set iterates in) - every counter / meter write is judged
    big_pdr = [1024, 1025, 2001, 2002, 4096, 32767, 32768, 40000, 65534, 65535]
    big_qer = [1024, 2001, 65535, 65536, 70000, 1 << 31, M32]
    for rep in range(6 * scale):
        # (a) shrunk arrays: counters
        n = rng.choice([4, 6, 8])
        sizes = {"PreQosPipe.pre_qos_counter": n, "PostQosPipe.post_qos_counter": n, "PreQosPipe.app_meter": 64, "PreQosPipe.session_meter": 64}
        cfg = rand_cfg(rng, sizes)
        ops = []
        nsess = rng.choice([1, 2])
        for s in range(1, nsess + 1):
            a = session_rules(rng, cfg, s, ip(10, 250, 3, s), n_qers=rng.choice([0, 1, 2]), far_action=2, prec=rng.randrange(65535))
            ids = rng.sample(big_pdr, 2) if rng.random() < 0.8 else [rng.randrange(n, 65536), rng.randrange(n, 65536)]
            for p, i in zip(a["pdrs"], ids):
                p["id"] = i
            a["pdrs"][0]["teid"] = 0x5000 + s
            ops.append(a)
        for s in rng.sample(range(1, nsess + 1), nsess):
            ops.append({"op": "del", "sess": s})
        for s in range(10, 10 + n // 2 + nsess + 2):
            a = session_rules(rng, cfg, s, ip(10, 250, 4, s), n_qers=0, far_action=2, af_shape="empty", prec=100)
            a["pdrs"][0]["teid"] = 0x6000 + s
            ops.append(a)
        sc("bigids/counter", cfg, ops)
        # (b) shrunk arrays: meter cells (QER IDs beyond the arrays; first the session-meter pool is drained, then the application pool)
        n = rng.choice([4, 6])
        sizes = {"PreQosPipe.pre_qos_counter": 128, "PostQosPipe.post_qos_counter": 128, "PreQosPipe.app_meter": n, "PreQosPipe.session_meter": n}
        cfg = rand_cfg(rng, sizes)
        ops = []
        a = session_rules(rng, cfg, 1, ip(10, 250, 5, 1), n_qers=2, far_action=2, prec=rng.randrange(65535))
        qa, qs = rng.sample(big_qer, 2)
        a["qers"][0]["id"], a["qers"][1]["id"] = qa, qs
        for p in a["pdrs"]:
            p["qers"] = [qa, qs]
        if rng.random() < 0.5:
            b = session_rules(rng, cfg, 2, ip(10, 250, 5, 2), n_qers=1, far_action=2, prec=rng.randrange(65535))
            b["qers"][0]["id"] = rng.choice(big_qer)
            for p in b["pdrs"]:
                p["qers"] = [b["qers"][0]["id"]]
            b["pdrs"][0]["teid"] = 0x5002
            ops += [a, b, {"op": "del", "sess": 2}, {"op": "del", "sess": 1}]
        else:
            ops += [a, {"op": "del", "sess": 1}]
        for s in range(10, 10 + n // 2 + 2):
            x = session_rules(rng, cfg, s, ip(10, 250, 6, s), n_qers=2, far_action=2, af_shape="empty", prec=100)
            x["pdrs"][0]["teid"] = 0x6000 + s
            ops.append(x)
        for s in range(40, 40 + n + 2):
            x = session_rules(rng, cfg, s, ip(10, 250, 6, s), n_qers=1, far_action=2, af_shape="empty", prec=100)
            x["pdrs"][0]["teid"] = 0x6000 + s
            ops.append(x)
        sc("bigids/meter", cfg, ops)
    # (c) the arrays as shipped (1024 counter cells): PDR IDs >= 1024, deletion, then 16-PDR sessions until the pool is empty.  Judged by the
    #     Python monitor on every update; only the first operations also feed the Coq correspondence (the batches repeat)
    cfg = rand_cfg(rng)
    cfg["access"] = "198.18.0.1/32"
    ops = []
    for s, ids in ((1, (2001, 2002)), (2, (65535, 1024))):
        a = session_rules(rng, cfg, s, ip(10, 250, 7, s), n_qers=0, far_action=2, af_shape="empty", prec=100)
        a["pdrs"][0]["id"], a["pdrs"][1]["id"] = ids
        a["pdrs"][0]["teid"] = 0x5000 + s
        a["pdrs"][0]["tun_ip"] = cidr(cfg["access"])[0]
        ops.append(a)
    ops += [{"op": "del", "sess": 2}, {"op": "del", "sess": 1}]
    for s in range(100, 100 + 1024 // 16 + 2):
        a = session_rules(rng, cfg, s, ip(10, 250, 8 + s // 200, s % 200 + 1), n_qers=0, far_action=2, af_shape="empty", prec=100)
        a["pdrs"][0]["tun_ip"] = cidr(cfg["access"])[0]
        ul = a["pdrs"][0]
        a["pdrs"] = [a["pdrs"][1]] + [dict(ul, id=10 + k, teid=(s << 8) + k, af=dict(ul["af"])) for k in range(15)]
        ops.append(a)
    cases.append({"cls": "bigids/full-size-counter", "cfg": cfg, "ops": ops, "coq_ops": 6})
    return cases


# =========================================================================================== constants and generator

def norm(s):
    return s.replace("_", "").replace(".", "").lower()


def derive_constants(info):
    """What generateConstants emits, from p4info.txt, as a multiset of (kind, normalised name, value)."""
    out = []
    mfw, apw = {}, {}
    for t in info["tables"]:
        for f in t["fields"]:
            out.append(("Hdr", norm(t["name"] + "_" + f["name"]), f["id"]))
            mfw[f["name"]] = f["bitwidth"]
        out.append(("Table", norm(t["name"]), t["id"]))
    for a in info["actions"]:
        out.append(("Action", norm(a["name"]), a["id"]))
        for p in a["params"]:
            out.append(("ActionParam", norm(a["name"] + "_" + p["name"]), p["id"]))
            apw[p["name"]] = p["bitwidth"]
    for c in info["counters"]:
        out += [("Counter", norm(c["name"]), c["id"]), ("CounterSize", norm(c["name"]), c["size"])]
    for c in info["direct_counters"]:
        out.append(("DirectCounter", norm(c["name"]), c["id"]))
    for c in info["action_profiles"]:
        out.append(("ActionProfile", norm(c["name"]), c["id"]))
    for c in info["controller_packet_metadata"]:
        out.append(("PacketMeta", norm(c["name"]), c["id"]))
    for c in info["meters"]:
        out += [("Meter", norm(c["name"]), c["id"]), ("MeterSize", norm(c["name"]), c["size"])]
    for e in info["enums"]:
        for m in e["members"]:
            if len(m["value"]) <= 4:
                out.append(("Enum", norm(e["name"] + "_" + m["name"]), int.from_bytes(m["value"], "big")))
    out += [("BitwidthMf", norm(k), v) for k, v in mfw.items()]
    out += [("BitwidthAp", norm(k), v) for k, v in apw.items()]
    maps = {"Table": info["tables"], "Action": info["actions"], "ActionProfile": info["action_profiles"], "Counter": info["counters"],
            "DirectCounter": info["direct_counters"], "Meter": info["meters"], "DirectMeter": info["direct_meters"],
            "ControllerPacketMetadata": info["controller_packet_metadata"], "Register": info["registers"]}
    return out, {k: [(x["id"], x["name"]) for x in v] for k, v in maps.items()}


def check_constants(ck, info):
    try:
        committed = gen_p4const.load(os.path.join(REPO, gen_p4const.SRC_REL))
    except (gen_p4const.P4ConstSyntaxError, OSError, UnicodeDecodeError) as e:
        ck.tie("p4constants.go is in the shape the translator understands", False, str(e))
        return
    want, maps = derive_constants(info)
    got = [(k, norm(i), v) for k, i, v in committed["consts"]]
    ck.count("constants", True)
    if sorted(want) != sorted(got):
        missing = sorted(set(want) - set(got))[:5]
        extra = sorted(set(got) - set(want))[:5]
        ck.fail("constants:differ-from-p4info", f"p4constants.go is not what the shipped P4Info yields: expected but absent {missing}, "
                f"present but not derivable {extra}", {"missing": missing, "unexpected": extra})
    for kind, es in committed["maps"]:
        if es != maps[kind]:
            ck.fail("constants:id-map-differs", f"Get{kind}IDToNameMap differs from the P4Info", {"kind": kind, "committed": es, "p4info": maps[kind]})
    for kind, es in committed["lists"]:
        if es != [i for i, _ in maps[kind]]:
            ck.fail("constants:id-list-differs", f"Get{kind}IDList differs from the P4Info", {"kind": kind, "committed": es})
    ck.notes["constants_compared"] = len(got)


def check_generator(ck, runs=40):
    """The real generator, invoked as the Makefile does, `runs` times; gofmt; byte comparison with the committed file."""
    work = os.path.join(BUILD, "c16gen")
    shutil.rmtree(work, ignore_errors=True)
    os.makedirs(work)
    env = go_env()
    rc, goroot = sh(["go", "env", "GOROOT"], cwd=REPO, env=env, timeout=120)
    gofmt = os.path.join(goroot.strip().split("\n")[-1], "bin", "gofmt")
    committed = open(os.path.join(REPO, gen_p4const.SRC_REL), "rb").read()
    outs = []
    # built once (what `go run` does on every invocation), then run many times: an iteration order that happens to come
    # out right most of the time must not slip through
    binary = os.path.join(work, "p4info_code_gen")
    rc, o = sh(["go", "build", "-o", binary, "./cmd/p4info_code_gen/p4info_code_gen.go"], cwd=REPO, env=env, timeout=900)
    if rc != 0:
        ck.tie("the generator cmd/p4info_code_gen builds and runs on the shipped P4Info", False, o[-1500:])
        return
    for i in range(runs):
        out = os.path.join(work, f"p4constants_{i}.go")
        rc, o = sh([binary, "-output", out, "-p4info", "conf/p4/bin/p4info.txt"], cwd=REPO, env=env, timeout=300)
        if rc != 0 or not os.path.exists(out):
            ck.tie("the generator cmd/p4info_code_gen builds and runs on the shipped P4Info", False, o[-1500:])
            return
        rc, o = sh([gofmt, "-w", out], env=env, timeout=120)
        if rc != 0:
            ck.tie("gofmt accepts the generator's output", False, o[-1500:])
            return
        outs.append(open(out, "rb").read())
        ck.count(f"generator-run-{i}", False)
    ck.tie("the generator cmd/p4info_code_gen builds and runs on the shipped P4Info", True)
    if len(set(outs)) != 1:
        ck.fail("generator:nondeterministic", f"{len(set(outs))} different outputs in {runs} runs of the generator on the same P4Info",
                {"distinct_outputs": len(set(outs))})
    differing = [x for x in outs if x != committed]
    if differing:
        outs[0] = differing[0]
        a, b = outs[0].decode(errors="replace").split("\n"), committed.decode(errors="replace").split("\n")
        first = next((i for i, (x, y) in enumerate(zip(a, b)) if x != y), min(len(a), len(b)))
        ck.fail("generator:output-differs-from-committed", f"regenerated p4constants.go differs from the committed file at line {first + 1}",
                {"line": first + 1, "generated": a[first:first + 3], "committed": b[first:first + 3]})
    ck.notes["generator_runs"] = runs
    shutil.rmtree(work, ignore_errors=True)


# =========================================================================================== run

def run(tier, seed, replay=None):
    ck = Check("C16", tier, seed)
    ck.trusted = COMMON_TRUSTED + [
        "tools/gen_p4info.py and tools/gen_p4const.py (T1 translators; strict parsers, regenerated on every run)",
        "harness/go/verif_p4rt_test.go (fake P4Runtime server: decoding of Write requests) and verif_c16_test.go (direct calls to "
        "UP4.SendMsgToUPF / AddSliceInfo with generated pdr/far/qer structs; reads the plug-in's id maps)",
        "the Python monitor check_update (re-implementation of the P4Info conformance rules) is cross-checked against Coq valid_update on every distinct update"]
    ck.assumptions = [
        "byte strings are compared as numbers (leading zero bytes allowed), as DESIGN.md reads 'fits the declared bit width'",
        "application filter addresses arrive masked (net.ParseCIDR) and the protocol lies within its mask, as parse_pdr.go produces them",
        "identifier spelling of the Go constants (strcase.ToPascal) is not modelled: constants are compared modulo case and '_'/'.', "
        "the exact text by regenerating with the real generator"]
    ck.rule = ("scenarios = (configuration, operation list) for the real UP4 plug-in: boundary sweeps (precedence x filter shape, 16 FAR action "
               "combinations x 0..2 QERs, QFI x gates x TC, addresses x TEIDs, port ranges x prefix lengths, 16 slices x 4 TCs), multi-session "
               "histories with shared peers/filters, modifications, deletions, restart, shrunk meter/counter arrays, inputs the plug-in refuses; "
               "evaluation = one recorded update judged by both monitors, or one Write batch compared with the Coq builders; "
               "distinct non-trivial = distinct (size overrides, decoded update) / distinct (event, batch)")
    # --- T1
    try:
        gen_p4info.main(REPO)
        gen_p4const.main(REPO)
        ck.tie("T1: p4info.txt and p4constants.go translated to coq/Gen", True)
        info = gen_p4info.load(os.path.join(REPO, gen_p4info.SRC_REL))
    except (gen_p4info.P4InfoSyntaxError, gen_p4const.P4ConstSyntaxError, OSError, UnicodeDecodeError) as e:
        ck.tie("T1: p4info.txt and p4constants.go translated to coq/Gen", False, str(e)[-800:])
        info = None
    ck.prove(TARGETS)
    if info is None:
        return ck.finish()
    # --- constants and generator
    check_constants(ck, info)
    check_generator(ck, 40 if tier == "quick" else 200)
    # --- writes
    rng = rng_for(seed, "C16")
    if replay is None:
        cases = gen_cases(rng, tier)
    else:
        rc = json.load(open(replay))["case"]
        cases = [rc["scenario"]] if "scenario" in rc else []
    try:
        obs = run_harness(build_harness(), "c16", [{"cfg": c["cfg"], "ops": c["ops"]} for c in cases])
    except HarnessError as e:
        ck.tie("harness builds and runs against the current tree", False, str(e)[-1500:])
        return ck.finish()
    ck.tie("harness builds and runs against the current tree", True)

    dist = {}
    upd_cases = {}        # (sizes key, gallina update) -> [monitor_ok, sample]
    batch_cases = {}      # (event, obs) gallina -> sample
    seg_errors = []
    n_updates = 0

    def bump(k):
        dist[k] = dist.get(k, 0) + 1

    for c, o in zip(cases, obs):
        if "panic" in o or "harness_error" in o:
            ck.fail("panic:harness", f"scenario did not run: {o}", {"scenario": c, "impl": o})
            continue
        sizes = c["cfg"].get("sizes") or {}
        skey = glist([f"({gstr(k)}, {v})" for k, v in sorted(sizes.items())])
        pm = P4Model(info, sizes)
        ag = Agent(c["cfg"])
        bump("scenario:" + c["cls"].split("/")[0])

        def judge(writes, ctx_pdrs, where):
            nonlocal n_updates
            for w in writes:
                for u in w["updates"]:
                    n_updates += 1
                    bad = check_update(pm, u)
                    bump("update:" + u["type"] + ":" + (u.get("table_name") or u.get("meter_name") or u.get("counter_name") or u["kind"]))
                    for m in u.get("match") or []:
                        bump("match:" + m["kind"])
                    if u.get("action_name"):
                        bump("action:" + u["action_name"])
                    key = (skey, g_update(u))
                    if key not in upd_cases and (feed_coq[0] or bad):
                        upd_cases[key] = [not bad, {"scenario": c, "where": where, "update": u}]
                    for sig, msg in bad:
                        if sig == "PreQosPipe.applications:priority-zero":
                            # which PDR was this batch built for? (first update of the batch = its sessions entry)
                            owners = [p for p in ctx_pdrs if owns(p, w["updates"][0], ag)]
                            sig += ":precedence-65535" if owners and all(p["prec"] == 65535 for p in owners) else ":precedence-other"
                        ck.fail(sig, f"invalid P4Runtime write ({where}): {msg}", {"scenario": c, "where": where, "update": u})

        feed_coq = [True]
        judge(o["startup"], [], "start-up")
        pairs, err = segment(ag, {"op": "restart"}, {"writes": o["startup"], "state": {}}, None)
        for ev, ups in pairs:
            batch_cases.setdefault((ev, glist([g_update(u) for u in ups])), {"scenario": c, "where": "start-up"})
        before = {"ctr": {}, "meters": [], "peers": [], "apps": [], "ue": {}}
        for i, (op, oo) in enumerate(zip(c["ops"], o["ops"])):
            where = f"op {i} ({op['op']})"
            if oo.get("panic"):
                ck.fail("panic:" + oo["panic"][:60], f"the plug-in panicked at {where}: {oo['panic']}", {"scenario": c, "op": i})
                break
            ctx = op.get("pdrs") or (ag.sessions.get(op.get("sess"), {}).get("pdrs", []))
            feed_coq[0] = i < c.get("coq_ops", 1 << 30)
            judge(oo["writes"], ctx, where)
            accepted = (op["op"] in ("add", "mod", "del") and oo["cause"] == ACCEPTED) or (op["op"] == "slice" and not oo.get("err")) \
                or (op["op"] == "restart" and not oo.get("err"))
            bump(f"op:{op['op']}:{'accepted' if accepted else 'refused'}")
            if accepted:
                pairs, err = segment(ag, op, oo, before)
                for ev, ups in (pairs if feed_coq[0] else []):
                    batch_cases.setdefault((ev, glist([g_update(u) for u in ups])), {"scenario": c, "where": where})
                if err:
                    seg_errors.append({"scenario": c, "where": where, "error": err})
            if op["op"] in ("add", "mod"):
                ag.sessions[op["sess"]] = op
            elif op["op"] == "del":
                ag.sessions.pop(op["sess"], None)
            elif op["op"] == "restart":
                ag.sessions = {}
            before = oo["state"]
    ck.distribution = dist
    ck.notes["updates_judged"] = n_updates
    ck.notes["write_batches_compared"] = len(batch_cases)
    for key, (ok, sample) in upd_cases.items():
        ck.count("U" + key[0] + key[1], True)
    for key in batch_cases:
        ck.count("B" + key[0] + key[1], True)
    ck.samples = [v[1] for v in list(upd_cases.values())[:2]] + [{"event": k[0], "batch": k[1]} for k in list(batch_cases)[:2]]
    if seg_errors:
        ck.mismatch(f"the Write log of an accepted operation does not follow the modelled control flow: {seg_errors[0]['error']}", seg_errors[0])
    ck.tie("correspondence: every accepted operation's Write log splits into the batches the model expects", not seg_errors,
           f"{len(seg_errors)} operations" if seg_errors else "")
    # --- Coq on the same updates and batches
    ukeys = list(upd_cases)
    bkeys = list(batch_cases)
    terms = [f"CUpd {k[0]} {k[1]} {gbool(upd_cases[k][0])}" for k in ukeys] + [f"CBatch {k[0]} {k[1]}" for k in bkeys]
    try:
        idx = coq_eval_shards("C16", HEADER, terms, shard=500)
        fails = coq_eval_shards("C16s", HEADER, terms, shard=500, result_name="S", expr="spec_failures cases")
    except RuntimeError as e:
        ck.tie("correspondence: Coq valid_update = Python monitor on every update; Coq builders = recorded batches", False, str(e)[-1200:])
        return ck.finish()
    for i in idx:
        if i < len(ukeys):
            k = ukeys[i]
            ck.mismatch(f"Coq valid_update says {not upd_cases[k][0]}, the Python monitor says {upd_cases[k][0]}: {k[1]}", upd_cases[k][1])
        else:
            k = bkeys[i - len(ukeys)]
            ck.mismatch(f"the Coq builders do not produce the recorded batch for {k[0]}: recorded {k[1]}", batch_cases[k])
    coq_bad = {ukeys[i] for i in fails if i < len(ukeys)}
    py_bad = {k for k in ukeys if not upd_cases[k][0]}
    for k in coq_bad - py_bad:     # invalid for Coq although the Python monitor found nothing: report it as a failure of the property
        ck.fail("coq-valid_update:" + (upd_cases[k][1]["update"].get("table_name") or upd_cases[k][1]["update"]["kind"]),
                f"Coq valid_update rejects a recorded update: {k[1]}", upd_cases[k][1])
    ck.notes["updates_invalid_by_coq"] = len(coq_bad)
    ck.tie("correspondence: Coq valid_update = Python monitor on every update; Coq builders = recorded batches", not idx,
           f"{len(idx)} disagreements" if idx else "")
    if idx and not ck.failures:
        # search: a broken correspondence often means an invalid write just outside what was sampled - nothing more to try here than
        # what the monitors already judged (every recorded update); the first disagreeing case is in the replay file
        pass
    return ck.finish()


def owns(p, first_update, ag):
    """Does the batch starting with `first_update` (a sessions_* entry) belong to PDR p?"""
    tn = first_update.get("table_name", "")
    vals = [int(m.get("value", "0")) for m in first_update.get("match") or []]
    if tn == "PreQosPipe.sessions_uplink":
        return p["src_iface"] == ACCESS and vals[:2] == [p["tun_ip"], p["teid"]]
    if tn == "PreQosPipe.sessions_downlink":
        return p["src_iface"] == CORE and vals[:1] == [p["ue"]]
    return False
