"""C15 scenario generator: PFCP histories for the real agent + UP4 plug-in, with Write faults.

A case is {"name", "cfg", "steps": [step]}; a step is {"op": setup|est|mod|del, "hex", "draws", "faults", ...intent}.
The control plane's view (which session a step addresses, what a modification does) stays in the step so
that the monitor can name the shape of a failure."""
import copy

import pfcp as P
import l1

ip = l1.ip
ACCESS_IP = l1.ACCESS_IP
PEER0 = l1.peer_ip(0)

GRPC_UNAVAILABLE, GRPC_UNKNOWN = 14, 2
P4_RESOURCE_EXHAUSTED, P4_ALREADY_EXISTS = 8, 6

# fault kinds used by the exhaustive sweep: name -> harness fault (without "at")
FAULT_KINDS = {
    "grpc": {"kind": "grpc", "code": GRPC_UNAVAILABLE},     # plain gRPC status, convertError returns it unchanged
    "p4": {"kind": "p4", "code": P4_RESOURCE_EXHAUSTED},    # UNKNOWN + one p4.Error per update -> *P4RuntimeError
    "p4ae": {"kind": "p4", "code": P4_ALREADY_EXISTS},      # every update ALREADY_EXISTS (tolerated in the per-PDR batch)
    "unk": {"kind": "grpc", "code": GRPC_UNKNOWN},          # UNKNOWN without details -> *P4RuntimeError with no errors
    "p4mix": {"kind": "p4", "code": P4_RESOURCE_EXHAUSTED, "per": [0, P4_ALREADY_EXISTS]},   # OK, ALREADY_EXISTS, then a real error
}

DEFAULT_SIZES = {"PreQosPipe.pre_qos_counter": 12, "PostQosPipe.post_qos_counter": 12,
                 "PreQosPipe.app_meter": 8, "PreQosPipe.session_meter": 8}

SDFS = ["permit out udp from 8.8.8.0/24 53 to assigned", "permit out tcp from 1.2.3.4 443 to assigned",
        "permit out ip from 10.0.0.0/8 to assigned", "permit out udp from 172.16.5.128/25 4000-4010 to assigned",
        "permit out udp from 9.9.9.9 999 to assigned"]     # the last one is used only by pairs created in a modification
GNBS = [ip(192, 168, 0, 10), ip(192, 168, 0, 11), ip(192, 168, 0, 12), ip(192, 168, 0, 13), ip(192, 168, 0, 14)]


def default_cfg(sizes=None, peer_pool=5, app_pool=5):
    s = dict(DEFAULT_SIZES)
    s.update(sizes or {})
    return {"sizes": s, "peer_pool": peer_pool, "app_pool": app_pool}


class Hist:
    """builds the step list of one case; keeps what the control plane believes it has"""

    def __init__(self, cfg=None, name=""):
        self.cfg = cfg or default_cfg()
        self.name = name
        self.steps = []
        self.seq = 10
        self.n = 0            # sessions established so far (draw = local SEID)
        self.sess = {}        # key -> {"lseid", "pdrs", "fars", "qers"}
        self.setup()

    def _seq(self):
        self.seq += 1
        return self.seq

    def _emit(self, op, raw, draws=None, **intent):
        st = {"op": op, "hex": raw.hex(), "draws": draws or [], "faults": []}
        st.update(intent)
        self.steps.append(st)
        return st

    def setup(self):
        seq = self._seq()
        self._emit("setup", P.message(P.AS_REQ, seq, [P.node_id_v4(PEER0), P.recovery_ts(2000)]), seq=seq)

    def establish(self, key, nq=1, gnb=0, sdf=0, npairs=1, qer_levels=None):
        """session `key`: npairs x (uplink PDR, downlink PDR) sharing nq QERs; downlink FARs encapsulate towards
        GNBS[gnb]; sdf = index into SDFS or None (empty application filter)."""
        self.n += 1
        i = self.n
        lseid = 7000 + i
        ue = ip(10, 60, 0, i)
        qids = list(range(1, nq + 1))
        pdrs, fars = [], []
        for k in range(npairs):
            # PDRs of one session must have distinct match keys (terminations are keyed by UE address + application id):
            # only the first pair may go without a filter
            s = (None if k == 0 else SDFS[(k - 1) % 4]) if sdf is None else SDFS[(sdf + k) % 4]
            ul = {"id": 2 * k + 1, "prec": 100 + k, "iface": 0, "fteid": (0x1000 + 16 * i + k, ACCESS_IP), "ue": ue, "ohr": True,
                  "far": 2 * k + 1, "qers": qids}
            dl = {"id": 2 * k + 2, "prec": 100 + k, "iface": 1, "ue": ue, "far": 2 * k + 2, "qers": qids}
            if s is not None:
                ul["sdf"] = dl["sdf"] = s
            pdrs += [ul, dl]
            fars += [{"id": 2 * k + 1, "action": 2, "fwd": {"dst_if": 1}},
                     {"id": 2 * k + 2, "action": 2, "fwd": {"dst_if": 0, "ohc": (0x2000 + 16 * i + k, GNBS[gnb])}}]
        qers = []
        for q in qids:
            # the QER with the larger uplink MBR becomes the session QER (MarkSessionQer)
            qers.append({"id": q, "qfi": 9, "gate": (0, 0), "mbr": (1000 * q, 2000 * q), "gbr": (0, 0)})
        seq = self._seq()
        ies = [P.node_id_v4(PEER0), P.fseid(500 + i, PEER0)]
        ies += [l1.pdr_ie(P.CREATE_PDR, p) for p in pdrs] + [l1.far_ie(P.CREATE_FAR, f) for f in fars]
        ies += [l1.qer_ie(P.CREATE_QER, q) for q in qers]
        self.sess[key] = {"lseid": lseid, "pdrs": pdrs, "fars": fars, "qers": qers, "gnb": gnb}
        return self._emit("est", P.message(P.SE_REQ, seq, ies, seid=0), draws=[lseid], seq=seq, key=key, lseid=lseid)

    def retry(self, key):
        """the control plane repeats the establishment of `key` (same rules, same addresses, new sequence number)"""
        s = self.sess[key]
        self.n += 1
        lseid = 7000 + self.n
        seq = self._seq()
        ies = [P.node_id_v4(PEER0), P.fseid(500 + self.n, PEER0)]
        ies += [l1.pdr_ie(P.CREATE_PDR, p) for p in s["pdrs"]] + [l1.far_ie(P.CREATE_FAR, f) for f in s["fars"]]
        ies += [l1.qer_ie(P.CREATE_QER, q) for q in s["qers"]]
        s2 = dict(s)
        s2["lseid"] = lseid
        self.sess[key + "'"] = s2
        return self._emit("est", P.message(P.SE_REQ, seq, ies, seid=0), draws=[lseid], seq=seq, key=key + "'", lseid=lseid)

    def delete(self, key):
        s = self.sess[key]
        seq = self._seq()
        return self._emit("del", P.message(P.SD_REQ, seq, [], seid=s["lseid"]), seq=seq, key=key, lseid=s["lseid"])

    def modify(self, key, kind, gnb=None):
        """one modification; c_* / u_* = ids of the rules it creates / updates"""
        s = self.sess[key]
        seq = self._seq()
        ies = []
        ids = {"c_pdrs": [], "c_fars": [], "c_qers": [], "u_pdrs": [], "u_fars": [], "u_qers": []}
        if kind == "upd_far":          # downlink FAR now encapsulates towards another gNB (new tunnel peer)
            nf = {"id": 2, "action": 2, "fwd": {"dst_if": 0, "ohc": (0x3000 + s["lseid"] % 256, GNBS[gnb])}}
            ies.append(l1.far_ie(P.UPDATE_FAR, nf))
            ids["u_fars"] = [2]
        elif kind == "add_pair":       # Create PDR x2 + Create FAR x2 in a modification
            k = len(s["pdrs"]) // 2
            ue = s["pdrs"][1]["ue"]
            i = s["lseid"] - 7000
            qs = [q["id"] for q in s["qers"]]
            ul = {"id": 2 * k + 1, "prec": 300, "iface": 0, "fteid": (0x1000 + 16 * i + k, ACCESS_IP), "ue": ue, "ohr": True,
                  "far": 2 * k + 1, "qers": qs, "sdf": SDFS[4]}
            dl = {"id": 2 * k + 2, "prec": 300, "iface": 1, "ue": ue, "far": 2 * k + 2, "qers": qs, "sdf": SDFS[4]}
            fu = {"id": 2 * k + 1, "action": 2, "fwd": {"dst_if": 1}}
            fd = {"id": 2 * k + 2, "action": 2, "fwd": {"dst_if": 0, "ohc": (0x2000 + 16 * i + k, GNBS[s["gnb"] if gnb is None else gnb])}}
            ies += [l1.pdr_ie(P.CREATE_PDR, ul), l1.pdr_ie(P.CREATE_PDR, dl), l1.far_ie(P.CREATE_FAR, fu), l1.far_ie(P.CREATE_FAR, fd)]
            ids["c_pdrs"] = [ul["id"], dl["id"]]
            ids["c_fars"] = [fu["id"], fd["id"]]
        elif kind == "upd_qer":
            q = dict(s["qers"][0])
            q["mbr"] = (777, 888)
            ies.append(l1.qer_ie(P.UPDATE_QER, q))
            ids["u_qers"] = [q["id"]]
        elif kind == "upd_qer_remark":
            # Update QER that lifts the flow QER above every other QER of the session: MarkSessionQer now picks it, so the stored QER
            # is labelled session-level while its meter cell came from the application pool
            q = dict(s["qers"][0])
            q["mbr"] = (1000 * len(s["qers"]) + 5000, 2000 * len(s["qers"]) + 5000)
            ies.append(l1.qer_ie(P.UPDATE_QER, q))
            ids["u_qers"] = [q["id"]]
        elif kind == "upd_pdr":        # Update PDR (new precedence) of both PDRs of the first pair
            for p0 in s["pdrs"][:2]:
                p = dict(p0)
                p["prec"] = 77
                ies.append(l1.pdr_ie(P.UPDATE_PDR, p))
                ids["u_pdrs"].append(p["id"])
        else:
            raise ValueError(kind)
        return self._emit("mod", P.message(P.SM_REQ, seq, ies, seid=s["lseid"]), seq=seq, key=key, lseid=s["lseid"], kind=kind, **ids)

    def tail(self):
        """two further sessions that would receive any wrongly recycled identifier: fresh peers and filters,
        one QER (two application cells) and two QERs (one application + two session cells)"""
        self.establish("T1", nq=1, gnb=3, sdf=2)
        self.establish("T2", nq=2, gnb=4, sdf=3)

    def case(self):
        return {"name": self.name, "cfg": self.cfg, "steps": copy.deepcopy(self.steps)}


# the 9-scenario family of DESIGN.md section 5 / C15 (+ S10, the Update PDR modification)
def family():
    out = []

    def add(name, build, cfg=None):
        h = Hist(cfg, name)
        build(h)
        out.append(h)

    add("S1-est-1qer", lambda h: h.establish("A", nq=1))
    add("S2-est-2qer", lambda h: h.establish("A", nq=2))
    add("S3-two-shared", lambda h: (h.establish("A", nq=1, gnb=0, sdf=0), h.establish("B", nq=1, gnb=0, sdf=0)))
    add("S4-two-distinct", lambda h: (h.establish("A", nq=2, gnb=0, sdf=0), h.establish("B", nq=2, gnb=1, sdf=1)),
        default_cfg({"PreQosPipe.session_meter": 10}, 6, 6))
    add("S5-mod-far-peer", lambda h: (h.establish("A", nq=1), h.modify("A", "upd_far", gnb=1)))
    add("S6-mod-add-pair", lambda h: (h.establish("A", nq=1), h.modify("A", "add_pair", gnb=1)))
    add("S7-mod-upd-qer", lambda h: (h.establish("A", nq=1), h.modify("A", "upd_qer")))
    add("S8-delete", lambda h: (h.establish("A", nq=2), h.delete("A")))
    add("S9-est-del-est", lambda h: (h.establish("A", nq=2, gnb=0, sdf=0), h.delete("A"), h.establish("A2", nq=2, gnb=0, sdf=0)))
    add("S10-mod-upd-pdr", lambda h: (h.establish("A", nq=1), h.modify("A", "upd_pdr")))
    # shared peer and filter, one of the two sessions is deleted: the shared ids must stay
    add("S11-shared-delete", lambda h: (h.establish("A", nq=1, gnb=0, sdf=0), h.establish("B", nq=2, gnb=0, sdf=0), h.delete("A")))
    # re-marking: after the Update QER the stored flow QER carries the session label; ending the session must return its cell to the pool it came from
    add("S12-mod-remark-delete", lambda h: (h.establish("A", nq=2), h.modify("A", "upd_qer_remark"), h.delete("A")))
    # a live session's downlink FAR is sent again towards the SAME gNB (the tunnel peer exists: MODIFY); whatever happens to that
    # write, A keeps its reference: a second session sharing the peer comes and goes, then so many new peers arrive that the
    # four-id FIFO pool comes round - a peer id released behind A's back would be handed to the last of them
    add("S13-resend-far-shared-come-go",
        lambda h: (h.establish("A", nq=1, gnb=0, sdf=0), h.modify("A", "upd_far", gnb=0), h.establish("B", nq=1, gnb=0, sdf=0),
                   h.delete("B"), h.establish("C", nq=1, gnb=1, sdf=1), h.establish("D", nq=1, gnb=2, sdf=2)),
        default_cfg({"PreQosPipe.app_meter": 14, "PreQosPipe.pre_qos_counter": 16, "PostQosPipe.post_qos_counter": 16}, 4, 6))
    add("M3-remark-tiny-session-meter", lambda h: (h.establish("A", nq=2), h.modify("A", "upd_qer_remark"), h.delete("A"), h.establish("B", nq=2, gnb=1, sdf=1)),
        default_cfg({"PreQosPipe.session_meter": 3}))
    # migration probes: one pool kind has just two cells, so a cell released into the wrong pool is either out of
    # range there or collides with a cell that is in use
    add("M1-tiny-session-meter", lambda h: (h.establish("A", nq=2), h.establish("B", nq=1, gnb=1, sdf=1)),
        default_cfg({"PreQosPipe.session_meter": 3}))
    add("M2-tiny-app-meter", lambda h: (h.establish("A", nq=2), h.establish("B", nq=2, gnb=1, sdf=1)),
        default_cfg({"PreQosPipe.app_meter": 3}))
    return out
