"""UP4 leg of the agent-level checks (C14, C05, C01): PFCP histories for the real agent whose datapath is the REAL UP4
plug-in connected to the in-process P4Runtime server (harness mode "c14", harness/go/verif_c14_test.go).

The PFCP side and the UP4 envelope are those of tools/l1.py / tools/props/c04.py (Gen04: precedence <= 65535, one UE
address per session, the downlink FARs of a session agree on gNB and action, filters shared between sessions carry one
precedence).  Added here: Update FAR with the send-end-marker flag (the control plane's view yields the End Markers the
property demands: old peer, old TEID, sourced from the N3 address), Write faults armed on the k-th Write RPC of an
event, and the C14 monitor for the UP4 world, stated on what the real code did:
  * PacketOut messages received by the switch, decoded (Ethernet / IPv4 / UDP / GTPv1-U), each stamped with the number
    of Write RPCs the switch had received when the packet arrived;
  * the order of the agent's calls into the datapath interface (SendMsgToUPF, SendEndMarkers) and their results;
  * the PFCP answers."""
import copy
from concurrent.futures import ThreadPoolExecutor

from lib import *
import l1
import pfcp as P
from props.c04 import Gen04, GNBS, FILTERS, up4_reference

SMALL = {"PreQosPipe.pre_qos_counter": 16, "PostQosPipe.post_qos_counter": 16, "PreQosPipe.app_meter": 12, "PreQosPipe.session_meter": 12}
OK, NOT_FOUND, ALREADY_EXISTS, EXHAUSTED = 0, 5, 6, 8

# answers of the switch to one Write RPC.  "fails" = the update did not take place (a status other than OK /
# ALREADY_EXISTS for some update, or the whole RPC failed)
FAULTS = {
    "grpc-unavailable": {"kind": "grpc", "code": 14},
    "grpc-unknown-no-details": {"kind": "grpc", "code": 2},
    "p4:[NOT_FOUND..]": {"kind": "p4", "code": NOT_FOUND},
    "p4:[OK,NOT_FOUND..]": {"kind": "p4", "code": NOT_FOUND, "per": [OK]},
    "p4:[NOT_FOUND,OK..]": {"kind": "p4", "code": OK, "per": [NOT_FOUND]},
    "p4:[ALREADY_EXISTS,NOT_FOUND..]": {"kind": "p4", "code": NOT_FOUND, "per": [ALREADY_EXISTS]},
    "p4:[OK,RESOURCE_EXHAUSTED..]": {"kind": "p4", "code": EXHAUSTED, "per": [OK]},
    "p4:[OK,ALREADY_EXISTS,NOT_FOUND..]": {"kind": "p4", "code": NOT_FOUND, "per": [OK, ALREADY_EXISTS]},
}
FAULT_NAMES = sorted(FAULTS)


def up4_cfg(rng=None, sizes=SMALL, **kw):
    u = {"sizes": dict(sizes or {}), "slice": 0, "tc": 0, "qfi_tc": [], "peer_pool": 0, "app_pool": 0}
    if rng is not None:
        u.update(slice=rng.choice([0, 1, 7, 15]), tc=rng.randrange(4), qfi_tc=[[q, rng.randrange(4)] for q in (0, 5, 9, 63) if rng.random() < 0.5])
    u.update(kw)
    return u


def fault(name, at):
    f = dict(FAULTS[name])
    f["at"] = at
    f["name"] = name
    return f


class GenU(Gen04):
    """Gen04 + end-marker updates + Write faults.  The view (self.sessions) follows accepted requests only: a request
    whose Write is made to fail is expected to be rejected and leaves the view alone."""

    def __init__(self, rng, cfg=None, nconn=2):
        super().__init__(rng, cfg or l1.default_cfg(end_marker=True), nconn)
        self.tainted = set()      # sessions a failed modification has touched (their stored rules are no longer the view's)

    def arm(self, *faults):
        """Write faults for the event emitted last"""
        self.events[-1]["faults"] = list(faults)
        self.intents[-1]["faults"] = list(faults)

    def old_marker(self, far_spec, lseid):
        with up4_reference():
            o = l1.ref_far(far_spec, lseid)
        return {"src": o["tsrc"], "dst": o["tdst"], "teid": o["teid"]}

    def upd_far_em(self, lseid, gnb=None, flags=2, fids=None, repeat=False, action=2, fail=None, kind=None):
        """Update FAR of the downlink FARs `fids` (default: all, they share the sessions_downlink entry): new TEID, gNB `gnb`
        (default: the session's), PFCPSMReq-Flags `flags` (None = no flags IE; bit 2 = SNDEM).  repeat: the first FAR is
        updated a second time in the same message.  fail = list of faults: the request is expected to be rejected and
        nothing of the view changes."""
        s = self.sessions[lseid]
        m = self.meta[lseid]
        gnb = m["gnb"] if gnb is None else gnb
        fids = sorted(f for f in s["fars"] if f % 2 == 0) if fids is None else fids
        cur = {f: copy.deepcopy(s["fars"][f]) for f in fids}
        ies, markers = [], []
        seq_ids = list(fids) + ([fids[0]] if repeat else [])
        for fid in seq_ids:
            nf = {"id": fid, "action": action, "fwd": {"dst_if": 0, "ohc": (self._teid(), gnb)}}
            if flags is not None:
                nf["fwd"]["smflags"] = flags
            if self.rng.random() < 0.3:
                nf["perm"] = self.rng.randrange(1, 1 << 30)
            ies.append(l1.far_ie(P.UPDATE_FAR, nf))
            if flags is not None and flags & 2:
                markers.append(self.old_marker(cur[fid], lseid))
            cur[fid] = nf
        kind = kind or ("em" if flags is not None and flags & 2 else "noem") + (":handover" if gnb != m["gnb"] else ":teid") + (":repeat" if repeat else "")
        seq = self._seq()
        intent = {"op": "mod", "seq": seq, "req": P.SM_REQ, "wf": True, "lseid": lseid, "kind": kind, "cp_seid": s["cp_seid"],
                  "expect": "reject-write" if fail else "accept", "markers": [] if fail else markers, "markers_ok": markers, "flagged": len(markers)}
        self.emit(s["conn"], P.message(P.SM_REQ, seq, ies, seid=lseid), intent)
        if fail:
            self.arm(*fail)
            self.tainted.add(lseid)
        else:
            for fid in fids:
                s["fars"][fid] = cur[fid]
            if action & 2:
                m["gnb"] = gnb
        return intent

    def reconnect(self, now=False):
        """the P4Runtime channel is lost; now=True: re-established at once, else by the next request that reaches the datapath"""
        self.events.append({"k": "reconnect", "now": now})
        self.intents.append({"op": "reconnect", "kind": "now" if now else "lazy"})

    def upd_far_unknown_em(self, lseid):
        s = self.sessions[lseid]
        seq = self._seq()
        ies = [l1.far_ie(P.UPDATE_FAR, {"id": 9999, "action": 2, "fwd": {"dst_if": 0, "ohc": (self._teid(), GNBS[0]), "smflags": 2}})]
        self.emit(s["conn"], P.message(P.SM_REQ, seq, ies, seid=lseid),
                  {"op": "mod", "seq": seq, "req": P.SM_REQ, "wf": True, "lseid": lseid, "kind": "em:unknown-far", "cp_seid": s["cp_seid"],
                   "expect": "accept", "markers": [], "flagged": 0})

    def _drop_conn(self, conn):
        for l in [l for l, s in self.sessions.items() if s["conn"] == conn]:
            self.tainted.discard(l)
        super()._drop_conn(conn)


def finish(g, up4, tag=None, name=""):
    return {"tag": tag, "name": name, "input": {"cfg": g.cfg, "up4": up4, "events": g.events}, "intents": g.intents}


# =========================================================================================== running

def run_up4(binary, cases, workers=10, tag="up4"):
    """cases: list of harness inputs -> list of harness outputs ({"boot":..,"obs":[..]} or {"world_err":..})"""
    if not cases:
        return []
    k = max(1, min(workers, (len(cases) + 5) // 6))
    chunks = [cases[i::k] for i in range(k)]

    def job(j):
        return run_harness(binary, "c14", chunks[j], tag=f"{tag}_{j}", timeout=1200)

    with ThreadPoolExecutor(max_workers=k) as ex:
        res = list(ex.map(job, range(k)))
    out = [None] * len(cases)
    for j in range(k):
        for i, o in enumerate(res[j]):
            out[j + i * k] = o
    # a world that did not come up (start-up Read timed out on a loaded machine) says nothing about the property: once more, alone
    for _ in range(2):
        redo = [i for i, o in enumerate(out) if isinstance(o, dict) and "world_err" in o]
        if not redo:
            break
        again = run_harness(binary, "c14", [cases[i] for i in redo], tag=f"{tag}_redo", timeout=1200)
        for i, o in zip(redo, again):
            out[i] = o
    return out


def confirmed(binary, case, sig, mon, tries=2):
    """a failure seen in a parallel run is reported only if it shows again when the history runs alone (a loaded machine can delay a
    PacketOut beyond the harness' wait; a real defect reproduces).  mon(case, out) -> [(signature, message, event)]"""
    for _ in range(tries):
        try:
            o = run_harness(binary, "c14", [case["input"]], tag="up4_confirm", timeout=600)[0]
        except HarnessError:
            return True
        if not any(s2 == sig for s2, _, _ in mon(case, o)):
            return False
    return True


def write_failed(w):
    """did this Write RPC fail (some update did not take place)?  An answer made only of OK / ALREADY_EXISTS statuses is
    the 'already there' the agent tolerates by design."""
    if w["code"] == 0 and not w["faulted"]:
        return False
    if w["code"] == 2 and w["ups"] and not (w["faulted"] and all(u["st"] == 0 for u in w["ups"])):
        return not all(u["st"] in (OK, ALREADY_EXISTS) for u in w["ups"])
    return True


def died(out):
    """-> (signature, message, event index) if the world did not come up or an event panicked / blocked"""
    if "obs" not in out:
        return ("up4:world-did-not-start", f"the agent did not come up against the switch: {str(out)[:300]}", 0)
    for i, o in enumerate(out["obs"]):
        if "panic" in o:
            kind = "".join(ch for ch in o["panic"].split("[")[0] if not ch.isdigit()).strip()
            return (f"up4:panic:{o.get('func', '?')}:{kind}", f"event {i} panicked: {o['panic']} @ {o.get('frame')}", i)
        if o.get("blocked"):
            return ("up4:blocked", f"event {i} did not return within 8 s (receive loop wedged); datapath calls so far: {o.get('dp')}", i)
    return None


# =========================================================================================== C14 on the UP4 world

def mon_c14_up4(case, out):
    """-> list of (signature, message, event index)"""
    res = []
    d = died(out)
    if d:
        return [d]
    enabled = case["input"]["cfg"]["end_marker"]
    if out["boot"].get("em_chan") != enabled:
        res.append(("up4:end-marker-sender", f"end markers enabled = {enabled} but the plug-in's sender queue exists = {out['boot'].get('em_chan')}", 0))
    for i, (it, o) in enumerate(zip(case["intents"], out["obs"])):
        desc = f"event {i} ({it.get('op')}/{it.get('kind', '')})"
        rs = l1.replies_of(o)
        cause = rs[0][1].get("cause") if rs else None
        pk = o.get("pkts", [])
        got = [{"src": p["m"].get("src"), "dst": p["m"].get("dst"), "teid": p["m"].get("teid")} for p in pk]
        handed = [m for c in o["dp"] if c["k"] == "markers" for m in c.get("marks", [])]
        failed = [(k, w) for k, w in enumerate(o["writes"]) if write_failed(w)]
        is_mod = it.get("op") == "mod"
        # every End Marker has the shape the statement gives
        for p in pk:
            m = p["m"]
            if m.get("sport") != 2152 or m.get("dport") != 2152 or m.get("gtp_type") != 254:
                res.append(("up4:end-marker-shape", f"{desc}: malformed End Marker PacketOut {m}", i))
        # failed updates emit none (and are not answered 'accepted')
        if is_mod and failed:
            k, w = failed[0]
            what = f"Write #{k + 1} of the modification failed (code {w['code']}, statuses {[u['st'] for u in w['ups']]})"
            if got or handed:
                res.append(("up4:end-marker-after-failed-update", f"{desc}: {what}, yet End Markers were emitted: {got or handed}", i))
            if cause == P.CAUSE_ACCEPTED:
                res.append(("up4:failed-update-accepted", f"{desc}: {what}, yet the modification was answered 'accepted'", i))
            continue
        want = []
        if is_mod and enabled and cause == P.CAUSE_ACCEPTED and it.get("expect") == "accept":
            want = it.get("markers", [])
        tolerated = is_mod and it.get("expect") == "reject-write" and cause == P.CAUSE_ACCEPTED
        if tolerated and enabled:
            # the armed answer consisted of OK / ALREADY_EXISTS only (a batch shorter than the status list): no update failed
            want = it.get("markers_ok", [])
        if is_mod and it.get("expect") == "accept" and cause != P.CAUSE_ACCEPTED:
            res.append(("up4:valid-update-rejected", f"{desc}: a modification inside the envelope, no Write failed, answered with cause {cause}", i))
            continue
        if got != want:
            sig = "up4:end-markers"
            if not enabled and got:
                sig = "up4:end-markers-while-disabled"
            elif not is_mod and got:
                sig = "up4:end-marker-without-modification"
            res.append((sig, f"{desc}: End Marker PacketOuts {got}, expected {want}", i))
            continue
        if not enabled and handed:
            res.append(("up4:end-markers-handed-over-while-disabled", f"{desc}: {len(handed)} End Markers handed to the plug-in although end markers are "
                        "disabled (its queue does not exist: the hand-over never returns)", i))
        # ... after the new rule has been programmed: at the datapath interface the hand-over follows the accepted
        # SendMsgToUPF(Mod); at the switch every PacketOut arrives after the Writes of that call
        if got:
            mods = [c for c in o["dp"] if c["k"] == "send" and c["m"] == 1]
            pos_send = next((j for j, c in enumerate(o["dp"]) if c["k"] == "send" and c["m"] == 1), None)
            pos_mark = next((j for j, c in enumerate(o["dp"]) if c["k"] == "markers" and c.get("marks")), None)
            if not mods or pos_mark is None or pos_send is None or pos_mark < pos_send or not mods[0]["done"] or mods[0]["cause"] != P.CAUSE_ACCEPTED:
                res.append(("up4:end-marker-before-write", f"{desc}: End Markers handed to the datapath before / without an accepted update: calls {o['dp']}", i))
            elif mods[0]["w1"] == mods[0]["w0"]:
                res.append(("up4:end-marker-without-write", f"{desc}: End Markers emitted although the update wrote nothing to the switch", i))
            elif any(p["w"] < mods[0]["w1"] for p in pk):
                res.append(("up4:end-marker-before-write", f"{desc}: a PacketOut arrived after {[p['w'] for p in pk]} Writes, the update's last Write is "
                            f"#{mods[0]['w1']}", i))
    if len(out["obs"]) < len(case["input"]["events"]) and not res:
        res.append(("up4:history-cut", "harness stopped early without a recorded reason", len(out["obs"])))
    return res


def c14_family(rng):
    """deterministic scenarios, each later swept with a fault at every Write of its last modification"""
    out = []

    def hist(name, build, em=True, up4=None):
        g = GenU(random.Random(f"c14-{name}"), l1.default_cfg(end_marker=em))
        g.setup(0)
        build(g)
        out.append(finish(g, up4 or up4_cfg(), name=name))

    def one(nq, pairs=1, filters=None):
        def b(g):
            l = g.est04(0, npairs=pairs, nqers=nq, gnb=GNBS[0], dl_action=2, filters=filters)
            g.upd_far_em(l, gnb=GNBS[1], flags=2)
        return b
    hist("handover-0qer", one(0))
    hist("handover-1qer", one(1))
    hist("handover-2qer-filter", one(2, filters=[1]))
    hist("handover-2pairs", one(1, pairs=2, filters=[None, 0]))

    def same_gnb(g):
        l = g.est04(0, npairs=1, nqers=1, gnb=GNBS[0], dl_action=2, choose=True)
        g.upd_far_em(l, flags=3)
    hist("new-teid-same-gnb", same_gnb)

    def second(g):
        l = g.est04(0, npairs=1, nqers=1, gnb=GNBS[0], dl_action=2)
        g.upd_far_em(l, gnb=GNBS[1], flags=2)
        g.upd_far_em(l, gnb=GNBS[2], flags=2)
    hist("second-handover", second)

    # the P4Runtime channel is lost and re-established (new P4rtClient, new StreamChannel, same switch) between flagged updates:
    # the marker after the re-connect must reach the switch like the one before it
    def recon(now, twice=False, new_session=False):
        def b(g):
            l = g.est04(0, npairs=1, nqers=1, gnb=GNBS[0], dl_action=2)
            g.upd_far_em(l, gnb=GNBS[1], flags=2)
            g.reconnect(now)
            if twice:
                g.heartbeat(0)
                g.reconnect(not now)
            if new_session:
                l = g.est04(0, npairs=1, nqers=0, gnb=GNBS[3], dl_action=2, filters=[2])
            g.upd_far_em(l, gnb=GNBS[2], flags=2)
        return b
    hist("reconnect-lazy-between-handovers", recon(False))
    hist("reconnect-now-between-handovers", recon(True))
    hist("reconnect-twice-between-handovers", recon(False, twice=True))
    hist("reconnect-then-new-session-handover", recon(True, new_session=True))
    return out


def c14_corpus():
    """fixed scenarios reproducing recorded findings of the unchanged tree (their failures carry the tag)"""
    out = []
    # F1401: a flagged handover whose Write fails is rejected, but UpdateFAR has already overwritten the stored FAR in place (the working
    # slices alias the stored session, F12); the next flagged update takes its "old tunnel" from there: the End Marker goes to the
    # tunnel of the FAILED update, which was never programmed, instead of the tunnel the rule uses
    g = GenU(random.Random("c14-corpus-F1401"), l1.default_cfg(end_marker=True))
    g.setup(0)
    l = g.est04(0, npairs=1, nqers=1, gnb=GNBS[0], dl_action=2)
    g.upd_far_em(l, gnb=GNBS[1], flags=2, fail=[fault("p4:[OK,NOT_FOUND..]", 2)])
    g.upd_far_em(l, gnb=GNBS[2], flags=2)
    out.append(finish(g, up4_cfg(), tag="F1401", name="F1401"))
    return out


def c14_sweep(bases, outs):
    """for every base scenario: the last modification again, once per (Write position k, answer)"""
    cases = []
    for b, o in zip(bases, outs):
        if "obs" not in o or len(o["obs"]) != len(b["input"]["events"]):
            continue
        j = len(b["input"]["events"]) - 1
        W = len(o["obs"][j]["writes"])
        for k in range(1, W + 1):
            for name in FAULT_NAMES:
                c = copy.deepcopy(b)
                f = fault(name, k)
                c["input"]["events"][j]["faults"] = [f]
                c["intents"][j].update(expect="reject-write", markers_ok=c["intents"][j].get("markers", []), markers=[], faults=[f])
                c["name"] = f"{b['name']}/w{k}/{name}"
                cases.append(c)
    return cases


def c14_random(rng, em=None):
    """random history: sessions inside the UP4 envelope, FAR updates with / without the flag (new TEID, handover, several
    FARs, a FAR twice in one message, unknown FAR), other modifications, failing Writes, endings"""
    em = (rng.random() < 0.8) if em is None else em
    g = GenU(rng, rng.choice([l1.default_cfg(end_marker=em), l1.default_cfg(end_marker=em, ueip_alloc=False, pool="")]))
    for c in range(g.nconn):
        g.setup(c)
    for _ in range(rng.choice([6, 10, 10, 16])):
        r = rng.random()
        live = [l for l in g.sessions if l not in g.tainted]
        fwd = [l for l in live if g.meta[l]["gnb"] is not None]
        conns = [c for c in range(g.nconn) if g.assoc.get(c)]
        if (r < 0.25 or not live) and len(g.sessions) < 4 and conns:
            npairs = rng.choice([1, 1, 2])
            filt = [None] if npairs == 1 else [None, rng.randrange(len(FILTERS))]
            if npairs == 1 and rng.random() < 0.4:
                filt = [rng.randrange(len(FILTERS))]
            g.est04(rng.choice(conns), npairs=npairs, nqers=rng.choice([0, 1, 2]), gnb=rng.choice(GNBS), dl_action=rng.choice([2, 2, 2, 12]),
                    filters=filt, chv4=g.cfg["ueip_alloc"] and npairs == 1 and rng.random() < 0.4, choose=rng.random() < 0.4)
        elif r < 0.70 and fwd:
            l = rng.choice(fwd)
            fids = sorted(f for f in g.sessions[l]["fars"] if f % 2 == 0)
            flags = rng.choice([2, 2, 2, 3, 6, 1, 0, None])
            gnb = rng.choice([None, None] + GNBS)
            fail = None
            if rng.random() < 0.25:
                # (answers that fail a batch of any length: the view must know whether the request is rejected)
                fail = [fault(rng.choice([n for n in FAULT_NAMES if "ALREADY_EXISTS,NOT_FOUND" not in n or n.startswith("p4:[ALREADY")]), rng.choice([1, 2, 2, 3, 3]))]
            g.upd_far_em(l, gnb=gnb, flags=flags, fids=fids, repeat=rng.random() < 0.2, fail=fail)
        elif r < 0.75 and live:
            g.upd_far_unknown_em(rng.choice(live))
        elif r < 0.85 and live:
            l = rng.choice(live)
            if g.meta[l]["gnb"] is None:
                g.meta[l]["gnb"] = rng.choice(GNBS)
                g.upd_dl_fars(l, 2, g.meta[l]["gnb"], "assign")
            elif g.sessions[l]["qers"] and rng.random() < 0.5:
                g.upd_qer(l)
            else:
                g.upd_ul_far(l, rng.choice([1, 2]))
        elif r < 0.92 and g.sessions:
            dl = [l for l in g.sessions if g.deletable(l) and l not in g.tainted]
            if dl:
                g.delete(rng.choice(dl))
        elif r < 0.94:
            g.heartbeat(rng.randrange(g.nconn))
        elif r < 0.96:
            g.reconnect(rng.random() < 0.5)
        elif conns:
            c = rng.choice(conns)
            if g.conn_endable(c):
                (g.release if rng.random() < 0.5 else g.teardown)(c)
    return finish(g, up4_cfg(rng), name="random")
