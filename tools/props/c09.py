"""C09 - QoS is enforced as signalled; the session-wide limiter is chosen soundly."""
import itertools
from fractions import Fraction
from lib import *

TARGETS = ["Props/C09.vo", "Run/Eval_C09.vo"]
HEADER = ("From Coq Require Import NArith List Bool.\nFrom UPF Require Import Model.Qer Run.Eval_C09.\n"
          "Import ListNotations.\nOpen Scope N_scope.\n")

U64 = 1 << 64
R40 = (1 << 40) - 1
DEFAULT_BURST = 32 * 1514
RATES = [0, 1, 7, 8, R40]
DURS = [0, 1, 10, 87, 1000, (1 << 32) - 1]
BURSTS = [None, 0, 2048, (1 << 32) - 1]


# ------------------------------------------------------------------------------------------------
# float-free reference for calcBurstSizeFromRate: IEEE binary64 round-to-nearest-even on exact
# rationals (used only to *name* a shortfall as the known truncation effect, never to excuse one)

def rn64(x):
    """x: non-negative Fraction -> nearest binary64 value as a Fraction (ties to even); no overflow/underflow here."""
    if x == 0:
        return Fraction(0)
    n, d = x.numerator, x.denominator
    e = n.bit_length() - d.bit_length()          # 2^(e-1) <= x < 2^(e+1)
    if Fraction(1 << e if e >= 0 else 1, 1 if e >= 0 else 1 << -e) > x:
        e -= 1                                   # now 2^e <= x < 2^(e+1)
    sh = 52 - e                                  # scale so that the significand has 53 bits
    y = x * (Fraction(1 << sh) if sh >= 0 else Fraction(1, 1 << -sh))
    q, r = divmod(y.numerator, y.denominator)
    twice = 2 * r
    if twice > y.denominator or (twice == y.denominator and q & 1):
        q += 1
    return Fraction(q) / (Fraction(1 << sh) if sh >= 0 else Fraction(1, 1 << -sh))


def float_burst(kbps, ms):
    """What uint64((float64(kbps) * 1000 / 8) * (float64(ms) / 1000)) evaluates to, in exact arithmetic."""
    a = rn64(rn64(rn64(Fraction(kbps)) * 1000) / 8)
    b = rn64(rn64(Fraction(ms)) / 1000)
    v = int(rn64(a * b))
    return v if v < U64 else 1 << 63


def burst_exact(kbps, ms):
    return kbps * 125 * ms // 1000


# ------------------------------------------------------------------------------------------------
# generators

def Q(id, level=0, qfi=9, uls=0, dls=0, ulmbr=0, dlmbr=0, ulgbr=0, dlgbr=0, fseid=1):
    return {"id": id, "level": level, "qfi": qfi, "uls": uls, "dls": dls, "ulmbr": ulmbr, "dlmbr": dlmbr,
            "ulgbr": ulgbr, "dlgbr": dlgbr, "fseid": fseid}


def IE(id, mbr=None, gbr=None, qfi=9, gate=0):
    return {"id": id, "qfi": qfi, "gate": gate, "mbr": mbr, "gbr": gbr}


def conf_variants(rng):
    """per-QFI burst configurations: {absent, 0, small, 2^32-1} x durations"""
    out = [[]]
    for b in BURSTS[1:]:
        for d in DURS:
            out.append([{"qci": 5, "cbs": b, "pbs": b, "ebs": b, "dur": d}])
    # distinct fields (so that a swapped field shows), entry 0 configured, duplicate QCI (last wins)
    out.append([{"qci": 5, "cbs": 3000, "pbs": 4000, "ebs": 5000, "dur": 87}])
    out.append([{"qci": 5, "cbs": 5000, "pbs": 3000, "ebs": 4000, "dur": 10}])
    out.append([{"qci": 5, "cbs": 4000, "pbs": 5000, "ebs": 3000, "dur": 10}])
    out.append([{"qci": 0, "cbs": 100, "pbs": 200, "ebs": 300, "dur": 1000}])
    out.append([{"qci": 0, "cbs": 100000, "pbs": 200000, "ebs": 300000, "dur": 1},
                {"qci": 5, "cbs": 1, "pbs": 2, "ebs": 3, "dur": 87}])
    out.append([{"qci": 5, "cbs": 1, "pbs": 2, "ebs": 3, "dur": 87}, {"qci": 5, "cbs": 70000, "pbs": 80000, "ebs": 90000, "dur": 10}])
    out.append([{"qci": 63, "cbs": 60000, "pbs": 70000, "ebs": 80000, "dur": 100},
                {"qci": 9, "cbs": 50000, "pbs": 50001, "ebs": 50002, "dur": 20}])
    return out


def gen_calc(rng, tier):
    cases = [{"kind": "calc", "kbps": 42056, "ms": 87, "gbr": 0}]          # the F17 witness
    rates = sorted(set(RATES + [9, 999, 1000, 1001, 1 << 20, (1 << 32) - 1, 1 << 32, R40 - 1, 1 << 39]))
    for k in rates:
        for ms in DURS + [2, 3, 999, 1001]:
            cases.append({"kind": "calc", "kbps": k, "ms": ms, "gbr": rng.choice(RATES)})
    n = 1500 if tier == "quick" else 30000
    for _ in range(n):
        k = rng.getrandbits(rng.choice([8, 16, 24, 32, 40, 40, 40]))
        ms = rng.choice([10, 10, 87, rng.randrange(1, 2000), rng.getrandbits(32), rng.getrandbits(16)])
        cases.append({"kind": "calc", "kbps": k, "ms": ms, "gbr": rng.getrandbits(40)})
    # beyond the 40-bit envelope (direct calls only): wrap of *1000, float64(uint64) above 2^63, out-of-range result
    for k in [(1 << 54) + 12345, (1 << 63) - 1, 1 << 63, (1 << 63) + 1025, U64 - 1, U64 // 1000, U64 // 1000 + 1]:
        for ms in [10, 1000, (1 << 32) - 1]:
            cases.append({"kind": "calc", "kbps": k, "ms": ms, "gbr": 0, "beyond": True})
    return cases


def gen_parse(rng, tier):
    cases = []
    rates = [None, [0, 0], [1, 7], [8, R40], [R40, R40]]
    for idv in (None, 0, 1, (1 << 32) - 1):
        for qfi in (None, 0, 9, 63, 255):
            for gate in [None] + list(range(16)) + [0xf0, 0xff]:
                mbr = rng.choice(rates)
                gbr = rng.choice(rates)
                cases.append({"kind": "parse", "ie": IE(idv, mbr, gbr, qfi, gate), "update": rng.random() < 0.5,
                              "seid": rng.choice([0, 1, rng.getrandbits(64)])})
    for mbr in rates:
        for gbr in rates:
            for upd in (False, True):
                cases.append({"kind": "parse", "ie": IE(7, mbr, gbr, 9, 0), "update": upd, "seid": 77})
    return cases


def gen_bess(rng, tier):
    """QER values at boundary combinations through the real bess plug-in, one QER per op."""
    cases = []
    confs = conf_variants(rng)
    pairs = [(m, g) for m in RATES for g in RATES]
    qfis = [0, 9, 5, 7, 63]                 # 5 is the configured one in most configurations, 7 never is
    # all rate pairs x uplink/downlink independent, open gates, default configuration
    for (um, ug) in pairs:
        for (dm, dg) in ([(um, ug)] if tier == "quick" else pairs) + [rng.choice(pairs)]:
            for level in (0, 1):
                cases.append({"kind": "bess", "conf": [], "ops": [
                    {"m": 0, "qers": [Q(3, level, rng.choice(qfis), 0, 0, um, dm, ug, dg, fseid=rng.getrandbits(64))]}]})
    # 4x4 gate values x a few rate pairs (incl. metered uplink followed by closed / unmetered downlink:
    # the shared cir/pir variables)
    for uls in range(4):
        for dls in range(4):
            for (um, ug, dm, dg) in [(8, 1, 0, 0), (0, 0, 8, 1), (R40, 7, R40, 7), (0, 0, 0, 0), (1000, 100, 2000, 200)]:
                cases.append({"kind": "bess", "conf": [], "ops": [
                    {"m": rng.choice([0, 1]), "qers": [Q(4, rng.choice([0, 1]), 9, uls, dls, um, dm, ug, dg, fseid=5)]}]})
    # burst configurations x durations x QFIs x rates
    brates = [(0, 0), (1, 1), (8, 7), (42056, 1000), (R40, 8), (R40, R40), (1000, 42056)]
    for conf in confs:
        for qfi in qfis:
            sel = brates if tier != "quick" else [brates[(len(cases) + i) % len(brates)] for i in range(2)] + [(42056, 1000)]
            for (m, g) in sel:
                dm, dg = rng.choice(brates)
                cases.append({"kind": "bess", "conf": conf, "ops": [
                    {"m": 0, "qers": [Q(9, rng.choice([0, 1]), qfi, 0, 0, m, dm, g, dg, fseid=11)]}]})
    # field-distinct configurations with rates so small that the configured minimum decides every burst
    for conf in confs:
        if conf and len({conf[0]["cbs"], conf[0]["pbs"], conf[0]["ebs"]}) == 3:
            for (m, g) in [(1, 1), (8, 7), (0, 0)]:
                for level in (0, 1):
                    cases.append({"kind": "bess", "conf": conf, "ops": [
                        {"m": 0, "qers": [Q(9, level, conf[0]["qci"], 0, 0, m, m, g, g, fseid=12)]}]})
    # random
    n = 400 if tier == "quick" else 6000
    for _ in range(n):
        rr = lambda: rng.choice([0, 0, 1, 7, 8, R40, rng.getrandbits(40), rng.getrandbits(20), rng.getrandbits(10)])
        gg = lambda: rng.choice([0, 0, 0, 1, 2, 3])
        ops = []
        for _ in range(rng.choice([1, 1, 2, 3])):
            ops.append({"m": rng.choice([0, 0, 1, 2]),
                        "qers": [Q(rng.randrange(1, 5), rng.choice([0, 1]), rng.choice(qfis + [rng.randrange(256)]), gg(), gg(),
                                   rr(), rr(), rr(), rr(), fseid=rng.getrandbits(64)) for _ in range(rng.choice([1, 1, 1, 2, 3]))]})
        cases.append({"kind": "bess", "conf": rng.choice(confs), "ops": ops})
    # beyond the envelope: 64-bit rates given to the plug-in directly (wrap of rate*1000), odd levels
    for r in [U64 // 1000 + 1, (1 << 63) - 1, U64 - 1]:
        cases.append({"kind": "bess", "conf": [], "beyond": True,
                      "ops": [{"m": 0, "qers": [Q(1, 0, 9, 0, 0, r, 1, 1, r, fseid=1)]}]})
    cases.append({"kind": "bess", "conf": [], "beyond": True, "ops": [{"m": 0, "qers": [Q(1, 2, 9, 0, 0, 8, 8, 1, 1)]},
                                                                         {"m": 2, "qers": [Q(1, 7, 9)]}]})
    return cases


ID_LISTS = [list(p) for n in (1, 2, 3) for p in itertools.permutations((1, 2, 3), n)]      # 15 ordered lists
GBR_PATTERNS = list(itertools.product((0, 1), repeat=3))
MBR_PATTERNS = [(10, 20, 30), (30, 20, 10), (20, 30, 10), (20, 20, 20), (0, 0, 0), (0, 5, 0), (30, 10, 30), (10, 30, 30)]
ORDERS = list(itertools.permutations((1, 2, 3)))


def qer_variant(rng, k=None):
    """attributes of QERs 1..3 and the order in which they are created"""
    g = rng.choice(GBR_PATTERNS) if k is None else GBR_PATTERNS[k % 8]
    m = rng.choice(MBR_PATTERNS) if k is None else MBR_PATTERNS[(k // 8) % 8]
    o = rng.choice(ORDERS) if k is None else ORDERS[(k // 64) % 6]
    n = rng.choice([3, 3, 3, 2, 2, 1])
    return [(i, m[i - 1], g[i - 1] * 5) for i in o[:n]]


def all_shapes(with_empty):
    lists = ID_LISTS + ([[]] if with_empty else [])
    for n in (1, 2, 3):
        for sh in itertools.product(lists, repeat=n):
            yield [list(l) for l in sh]


def gen_mark(rng, tier):
    """MarkSessionQer called directly, twice, on every assignment of <= 3 ids to <= 3 PDRs in all orders"""
    cases = []
    per = 2 if tier == "quick" else 24
    for si, shape in enumerate(all_shapes(True)):
        for j in range(per):
            v = qer_variant(rng, None if j else si)
            gb = lambda g: rng.choice([(g, g), (g, 0), (0, g)]) if g else (0, 0)
            qers = [Q(i, 0, 9, 0, 0, m, m, *gb(g)) for (i, m, g) in v]
            cases.append({"kind": "mark", "pdrs": shape, "qers": qers, "add": [dict(q) for q in qers], "est": True})
    # modification-like: stored QERs already marked, message QERs a different list; longer lists, duplicates, id 0
    n = 1000 if tier == "quick" else 20000
    for _ in range(n):
        ids = [0, 1, 2, 3, 4, 5]
        pdrs = [[rng.choice(ids) for _ in range(rng.randrange(0, 5))] for _ in range(rng.randrange(0, 5))]
        mk = lambda: Q(rng.choice(ids), rng.choice([0, 0, 1]), 9, 0, 0, rng.choice([0, 10, 20, 30]), 0,
                       rng.choice([0, 0, 5]), rng.choice([0, 0, 0, 5]))
        cases.append({"kind": "mark", "pdrs": pdrs, "qers": [mk() for _ in range(rng.randrange(0, 5))],
                      "add": [mk() for _ in range(rng.randrange(0, 4))], "est": False})
    return cases


def est_msg(shape, v, qfi=9):
    return {"kind": "est", "pdrs": [{"id": i + 1, "src": i % 2, "qers": l} for i, l in enumerate(shape)],
            "qers": [IE(i, [m, m + 1], ([g, g], [g, 0], [0, g])[(i + m) % 3] if g else None, qfi) for (i, m, g) in v]}


NAMED_HISTORIES = {
    # F15 shapes (DESIGN section 6) and their neighbours
    "est:only-common-qer-is-gbr": [est_msg([[10, 11], [11]], [(10, 100, 5), (11, 50, 5)])],
    "est:three-qers-lists-differ": [est_msg([[1], [1, 2, 3]], [(1, 10, 0), (2, 20, 0), (3, 30, 0)])],
    "est:lists-differently-ordered": [est_msg([[2, 1], [1, 2, 3]], [(1, 10, 0), (2, 20, 0), (3, 30, 0)])],
    "mod:add-two-gbr-qers": [est_msg([[1, 2], [1, 2]], [(1, 100, 0), (2, 500, 0)]),
                              {"kind": "mod", "qers": [IE(3, [10, 10], [5, 5]), IE(4, [10, 10], [5, 5])]}],
    "mod:add-two-unreferenced-qers": [est_msg([[1, 2], [1, 2]], [(1, 100, 0), (2, 500, 0)]),
                                       {"kind": "mod", "qers": [IE(3, [10, 10]), IE(4, [900, 900])]}],
    "mod:add-one-qer": [est_msg([[1, 2], [1, 2]], [(1, 100, 0), (2, 500, 0)]),
                         {"kind": "mod", "qers": [IE(3, [900, 900])]}],
    "mod:update-other-qer-bigger-mbr": [est_msg([[1, 2], [1, 2]], [(1, 100, 0), (2, 500, 0)]),
                                         {"kind": "mod", "upd_qers": [IE(1, [1000, 1000])]}],
    "mod:update-other-qer-smaller-mbr": [est_msg([[1, 2], [1, 2]], [(1, 100, 0), (2, 500, 0)]),
                                          {"kind": "mod", "upd_qers": [IE(1, [50, 50])]}],
    "mod:update-marked-qer": [est_msg([[1, 2], [1, 2]], [(1, 100, 0), (2, 500, 0)]),
                               {"kind": "mod", "upd_qers": [IE(2, [700, 700])]}],
    "mod:update-both": [est_msg([[1, 2], [1, 2]], [(1, 100, 0), (2, 500, 0)]),
                         {"kind": "mod", "upd_qers": [IE(1, [150, 150]), IE(2, [700, 700])]}],
    "mod:update-both-swap-order": [est_msg([[1, 2], [1, 2]], [(1, 100, 0), (2, 500, 0)]),
                                    {"kind": "mod", "upd_qers": [IE(2, [700, 700]), IE(1, [150, 150])]}],
    "mod:update-unknown-qer": [est_msg([[1, 2], [1, 2]], [(1, 100, 0), (2, 500, 0)]),
                                {"kind": "mod", "upd_qers": [IE(9, [700, 700])]}],
    "mod:create-and-update": [est_msg([[1, 2], [1, 2]], [(1, 100, 0), (2, 500, 0)]),
                               {"kind": "mod", "qers": [IE(3, [5, 5])], "upd_qers": [IE(1, [150, 150])]}],
    "est:single-qer": [est_msg([[1], [1]], [(1, 100, 0)]), {"kind": "mod", "qers": [IE(2, [5, 5]), IE(3, [6, 6])]}],
    "est:no-pdr": [{"kind": "est", "pdrs": [], "qers": [IE(1, [5, 5]), IE(2, [6, 6])]},
                   {"kind": "mod", "qers": [IE(3, [5, 5]), IE(4, [6, 6])]}],
    "est:pdrs-without-qers": [est_msg([[], []], [(1, 100, 0), (2, 500, 0)])],
}


def gen_hist(rng, tier):
    cases = []
    for name, msgs in NAMED_HISTORIES.items():
        cases.append({"kind": "hist", "conf": [], "msgs": msgs, "cls": name})
    # every assignment of <= 3 ids to <= 3 PDRs (non-empty lists), in all orders, through the establishment handler
    for si, shape in enumerate(all_shapes(False)):
        if tier == "quick" and len(shape) == 3 and (si + rng.randrange(3)) % 3:
            continue                                  # quick: all 1- and 2-PDR shapes, a seeded third of the 3-PDR shapes
        v = qer_variant(rng, si if rng.random() < 0.5 else None)
        cases.append({"kind": "hist", "conf": [], "msgs": [est_msg(shape, v)], "cls": "est-exhaustive"})
    # modification histories adding / updating 1-2 QERs
    n = 400 if tier == "quick" else 8000
    bases = [([[1, 2], [1, 2]], [(1, 100, 0), (2, 500, 0)]), ([[1, 2], [1, 2]], [(1, 500, 0), (2, 100, 0)]),
             ([[2, 1], [1, 2], [1, 2]], [(2, 100, 0), (1, 500, 0)]), ([[1, 2]], [(1, 100, 5), (2, 500, 0)]),
             ([[1, 2, 3], [1, 2, 3]], [(1, 100, 0), (2, 500, 0), (3, 300, 0)]), ([[1], [1]], [(1, 100, 0)]),
             ([[1, 2], [2]], [(1, 100, 0), (2, 500, 0)]), ([[1, 2], [2, 3]], [(1, 100, 0), (2, 50, 0), (3, 70, 5)])]
    for _ in range(n):
        shape, v = rng.choice(bases)
        msgs = [est_msg(shape, v, rng.choice([9, 5]))]
        nxt = 4
        for _ in range(rng.choice([1, 1, 2, 3])):
            m = {"kind": "mod", "qers": [], "upd_qers": []}
            existing = [i for (i, _, _) in v] + list(range(4, nxt))      # ids stored before this message
            for _ in range(rng.choice([1, 1, 2, 2])):
                mbr = rng.choice([0, 50, 100, 300, 500, 900])
                gbr = rng.choice([None, None, [5, 5], [0, 5]])
                free = [i for i in existing if i not in [x["id"] for x in m["upd_qers"]]]
                if rng.random() < 0.5 or not free:
                    m["qers"].append(IE(nxt, [mbr, mbr], gbr))
                    nxt += 1
                else:
                    m["upd_qers"].append(IE(rng.choice(free), [mbr, mbr], gbr))
            msgs.append(m)
        cases.append({"kind": "hist", "conf": rng.choice([[], [{"qci": 5, "cbs": 3000, "pbs": 4000, "ebs": 5000, "dur": 87}]]),
                      "msgs": msgs, "cls": "mod-random"})
    # outside the property's quantifier (PDR lists change in a modification): model correspondence only
    for _ in range(60 if tier == "quick" else 600):
        shape, v = rng.choice(bases)
        m = {"kind": "mod", "qers": [IE(7, [rng.choice([1, 900]), 5])], "upd_qers": [],
             "upd_pdrs": [{"id": 1, "src": 0, "qers": rng.choice(ID_LISTS + [[1, 7], [7]])}],
             "pdrs": [{"id": 9, "src": 1, "qers": rng.choice(ID_LISTS + [[]])}] if rng.random() < 0.5 else []}
        cases.append({"kind": "hist", "conf": [], "msgs": [est_msg(shape, v), m], "cls": "pdr-change", "corr_only": True})
    return cases


def gen_up4(rng, tier):
    cases = []
    maps = [({}, 3), ({"9": 2, "5": 1}, 3), ({"0": 1, "63": 2}, 0), ({"7": 3, "9": 0}, 1)]
    qfis = [0, 9, 5, 7, 63]
    for qt, dtc in maps:
        for qfi in qfis:
            for (uls, dls) in [(0, 0), (1, 0), (0, 1), (1, 1), (2, 3), (3, 2)]:
                m = rng.choice([0, 1, 7, 8, 1000, R40])
                dm = rng.choice([m, m, 0, 8, R40])
                # one application QER alone (own downlink cell), and application + session QER
                cases.append({"kind": "up4", "qfi_tc": qt, "default_tc": dtc, "far_drop": False,
                              "pdrs": [{"id": 1, "src": 1, "qers": [1], "far": 1}, {"id": 2, "src": 2, "qers": [1], "far": 2}],
                              "qers": [Q(1, 0, qfi, uls, dls, m, dm, rng.choice(RATES), 0)]})
                cases.append({"kind": "up4", "qfi_tc": qt, "default_tc": dtc, "far_drop": rng.random() < 0.15,
                              "pdrs": [{"id": 1, "src": 1, "qers": [1, 2], "far": 1}, {"id": 2, "src": 2, "qers": [1, 2], "far": 2},
                                       {"id": 3, "src": 2, "qers": rng.choice([[], [8], [2, 1]]), "far": 2}],
                              "qers": [Q(1, 0, qfi, uls, dls, m, dm, 0, 0), Q(2, 1, rng.choice(qfis), 0, 0, rng.choice(RATES), rng.choice(RATES), 0, 0)]})
    return cases


def gen_cases(rng, tier):
    return gen_calc(rng, tier) + gen_parse(rng, tier) + gen_bess(rng, tier) + gen_mark(rng, tier) + gen_hist(rng, tier) + gen_up4(rng, tier)


def harness_input(c):
    k = c["kind"]
    if k == "calc":
        return {"kbps": c["kbps"], "ms": c["ms"], "gbr": c["gbr"]}
    if k == "parse":
        return {"ie": c["ie"], "update": c["update"], "seid": c["seid"]}
    if k == "mark":
        return {"pdrs": c["pdrs"], "qers": c["qers"], "add": c["add"]}
    if k == "bess":
        return {"conf": c["conf"], "ops": c["ops"]}
    if k == "hist":
        return {"conf": c["conf"], "msgs": c["msgs"]}
    if k == "up4":
        return {x: c[x] for x in ("qfi_tc", "default_tc", "far_drop", "pdrs", "qers")}
    raise ValueError(k)


MODES = {"calc": "c09_calc", "parse": "c09_parse", "mark": "c09_mark", "bess": "c09_bess", "hist": "c09_hist", "up4": "c09_up4"}

# ------------------------------------------------------------------------------------------------
# Gallina printers


def g_qer(q):
    return (f"(mkQer {q['id']} {q['level']} {q['qfi']} {q['uls']} {q['dls']} {q['ulmbr']} {q['dlmbr']} "
            f"{q['ulgbr']} {q['dlgbr']} {q['fseid']})")


def g_pair(p):
    return "None" if p is None else f"(Some ({p[0] & R40}, {p[1] & R40}))"


def g_ie(x):
    return (f"(mkQerIE {gopt(x['id'])} {gopt(x['qfi'])} {gopt(x['gate'])} {g_pair(x['mbr'])} {g_pair(x['gbr'])})")


def g_nl(l):
    return glist([str(int(x)) for x in l])


def g_conf(conf):
    return glist([f"({c['qci']}, mkCfg {c['cbs']} {c['pbs']} {c['ebs']} {c['dur']})" for c in conf])


def g_cmd(c):
    tbl = "AppTbl" if c["name"] == "appQERLookup" else "SessTbl"
    return (f"(mkCmd {tbl} {gbool(c['cmd'] == 'add')} {c['gate']} {c['cir']} {c['pir']} {c['cbs']} {c['pbs']} {c['ebs']} "
            f"{g_nl(c['fields'])} {g_nl(c['values'])})")


def g_pdr(p):
    return f"(mkPdr {p['id']} {g_nl(p['qers'])})"


def g_meter(m):
    return f"(mkMeter {m['cir'] % U64} {m['cburst'] % U64} {m['pir'] % U64} {m['pburst'] % U64})"


def up4_view(c, o):
    """per QER: (session?, uplink cell config, downlink cell config or None when shared), from cells + entries"""
    by_idx = {}
    for m in o["meters"]:
        by_idx[(m["meter"], m["index"])] = m
    out = []
    for q in c["qers"]:
        cell = o["cells"].get(str(q["id"]))
        if cell is None:
            continue
        typ, ul, dl = cell
        name = "PreQosPipe.session_meter" if typ == o["meter_type_sess"] else "PreQosPipe.app_meter"
        out.append({"qer": q["id"], "session": typ == o["meter_type_sess"], "ul": by_idx.get((name, ul)),
                    "dl": None if dl == ul else by_idx.get((name, dl)), "cells": (ul, dl)})
    return out


_NUM = re.compile(r"\b\d+\b")


def hexify(term):
    """decimal -> hexadecimal numerals: Coq converts a decimal literal to N in time quadratic in its length"""
    return _NUM.sub(lambda m: hex(int(m.group(0))) if len(m.group(0)) > 1 else m.group(0), term)


def to_coq(c, o):
    return hexify(to_coq_dec(c, o))


def to_coq_dec(c, o):
    k = c["kind"]
    if k == "calc":
        return (f"KCalc {c['kbps']} {c['ms']} {o['burst']} {c['gbr']} "
                f"{g_meter({'cir': o['cir'], 'cburst': o['cburst'], 'pir': o['pir'], 'pburst': o['pburst']})}")
    if k == "parse":
        return f"KParse {g_ie(c['ie'])} {c['seid']} {gopt(g_qer(o['qer']) if o['ok'] else None)}"
    if k == "mark":
        lv = lambda qs: g_nl([q["level"] for q in qs])
        pl = lambda ls: glist([g_nl(l) for l in ls])
        return (f"KMark {pl(c['pdrs'])} {glist([g_qer(q) for q in c['qers']])} {glist([g_qer(q) for q in c['add']])} "
                f"{lv(o['mid']['qers'])} {pl(o['mid']['pdrs'])} {lv(o['fin']['qers'])} {pl(o['fin']['pdrs'])} {lv(o['add'])}")
    if k == "bess":
        ops = glist([f"({op['m']}, {glist([g_qer(q) for q in op['qers']])})" for op in c["ops"]])
        return f"KBess {g_conf(c['conf'])} {ops} {glist([glist([g_cmd(x) for x in b]) for b in o['batches']])}"
    if k == "hist":
        est = c["msgs"][0]
        seid = o["steps"][0]["sess"]["qers"][0]["fseid"] if o["steps"][0]["sess"]["qers"] else 0
        cp = glist([g_pdr(p) for p in est["pdrs"]])
        cq = glist([g_ie(x) for x in est["qers"]])
        ms = glist([f"(mkModIE {glist([g_pdr(p) for p in m.get('pdrs', [])])} {glist([g_ie(x) for x in m.get('qers', [])])} "
                    f"{glist([g_pdr(p) for p in m.get('upd_pdrs', [])])} {glist([g_ie(x) for x in m.get('upd_qers', [])])})"
                    for m in c["msgs"][1:]])
        steps = glist([f"(mkStep {glist([g_cmd(x) for x in s['cmds']])} {glist([g_qer(q) for q in s['sess']['qers']])} "
                       f"{glist([g_pdr({'id': i, 'qers': l}) for i, l in zip(s['sess']['pdr_ids'], s['sess']['pdrs'])])})"
                       for s in o["steps"]])
        body = f"KHist {g_conf(c['conf'])} {seid} {cp} {cq} {ms} {steps}"
        if seid > 9:                                   # the 64-bit SEID occurs in every QER and key: bind it once
            body = f"(let S := {seid} in " + re.sub(rf"\b{seid}\b", "S", body) + ")"
        return body
    if k == "up4":
        qt = glist([f"({a}, {b})" for a, b in c["qfi_tc"].items()])
        pdrs = glist([f"({gbool(p['src'] == 1)}, {g_nl(p['qers'])})" for p in c["pdrs"]])
        qers = glist([g_qer(dict(q, fseid=0x2222)) for q in c["qers"]])
        meters = glist([f"(mkUp4Meter {v['qer']} {gbool(v['session'])} {g_meter(v['ul']) if v['ul'] else '(mkMeter 1 1 1 1)'} "
                        f"{gopt(g_meter(v['dl']) if v['dl'] else None)})" for v in up4_view(c, o)])
        terms = glist([f"(mkTermObs {gbool('uplink' in t['table'])} {gbool(t['action'].endswith('_drop'))} "
                       f"{t['params'].get('tc', 0)} {t['params'].get('qfi', 0)})" for t in o["terms"]])
        return f"KUp4 {qt} {c['default_tc']} {gbool(c['far_drop'])} {pdrs} {qers} {meters} {terms}"
    raise ValueError(k)


# ------------------------------------------------------------------------------------------------
# monitor: the sentences of the property evaluated on the implementation's observations

def cfg_of(conf, qfi):
    """(configured minimum or None when the operator configured none that applies, burst duration)"""
    ent = {}
    for c in conf:
        ent[c["qci"]] = c                              # last entry of a QCI wins, as in any JSON-to-map load
    if qfi in ent:
        return ent[qfi], ent[qfi]["dur"]
    if 0 in ent:
        return ent[0], ent[0]["dur"]
    return None, 10


def burst_check(site, which, got, rate_candidates, dur, minimum):
    """burst >= rate x duration (for at least the smallest plausible rate) and >= configured minimum"""
    if minimum is not None and got < minimum:
        return (f"burst-below-configured-minimum:{site}:{which}", f"{which}={got} below the configured minimum {minimum}")
    for r in rate_candidates:
        need = burst_exact(r, dur)
        if need >= U64 or got >= need:
            return None
    r = min(rate_candidates)
    need = burst_exact(r, dur)
    if got == max(float_burst(r, dur), minimum or 0):
        if need - got == 1 and need < 1 << 53:
            return ("burst-short-by-one:float-truncation",
                    f"{which}={got} is one byte short of {r} kbit/s x {dur} ms = {need} (binary64 product truncated)")
        if need >= 1 << 53 and (need - got) << 52 <= need:
            return ("burst-short:float-rounding-beyond-2^53",
                    f"{which}={got} is {need - got} short of {r} kbit/s x {dur} ms = {need} (product beyond binary64 integer precision)")
    return (f"burst-below-rate-x-duration:{site}:{which}", f"{which}={got} below {r} kbit/s x {dur} ms = {need}")


def mon_calc(c, o):
    if c.get("beyond"):
        return None
    k, ms = c["kbps"], c["ms"]
    r = burst_check("calcBurstSizeFromRate", "burst", o["burst"], [k], ms, None)
    if r:
        return r
    # UP4 meter configuration from (mbr, gbr)
    pir, pb, cir, cb = o["pir"] % U64, o["pburst"] % U64, o["cir"] % U64, o["cburst"] % U64
    if k == 0:
        if (pir, pb, cir, cb) != (0, 0, 0, 0):
            return ("up4-meter:zero-rate-not-unmetered", f"MBR 0 gives meter config {(cir, cb, pir, pb)}")
        return None
    if pir != k * 125:
        return ("up4-meter:pir", f"UP4 pir {pir} != MBR {k} x 125")
    return burst_check("getMeterConfigurationFromQER", "pburst", pb, [k], 10, None)


def mon_parse(c, o):
    x = c["ie"]
    if x["id"] is None:
        return None if not o["ok"] else ("parse:accepted-without-id", "QER without QER ID accepted")
    if not o["ok"]:
        return ("parse:refused", "well-formed QER IE refused")
    q = o["qer"]
    g = x["gate"] or 0
    want = {"id": x["id"], "qfi": x["qfi"] or 0, "uls": (g >> 2) & 3, "dls": g & 3,
            "ulmbr": (x["mbr"] or [0, 0])[0] & R40, "dlmbr": (x["mbr"] or [0, 0])[1] & R40,
            "ulgbr": (x["gbr"] or [0, 0])[0] & R40, "dlgbr": (x["gbr"] or [0, 0])[1] & R40, "fseid": c["seid"], "level": 0}
    for f, v in want.items():
        if q[f] != v:
            return (f"parse:{f}", f"parsed {f}={q[f]}, signalled {v}")
    return None


def mon_qer_cmds(conf, q, cmds, site):
    """one QER, its two add commands in order (uplink, downlink)"""
    tbl = "appQERLookup" if q["level"] == 0 else "sessionQERLookup"
    if len(cmds) != 2 or any(c["name"] != tbl or c["cmd"] != "add" for c in cmds):
        return (f"{site}:commands", f"expected two add commands to {tbl}, got {[(c['name'], c['cmd']) for c in cmds]}")
    minimum, dur = cfg_of(conf, q["qfi"])
    for c, src, st, mbr, gbr, d in ((cmds[0], 1, q["uls"], q["ulmbr"], q["ulgbr"], "ul"), (cmds[1], 2, q["dls"], q["dlmbr"], q["dlgbr"], "dl")):
        key = [src, q["id"], q["fseid"]] if q["level"] == 0 else [src, q["fseid"]]
        if c["fields"] != key:
            return (f"{site}:key:{d}", f"key {c['fields']} instead of {key}")
        if q["level"] == 0 and c["values"] != [q["qfi"]]:
            return (f"{site}:qfi:{d}", f"QFI value {c['values']} instead of {q['qfi']}")
        if st == 1:
            if c["gate"] != 5:
                return (f"{site}:closed-gate-not-dropped:{d}", f"{d} gate closed but gate={c['gate']}")
            continue
        if st != 0:
            continue                                            # reserved gate values: the statement is silent
        if mbr == 0 and gbr == 0:
            if c["gate"] != 6:
                return (f"{site}:zero-rates-not-unmetered:{d}", f"{d} MBR=GBR=0, open gate, but gate={c['gate']}")
            continue
        if max(mbr, gbr) <= R40:
            if gbr <= mbr:
                if c["gate"] != 0:
                    return (f"{site}:not-metered:{d}", f"{d} MBR={mbr} GBR={gbr} open but gate={c['gate']}")
                if c["pir"] != mbr * 125:
                    return (f"{site}:pir:{d}", f"{d} pir={c['pir']} != MBR {mbr} x 125")
                if c["cir"] != max(gbr * 125, 1):
                    return (f"{site}:cir:{d}", f"{d} cir={c['cir']} != max(GBR {gbr} x 125, 1)")
            elif c["gate"] != 0:
                return (f"{site}:rate-signalled-but-not-metered:{d}", f"{d} open gate, MBR={mbr} GBR={gbr}, but gate={c['gate']}")
            m = minimum
            r = (burst_check(site, f"cbs:{d}", c["cbs"], [gbr], dur, m["cbs"] if m else None)
                 or burst_check(site, f"pbs:{d}", c["pbs"], [mbr], dur, m["pbs"] if m else None)
                 or burst_check(site, f"ebs:{d}", c["ebs"], [mbr, gbr], dur, m["ebs"] if m else None))
            if r:
                return r
    return None


def mon_bess(c, o):
    if c.get("beyond"):
        return None
    for op, batch in zip(c["ops"], o["batches"]):
        if op["m"] == 2:
            continue
        if len(op["qers"]) == 1:
            r = mon_qer_cmds(c["conf"], op["qers"][0], batch, "bess")
            if r:
                return r
        else:
            if len(batch) != 2 * len(op["qers"]):
                return ("bess:commands", f"{len(batch)} commands for {len(op['qers'])} QERs")
    return None


# --- the session-wide limiter ---------------------------------------------------------------------

def stale_search_list(lists):
    """the known defect mechanism (F15), used only to name a failure: copy() keeps the tail of the list"""
    if not lists or not lists[-1]:
        return None
    sl = list(lists[-1])
    for l in lists:
        s = [x for x in sl if x in l]
        if not s:
            return None
        sl = s + sl[len(s):]
    return sl


def predicted_pick(lists, qers):
    """index MarkSessionQer's selection ends with under the known mechanisms; None = no marking"""
    if len(qers) < 2:
        return None
    sl = stale_search_list(lists)
    if sl is None:
        return None
    idx, best, picked = 0, 0, False
    for i, q in enumerate(qers):
        if q["id"] in sl and not (q["ulgbr"] > 0 or q["dlgbr"] > 0) and q["ulmbr"] >= best:
            idx, best, picked = i, q["ulmbr"], True
    return idx, picked, sl


def common_ids(lists):
    s = None
    for l in lists:
        s = set(l) if s is None else s & set(l)
    return s or set()


def name_unsound(lists_before, qers, marked_idx):
    """signature of an unsound marking, by the mechanism that explains it (or 'unexplained')"""
    p = predicted_pick(lists_before, qers)
    if p is not None and p[0] == marked_idx:
        if not p[1]:
            return "session-qer:unsound:no-candidate-marks-first-qer"
        return "session-qer:unsound:stale-search-list"
    return "session-qer:unsound:unexplained"


def mon_mark(c, o):
    """direct calls: only establishment-like cases carry the property (both QER lists equal, all unmarked)"""
    if not c["est"]:
        return None
    lists = c["pdrs"]
    for snap, qers_after, lists_before, what in ((o["fin"]["qers"], o["fin"]["qers"], lists, "stored"),
                                                 (o["add"], o["add"], o["mid"]["pdrs"], "message")):
        marked = [i for i, q in enumerate(qers_after) if q["level"] == 1]
        if len(marked) > 1:
            return (f"session-qer:two-marked:{what}", f"{len(marked)} QERs marked session-level in the {what} list")
        for i in marked:
            if any(qers_after[i]["id"] not in l for l in o["fin"]["pdrs"]):
                return (name_unsound(lists_before, c["qers"], i),
                        f"QER {qers_after[i]['id']} marked session-level ({what} list) but PDR lists are {o['fin']['pdrs']}")
    m1 = [q["id"] for q in o["fin"]["qers"] if q["level"] == 1]
    m2 = [q["id"] for q in o["add"] if q["level"] == 1]
    if m1 != m2:
        return ("session-qer:stored-and-message-marks-differ", f"stored list marks {m1}, message list marks {m2}")
    return None


def mon_hist(c, o):
    """S1 only a QER that every PDR references is session-level (stored mark or sessionQERLookup entry);
    S2 at most one (the stored marks and the sessionQERLookup entry name the same QER); S3 a modification
    that does not touch it leaves its label and its entry alone; S4 the table a QER is sent to is the one
    its stored label names; plus the value-level sentences on every command of the batch."""
    conf = c["conf"]
    installed = None            # id of the QER whose values sit in sessionQERLookup
    prev = None
    for mi, (m, st) in enumerate(zip(c["msgs"], o["steps"])):
        if st["cause"] != 1 or not st["found"]:
            return ("session:not-accepted", f"message {mi} answered with cause {st['cause']}")
        sess = st["sess"]
        if c.get("corr_only"):
            prev = sess
            continue
        lists = sess["pdrs"]
        create_ids = [x["id"] for x in m.get("qers", [])]
        prev_ids = [q["id"] for q in prev["qers"]] if prev is not None else []
        upd_ids = [x["id"] for x in m.get("upd_qers", []) if x["id"] in prev_ids]
        stored = {q["id"]: q for q in sess["qers"]}
        batch_ids = [q["id"] for q in sess["qers"]] if m["kind"] == "est" else create_ids + upd_ids
        if len(set(batch_ids)) != len(batch_ids) or len(stored) != len(sess["qers"]):
            prev = sess
            continue                                           # duplicate ids: the generators do not produce them
        app_ids = [x["fields"][1] for x in st["cmds"] if x["name"] == "appQERLookup" and x["cmd"] == "add"]
        sess_adds = sorted([x for x in st["cmds"] if x["name"] == "sessionQERLookup" and x["cmd"] == "add"],
                           key=lambda x: x["fields"][0])
        sess_ids = [i for i in batch_ids if i not in app_ids]
        if sorted(app_ids) != sorted([i for i in batch_ids if i in app_ids] * 2) or len(sess_adds) != 2 * len(sess_ids):
            return ("bess:commands", f"message {mi}: QERs {batch_ids} but application adds for {app_ids} and {len(sess_adds)} session adds")
        if len(sess_ids) > 1:
            return ("session-qer:two-session-qers-in-one-batch", f"message {mi}: QERs {sess_ids} all went to sessionQERLookup")
        new_installed = sess_ids[0] if sess_ids else None
        marked = [q["id"] for q in sess["qers"] if q["level"] == 1]
        before_lists = prev["pdrs"] if prev is not None else [p["qers"] for p in m["pdrs"]]
        multi = m["kind"] == "mod" and len(batch_ids) >= 2
        # S1: only a QER that every PDR references
        for qid in marked:
            if any(qid not in l for l in lists):
                idx = [q["id"] for q in sess["qers"]].index(qid)
                return (name_unsound(before_lists, sess["qers"], idx),
                        f"message {mi}: QER {qid} is marked session-level but PDR lists are {lists}")
        if new_installed is not None and any(new_installed not in l for l in lists):
            sig = ("session-qer:unsound:second-call-marks-in-message-index-space" if multi and new_installed not in marked
                   else "session-qer:unsound:unexplained")
            return (sig, f"message {mi}: QER {new_installed} went to sessionQERLookup but PDR lists are {lists}")
        # S4: the table used is the one the stored label names
        for i in batch_ids:
            if (i == new_installed) != (stored[i]["level"] == 1):
                if multi and new_installed is not None:
                    sig = "session-qer:label-mismatch:second-call-marks-in-message-index-space"
                elif m["kind"] == "mod" and not multi:
                    sig = "session-qer:label-mismatch:single-qer-message-is-never-marked"
                else:
                    sig = "session-qer:label-mismatch:unexplained"
                return (sig, f"message {mi}: QER {i} is stored with level {stored[i]['level']} but was sent to "
                             f"{'sessionQERLookup' if i == new_installed else 'appQERLookup'}")
        # S2: at most one
        now_installed = new_installed if new_installed is not None else installed
        treated = set(marked) | ({now_installed} if now_installed is not None else set())
        if len(treated) > 1:
            if len(marked) > 1 and m["kind"] == "mod":
                sig = "session-qer:two:reselection-never-unmarks"
            elif m["kind"] == "mod" and installed in upd_ids and new_installed is None:
                sig = "session-qer:two:update-of-session-qer-leaves-its-session-entry"
            else:
                sig = "session-qer:two:unexplained"
            return (sig, f"message {mi}: session-level QERs: stored marks {marked}, sessionQERLookup holds QER {now_installed}")
        # S3: creating / updating other QERs leaves it alone
        if m["kind"] == "mod" and installed is not None and installed not in batch_ids:
            was = [q for q in prev["qers"] if q["id"] == installed]
            if sess_adds:
                sig = ("session-qer:overwritten:second-call-marks-in-message-index-space" if multi
                       else "session-qer:overwritten:unexplained")
                return (sig, f"message {mi} does not touch QER {installed} but rewrites sessionQERLookup")
            if was and installed in stored and was[0]["level"] != stored[installed]["level"]:
                return ("session-qer:relabelled", f"message {mi} does not touch QER {installed} but its level changed")
        if new_installed is not None:
            installed = new_installed
        # value-level sentences for every QER of the batch, with the label the datapath used
        for i in batch_ids:
            if i == new_installed:
                r = mon_qer_cmds(conf, dict(stored[i], level=1), sess_adds, "bess")
            else:
                cmds = sorted([x for x in st["cmds"] if x["name"] == "appQERLookup" and x["cmd"] == "add" and x["fields"][1] == i],
                              key=lambda x: x["fields"][0])
                r = mon_qer_cmds(conf, dict(stored[i], level=0), cmds, "bess")
            if r:
                return r
        prev = sess
    return None


def mon_up4(c, o):
    if o["err"]:
        return ("up4:error", o["err"])
    view = {v["qer"]: v for v in up4_view(c, o)}
    qers = {q["id"]: q for q in c["qers"]}
    for q in c["qers"]:
        v = view.get(q["id"])
        if v is None or v["ul"] is None:
            return ("up4-meter:missing", f"no meter configured for QER {q['id']}")
        for d, cfgm, mbr in (("ul", v["ul"], q["ulmbr"]), ("dl", v["dl"] if v["dl"] is not None else v["ul"], q["dlmbr"])):
            pir, pb = cfgm["pir"] % U64, cfgm["pburst"] % U64
            shared = d == "dl" and v["dl"] is None
            if mbr == 0:
                if pir != 0:
                    if shared:
                        return ("up4-app-meter:shared-cell-ignores-dl-mbr", f"QER {q['id']}: downlink MBR 0 but the shared cell is programmed with pir={pir}")
                    return ("up4-meter:zero-rate-not-unmetered", f"QER {q['id']} {d}: MBR 0 but pir={pir}")
                continue
            if pir != mbr * 125:
                if shared and pir == q["ulmbr"] * 125:
                    return ("up4-app-meter:shared-cell-ignores-dl-mbr",
                            f"QER {q['id']}: downlink MBR {mbr} but the single shared cell is programmed from the uplink MBR (pir={pir})")
                return (f"up4-meter:pir:{d}", f"QER {q['id']} {d}: pir={pir} != MBR {mbr} x 125")
            r = burst_check("up4", f"pburst:{d}", pb, [mbr], 10, None)
            if r:
                return r
    if len(o["terms"]) != len(c["pdrs"]):
        return ("up4-term:missing", "not every PDR got a terminations entry")
    for p, t in zip(c["pdrs"], o["terms"]):
        rq = None
        if p["qers"]:
            rq = next((q for q in c["qers"] if q["id"] == p["qers"][0]), None)
        drop = t["action"].endswith("_drop")
        uplink = p["src"] == 1
        if rq is not None and (rq["uls"] if uplink else rq["dls"]) == 1 and not drop:
            return ("up4-term:closed-gate-not-dropped", f"PDR {p['id']}: gate closed but action {t['action']}")
        if rq is not None and not c["far_drop"] and (rq["uls"] if uplink else rq["dls"]) == 0 and drop:
            return ("up4-term:open-gate-dropped", f"PDR {p['id']}: gate open, FAR forwards, but action {t['action']}")
        if rq is not None and not drop:
            want = c["qfi_tc"].get(str(rq["qfi"]), c["default_tc"])
            if t["params"].get("tc") != want:
                return ("up4-term:tc", f"PDR {p['id']}: tc={t['params'].get('tc')} but QFI {rq['qfi']} selects {want}")
            if not uplink and t["params"].get("qfi") != rq["qfi"]:
                return ("up4-term:qfi", f"PDR {p['id']}: qfi={t['params'].get('qfi')} instead of {rq['qfi']}")
    return None


MONITORS = {"calc": mon_calc, "parse": mon_parse, "mark": mon_mark, "bess": mon_bess, "hist": mon_hist, "up4": mon_up4}


def branch_key(c, o):
    k = c["kind"]
    if k == "calc":
        e = burst_exact(c["kbps"], c["ms"])
        return f"calc:{'beyond' if c.get('beyond') else 'short' if o['burst'] < e and e < U64 else 'over' if e >= U64 else 'exact' if o['burst'] == e else 'above'}"
    if k == "parse":
        return f"parse:{'ok' if o['ok'] else 'refused'}"
    if k == "mark":
        return f"mark:{'est' if c['est'] else 'mod'}:{sum(q['level'] for q in o['fin']['qers'])}marked"
    if k == "bess":
        g = sorted(set(x["gate"] for b in o["batches"] for x in b if x["cmd"] == "add"))
        return f"bess:gates{g}"
    if k == "hist":
        return f"hist:{c['cls'].split(':')[0]}"
    return k


def run(tier, seed, replay=None):
    ck = Check("C09", tier, seed)
    ck.trusted = COMMON_TRUSTED + [
        "harness/go/verif_c09_test.go: in-process recording BESSControl gRPC server and P4RuntimeClient; bess / UP4 / PFCPConn built as struct literals; "
        "UP4.sendCreate called directly (SendMsgToUPF needs a live grpc.ClientConn)",
        "go-pfcp encoders/decoders (IEs are marshalled and re-parsed before parseQER sees them)",
        "Coq primitive floats (PrimFloat / Uint63 primitives listed by Print Assumptions) implement IEEE binary64 as Go's float64 does on amd64; "
        "uint64(float64) out of range is modelled as amd64's 2^63",
        "UP4: an all-zero MeterConfig is the encoding of 'unmetered'",
    ]
    ck.assumptions = ["QER and PDR removal, and modifications that change PDR lists, are outside the statement's quantifier; the latter are compared with the model only",
                      "rates are 40-bit (PFCP MBR/GBR encoding); larger values are exercised for the model correspondence only",
                      "burst >= rate x duration is demanded only when the product fits a uint64 field",
                      "reserved gate values 2 and 3 carry no demand"]
    ck.rule = ("calc: boundary rates x durations + random 40-bit rates; parse: presence x boundary values of every child IE; bess: rate pairs "
               "{0,1,7,8,2^40-1}^2 per direction, 4x4 gate values, QFI {0,9,configured 5,unconfigured 7,63}, burst configurations {absent,0,2048,2^32-1} x durations "
               "{0,1,10,87,1000,2^32-1} + field-distinct / entry-0 / duplicate-QCI configurations; mark: all assignments of <= 3 ids to <= 3 PDRs (empty lists included) in all "
               "orders x QER attribute variants, plus random modification-like calls; hist: named F15 shapes, the same assignments (all 1- and 2-PDR shapes, a seeded third of the 3-PDR shapes in the quick tier) through the establishment handler on the real "
               "bess plug-in, random modification histories creating/updating 1-2 QERs; up4: QFI->TC maps x gate values x rates. distinct = distinct input; non-trivial = at least one "
               "QER reached a datapath command / a marking decision was taken")
    ck.prove(TARGETS)
    rng = rng_for(seed, "C09")
    if replay is None:
        cases = gen_cases(rng, tier)
    else:
        cases = [json.load(open(replay))["case"]["input"]]
    try:
        binary = build_harness()
        obs = [None] * len(cases)
        for kind, mode in MODES.items():
            idx = [i for i, c in enumerate(cases) if c["kind"] == kind]
            if not idx:
                continue
            res = run_harness(binary, mode, [harness_input(cases[i]) for i in idx])
            for i, r in zip(idx, res):
                obs[i] = r
    except HarnessError as e:
        ck.tie("harness builds and runs against the current tree", False, str(e)[-1500:])
        return ck.finish()
    ck.tie("harness builds and runs against the current tree", True)
    dist = {}
    kept = []
    for c, o in zip(cases, obs):
        if "panic" in o or "harness_error" in o:
            ck.fail("panic:" + c["kind"], f"{c['kind']}: {o.get('panic') or o.get('harness_error')}", {"input": c, "impl": o})
            continue
        kept.append((c, o))
        bk = branch_key(c, o)
        dist[bk] = dist.get(bk, 0) + 1
        ck.count(harness_input(c), not bk.endswith("refused"))
        m = MONITORS[c["kind"]](c, o)
        if m:
            ck.fail(m[0], m[1], {"input": c, "impl": o})
    ck.distribution = dist
    ck.samples = [{"input": c, "impl": o} for c, o in kept[:1] + kept[-1:]]
    if replay is not None:
        for c, o in kept:
            print(json.dumps({"input": c, "impl": o, "monitor": MONITORS[c["kind"]](c, o)}, indent=1))
    name = "correspondence: model = implementation (bursts, parse results, Qos commands, marks, PDR lists, meters, terminations)"
    try:
        idx = coq_eval_shards("C09", HEADER, [to_coq(c, o) for c, o in kept], shard=700)
        for i in idx:
            ck.mismatch(f"model and implementation disagree on {json.dumps(kept[i][0])[:600]}", {"input": kept[i][0], "impl": kept[i][1]})
        ck.tie(name, not idx, f"{len(idx)} mismatching cases, first: {json.dumps(kept[idx[0]][0])[:400]}" if idx else "")
    except RuntimeError as e:
        ck.tie(name, False, str(e)[-800:])
    return ck.finish()
