"""C19 - The slice-configuration REST endpoint programs what was posted, or nothing."""
import base64
import re
from lib import *

TARGETS = ["Props/C19.vo", "Run/Eval_C19.vo"]
HEADER = ("From Coq Require Import ZArith NArith List String.\nFrom UPF Require Import Model.SliceRest Run.Eval_C19.\n"
          "Import ListNotations.\nOpen Scope string_scope.\nOpen Scope N_scope.\n")

M63, M64 = 1 << 63, 1 << 64
UNIT = {"bps": 1, "Kbps": 1000, "Mbps": 10 ** 6, "Gbps": 10 ** 9}
KNOWN_UNITS = ["bps", "Kbps", "Mbps", "Gbps"]
UNKNOWN_UNITS = ["kbps", "MBPS", "Tbps", "mbps", "bit/s", "Mbps ", "bp", "GBps"]
OTHER_METHODS = ["GET", "DELETE", "PATCH", "HEAD", "OPTIONS", "TRACE", "put", "post", "Put", "POST ", " PUT", "PUTT",
                 "POS", "PUT,POST", "FOO", "BREW", "P"]
# constants the model (Model/SliceRest.v) and the monitor use; compared with the Go package's values on every run
MODEL_CONSTS = {"KB": 1000, "MB": 10 ** 6, "GB": 10 ** 9, "DefaultBurstSize": 48448, "sliceMeterGateMeter": 0,
                "sliceMeterGateUnmeter": 6, "farForwardU": 1, "farForwardD": 0, "StatusCreated": 201,
                "StatusBadRequest": 400, "StatusMethodNotAllowed": 405, "upfMsgTypeAdd": 0, "idx_15_3": 63}
QOS_TYPE = "type.googleapis.com/bess.pb.QosCommandAddArg"


def factor(unit):
    """multiplier the property assigns to a unit string; None = a string the property does not mention"""
    if unit in UNIT:
        return UNIT[unit]
    if unit == "":
        return UNIT["Mbps"]          # unstated
    return None


def p4info_slice_meter_id():
    """id of PreQosPipe.slice_tc_meter in the shipped P4Info (what a P4Runtime target resolves the write against)"""
    try:
        txt = open(os.path.join(REPO, "conf", "p4", "bin", "p4info.txt")).read()
    except OSError:
        return None
    m = re.search(r'meters\s*\{\s*preamble\s*\{\s*id:\s*(\d+)\s*name:\s*"PreQosPipe\.slice_tc_meter"', txt)
    return int(m.group(1)) if m else None


# --------------------------------------------------------------------------- JSON text rendering
class Raw(str):
    """a JSON token written verbatim (1e3, -0, NaN, ...)"""


def render(v):
    if isinstance(v, Raw):
        return str(v)
    if isinstance(v, list) and v and all(isinstance(x, tuple) for x in v):      # object as ordered pairs (duplicates allowed)
        return "{" + ",".join(json.dumps(k) + ":" + render(x) for k, x in v) + "}"
    if isinstance(v, list):
        return "[" + ",".join(render(x) for x in v) + "]"
    if v == {}:
        return "{}"
    return json.dumps(v)


def rand_name(rng, lo=0, hi=12):
    return "".join(rng.choice("abcdefghijklmnopqrstuvwxyzABCXYZ0123456789-_.") for _ in range(rng.randrange(lo, hi + 1)))


def rate_values(unit):
    f = factor(unit) or UNIT["Mbps"]
    top = (M63 - 1) // f                     # largest rate whose product fits in 63 bits
    vals = [0, 1, 7, 8, 9, top - 1, top, top + 1, M63 // f, M63 // f + 1, M63 - 1, M63, M63 + 1, M64 - 1,
            M64 // f, M64 // f + 1, M64 // f + 2]
    # products that wrap to exactly 0 (val == 0) and to exactly 2^63 (the most negative int64)
    g = f & -f                               # power-of-two part of the factor
    vals += [M64 // g, M63 // g]
    return sorted(set(v for v in vals if 0 <= v < M64))


BURSTS = [0, 1, 48448, 1514, (1 << 31) - 1, 1 << 31, (1 << 32) - 1, 1 << 32, M63 - 1, M63, M63 + 1, M64 - 1]


def rand_rate(rng, unit):
    f = factor(unit) or UNIT["Mbps"]
    r = rng.random()
    if r < 0.55:
        return rng.randrange(1, (M63 - 1) // f + 1)          # fits
    if r < 0.75:
        return rng.randrange(1, 100000)
    if r < 0.85:
        return rng.choice(rate_values(unit))
    return rng.getrandbits(64)


def rand_burst(rng):
    r = rng.random()
    if r < 0.5:
        return rng.randrange(1, 1 << 24)
    if r < 0.7:
        return rng.choice(BURSTS)
    if r < 0.85:
        return rng.getrandbits(64)
    return rng.randrange(1, M63)


def doc_of(name, ul, dl, unit, ulb, dlb, ue):
    return {"name": name, "ul": ul, "dl": dl, "unit": unit, "ulb": ulb, "dlb": dlb, "ue": [list(x) for x in ue]}


def valid_body(rng, ul, dl, unit, ulb, dlb, plain=False):
    """a complete network-slice document; unit None = member absent.  Returns (bytes, doc)"""
    name = "slice1" if plain else rand_name(rng, 0, 10)
    ue = [("internet", "pool1")] if plain else [(rand_name(rng, 0, 8), rand_name(rng, 0, 8)) for _ in range(rng.choice([0, 0, 1, 1, 2, 3]))]
    qos = [("uplinkMbr", ul), ("downlinkMbr", dl)]
    if unit is not None:
        qos.append(("bitrateUnit", unit))
    qos += [("uplinkBurstSize", ulb), ("downlinkBurstSize", dlb)]
    if not plain:
        rng.shuffle(qos)
    top = [("sliceName", name), ("sliceQos", qos)]
    if ue or rng.random() < 0.5:
        top.append(("ueResourceInfo", [[("dnn", d), ("uePoolId", p)] for d, p in ue]))
    if not plain:
        rng.shuffle(top)
    txt = render(top)
    if not plain and rng.random() < 0.3:
        txt = txt.replace(":", " : ").replace(",", ",\n ")
        txt = rng.choice(["", " ", "\n\t"]) + txt + rng.choice(["", "\n", "  "])
    return txt.encode(), doc_of(name, ul, dl, unit or "", ulb, dlb, ue)


def lenient_bodies(rng):
    """JSON that encoding/json decodes into NetworkSlice without error although it is not a complete
    document (members missing / null / extra / duplicated / differently cased): (bytes, doc) pairs"""
    z = lambda **k: doc_of(k.get("name", ""), k.get("ul", 0), k.get("dl", 0), k.get("unit", ""), k.get("ulb", 0), k.get("dlb", 0), k.get("ue", []))
    a, b, c, d = rng.randrange(1, 10 ** 6), rng.randrange(1, 10 ** 6), rng.randrange(1, 10 ** 6), rng.randrange(1, 10 ** 6)
    out = [
        (b"{}", z()), (b"null", z()), (b" {} \n", z()), (b'{"sliceQos":{}}', z()), (b'{"sliceQos":null}', z()),
        (b'{"sliceName":"only"}', z(name="only")),
        (b'{"sliceName":null,"sliceQos":{"uplinkMbr":null,"bitrateUnit":null},"ueResourceInfo":null}', z()),
        (render([("sliceQos", [("uplinkMbr", a)])]).encode(), z(ul=a)),
        (render([("sliceQos", [("downlinkMbr", b), ("bitrateUnit", "Gbps")])]).encode(), z(dl=b, unit="Gbps")),
        (render([("sliceQos", [("uplinkMbr", a), ("downlinkMbr", b)])]).encode(), z(ul=a, dl=b)),
        (render([("sliceQos", [("uplinkMbr", a), ("downlinkMbr", b), ("bitrateUnit", "bps"), ("uplinkBurstSize", c)])]).encode(),
         z(ul=a, dl=b, unit="bps", ulb=c)),
        (render([("sliceQos", [("uplinkBurstSize", c), ("downlinkBurstSize", d)])]).encode(), z(ulb=c, dlb=d)),
        # unknown members, at both levels, with nested values
        (render([("version", 3), ("sliceQos", [("uplinkMbr", a), ("downlinkMbr", b), ("bitrateUnit", "Kbps"), ("uplinkBurstSize", c),
                                               ("downlinkBurstSize", d), ("priority", [1, 2, [("x", None)]])]), ("extra", [("sliceQos", 7)])]).encode(),
         z(ul=a, dl=b, unit="Kbps", ulb=c, dlb=d)),
        # duplicate members: the last one wins
        (render([("sliceQos", [("uplinkMbr", a), ("uplinkMbr", b), ("downlinkMbr", c), ("bitrateUnit", "Gbps"), ("bitrateUnit", "Kbps"),
                               ("uplinkBurstSize", d), ("downlinkBurstSize", d)])]).encode(), z(ul=b, dl=c, unit="Kbps", ulb=d, dlb=d)),
        # member names are matched case-insensitively
        (render([("SLICENAME", "Up"), ("SliceQOS", [("UplinkMBR", a), ("DOWNLINKMBR", b), ("BitRateUnit", "Mbps"), ("uplinkburstsize", c),
                                                    ("DownlinkBurstSize", d)])]).encode(), z(name="Up", ul=a, dl=b, unit="Mbps", ulb=c, dlb=d)),
        (render([("ueResourceInfo", [[("dnn", "d1")], [("uePoolId", "p2")], []])]).encode().replace(b"[]]", b"{}]"),
         z(ue=[("d1", ""), ("", "p2"), ("", "")])),
    ]
    return out


def malformed_bodies(rng):
    """bodies json.Unmarshal(.., &NetworkSlice{}) rejects: (label, bytes)"""
    a, b = rng.randrange(1, 10 ** 6), rng.randrange(1, 10 ** 6)
    good = [("uplinkMbr", a), ("downlinkMbr", b), ("bitrateUnit", "Mbps"), ("uplinkBurstSize", 1000), ("downlinkBurstSize", 2000)]

    def with_(k, v):
        return render([("sliceName", "s"), ("sliceQos", [(x, (v if x == k else y)) for x, y in good])]).encode()

    out = []
    numeric = ["uplinkMbr", "downlinkMbr", "uplinkBurstSize", "downlinkBurstSize"]
    for k in numeric:
        for lab, v in [("string", str(a)), ("negative", -a), ("neg-one", -1), ("neg-zero", Raw("-0")), ("float", 1.5),
                       ("float-int", Raw("20.0")), ("exp", Raw("1e3")), ("array", [a]), ("object", [("v", a)]),
                       ("bool", True), ("2^64", M64), ("2^64+", M64 + rng.randrange(1, 1000)), ("huge", 10 ** 30)]:
            out.append((f"shape/{lab}", with_(k, v)))
    out.append(("shape/unit-number", with_("bitrateUnit", 1000)))
    out.append(("shape/unit-array", with_("bitrateUnit", ["Mbps"])))
    out.append(("shape/unit-object", with_("bitrateUnit", [("u", "Mbps")])))
    for lab, v in [("qos-array", [good]), ("qos-string", "x"), ("qos-number", 5), ("qos-bool", False)]:
        out.append((f"shape/{lab}", render([("sliceQos", v)]).encode()))
    out.append(("shape/name-number", render([("sliceName", 5), ("sliceQos", good)]).encode()))
    out.append(("shape/ue-object", render([("sliceQos", good), ("ueResourceInfo", [("dnn", "x")])]).encode()))
    out.append(("shape/ue-numbers", render([("sliceQos", good), ("ueResourceInfo", [1, 2])]).encode()))
    out.append(("shape/ue-dnn-number", render([("sliceQos", good), ("ueResourceInfo", [[("dnn", 1)]])]).encode()))
    for lab, txt in [("top-array", b"[]"), ("top-array-doc", b"[" + render([("sliceQos", good)]).encode() + b"]"),
                     ("top-string", b'"doc"'), ("top-number", b"42"), ("top-true", b"true"), ("top-false", b"false")]:
        out.append((f"shape/{lab}", txt))
    full = render([("sliceName", "s"), ("sliceQos", good), ("ueResourceInfo", [[("dnn", "internet"), ("uePoolId", "p")]])]).encode()
    cuts = sorted(set([1, 2, len(full) - 1, len(full) - 2] + [rng.randrange(1, len(full)) for _ in range(10)]))
    for k in cuts:
        out.append(("truncated", full[:k]))
    for lab, txt in [
        ("empty", b""), ("space", b"   \n"), ("text", b"hello"), ("xml", b"<slice><uplinkMbr>5</uplinkMbr></slice>"),
        ("form", b"uplinkMbr=5&downlinkMbr=6"), ("trailing-garbage", full + b" x"), ("two-docs", full + full),
        ("two-docs-nl", full + b"\n" + full), ("single-quotes", full.replace(b'"', b"'")), ("trailing-comma", full[:-1] + b",}"),
        ("comment", b"// c\n" + full), ("nan", full.replace(str(a).encode(), b"NaN", 1)), ("bom", b"\xef\xbb\xbf" + full),
        ("nul", b"\x00" + full), ("unquoted-key", b"{sliceQos:{}}"), ("hex", full.replace(str(a).encode(), b"0x10", 1)),
        ("leading-zero", full.replace(str(a).encode(), b"0" + str(a).encode(), 1)), ("plus", full.replace(str(a).encode(), b"+5", 1)),
        ("binary", bytes(rng.getrandbits(8) | 0x80 for _ in range(24))), ("open-brace", b"{"), ("close-brace", b"}"),
        ("colon", b'{"sliceQos"}'), ("ctrl-in-string", b'{"sliceName":"a\nb"}'),
    ]:
        out.append((f"nonjson/{lab}", txt))
    return out


def mkcase(dp, method, body, cls, doc=None, fail_after=-1, label=""):
    kind, slice_id, tc = dp
    return {"dp": kind, "slice": slice_id, "tc": tc, "method": method, "body_b64": base64.b64encode(body).decode(),
            "fail_after": fail_after, "cls": cls, "doc": doc, "label": label}


def rand_dp(rng, bad_cfg=0.04):
    if rng.random() < 0.5:
        return ("bess", 0, 0)
    if rng.random() < bad_cfg:
        return ("up4",) + rng.choice([(16, 0), (255, 3), (3, 4), (0, 255), (17, 9), (64, 1), (128, 2)])
    return ("up4", rng.randrange(16), rng.randrange(4))


def gen_cases(rng, tier):
    cases = []
    thorough = tier != "quick"
    dps_fixed = [("bess", 0, 0), ("up4", 0, 3), ("up4", 15, 3), ("up4", 1, 0)]
    # 1. boundary sweep: every unit (incl. absent, empty and unknown strings) x every boundary rate, both datapaths
    units = KNOWN_UNITS + [None, "", "kbps", "Tbps"]
    i = 0
    for unit in units:
        rv = rate_values(unit)
        for j, r in enumerate(rv):
            for dp in (dps_fixed if thorough else [dps_fixed[0], dps_fixed[1 + (i % 3)]]):
                i += 1
                other = rv[(j * 7 + i) % len(rv)] if i % 3 else rng.randrange(1, 1000)
                ul, dl = (r, other) if i % 2 else (other, r)
                ulb, dlb = BURSTS[i % len(BURSTS)], BURSTS[(i * 5 + 3) % len(BURSTS)]
                body, doc = valid_body(rng, ul, dl, unit, ulb, dlb, plain=(i % 4 == 0))
                cases.append(mkcase(dp, "PUT" if i % 2 else "POST", body, "valid", doc, label="sweep"))
    # every burst boundary on each side with plain fitting rates (so that the bursts are asserted)
    for k, bu in enumerate(BURSTS):
        for dp in dps_fixed[:2]:
            for (ul, dl) in [(20, 10), (10, 20), (15, 15)]:
                body, doc = valid_body(rng, ul, dl, "Mbps", bu, BURSTS[(k + 5) % len(BURSTS)], plain=True)
                cases.append(mkcase(dp, "POST", body, "valid", doc, label="bursts"))
                body, doc = valid_body(rng, ul, dl, "Kbps", BURSTS[(k + 3) % len(BURSTS)], bu, plain=True)
                cases.append(mkcase(dp, "PUT", body, "valid", doc, label="bursts"))
    # every UP4 cell
    for s in range(16):
        for tc in range(4):
            body, doc = valid_body(rng, rng.randrange(1, 5000), rng.randrange(1, 5000), rng.choice(KNOWN_UNITS), rand_burst(rng) % M63, rand_burst(rng) % M63)
            cases.append(mkcase(("up4", s, tc), rng.choice(["PUT", "POST"]), body, "valid", doc, label="cells"))
    for cfg in [(16, 0), (255, 3), (3, 4), (0, 255), (16, 4), (64, 1), (128, 2), (15, 7)]:
        body, doc = valid_body(rng, 5, 6, "Mbps", 7, 8, plain=True)
        cases.append(mkcase(("up4",) + cfg, "POST", body, "valid", doc, label="bad-config"))
    # 2. random valid documents
    for _ in range(500 if not thorough else 6000):
        unit = rng.choice(KNOWN_UNITS * 3 + [None, None, ""] + UNKNOWN_UNITS[:4])
        if unit not in KNOWN_UNITS and unit not in (None, "") and rng.random() < 0.5:
            unit = rng.choice(UNKNOWN_UNITS)
        body, doc = valid_body(rng, rand_rate(rng, unit), rand_rate(rng, unit), unit, rand_burst(rng), rand_burst(rng))
        cases.append(mkcase(rand_dp(rng), rng.choice(["PUT", "POST"]), body, "valid", doc, label="random"))
    # 3. decodable but incomplete / unusual documents
    for rep in range(2 if not thorough else 10):
        for body, doc in lenient_bodies(rng):
            cases.append(mkcase(rand_dp(rng, 0), rng.choice(["PUT", "POST"]), body, "lenient", doc, label="lenient"))
    # 4. malformed bodies, on both datapaths, PUT and POST
    for rep in range(1 if not thorough else 4):
        for lab, body in malformed_bodies(rng):
            for dp, meth in ([(("bess", 0, 0), "POST"), (("up4", 2, 3), "PUT")] if rep == 0 else [(rand_dp(rng, 0), rng.choice(["PUT", "POST"]))]):
                cases.append(mkcase(dp, meth, body, "malformed", None, label=lab))
    # 5. unreadable bodies: the reader fails at once, inside, and right after a valid document / garbage
    for rep in range(12 if not thorough else 80):
        body, doc = valid_body(rng, rng.randrange(1, 1000), rng.randrange(1, 1000), rng.choice(KNOWN_UNITS), 1000, 2000)
        for k in sorted(set([0, 1, len(body) // 2, len(body) - 1, len(body), rng.randrange(0, len(body) + 1)])):
            cases.append(mkcase(rand_dp(rng, 0), rng.choice(["PUT", "POST"]), body, "unreadable", None, fail_after=k, label="failing-reader"))
    for body in [b"", b"{}", b"null", b"garbage"]:
        for dp in dps_fixed[:2]:
            cases.append(mkcase(dp, "POST", body, "unreadable", None, fail_after=len(body), label="failing-reader"))
    # 6. other methods with every kind of body
    pool = [c for c in cases if c["label"] in ("random", "lenient", "failing-reader") or c["cls"] == "malformed"]
    for m in OTHER_METHODS:
        body, doc = valid_body(rng, 5, 6, "Mbps", 7, 8, plain=True)
        for dp in dps_fixed[:2]:
            cases.append(mkcase(dp, m, body, "valid", doc, label="other-method"))
        cases.append(mkcase(rand_dp(rng, 0), m, b"", "malformed", None, label="other-method"))
        for _ in range(3 if not thorough else 12):
            c = dict(rng.choice(pool))
            c["method"] = m
            c["label"] = "other-method"
            cases.append(c)
    for _ in range(40 if not thorough else 400):
        c = dict(rng.choice(pool))
        c["method"] = "".join(rng.choice("ABCDEFGHIJKLMNOPQRSTUVWXYZ") for _ in range(rng.randrange(1, 8)))
        if c["method"] in ("PUT", "POST"):
            c["method"] += "X"
        c["label"] = "other-method"
        cases.append(c)
    return cases


def seq_req(method, name, ul, dl, unit, ulb, dlb, refuse=False, label="doc"):
    qos = [("uplinkMbr", ul), ("downlinkMbr", dl), ("bitrateUnit", unit), ("uplinkBurstSize", ulb), ("downlinkBurstSize", dlb)]
    body = render([("sliceName", name), ("sliceQos", qos)]).encode()
    return {"method": method, "body_b64": base64.b64encode(body).decode(), "fail_after": -1, "refuse": refuse, "cls": "valid",
            "doc": doc_of(name, ul, dl, unit, ulb, dlb, []), "label": label}


def seq_bad(rng, kind):
    """a request that must change nothing: malformed body, unreadable body, or another method"""
    good = seq_req("POST", "x", rng.randrange(1, 999), rng.randrange(1, 999), "Mbps", 11, 22)
    if kind == "malformed":
        body = rng.choice([b"", b"{", b'{"sliceQos":{"uplinkMbr":"5"}}', b'{"sliceQos":{"uplinkMbr":-1}}', b"[]", b"hello",
                           base64.b64decode(good["body_b64"])[:-3], base64.b64decode(good["body_b64"]) + b" x"])
        return dict(good, method=rng.choice(["PUT", "POST"]), body_b64=base64.b64encode(body).decode(), cls="malformed", doc=None, label="malformed")
    if kind == "unreadable":
        return dict(good, method=rng.choice(["PUT", "POST"]), fail_after=rng.randrange(0, 40), cls="unreadable", doc=None, label="unreadable")
    return dict(good, method=rng.choice(["GET", "DELETE", "PATCH", "HEAD", "put", "OPTIONS"]), label="other-method")


def same_product(rng):
    """(rate, unit) pairs with equal rate*unit, all fitting in 63 bits"""
    base = rng.randrange(1, 9000)
    return rng.sample([(base * 10 ** 9, "bps"), (base * 10 ** 6, "Kbps"), (base * 1000, "Mbps"), (base, "Gbps")], 2)


def gen_seqs(rng, tier):
    """histories of 2-4 requests against ONE handler + upf + datapath plug-in"""
    thorough = tier != "quick"
    seqs = []
    M = lambda: rng.choice(["PUT", "POST"])
    B = lambda: rng.randrange(1, 1 << 24)
    for rep in range(2 if not thorough else 12):
        for dp in [("bess", 0, 0), ("up4", rng.randrange(16), rng.randrange(4))]:
            def add(label, reqs):
                seqs.append({"dp": dp[0], "slice": dp[1], "tc": dp[2], "label": label, "reqs": reqs})
            name = rand_name(rng, 1, 8)
            unit = rng.choice(KNOWN_UNITS)
            ul, dl = rng.randrange(1, 9000), rng.randrange(1, 9000)
            if rep % 2:
                dl = ul                                  # UP4: equal rates, the tie case
            b1, b2, b3, b4 = B(), B(), B(), B()
            A = lambda **k: seq_req(M(), k.get("name", name), k.get("ul", ul), k.get("dl", dl), k.get("unit", unit),
                                    k.get("ulb", b1), k.get("dlb", b2), refuse=k.get("refuse", False))
            add("new-bursts", [A(), A(ulb=b3, dlb=b4)])
            add("new-ul-burst", [A(), A(ulb=b3)])
            add("new-dl-burst", [A(), A(dlb=b4), A(dlb=b3)])
            (r1, u1), (r2, u2) = same_product(rng)
            add("other-unit-new-bursts", [A(ul=r1, dl=r1, unit=u1), A(ul=r2, dl=r2, unit=u2, ulb=b3, dlb=b4)])
            add("other-unit-same-bursts", [A(ul=r1, dl=r1, unit=u1), A(ul=r2, dl=r2, unit=u2)])
            add("exact-repost", [A(), A()])
            add("exact-repost-3", [A(), A(), A(ulb=b4)])
            add("new-name", [A(), A(name=name + "2"), A(name=name + "2", dlb=b3)])
            add("refused-then-retry", [A(refuse=True), A()])
            add("refused-twice-then-retry", [A(refuse=True), A(refuse=True), A(), A(ulb=b3)])
            add("good-refused-other-retry", [A(), A(ul=ul + 1, refuse=True), A(ul=ul + 1)])
            add("good-refused-same-retry", [A(), A(ulb=b3, refuse=True), A(ulb=b3)])
            add("interleaved-bad", [A(), seq_bad(rng, "malformed"), seq_bad(rng, "other"), A(ulb=b3, dlb=b4)])
            add("interleaved-unreadable", [A(), seq_bad(rng, "unreadable"), A()])
            add("bad-first", [seq_bad(rng, "malformed"), A(), seq_bad(rng, "other"), A(dlb=b4)])
            add("only-bad", [seq_bad(rng, "other"), seq_bad(rng, "unreadable"), seq_bad(rng, "malformed")])
            add("A-B-A", [A(), A(ul=ul + 7, dl=dl + 3), A()])
            add("zero-then-same", [A(ul=0, dl=0, unit="bps"), A(ul=0, dl=0, unit="bps", ulb=b3)])
    for _ in range(120 if not thorough else 1500):
        dp = rand_dp(rng, 0)
        name = rand_name(rng, 1, 6)
        rates = [rng.randrange(1, 6) * 1000, rng.randrange(1, 5000)]     # Mbps; the first can be respelled in Gbps
        bursts = [B() for _ in range(3)]
        reqs = []
        for _ in range(rng.randrange(2, 5)):
            r = rng.random()
            if r < 0.72:
                k = rng.choice(rates)
                if rng.random() < 0.4 and k % 1000 == 0:
                    ulv, unit = k // 1000, "Gbps"
                elif rng.random() < 0.4:
                    ulv, unit = k * 1000, "Kbps"
                else:
                    ulv, unit = k, "Mbps"
                dlv = ulv if rng.random() < 0.6 else rng.choice(rates) * {"Gbps": 1, "Kbps": 1000, "Mbps": 1}[unit]
                reqs.append(seq_req(M(), name if rng.random() < 0.85 else name + "b", ulv, dlv, unit, rng.choice(bursts), rng.choice(bursts),
                                    refuse=rng.random() < 0.2))
            else:
                reqs.append(seq_bad(rng, rng.choice(["malformed", "unreadable", "other"])))
        seqs.append({"dp": dp[0], "slice": dp[1], "tc": dp[2], "label": "random", "reqs": reqs})
    return seqs


# --------------------------------------------------------------------------- the property on the implementation's observation
def conv(rate, unit):
    """converted rate the property demands, or None where it demands nothing (rate 0, overflow, unknown unit string)"""
    f = factor(unit)
    if f is None or rate == 0 or rate * f >= M63:
        return None
    return rate * f


def monitor(c, o, meter_id):
    if o.get("panic"):
        return ("panic", "the handler panicked: " + o["panic"])
    st = o["statuses"]
    programmed = bool(o["bess"]) or bool(o["up4"])
    stored = o["stored"] is not None
    if c["method"] not in ("PUT", "POST"):
        if st != [405]:
            return ("other-method:status", f"method {c['method']!r} answered {st}, not a single 405")
        if programmed or stored:
            return ("other-method:programmed", f"method {c['method']!r} changed the datapath / slice info")
        return None
    if c["cls"] in ("unreadable", "malformed"):
        if len(st) != 1 or not 400 <= st[0] < 500:
            return ("error-body:status", f"{c['cls']} body answered with statuses {st}, not a single 4xx")
        if programmed:
            return ("error-body:programmed", f"{c['cls']} body still programmed the datapath: {o['bess'] or o['up4']}")
        if stored:
            return ("error-body:stored", f"{c['cls']} body replaced upf.sliceInfo")
        return None
    d = c["doc"]
    if c["cls"] == "lenient" and len(st) == 1 and 400 <= st[0] < 500:
        if programmed or stored:
            return ("error-body:programmed", "document refused with 4xx but the datapath / slice info changed")
        return None
    if st != [201]:
        return ("valid:status", f"well-formed {c['method']} answered {st}, not a single 201")
    cu, cd = conv(d["ul"], d["unit"]), conv(d["dl"], d["unit"])
    s = o["stored"]
    if s is None:
        return ("valid:stored", "201 but upf.sliceInfo was not replaced")
    if s["name"] != d["name"] or s["ulb"] != d["ulb"] or s["dlb"] != d["dlb"] or s["ue"] != [[p, dn] for dn, p in d["ue"]]:
        return ("valid:stored", f"stored slice info {s} does not carry the posted name / bursts / UE resources")
    if (cu is not None and s["ul"] != cu) or (cd is not None and s["dl"] != cd):
        return ("valid:stored-rate", f"stored rates {s['ul']}/{s['dl']} != rate*unit {cu}/{cd}")
    if c["dp"] == "bess":
        w = o["bess"]
        if o["up4"] or len(w) != 2 or any(x["module"] != "sliceMeter" or x["cmd"] != "add" or x["arg_type"] != QOS_TYPE for x in w):
            return ("bess:shape", f"expected two sliceMeter/add Qos commands, got {w}")
        ulc = [x for x in w if x["fields"] == [1, 0]]       # action = forward uplink, tunnel_out_type 0
        dlc = [x for x in w if x["fields"] == [0, 1]]       # action = forward downlink, tunnel_out_type 1
        if len(ulc) != 1 or len(dlc) != 1:
            return ("bess:shape", f"expected one uplink and one downlink command, got {w}")
        for side, x, cv, burst in (("uplink", ulc[0], cu, d["ulb"]), ("downlink", dlc[0], cd, d["dlb"])):
            if cv is None:
                continue
            if x["gate"] != 0:
                return (f"bess:{side}-gate", f"{side} rate {cv} bit/s posted but the meter gate is {x['gate']} (not metering)")
            if x["pir"] != cv // 8:
                return (f"bess:{side}-rate", f"{side} pir {x['pir']} B/s != {cv} bit/s / 8")
            if burst != 0 and x["pbs"] != burst:
                return (f"bess:{side}-burst", f"{side} pbs {x['pbs']} != posted burst {burst}")
        return None
    # UP4
    w = o["up4"]
    if c["slice"] >= 16 or c["tc"] >= 4:
        return None                                            # configuration outside the pipeline's range: not quantified over
    if o["bess"] or len(w) != 1 or w[0]["kind"] != "meter":
        return ("up4:shape", f"expected one meter entry write, got {w}")
    x = w[0]
    if x["update"] != 2 or x["meter_id"] != (meter_id or 336833095) or not x["has_index"] or x["index"] != 4 * c["slice"] + c["tc"]:
        return ("up4:cell", f"write {x} is not a MODIFY of slice_tc_meter cell {4 * c['slice'] + c['tc']}")
    if cu is None or cd is None:
        return None
    if x["pir"] != max(cu, cd):
        return ("up4:rate", f"pir {x['pir']} != max of converted rates {cu}, {cd}")
    # P4Runtime's pburst is an int64: a posted burst >= 2^63 can only be carried saturated at 2^63-1
    allowed = {d["ulb"]} if cu > cd else ({d["dlb"]} if cd > cu else {d["ulb"], d["dlb"]})
    allowed = {min(b, M63 - 1) for b in allowed}
    if x["pburst"] not in allowed:
        return ("up4:burst", f"pburst {x['pburst']} is not the posted burst of the larger side {sorted(allowed)} (saturated at 2^63-1)")
    return None


# --------------------------------------------------------------------------- Gallina
def coq_pairs(ps):
    return glist([f"({gstr(a)}, {gstr(b)})" for a, b in ps])


def gZ(z):
    return f"({int(z)})%Z"


def coq_body(c):
    if c["cls"] == "unreadable":
        return "Unreadable"
    if c["cls"] == "malformed":
        return "Malformed"
    d = c["doc"]
    return (f"(Decoded (Doc {gstr(d['name'])} {d['ul']} {d['dl']} {gstr(d['unit'])} {d['ulb']} {d['dlb']} "
            f"{coq_pairs(d['ue'])}))")


def coq_writes(o):
    """everything the datapath servers received, in order (whether they accepted or refused it)"""
    writes = []
    for x in o["bess"]:
        ded = x["deduct"] if x["has_deduct"] and x["deduct"] >= 0 else 999999
        if x["arg_type"] != QOS_TYPE or x["n_values"]:
            ded = 999998
        writes.append(f"WBess (BessCmd {gstr(x['module'])} {gstr(x['cmd'])} (QosAdd {x['gate']} {x['cir']} {x['pir']} {x['cbs']} "
                      f"{x['pbs']} {x['ebs']} {ded} {glist([str(f) for f in x['fields']])}))")
    for x in o["up4"]:
        upd = x["update"] if x["kind"] == "meter" and x["device"] == 1 else 999
        idx = x["index"] if x["has_index"] else -999
        writes.append(f"WUp4 (MeterWrite {upd} {x['meter_id']} {gZ(idx)} {gZ(x['cir'])} {gZ(x['cburst'])} {gZ(x['pir'])} {gZ(x['pburst'])})")
    return glist(writes)


def coq_stored(s):
    return "None" if s is None else (f"(Some (SliceInfo {gstr(s['name'])} {s['ul']} {s['dl']} {s['ulb']} {s['dlb']} "
                                     f"{coq_pairs(s['ue'])}))")


def coq_dp(c):
    return "Bess" if c["dp"] == "bess" else f"(Up4 {c['slice']} {c['tc']})"


def to_coq(c, o):
    return (f"Case {coq_dp(c)} {gstr(c['method'])} {coq_body(c)} {glist([str(x) for x in o['statuses']])} {coq_writes(o)} "
            f"{coq_stored(o['stored'])}")


def seq_to_coq(q, so):
    steps = [f"Step {gstr(r['method'])} {coq_body(r)} {glist([str(x) for x in o['statuses']])} {coq_writes(o)} {coq_stored(o['stored'])}"
             for r, o in zip(q["reqs"], so["steps"])]
    return f"SeqCase {coq_dp(q)} {glist(steps)} {coq_stored(so['final'])}"


def rle(vals):
    """maximal arithmetic runs: (start, count, first value, step)"""
    segs, i, n = [], 0, len(vals)
    while i < n:
        if i + 1 == n:
            segs.append((i, 1, vals[i], 0))
            break
        step = vals[i + 1] - vals[i]
        j = i + 1
        while j + 1 < n and vals[j + 1] - vals[j] == step:
            j += 1
        segs.append((i, j - i + 1, vals[i], step))
        i = j + 1
    return segs


def decode_agrees(c, o):
    """the generator's reading of encoding/json = json.Unmarshal into the package's NetworkSlice on the same bytes"""
    g = o["decode"]
    if c["cls"] == "unreadable":
        return True
    if c["cls"] == "malformed":
        return g["err"]
    d = c["doc"]
    return (not g["err"]) and all(g[k] == d[k] for k in ("name", "ul", "dl", "unit", "ulb", "dlb")) and g["ue"] == d["ue"]


def branch_key(c):
    """which case split of the model the input exercises"""
    if c["method"] not in ("PUT", "POST"):
        return "405"
    if c["cls"] in ("unreadable", "malformed"):
        return "400/" + c["cls"]
    d = c["doc"]
    ks = []
    for r in (d["ul"], d["dl"]):
        u = d["unit"]
        if u == "bps":
            ks.append("bps0" if r == 0 else "bps")
        else:
            f = {"Kbps": 1000, "Gbps": 10 ** 9}.get(u, 10 ** 6)
            w = (r * f) % M64
            ks.append("fits" if r and r * f < M63 else "zero" if r == 0 else "wrap+" if 0 < w < M63 else "wrap0" if w == 0 else "wrap-")
    un = d["unit"] if d["unit"] in UNIT else ("absent" if d["unit"] == "" else "unknown")
    b = ("b0" if d["ulb"] == 0 else "b63" if d["ulb"] >= M63 else "b") + ("b0" if d["dlb"] == 0 else "b63" if d["dlb"] >= M63 else "b")
    cfg = "" if c["dp"] == "bess" else ("/badcfg" if c["slice"] >= 16 or c["tc"] >= 4 else "")
    return f"201/{c['dp']}{cfg}/{un}/{ks[0]},{ks[1]}/{b}"


def run(tier, seed, replay=None):
    ck = Check("C19", tier, seed)
    ck.trusted = COMMON_TRUSTED + [
        "harness/go/verif_c19_test.go: real ConfigHandler via setupConfigHandler on an http.ServeMux, httptest requests, a ResponseWriter "
        "recording every WriteHeader; real bess plug-in (client/conn) -> in-process recording BESSControl gRPC server; real UP4 plug-in "
        "in its connected state (struct literal, real P4rtClient) -> in-process recording P4Runtime gRPC server (Write only)",
        "io.ReadAll and encoding/json are outside the model: the model takes 'unreadable | json.Unmarshal error | decoded field values'; "
        "the generator's decoded values are compared with json.Unmarshal into NetworkSlice on every body",
        "gRPC / protobuf transport between plug-in and recording server",
    ]
    ck.assumptions = [
        "UP4: a connected plug-in whose configured slice id < 16 and default TC < 4 (other configurations: C19_up4_bad_config_silent); "
        "P4Runtime connection set-up, arbitration and pipeline config are not exercised",
        "the datapath accepts the write (a failing gRPC call is only logged by the code and is not modelled)",
        "a posted burst size 0 counts as unstated (BESS substitutes DefaultBurstSize); BESS rates are programmed in bytes/s (rate/8), UP4 in bit/s",
    ]
    ck.rule = ("boundary sweep: units {bps,Kbps,Mbps,Gbps,absent,\"\",unknown} x rates {0,1,7,8,9,top-1,top,top+1,2^63/u,+1,2^63-1,2^63,2^63+1,"
               "2^64-1,2^64/u,+1,+2,wrap-to-0,wrap-to-2^63} x rotating burst boundaries on BESS and UP4, all 64 UP4 cells, out-of-range UP4 "
               "configurations; random documents; decodable-but-incomplete documents; wrong-shape / truncated / non-JSON / empty bodies; failing "
               "readers; 17 fixed + random other methods. distinct = distinct (datapath, config, method, body bytes, fail position); "
               "non-trivial = PUT/POST that is either refused (unreadable/malformed) or accepted with at least one rate the property speaks about")
    ck.prove(TARGETS)
    rng = rng_for(seed, "C19")
    if replay is None:
        cases, seqs = gen_cases(rng, tier), gen_seqs(rng, tier)
    else:
        rin = json.load(open(replay))["case"]["input"]
        cases, seqs = ([], [rin]) if "reqs" in rin else ([rin], [])
    meter_id = p4info_slice_meter_id()
    ck.tie("conf/p4/bin/p4info.txt names meter PreQosPipe.slice_tc_meter with the id the model uses (336833095)", meter_id == 336833095,
           f"found {meter_id}")
    try:
        binary = build_harness()
        inputs = [{k: c[k] for k in ("dp", "slice", "tc", "method", "body_b64", "fail_after")} for c in cases]
        obs = run_harness(binary, "c19", inputs)
        seq_inputs = [{"dp": q["dp"], "slice": q["slice"], "tc": q["tc"],
                       "reqs": [{k: r[k] for k in ("method", "body_b64", "fail_after", "refuse")} for r in q["reqs"]]} for q in seqs]
        seq_obs = run_harness(binary, "c19_seq", seq_inputs, tag="c19_seq")
        unit = run_harness(binary, "c19_unit", [{}], tag="c19_unit")[0]
    except HarnessError as e:
        ck.tie("harness builds and runs against the current tree", False, str(e)[-1500:])
        return ck.finish()
    ck.tie("harness builds and runs against the current tree", "harness_error" not in unit and not any("harness_error" in o for o in obs + seq_obs),
           str([o for o in obs + seq_obs + [unit] if "harness_error" in o][:1]))
    obs = [o if "harness_error" not in o else None for o in obs]

    # named constants of the Go package = the model's
    consts = unit.get("consts", {})
    diff = {k: (v, consts.get(k)) for k, v in MODEL_CONSTS.items() if consts.get(k) != v}
    ck.tie("constants KB/MB/GB, DefaultBurstSize, slice-meter gates, far actions, status codes = the model's", not diff, str(diff))

    # GetSliceTCMeterIndex, all 65536 (sliceID, TC) pairs: the property (cell = slice ++ tc inside the range) ...
    index = unit.get("index", [])
    if "panic" in unit:
        ck.fail("index:panic", "GetSliceTCMeterIndex panicked: " + unit["panic"], {"input": "c19_unit"})
    elif len(index) == 65536:
        for s in range(16):
            for tc in range(4):
                ck.evaluations += 1
                if index[s * 256 + tc] != 4 * s + tc:
                    ck.fail("index:cell", f"GetSliceTCMeterIndex({s},{tc}) = {index[s * 256 + tc]}, not {4 * s + tc}",
                            {"input": {"mode": "c19_unit", "slice": s, "tc": tc}, "impl": index[s * 256 + tc]})

    dist, outcome = {}, {}
    kept = []
    bad_seq_decode = []
    slow = 0
    for c, o in zip(cases, obs):
        if o is None:
            continue
        nt = c["method"] in ("PUT", "POST") and (c["cls"] in ("unreadable", "malformed") or
                                                 (c["doc"] is not None and (conv(c["doc"]["ul"], c["doc"]["unit"]) is not None or
                                                                            conv(c["doc"]["dl"], c["doc"]["unit"]) is not None)))
        ck.count([c["dp"], c["slice"], c["tc"], c["method"], c["body_b64"], c["fail_after"]], nt)
        bk = branch_key(c)
        dist[bk] = dist.get(bk, 0) + 1
        ok = c["label"].split("/")[0] + ":" + ",".join(str(x) for x in o.get("statuses", []))
        outcome[ok] = outcome.get(ok, 0) + 1
        slow += 1 if o.get("attempts", 1) > 1 else 0
        m = monitor(c, o, meter_id)
        if m:
            ck.fail(m[0], m[1], {"input": c, "body": base64.b64decode(c["body_b64"]).decode("latin-1"), "impl": o})
        if not o.get("panic"):
            kept.append((c, o))
    # histories: the property on EVERY request of the sequence - each request is judged on what IT posted,
    # whatever preceded it on the same handler / upf / datapath (repeated rates, new bursts, another spelling of
    # the unit, a refused first attempt, malformed and other-method requests in between)
    seq_kept = []
    seq_dist = {}
    for q, so in zip(seqs, seq_obs):
        if "harness_error" in so or len(so.get("steps", [])) != len(q["reqs"]):
            continue
        nt = False
        panicked = False
        for i, (r, o) in enumerate(zip(q["reqs"], so["steps"])):
            c = dict(r, dp=q["dp"], slice=q["slice"], tc=q["tc"])
            ck.evaluations += 1
            nt = nt or (i > 0 and r["cls"] == "valid" and r["method"] in ("PUT", "POST"))
            m = monitor(c, o, meter_id)
            if m:
                sig = "history:" + m[0]
                ck.fail(sig, f"request {i + 1} of a history of {len(q['reqs'])} on one handler ({q['label']}): " + m[1],
                        {"input": q, "failing_request": i + 1,
                         "bodies": [base64.b64decode(x["body_b64"]).decode("latin-1") for x in q["reqs"]], "impl": so})
            if not decode_agrees(c, o):
                bad_seq_decode.append(c)
            panicked = panicked or bool(o.get("panic"))
            slow += 1 if so.get("attempts", 1) > 1 and i == 0 else 0
        ck.count([q["dp"], q["slice"], q["tc"], [[r["method"], r["body_b64"], r["fail_after"], r["refuse"]] for r in q["reqs"]]], nt)
        seq_dist[q["label"]] = seq_dist.get(q["label"], 0) + 1
        # the meter after the history = what the last accepted, not refused request sent (derived; recorded for the evidence)
        if not panicked:
            seq_kept.append((q, so))
    ck.distribution = {"model_branches": dict(sorted(dist.items())), "outcomes": dict(sorted(outcome.items())),
                       "histories": dict(sorted(seq_dist.items())),
                       "history_requests": sum(len(q["reqs"]) for q in seqs),
                       "requests_repeated_because_slow": slow}
    ck.notes["content_type_observation"] = sorted(set((o["ct_at_header"], o["ct_final"]) for c, o in kept))[:4]
    ck.samples = [{"input": c, "impl": o} for c, o in (kept[:1] + kept[-1:])] + [{"input": q, "impl": so} for q, so in seq_kept[:1]]

    bad = [c for c, o in kept if not decode_agrees(c, o)] + bad_seq_decode
    ck.tie("generator's decoded documents / malformed classification = json.Unmarshal into NetworkSlice on every body", not bad,
           f"{len(bad)} bodies, first: {bad[0]['label']} {base64.b64decode(bad[0]['body_b64'])[:200]!r}" if bad else "")
    name = "correspondence: statuses, datapath writes and stored slice info of the model = implementation on all requests"
    try:
        idx = coq_eval_shards("C19", HEADER, [to_coq(c, o) for c, o in kept], shard=50)
        for i in idx:
            ck.mismatch(f"model and implementation disagree on {kept[i][0]['label']} {kept[i][0]['method']} {kept[i][0]['dp']} doc={kept[i][0]['doc']}",
                        {"input": kept[i][0], "impl": kept[i][1]})
        ck.tie(name, not idx, f"{len(idx)} mismatching requests" if idx else "")
        sidx = coq_eval_shards("C19s", HEADER, [seq_to_coq(q, so) for q, so in seq_kept], shard=25, expr="seq_mismatches cases",
                               case_type="seq_case")
        for i in sidx:
            ck.mismatch(f"model and implementation disagree on a history ({seq_kept[i][0]['label']}, {seq_kept[i][0]['dp']})",
                        {"input": seq_kept[i][0], "impl": seq_kept[i][1]})
        ck.tie("correspondence: the stateful model (run from no stored slice) = implementation on every request of every history, "
               "and on the final upf.sliceInfo", not sidx, f"{len(sidx)} mismatching histories" if sidx else "")
        # ... and the model of GetSliceTCMeterIndex on all 65536 pairs
        if len(index) == 65536:
            segs = rle(index)
            if len(segs) > 3000:
                raise RuntimeError(f"GetSliceTCMeterIndex table has {len(segs)} arithmetic runs (model: 33); first {segs[:5]}")
            ix = coq_eval_shards("C19i", HEADER, [f"Seg {a} {n} {gZ(v0)} {gZ(st)}" for a, n, v0, st in segs], shard=100000,
                                 expr="index_mismatches cases", case_type="segment")
            for i in ix[:3]:
                what = "the run-length encoding does not tile 0..65535" if i >= len(segs) else \
                    f"GetSliceTCMeterIndex differs from the model inside (sliceID, TC) indices {segs[i][0]}..{segs[i][0] + segs[i][1] - 1} (256*sliceID+TC)"
                ck.mismatch(what, {"segment": segs[i] if i < len(segs) else None})
            ck.tie("correspondence: get_slice_tc_meter_index = GetSliceTCMeterIndex on all 65536 (sliceID, TC) pairs", not ix, f"{len(ix)} runs differ")
            ck.evaluations += 65536
        else:
            ck.tie("correspondence: get_slice_tc_meter_index = GetSliceTCMeterIndex on all 65536 (sliceID, TC) pairs", False, str(unit)[:300])
    except RuntimeError as e:
        ck.tie(name, False, str(e)[-800:])
    return ck.finish()
