"""C01 - no PFCP datagram can crash or wedge the agent."""
from props.l1common import *
from props.l1props import model_correspondence
from props import c14up4 as U
import l1
import l1mut
import pfcp as P

TARGETS = ["Props/C01.vo", "Run/Eval_L1.vo"]


def up4_histories(rng):
    """valid histories on the UP4 world (real UP4 plug-in, fake P4Runtime server), end markers disabled and enabled, with
    modifications that carry the send-end-marker flag; the last four events are the probes"""
    out = []
    for em in (False, True, False, True):
        g = U.GenU(random.Random(rng.getrandbits(64)), l1.default_cfg(end_marker=em))
        r = g.rng
        g.setup(0)
        l = g.est04(0, npairs=1, nqers=r.choice([0, 1, 2]), gnb=U.GNBS[0], dl_action=2, choose=r.random() < 0.5, chv4=r.random() < 0.5)
        for _ in range(r.choice([1, 3])):
            g.upd_far_em(l, gnb=r.choice([None, U.GNBS[1], U.GNBS[2]]), flags=r.choice([2, 2, 3, 6]), repeat=r.random() < 0.3)
        g.upd_far_unknown_em(l)
        g.upd_far_em(l, flags=None)
        g.heartbeat(0)
        g.setup(1)
        l2 = g.est04(1, npairs=1, nqers=1, gnb=U.GNBS[3], dl_action=2)
        g.delete(l2)
        out.append(U.finish(g, U.up4_cfg(r), name=f"up4-valid-history/end_marker={em}"))
    return out


def up4_leg(ck, binary, rng, dist, cases=None):
    cases = up4_histories(rng) if cases is None else cases
    try:
        outs = U.run_up4(binary, [c["input"] for c in cases], tag="c01u")
    except HarnessError as e:
        ck.fail("up4:harness-died", str(e)[-600:], {"leg": "up4"})
        return
    for c, o in zip(cases, outs):
        ck.count(["up4", c["name"]] + [e.get("hex", e["k"]) for e in c["input"]["events"]], True)
        res = []
        d = U.died(o)
        if d:
            res.append(d)
        else:
            obs = o["obs"]
            for i, (it, ob) in enumerate(zip(c["intents"], obs)):
                if it.get("wf") and it.get("req") in P.RESPONSE_OF and len(l1.replies_of(ob)) != 1:
                    res.append(("up4:request-not-answered", f"event {i} ({it.get('op')}/{it.get('kind', '')}): a valid request got {len(l1.replies_of(ob))} responses", i))
                    break
            if not res and len(obs) < len(c["input"]["events"]):
                res.append(("up4:history-cut", "harness stopped early", len(obs)))
        for sig, msg, i in res[:1]:
            ob = o.get("obs", [])
            ck.fail(sig, f"{c['name']}: {msg}", {"leg": "up4", "name": c["name"], "input": c["input"], "intents": c["intents"], "event": i,
                                                  "impl_event": {k: v for k, v in (ob[i] if i < len(ob) else {}).items() if k in ("dp", "replies", "blocked", "panic", "frame")}})
        dist[f"{c['name']}:{'ok' if not res else 'failed'}"] = dist.get(f"{c['name']}:{'ok' if not res else 'failed'}", 0) + 1


def run(tier, seed, replay=None):
    ck = Check("C01", tier, seed)
    ck.trusted = L1_TRUSTED + ["UP4 leg: harness/go/verif_c14_test.go (real UP4 plug-in behind the L1 driver, handler watchdog) and harness/go/verif_p4rt_test.go "
                               "(fake P4Runtime server); tools/props/c14up4.py (histories inside the UP4 envelope)"]
    ck.assumptions = ["a panic inside a handler is recovered by the harness and ends the history (production has no recover: the process dies)",
                      "'blocked' = HandlePFCPMsg did not return within 8 s"]
    ck.rule = ("every IE-level mutation (drop, duplicate, empty, retype, truncate by 1 / to half, grow, IPv6-only, flow-description token "
               "deletions and truncations) at every IE position of one valid instance of each of the 10 dispatched message types, in 6 "
               "association/session states (exhaustive over kind x position x state, about 11 000 histories, in both tiers), plus garbage "
               "datagrams (random bytes, bit flips, truncations, corrupted length fields); each followed by heartbeats on the same and on "
               "another association and a complete establish/delete on another association. distinct = (state, message, mutation kind, IE path); "
               "UP4 leg: 4 valid histories on the real UP4 plug-in (end markers disabled / enabled) whose modifications carry the send-end-marker flag, "
               "followed by heartbeat, a second association, establish, delete")
    ck.prove(TARGETS)
    rng = rng_for(seed, "C01")
    cases = l1mut.injected_cases(rng, tier) + l1mut.garbage_cases(rng, 400 if tier == "quick" else 6000)
    if replay:
        rp = json.load(open(replay))["case"]
        if rp.get("leg") == "up4":
            try:
                up4_leg(ck, build_harness(), rng, {}, cases=[rp])
            except HarnessError as e:
                ck.tie("harness builds and runs against the current tree", False, str(e)[-1500:])
            return ck.finish()
        cases = [(("replay",), rp["input"], rp["intents"], rp.get("inject", 0), rp.get("probe_start", 0))]
    try:
        binary = build_harness()
        obs = run_l1(binary, [c[1] for c in cases], workers=12, tag="c01")
    except HarnessError as e:
        ck.tie("harness builds and runs against the current tree", False, str(e)[-1500:])
        return ck.finish()
    ck.tie("harness builds and runs against the current tree", True)
    dist = {}
    nconf = 0
    for (key, case, intents, inj, ps), ob in zip(cases, obs):
        res = l1.mon_c01(case, intents, ob)
        # dropped or answered; probes processed normally
        for sig, msg, i in l1.mon_c02(case, intents, ob):
            if i == inj or i >= ps:
                res.append(("after-datagram:" + sig if i >= ps else "datagram:" + sig, msg, i))
        answered = bool(inj < len(ob) and ob[inj].get("replies"))
        k = f"{key[0]}/{key[1] if len(key) > 1 else ''}/{key[2] if len(key) > 2 else ''}:{'answered' if answered else 'dropped'}"
        dist[k] = dist.get(k, 0) + 1
        ck.count([str(x) for x in key], True)
        for sig, msg, i in res[:1]:
            if not replay and nconf < 12:
                nconf += 1

                def again(ob2, case=case, intents=intents, inj=inj, ps=ps):
                    r2 = l1.mon_c01(case, intents, ob2)
                    for s3, m3, i3 in l1.mon_c02(case, intents, ob2):
                        if i3 == inj or i3 >= ps:
                            r2.append(("after-datagram:" + s3 if i3 >= ps else "datagram:" + s3, m3, i3))
                    return r2
                if not confirmed(binary, case, sig, again):
                    ck.notes["unconfirmed_failures"] = ck.notes.get("unconfirmed_failures", 0) + 1
                    continue
            ck.fail(sig, msg, {"input": case, "intents": intents, "inject": inj, "probe_start": ps, "key": [str(x) for x in key],
                               "impl_event": ob[i] if i < len(ob) else None})
    # "in any association or session state": a state reached by more requests than any queue inside the agent holds
    # (end-marker queue 1024, heartbeat reset queue 100). The requests are valid; the last events are probes.
    run_soak(ck, binary, rng, lambda c, it, ob: l1.mon_c01(c, it, ob), dist)
    # configuration variants (Node ID forms, debug log level, heartbeat monitor) and two-message histories in which a
    # provisioned flow description that cannot be parsed is used by a later PDR
    run_soak(ck, binary, rng, lambda c, it, ob: l1.mon_c01(c, it, ob) + l1.mon_c02(c, it, ob), dist,
             scenarios=l1.variant_scenarios(rng, 3) + l1.pfd_then_pdr_scenarios(rng))
    if not replay:
        up4_leg(ck, binary, rng, dist)
    # the model takes the datagram as go-pfcp decodes it, so it is evaluated on mutated and garbage datagrams alike
    sub = list(zip([c[1] for c in cases], obs))
    rng.shuffle(sub)
    model_correspondence(ck, sub, limit=(700 if tier == "quick" else 6000), name="C01", binary=binary)
    agg = {}
    for k, v in dist.items():
        kk = k.split("/")[0] + "/" + k.split("/")[1] + ":" + k.split(":")[-1]
        agg[kk] = agg.get(kk, 0) + v
    ck.distribution = agg
    ck.samples = [{"key": [str(x) for x in c[0]], "injected_hex": c[1]["events"][c[3]]["hex"][:120]} for c in cases[:3]]
    return ck.finish()
