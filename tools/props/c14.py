"""C14 - end markers go to the old tunnel, once."""
from props.l1props import *


def run(tier, seed, replay=None):
    ck, _ = run_prop("C14", tier, seed, replay, 500, 6000,
                     rule="random histories over 2 associations x up to 4 sessions (setup, establishment incl. without association, the "
                          "modification kinds of tools/l1.py, deletion, unknown-SEID requests, heartbeat, report response, release, teardown, restart), "
                          "sequence numbers incl. 0 / 2^24-1, CP SEIDs incl. 0 / 2^64-1; distinct = distinct event byte sequences")
    return ck if isinstance(ck, int) else ck.finish()
