"""C14 - end markers go to the old tunnel, once.

Two legs.  BESS: the common L1 driver (tools/props/l1props.py, monitor l1.mon_c14, correspondence with Model/Agent.v).
UP4: the same statement on the real UP4 plug-in (tools/props/c14up4.py, harness mode "c14"): End Markers are observed as
PacketOut messages at the P4Runtime server; failed updates are produced by Write faults (whole-RPC failures and p4.Error
lists such as [OK, NOT_FOUND]) at every Write position of the modification."""
import copy

from props.l1props import *
from props import c14up4 as U

UP4_TRUSTED = [
    "harness/go/verif_c14_test.go: the real HandlePFCPMsg / Shutdown on PFCPConn struct literals with the REAL UP4 plug-in behind a recorder of the "
    "datapath interface (order and results of SendMsgToUPF / SendEndMarkers); harness/go/verif_p4rt_test.go: the fake P4Runtime server (Write "
    "semantics, fault injection on the k-th Write, PacketOut capture stamped with the number of Writes received)",
    "tools/props/c14up4.py + tools/props/c04.py (Gen04): UP4 envelope of the generated histories and the control plane's view of the old tunnel",
]
UP4_RULE = ("; UP4 leg: 10 scenarios (handover with 0/1/2 QERs, with application filter, two PDR pairs, new TEID on the same gNB, second handover, and four "
            "with the P4Runtime channel lost and re-established - at once / by the next request / twice / before a new session - between two flagged updates) "
            "fault-free with end markers enabled and disabled, then the flagged modification once per (Write position k, 8 answers of the switch: "
            "gRPC UNAVAILABLE, UNKNOWN without details, p4.Error lists [NOT_FOUND..], [OK,NOT_FOUND..], [NOT_FOUND,OK..], [ALREADY_EXISTS,NOT_FOUND..], "
            "[OK,RESOURCE_EXHAUSTED..], [OK,ALREADY_EXISTS,NOT_FOUND..]); random UP4 histories (flag values 0/1/2/3/6/absent, new TEID / handover, several "
            "FARs and one FAR twice per message, unknown FAR, other modifications, failing Writes, deletions, release, teardown)")


def up4_leg(ck, tier, seed, replay_case=None):
    rng = rng_for(seed, "C14-up4")
    try:
        binary = build_harness()
        if replay_case is not None:
            cases = [replay_case]
            outs = U.run_up4(binary, [replay_case["input"]], tag="c14u_replay")
        else:
            fam = U.c14_family(rng)
            off = []
            for c in fam:
                d = copy.deepcopy(c)
                d["input"]["cfg"]["end_marker"] = False
                d["name"] += "/disabled"
                for it in d["intents"]:
                    if it.get("markers"):
                        it["markers"] = []
                off.append(d)
            bases = fam + off + U.c14_corpus()
            bouts = U.run_up4(binary, [c["input"] for c in bases], tag="c14u_base")
            sweep = U.c14_sweep(fam, bouts[:len(fam)])
            rnd = []
            for _ in range(120 if tier == "quick" else 2500):
                rnd.append(U.c14_random(random.Random(rng.getrandbits(64))))
            more = sweep + rnd
            cases = bases + more
            outs = bouts + U.run_up4(binary, [c["input"] for c in more], tag="c14u")
    except HarnessError as e:
        ck.tie("UP4 leg: harness builds and runs against the current tree", False, str(e)[-1500:])
        return
    ck.tie("UP4 leg: harness builds and runs against the current tree", True)
    dist = ck.distribution if isinstance(ck.distribution, dict) else {}
    n_failed_updates = n_markers = nconfirm = 0
    for c, o in zip(cases, outs):
        ck.count(["up4", c["input"]["cfg"]["end_marker"]] + [e.get("hex", e["k"]) + str(e.get("faults", "")) for e in c["input"]["events"]], True)
        for it, ob in zip(c["intents"], o.get("obs", [])):
            if it.get("op") == "mod":
                k = f"up4:mod/{it.get('kind', '')}/{it.get('expect', '')}"
                dist[k] = dist.get(k, 0) + 1
                n_markers += len(ob.get("pkts", []))
                n_failed_updates += 1 if any(U.write_failed(w) for w in ob.get("writes", [])) else 0
        seen = set()
        for sig0, msg, i in U.mon_c14_up4(c, o):
            sig = f"{c['tag']}:{sig0}" if c.get("tag") else sig0
            if sig in seen:
                continue
            seen.add(sig)
            if replay_case is None and not c.get("tag") and nconfirm < 10:
                nconfirm += 1
                if not U.confirmed(binary, c, sig0, U.mon_c14_up4):
                    ck.notes["unconfirmed_failures"] = ck.notes.get("unconfirmed_failures", 0) + 1
                    continue
            ob = o.get("obs", [])
            ck.fail(sig, f"UP4 {c['name']}: {msg}", {"leg": "up4", "tag": c.get("tag"), "name": c["name"], "input": c["input"], "intents": c["intents"], "event": i,
                                                     "impl_event": {k: v for k, v in (ob[i] if i < len(ob) else {}).items() if k not in ("tables", "up4", "store", "pools")}})
    ck.distribution = dist
    ck.notes["up4_leg"] = {"histories": len(cases), "end_marker_packet_outs": n_markers, "modifications_with_a_failed_write": n_failed_updates}


def run(tier, seed, replay=None):
    rp = json.load(open(replay))["case"] if replay else None
    rule = ("random histories over 2 associations x up to 4 sessions (setup, establishment incl. without association, the "
            "modification kinds of tools/l1.py, deletion, unknown-SEID requests, heartbeat, report response, release, teardown, restart), "
            "sequence numbers incl. 0 / 2^24-1, CP SEIDs incl. 0 / 2^64-1; distinct = distinct event byte sequences" + UP4_RULE)
    if rp is not None and rp.get("leg") == "up4":
        ck = Check("C14", tier, seed)
        ck.trusted = L1_TRUSTED + UP4_TRUSTED
        ck.rule = rule
        ck.prove(["Props/C14.vo", "Run/Eval_L1.vo"])
        up4_leg(ck, tier, seed, replay_case=rp)
        return ck.finish()
    ck, _ = run_prop("C14", tier, seed, replay, 500, 6000, rule=rule)
    if isinstance(ck, int):
        return ck
    ck.trusted = L1_TRUSTED + UP4_TRUSTED
    ck.assumptions = list(ck.assumptions) + [
        "UP4 leg: a failed update = a modification one of whose Write RPCs failed (gRPC error, or a p4.Error list with a status other than OK / "
        "ALREADY_EXISTS); 'after the new rule has been programmed' = the hand-over to the plug-in follows the accepted SendMsgToUPF(Mod) and every "
        "PacketOut reaches the switch after the Writes of that call",
        "UP4 leg envelope: a session is not modified again after one of its modifications was rejected (the stored FAR is overwritten in place before "
        "the datapath is asked: F12 family)"]
    if not replay:
        up4_leg(ck, tier, seed)
    return ck.finish()
