"""L1 history + implementation observations -> Gallina term of type Eval_L1.case."""
import json
from lib import gN, gbool, glist, gopt
import l1

HEADER = ("From Coq Require Import NArith List Bool.\nFrom UPF Require Import Model.IPPool Model.Fteid Model.PortRange Model.Agent Run.Eval_L1.\n"
          "Import ListNotations.\nOpen Scope N_scope.\n")


def n(x):
    return str(int(x))


def nl(xs):
    return "[" + "; ".join(n(x) for x in xs) + "]"


def acc(v, f=n):
    if v == "err":
        return "IErr"
    return f"(IOk {f(v['ok'])})"


def oacc(v, f=n):
    if v is None:
        return "None"
    return f"(Some {acc(v, f)})"


def optn(v):
    return "None" if v is None else f"(Some {n(v)})"


def ep(e):
    return f"(EP {gbool(e[0])} {n(e[1])} {n(e[2])} {n(e[3])} {n(e[4])})"


def flow(f):
    if f == "err":
        return "FlowErr"
    return f"(Flow {n(f['dir'])} {n(f['proto'])} {ep(f['src'])} {ep(f['dst'])})"


def pdi_el(e):
    k = e["k"]
    if k == "src":
        return f"(PSrc {acc(e['v'])})"
    if k == "fteid":
        return f"(PFteid {acc(e['v'], lambda t: f'({gbool(t[0])}, {n(t[1])}, {optn(t[2])})')})"
    if k == "ueip":
        return f"(PUeip {acc(e['v'], lambda t: f'({n(t[0])}, {optn(t[1])})')})"
    if k == "sdf":
        return f"(PSdf {acc(e['v'], flow)})"
    if k == "app":
        return f"(PApp {acc(e['v'])})"
    return "POther"


def pdr_ie(p):
    pdi = acc(p["pdi"], lambda els: glist([pdi_el(e) for e in els]))
    return f"(PdrIE {acc(p['id'])} {acc(p['prec'])} {pdi} {gbool(p['decap'])} {acc(p['far'])} {gbool(p['group_ok'])} {nl(p['qers'])})"


def fwd(v):
    def el(e):
        k = e["k"]
        if k == "ohc":
            return f"(FOhc {acc(e['v'], lambda t: f'({n(t[0])}, {optn(t[1])})')})"
        if k == "dst":
            return f"(FDst {acc(e['v'])})"
        if k == "sm":
            return f"(FSm {acc(e['v'])})"
        return "FOther"
    return acc(v, lambda els: glist([el(e) for e in els]))


def far_ie(f):
    return f"(FarIE {acc(f['id'])} {acc(f['action'])} {fwd(f['fwd_c'])} {fwd(f['fwd_u'])})"


def qer_ie(q):
    return f"(QerIE {acc(q['id'])} {n(q['qfi'])} {n(q['gul'])} {n(q['gdl'])} {n(q['mul'])} {n(q['mdl'])} {n(q['gbul'])} {n(q['gbdl'])})"


def fseid(v):
    return oacc(v, lambda t: f"({n(t[0])}, {optn(t[1])})")


def msg(s):
    t = s.get("t")
    if t == "hb":
        return "MHeartbeat"
    if t == "setup":
        return f"(MSetup {oacc(s['nodeid'])} {oacc(s['rts'])})"
    if t == "release":
        return "MRelease"
    if t == "pfd":
        apps = []
        for a in s["apps"]:
            ctx = acc(a["ctx"], lambda cs: glist(["IErr" if c == "err" else f"(IOk ({n(c['ok'][0])}, {flow(c['ok'][1])}))" for c in cs]))
            apps.append(f"(PfdApp {acc(a['id'])} {ctx})")
        return f"(MPfd {glist(apps)})"
    if t == "est":
        return (f"(MEst {oacc(s['nodeid'])} {fseid(s['cpfseid'])} {glist([pdr_ie(p) for p in s['cp']])} "
                f"{glist([far_ie(f) for f in s['cf']])} {glist([qer_ie(q) for q in s['cq']])})")
    if t == "mod":
        rm = lambda l: glist([acc(x) for x in l])
        return (f"(MMod {n(s['hseid'])} {fseid(s['cpfseid'])} {glist([pdr_ie(p) for p in s['cp']])} {glist([far_ie(f) for f in s['cf']])} "
                f"{glist([qer_ie(q) for q in s['cq']])} {glist([pdr_ie(p) for p in s['up']])} {glist([far_ie(f) for f in s['uf']])} "
                f"{glist([qer_ie(q) for q in s['uq']])} {rm(s['rp'])} {rm(s['rf'])} {rm(s['rq'])})")
    if t == "del":
        return f"(MDel {n(s['hseid'])})"
    if t == "srrsp":
        return f"(MReportRsp {n(s['hseid'])} {oacc(s['cause'])})"
    if t == "response":
        return "MResponse"
    return "MOther"


def enc_pdr(p):
    return [p["id"], p["fseid"], p["iface"], p["iface_m"], p["tdst"], p["tdst_m"], p["teid"], p["teid_m"], p["ue"], p["prec"], p["far"],
            p["decap"], int(p["alloc_ip"]), int(p["choose"]), p["f_sip"], p["f_sip_m"], p["f_dip"], p["f_dip_m"],
            p["f_sp"][0], p["f_sp"][1], p["f_dp"][0], p["f_dp"][1], p["f_proto"], p["f_proto_m"]] + list(p["qers"])


def enc_far(f):
    return [f["id"], f["fseid"], f["dst_if"], int(f["em"]), f["action"], f["ttype"], f["tsrc"], f["tdst"], f["teid"], f["tport"]]


def enc_qer(q):
    return [q["id"], q["fseid"], q["level"], q["qfi"], q["ul"], q["dl"], q["ul_mbr"], q["dl_mbr"], q["ul_gbr"], q["dl_gbr"]]


MOD_CODE = {"pdrLookup": 0, "farLookup": 1, "appQERLookup": 2, "sessionQERLookup": 3}


def enc_reply(o):
    rs = [m for c, l in o.get("replies", {}).items() for m in l]
    if not rs:
        return []
    m = rs[0]
    t = m.get("type")
    if t == 2:
        return [2]
    if t == 6:
        return [6, m.get("cause", 0)]
    if t == 10:
        return [10]
    if t == 4:
        return [4, m.get("cause", 0)]
    if t == 51:
        up = m.get("upfseid")
        out = [51, m.get("seid", 0), m.get("cause", 0), up[0] if isinstance(up, list) else 0]
        for c in m.get("created", []):
            if "teid" in c:
                out += [1, c.get("pdr", 0), c["teid"], c.get("ip") or 0]
            elif "ueip" in c:
                out += [2, c.get("pdr", 0), c["ueip"] or 0]
        return out
    if t == 53:
        return [53, m.get("seid", 0), m.get("cause", 0)]
    if t == 55:
        return [55, m.get("seid", 0), m.get("cause", 0)]
    return [999, t or 0]


def reply_seq(o):
    rs = [m for c, l in o.get("replies", {}).items() for m in l]
    return rs[0].get("seq", 0) if rs else 0


def obs_term(o, shutdown=None, full=True):
    crash = "panic" in o or bool(o.get("blocked"))
    if not full:
        pools = o.get("pools", {})
        markers = glist([nl([m.get("src") or 0, m.get("dst") or 0, m.get("teid") or 0]) for m in o.get("markers", [])])
        sd = bool(o.get("done")) if shutdown is None else shutdown
        ncmds = len([c for c in o.get("cmds", []) if c["c"] != "clear"])
        return (f"(Obs false {gbool(crash)} {nl(enc_reply(o))} {n(reply_seq(o))} {n(ncmds)} [] [] [] 0 [] {n(pools.get('gauge', 0))} {markers} {gbool(sd)} [])")
    tabs = []
    for m, code in MOD_CODE.items():
        for k, v in o.get("tables", {}).get(m, []):
            tabs.append(f"({code}, {nl(k)}, {nl(v)})")
    store = []
    for s in o.get("store", []):
        store.append(f"({n(s['conn'])}, {n(s['lseid'])}, {n(s['rseid'])}, {glist([nl(enc_pdr(p)) for p in s['pdrs']])}, "
                     f"{glist([nl(enc_far(f)) for f in s['fars']])}, {glist([nl(enc_qer(q)) for q in s['qers']])})")
    pools = o.get("pools", {})
    inv = glist([f"({n(k)}, {n(v)})" for k, v in pools.get("ip_inv", [])])
    markers = glist([nl([m.get("src") or 0, m.get("dst") or 0, m.get("teid") or 0]) for m in o.get("markers", [])])
    sd = bool(o.get("done")) if shutdown is None else shutdown
    pf = []
    for ci, rows in pools.get("pfd_ids", {}).items():
        pf.append(f"({n(ci)}, {glist([f'({n(r[0])}, {nl(r[1])})' for r in rows])})")
    ncmds = len([c for c in o.get("cmds", []) if c["c"] != "clear"])
    return (f"(Obs true {gbool(crash)} {nl(enc_reply(o))} {n(reply_seq(o))} {n(ncmds)} {glist(tabs)} {glist(store)} {inv} {n(pools.get('ip_free', 0))} "
            f"{nl(pools.get('teids', []))} {n(pools.get('gauge', 0))} {markers} {gbool(sd)} {glist(pf)})")


def burst_table(case, obs):
    """(which, rate, qfi) -> bytes for every QER the store ever holds or a message carries (Python reference of the
    float computation; the C09 model treats that arithmetic)"""
    cfg = case["cfg"]
    rows = {}

    def add(rate, qfi):
        cbs_c, pbs_c, ebs_c, dur = l1.qos_cfg(cfg, qfi)
        b = l1.calc_burst(rate, dur)
        rows[(0, rate, qfi)] = max(b, cbs_c)
        rows[(1, rate, qfi)] = max(b, pbs_c)
        rows[(2, rate, qfi)] = max(b, ebs_c)
    for o in obs:
        s = o.get("sem") or {}
        for key in ("cq", "uq"):
            for q in s.get(key, []) or []:
                for r in (q["mul"], q["mdl"], q["gbul"], q["gbdl"]):
                    add(r, q["qfi"])
        for ss in o.get("store", []):
            for q in ss["qers"]:
                for r in (q["ul_mbr"], q["dl_mbr"], q["ul_gbr"], q["dl_gbr"]):
                    add(r, q["qfi"])
    return glist([f"({w}, {r}, {q}, {v})" for (w, r, q), v in sorted(rows.items())])


def pool_term(cfg):
    if not cfg.get("ueip_alloc"):
        return "None"
    addr, ln = cfg["pool"].split("/")
    a, b, c, d = (int(x) for x in addr.split("."))
    base = l1.ip(a, b, c, d)
    ln = int(ln)
    base &= (0xFFFFFFFF << (32 - ln)) & 0xFFFFFFFF
    return f"(Some ({base}, {ln}))"


def ipn(s):
    a, b, c, d = (int(x) for x in s.split("."))
    return l1.ip(a, b, c, d)


def order_dependent(o):
    """One event wrote two different values under one key of one module. The plug-in sends the commands of a batch
    concurrently (one goroutine per rule, joined by GRPCJoin), so which value stays is decided by the scheduler, while
    the model applies a batch in list order. Such histories (a duplicated Update PDR IE whose two copies end up with
    differently ordered QER lists - only the IE-duplication mutants of C01 produce them) are not compared."""
    seen = {}
    for c in o.get("cmds", []) if isinstance(o.get("cmds"), list) else []:
        if c.get("c") != "add":
            continue
        k = (c["m"], tuple(c["k"]))
        v = tuple(c["v"])
        if k in seen and seen[k] != v:
            return True
        seen[k] = v
    return False


def case_term(case, obs):
    if any(order_dependent(o) for o in obs):
        return None
    evs = []
    prev_state = None
    last = min(len(case["events"]), len(obs)) - 1
    # Shutdown walks the session store (a sync.Map) in an order the runtime chooses: when one event ends two or more
    # sessions that hold UPF-chosen UE addresses, the order in which the addresses go back to the pool's free list - and
    # with it every later allocation - is not determined by the history. The model frees in list order, so the
    # comparison stops at such an event (C06 / C11_ippool_renaming cover the pool up to a renaming of addresses).
    inv_prev = 0
    for idx, o in enumerate(obs[:last + 1]):
        inv = len((o.get("pools") or {}).get("ip_inv", []) or [])
        if inv_prev - inv >= 2:
            last = idx
            break
        inv_prev = inv
    for idx, (e, o) in enumerate(list(zip(case["events"], obs))[:last + 1]):
        state = json.dumps([o.get("tables"), o.get("store"), o.get("pools")], sort_keys=True)
        # number literals dominate coqc's time: the full state is compared at the last event, after teardown /
        # restart, after every rejected modification (slice aliasing) and at every 5th event that changed it
        rej_mod = (o.get("sem") or {}).get("t") == "mod" and (enc_reply(o) + [0, 0, 0])[2] != 1
        full = idx == last or e["k"] != "msg" or (rej_mod and state != prev_state) or (idx % 5 == 4 and state != prev_state)
        prev_state = state
        if e["k"] == "msg":
            if (o.get("sem") or {}).get("t") == "decoder-panic":
                return None
            if "sem" not in o:
                # the event panicked or blocked before the decoder ran: model input unavailable
                return None
            evs.append(f"EvMsg {n(e['conn'])} {gbool(o.get('connected', True))} {n(o['sem'].get('seq', 0))} {msg(o['sem'])} {nl(o.get('draws', []))} {obs_term(o, full=full)}")
        elif e["k"] == "teardown":
            evs.append(f"EvTeardown {n(e['conn'])} {obs_term(o, shutdown=True)}")
        elif e["k"] == "restart":
            evs.append(f"EvRestart {obs_term(o, shutdown=False)}")
        else:
            return None
    cfg = case["cfg"]
    return (f"Case {ipn(cfg['access_ip'])} {ipn(cfg['core_ip'])} {gbool(cfg['end_marker'])} {pool_term(cfg)} {burst_table(case, obs)} "
            f"{glist(evs)}")
