"""C12 - Association, heartbeat and retransmission contract.

Synchronous level: Heartbeat / Association Setup Requests through HandlePFCPMsg on a PFCPConn struct
literal, all 2^4 configurations (UE IP allocation, end marker, heartbeat timer, DNN), datapath up/down
scripted per request.  Timing level: the real sendAssociationRequest / startHeartBeatMonitor /
sendPFCPRequestMessage in goroutines with millisecond timers against a scripted lossy peer.

The monitor evaluates the sentences of the property on the observations (timestamps, sequence numbers,
counts, teardown).  The Coq model is fed the *realized* trace: responses where the harness handed them
in, Shutdown where the harness called it, and a Timeout wherever the implementation acted on one (a
retransmission or the final give-up); that each such action really was resp_timeout after the previous
transmission is what the monitor checks on the timestamps.

Real time: lower bounds are exact (Go timers never fire early; 1 ms tolerance), upper bounds carry a
slack of max(250 ms, 4 x resp_timeout).  A scenario whose only complaints are of the kind a stalled
goroutine can cause (late timer, a datagram handed in later than scripted) is re-run up to two more
times and reported only if it fails every time."""
import itertools
from lib import *
from props import nlrun

TARGETS = ["Props/C12.vo", "Run/Eval_C12.vo"]
HEADER = ("From Coq Require Import NArith List Bool.\nFrom UPF Require Import Model.Retrans Run.Eval_C12.\n"
          "Import ListNotations.\nOpen Scope N_scope.\n")

TS_LOCAL = 1577836800 + 4242          # 2020-01-01 01:10:42 UTC: never "now"
PEER_TS = 1500000000
ACCEPTED, REJECTED = 1, 64
TWO24, TWO32 = 1 << 24, 1 << 32
LOW_TOL_US = 1000                     # a retransmission / teardown may not come earlier than resp_timeout - 1 ms
SIG_F30 = "late-response-after-final-timeout:reader-blocked"
SIG_F31 = "seq>=2^24:matching-response-not-recognised"
HB, ASR = "Heartbeat Request", "Association Setup Request"
TICK_SLACK_MS = 150                   # an interval expiry is acted upon within this much

CFGS = [{"ueip": u, "end_marker": e, "hb": h, "dnn": d}
        for u in (False, True) for e in (False, True) for h in (False, True) for d in ("", "internet")]


def slack_us(t_ms):
    return max(250, 4 * t_ms) * 1000


def ip2n(s):
    a = [int(x) for x in s.split(".")]
    return (a[0] << 24) | (a[1] << 16) | (a[2] << 8) | a[3]


# ------------------------------------------------------------------------------------- generators

def gen_sync(rng, tier):
    cases = []

    def hb(seq):
        return {"op": "hb", "seq": seq, "ts": PEER_TS, "connected": False, "node": ""}

    def setup(seq, connected, node="10.0.0.9", ts=PEER_TS):
        return {"op": "setup", "seq": seq, "connected": connected, "node": node, "ts": ts}

    for cfg in CFGS:
        # datapath up/down sequences around three association attempts, heartbeats before, between and after
        for pat in itertools.product((False, True), repeat=3):
            s0 = rng.choice([0, 1, 77, TWO24 - 8])
            steps = [hb(s0), setup(s0 + 1, pat[0]), hb(s0 + 2), setup(s0 + 3, pat[1]), setup(s0 + 4, pat[2]), hb(s0 + 5)]
            cases.append({"kind": "sync", "cls": "sync/updown", "cfg": cfg, "ts_local": TS_LOCAL, "steps": steps})
        # more heartbeats than the reset channel holds, never associated
        cases.append({"kind": "sync", "cls": "sync/hb-flood", "cfg": cfg, "ts_local": TS_LOCAL + 1,
                      "steps": [hb(i) for i in range(103)] + [setup(500, True), hb(501)]})
        # malformed requests, older / newer peer recovery time stamps
        cases.append({"kind": "sync", "cls": "sync/malformed+rts", "cfg": cfg, "ts_local": TS_LOCAL + 2,
                      "steps": [setup(1, True, node=""), hb(2), setup(3, True, ts=-1), setup(4, True, ts=1000000100),
                                setup(5, True, node="10.0.0.7", ts=1000000050), setup(6, False, ts=1000000900),
                                setup(7, True, ts=1000000200), hb(TWO24 - 1)]})
    n_rand = 60 if tier == "quick" else 600
    for _ in range(n_rand):
        cfg = rng.choice(CFGS)
        steps = []
        for _ in range(rng.randrange(2, 11)):
            seq = rng.choice([0, 1, TWO24 - 1, rng.randrange(TWO24)])
            if rng.random() < 0.45:
                steps.append(hb(seq))
            else:
                steps.append(setup(seq, rng.random() < 0.55,
                                   node=rng.choice(["", "10.0.0.9", "10.1.2.3", "192.0.2.1"]) if rng.random() < 0.3 else "10.0.0.9",
                                   ts=rng.choice([-1, 0, PEER_TS, rng.randrange(1, 2000000000)])))
        cases.append({"kind": "sync", "cls": "sync/random", "cfg": cfg, "ts_local": TS_LOCAL + rng.randrange(100000),
                      "steps": steps})
    return cases


def timing_case(cls, via, n, t, scripts, **kw):
    c = {"kind": "timing", "cls": cls, "via": via, "n": n, "t_ms": t, "h_ms": 20, "seq0": 0, "ts_local": TS_LOCAL,
         "sessions": 2, "connected": True, "cfg": {"ueip": False, "end_marker": False, "hb": via != "assoc", "dnn": ""},
         "scripts": scripts, "default": {"answer_at": 1}, "stop_after": len(scripts), "quiet_ms": t + 40,
         "peer_hb_at": [], "shutdown_tx": 0, "shutdown_at": 0, "del_delay_ms": 0}
    c.update(kw)
    if "window_ms" not in c:
        c["window_ms"] = c["h_ms"] + (n + 2) * t * max(1, len(scripts)) + c["quiet_ms"] + slack_us(t) // 1000 + 300
    return c


def gen_timing(rng, tier):
    cases = []
    ns = [0, 1, 2, 5]
    ts = [30, 60]
    for n in ns:
        for t in ts:
            cfgs = rng.sample(CFGS, 4)
            for via in ("hb", "assoc"):
                def mk(cls, scripts, **kw):
                    cfg = dict(rng.choice(cfgs))
                    cfg["hb"] = (via == "hb")
                    cases.append(timing_case(f"x/{cls}", via, n, t, scripts, cfg=cfg, seq0=rng.choice([0, 5, 4000, TWO24 - 50]), **kw))
                # loss patterns: answer the k-th transmission, k = 1..n+1, or none
                for k in range(1, n + 2):
                    mk("answer-kth", [{"answer_at": k}])
                mk("none", [{"answer_at": 0}], stop_after=0)
                # wrong-sequence answers to every transmission, the right one at the k-th or never
                k = rng.randrange(0, n + 2)
                mk("wrong-seq", [{"answer_at": k, "wrong_at": list(range(1, n + 2)),
                                  "wrong_delta": rng.choice([1, 2, TWO24 - 1, rng.randrange(3, TWO24 - 1)])}],
                   stop_after=1 if k else 0)
                # duplicates of the answer
                mk("duplicate", [{"answer_at": rng.randrange(1, n + 2), "dup": rng.choice([1, 2, 3])}])
                # the answer to the k-th transmission arrives after the (k+1)-th went out
                if n >= 1:
                    mk("late-mid", [{"answer_at": rng.randrange(1, n + 1), "delay_ms": t + t // 2}])
                # shutdown while the request is outstanding (under a running heartbeat monitor only during the
                # first wait and with hb_interval = resp_timeout, so that no interval expiry is queued: with one
                # queued the monitor may still emit one more Heartbeat Request while Shutdown() runs - not modelled)
                if via == "hb":
                    mk("abort", [{"answer_at": 0}], stop_after=0, shutdown_tx=1, shutdown_at=t // 2, h_ms=t)
                else:
                    mk("abort", [{"answer_at": 0}], stop_after=0, shutdown_tx=rng.randrange(1, n + 2), shutdown_at=t // 2)
            # the answer to the last transmission arrives after the final timeout, while Shutdown is
            # still deleting sessions (deletes take 40 ms each), i.e. the connection is still open
            via = rng.choice(["hb", "assoc"])
            cases.append(timing_case("x/late-final", via, n, t, [{"answer_at": n + 1, "delay_ms": t + 20}],
                                     stop_after=0, del_delay_ms=40, cfg={"ueip": False, "end_marker": False, "hb": via == "hb", "dnn": ""}))
    # several heartbeat exchanges on one connection: fresh number per request, same within, dead at the end
    for _ in range(3 if tier == "quick" else 12):
        n = rng.choice([1, 2])
        ks = [rng.randrange(1, n + 2) for _ in range(rng.randrange(2, 5))]
        cases.append(timing_case("x/multi", "hb", n, 30, [{"answer_at": k} for k in ks] + [{"answer_at": 0}],
                                 stop_after=0, seq0=rng.choice([0, 99, TWO24 - 3])))
    # sequence counter at the 24-bit boundary: wraps to 0, the echo still matches
    cases.append(timing_case("x/seq24", "hb", 1, 30, [{"answer_every": True}], seq0=TWO24 - 1))
    cases.append(timing_case("x/seq24", "hb", 2, 30, [{"answer_at": 2}, {"answer_every": True}, {"answer_at": 3}, {"answer_at": 0}], stop_after=0, seq0=TWO24 - 2))
    cases.append(timing_case("x/seq24", "assoc", 1, 30, [{"answer_every": True}], seq0=TWO24 - 1,
                             cfg={"ueip": True, "end_marker": True, "hb": False, "dnn": ""}))
    # agent-initiated association: rejected / malformed answer -> shutdown; accepted -> heartbeats follow
    cases.append(timing_case("x/assoc-rejected", "assoc", 2, 30, [{"answer_at": 1, "cause": REJECTED}], stop_after=0))
    cases.append(timing_case("x/assoc-no-rts", "assoc", 2, 30, [{"answer_at": 2, "omit_ts": True}], stop_after=0))
    cases.append(timing_case("x/assoc-then-hb", "assoc", 1, 30, [{"answer_at": 2}, {"answer_at": 1}, {"answer_at": 2}, {"answer_at": 0}],
                             stop_after=0, h_ms=40, cfg={"ueip": True, "end_marker": False, "hb": True, "dnn": "internet"}))
    # ticker: peer heartbeats postpone the agent's own; no peer heartbeats -> one per interval
    for h in (60, 100):
        step = h // 3
        train = [step * i for i in range(1, 9)]
        cases.append(timing_case("t/postponed", "hb", 2, 30, [], h_ms=h, peer_hb_at=train, stop_after=0,
                                 window_ms=train[-1] + 2 * h + TICK_SLACK_MS + 60, quiet_ms=10 ** 6))
        cases.append(timing_case("t/free-running", "hb", 2, 30, [], h_ms=h, stop_after=0,
                                 window_ms=3 * h + TICK_SLACK_MS + 60, quiet_ms=10 ** 6))
        gaps = [rng.randrange(h // 4, h - 10) for _ in range(4)] + [h + h // 2] + [rng.randrange(h // 4, h - 10) for _ in range(2)]
        at = list(itertools.accumulate(gaps))
        cases.append(timing_case("t/mixed", "hb", 2, 30, [], h_ms=h, peer_hb_at=at, stop_after=0,
                                 window_ms=at[-1] + h + TICK_SLACK_MS + 60, quiet_ms=10 ** 6))
    # association by the peer: datapath up -> accepted, monitor starts; down -> rejected, no heartbeats;
    # heartbeat timer disabled -> peer heartbeats answered, none originated
    cases.append(timing_case("t/assoc-in-up", "assoc_in", 2, 30, [], h_ms=60, peer_hb_at=[10, 100, 130], stop_after=0,
                             window_ms=190 + TICK_SLACK_MS + 60, quiet_ms=10 ** 6, cfg={"ueip": True, "end_marker": True, "hb": True, "dnn": ""}))
    cases.append(timing_case("t/assoc-in-down", "assoc_in", 2, 30, [], h_ms=40, peer_hb_at=[10, 50], stop_after=0, connected=False,
                             window_ms=200, quiet_ms=10 ** 6, cfg={"ueip": False, "end_marker": True, "hb": True, "dnn": ""}))
    cases.append(timing_case("t/assoc-in-nohb", "assoc_in", 2, 30, [], h_ms=40, peer_hb_at=[10, 50, 90], stop_after=0,
                             window_ms=200, quiet_ms=10 ** 6, cfg={"ueip": True, "end_marker": False, "hb": False, "dnn": ""}))
    return cases


# ------------------------------------------------------------------------------------- synchronous level

def sync_monitor(c, o):
    if "panic" in o:
        return [("panic", "handler panicked: " + o["panic"], True)]
    cfg = c["cfg"]
    out = []
    for i, (st, so) in enumerate(zip(c["steps"], o["steps"])):
        rs = so["replies"]
        if st["op"] == "hb":
            if len(rs) != 1 or rs[0]["type"] != "Heartbeat Response" or rs[0]["seq"] != st["seq"]:
                out.append(("heartbeat-request-not-answered", f"step {i}: Heartbeat Request seq {st['seq']} got {rs}", True))
            elif rs[0]["ts"] != c["ts_local"]:
                out.append(("recovery-ts-changed", f"step {i}: Heartbeat Response carries {rs[0]['ts']}, connection has {c['ts_local']}", True))
            continue
        if st["node"] == "" or st["ts"] < 0:
            continue                    # malformed request: the property does not speak about it
        if len(rs) != 1 or rs[0]["type"] != "Association Setup Response" or rs[0]["seq"] != st["seq"]:
            out.append(("setup-request-not-answered", f"step {i}: Association Setup Request got {rs}", True))
            continue
        r = rs[0]
        if st["connected"] and r["cause"] != ACCEPTED:
            out.append(("setup-rejected-while-connected", f"step {i}: cause {r['cause']} with datapath up", True))
        if not st["connected"] and r["cause"] == ACCEPTED:
            out.append(("setup-accepted-while-datapath-down", f"step {i}: accepted with datapath down", True))
        f = r["feat"] + [0, 0, 0, 0]
        ftup, empu, ueip = bool(f[0] & 0x10), bool(f[1] & 0x01), bool(f[2] & 0x04)
        if not ftup or empu != cfg["end_marker"] or ueip != cfg["ueip"]:
            out.append(("features-do-not-match-configuration",
                        f"step {i}: FTUP={ftup} EMPU={empu} UEIP={ueip} for {cfg} (cause {r['cause']})", True))
        if r["ts"] != c["ts_local"]:
            out.append(("recovery-ts-changed", f"step {i}: Association Setup Response carries {r['ts']}, connection has {c['ts_local']}", True))
    return out


def g_ie(present, v):
    return f"(Val {v})" if present else "Absent"


def sync_to_coq(c, o):
    cfg = c["cfg"]
    evs, obs = [], []
    for st, so in zip(c["steps"], o["steps"]):
        if st["op"] == "hb":
            evs.append(f"HBReq {st['seq']}")
        else:
            evs.append(f"SetupReq {st['seq']} {g_ie(st['node'] != '', ip2n(st['node']) if st['node'] else 0)} "
                       f"{g_ie(st['ts'] >= 0, st['ts'])} {gbool(st['connected'])}")
        rs = so["replies"]
        if len(rs) == 0:
            rep = "NoReply"
        elif rs[0]["type"] == "Heartbeat Response":
            rep = f"(HBResp {rs[0]['seq']} {max(rs[0]['ts'], 0)})"
        elif rs[0]["type"] == "Association Setup Response":
            f = (rs[0]["feat"] + [999, 999, 999, 999])[:4]
            rep = (f"(SetupResp {rs[0]['seq']} {max(rs[0]['cause'], 0)} {max(rs[0]['ts'], 0)} "
                   f"({f[0]}, {f[1]}, {f[2]}, {f[3]}) {max(rs[0]['flags'], 0)})")
        else:
            rep = "(HBResp 0 0)"      # some other message: cannot agree with the model
        if len(rs) > 1:
            rep = "(HBResp 0 0)"
        node = gopt(str(ip2n(so["remote_node"])) if so["remote_node"] else None)
        rts = gopt(str(so["remote_ts"]) if so["remote_ts"] >= 0 else None)
        q = gopt(str(so["resets_len"]) if so["resets_len"] >= 0 else None)
        obs.append(f"SObs {rep} {node} {rts} {q} {gbool(so['monitor'])} {gbool(so['isconn_calls'] > 0)}")
    return (f"CSync (Cfg {gbool(cfg['ueip'])} {gbool(cfg['end_marker'])} {gbool(cfg['hb'])} {gbool(cfg['dnn'] != '')}) "
            f"{c['ts_local']} {glist(evs)} {glist(obs)}")


# ------------------------------------------------------------------------------------- timing level

class View:
    """The event log of one timing scenario, organised per exchange."""

    def __init__(self, c, o):
        ev = o["events"]
        self.c, self.o = c, o
        self.tx = [e for e in ev if e["k"] == "tx"]
        self.inj = sorted([e for e in ev if e["k"] == "inj"], key=lambda e: e["id"])
        self.replies = [e for e in ev if e["k"] == "reply"]
        hs = [e["t"] for e in ev if e["k"] == "harness_shutdown"]
        self.harness_shutdown = hs[0] if hs else None
        sd = [e["t"] for e in ev if e["k"] in ("shutdown", "del", "closed")]
        self.teardown_t = min(sd) if sd else None          # earliest sign of Shutdown running
        cl = [e["t"] for e in ev if e["k"] == "closed"]
        self.closed_t = cl[0] if cl else None
        self.own_teardown = self.teardown_t is not None and (self.harness_shutdown is None or self.teardown_t < self.harness_shutdown)
        nx = max([e["x"] for e in self.tx], default=-1) + 1
        self.xs = []
        for x in range(nx):
            txs = [e for e in self.tx if e["x"] == x]
            inj = [e for e in self.inj if e["x"] == x and e["what"] in ("resp", "dup", "wrong")]
            self.xs.append({"x": x, "tx": txs, "inj": inj, "key": c["seq0"] + 1 + x,
                            "script": c["scripts"][x] if x < len(c["scripts"]) else c["default"]})

    def delivered(self, x):
        """None, or the time at which the response that reached the waiting sender was handed to HandlePFCPMsg
        (the sender may run on before the reader has returned, so the return time is no bound for what follows)"""
        d = [e["t"] for e in self.xs[x]["inj"] if e["had"] and e["t_ret"] >= 0]
        return min(d) if d else None


def timing_monitor(c, o):
    """-> list of (signature, text, hard)"""
    if "panic" in o:
        return [("panic", "panic: " + o["panic"], True)]
    v = View(c, o)
    T = c["t_ms"] * 1000
    H = c["h_ms"] * 1000
    N = c["n"]
    SL = slack_us(c["t_ms"])
    out = []

    def add(sig, text, hard):
        out.append((sig, text, hard))

    # every message the agent sends on this connection carries the connection's recovery time stamp
    for e in v.tx + v.replies:
        if e["ts"] >= 0 and e["ts"] != c["ts_local"]:
            add("recovery-ts-changed", f"{e['type']} seq {e['seq']} carries {e['ts']}, connection has {c['ts_local']}", True)
    # heartbeat requests from the peer: answered, whenever they come
    for e in v.inj:
        if e["what"] != "peer_hb":
            continue
        rep = [r for r in v.replies if r["type"] == "Heartbeat Response" and r["seq"] == e["seq"]]
        if e["t_ret"] < 0:
            blocked_before = any(i["t_ret"] < 0 and i["id"] < e["id"] for i in v.inj)
            if not blocked_before:
                add("heartbeat-request-not-answered", f"peer Heartbeat Request seq {e['seq']} never returned", True)
        elif len(rep) != 1 and (v.closed_t is None or e["t"] < v.closed_t):
            add("heartbeat-request-not-answered", f"peer Heartbeat Request seq {e['seq']} got {len(rep)} responses", True)
    expect_first = ASR if c["via"] == "assoc" else HB
    for X in v.xs:
        x, txs, key = X["x"], X["tx"], X["key"]
        typ = txs[0]["type"]
        want = expect_first if x == 0 else HB
        if typ != want:
            add("unexpected-request-type", f"exchange {x} is a {typ}, expected {want}", True)
        big = key >= TWO24
        last = txs[-1]["t"]
        dl = v.delivered(x)
        is_last = x == len(v.xs) - 1
        # S1: at most 1 + max_req_retries transmissions
        if len(txs) > 1 + N:
            add("too-many-transmissions", f"exchange {x}: {len(txs)} transmissions with max_req_retries={N}", True)
        # S2: same sequence number - a new number may appear only once the previous exchange was answered
        nxt_after_abort = (not is_last and v.harness_shutdown is not None and v.xs[x + 1]["tx"][0]["t"] >= v.harness_shutdown)
        if nxt_after_abort:
            pass
        elif not is_last and dl is None:
            add("sequence-number-changed-between-retransmissions",
                f"exchange {x} (seq {txs[0]['seq']}) got no response, yet seq {v.xs[x + 1]['tx'][0]['seq']} follows", True)
        elif not is_last and v.xs[x + 1]["tx"][0]["t"] < dl:
            add("sequence-number-changed-between-retransmissions",
                f"exchange {x + 1} began before exchange {x} was answered", True)
        if (txs[0]["seq"] != key % TWO24) and x == 0:
            add("unexpected-sequence-number", f"first request carries {txs[0]['seq']}, counter was {c['seq0']}", True)
        # S3: spaced by resp_timeout
        for a, b in zip(txs, txs[1:]):
            gap = b["t"] - a["t"]
            if gap < T - LOW_TOL_US:
                add("retransmission-before-resp-timeout", f"exchange {x}: retransmission after {gap} us, resp_timeout {T} us", True)
            if gap > T + SL:
                add("retransmission-late", f"exchange {x}: retransmission after {gap} us, resp_timeout {T} us", False)
        # S4: it stops as soon as a response with that sequence number arrives
        for e in X["inj"]:
            if e["what"] == "wrong" or e["seq"] != txs[0]["seq"]:
                continue
            later = [t for t in txs if (e["t_ret"] >= 0 and t["t"] > e["t_ret"])]
            if later:
                # the hand-over does not wait for the requester: a timer that fired at the same moment may still
                # cause ONE transmission right after it; anything more, or later, is a transmission after the response
                hard = len(later) > 1 or later[0]["t"] > e["t_ret"] + T // 2 or not e["had"]
                add(SIG_F31 if (big and not e["had"]) else "transmission-after-matching-response",
                    f"exchange {x}: response seq {e['seq']} handled at {e['t_ret']} us, {len(later)} more transmission(s) (request number {key})", hard)
                break
            soft = [t for t in txs if t["t"] > e["t"] + T // 2]
            if soft:
                add("response-not-honoured", f"exchange {x}: response handed in at {e['t']} us, transmission at {soft[0]['t']} us", False)
                break
        # S6: wrong-sequence and duplicate responses are ignored; so is a late one
        for e in X["inj"]:
            if e["t_ret"] >= 0:
                continue
            if e["what"] == "wrong":
                add("wrong-sequence-response-blocked-reader", f"exchange {x}: response seq {e['seq']} never returned", True)
            elif v.own_teardown and e["t"] >= v.teardown_t - 2000:
                add(SIG_F30, f"exchange {x}: response seq {e['seq']} handed in at {e['t']} us, after the final timeout "
                             f"({v.teardown_t} us; connection closed at {v.closed_t}): HandlePFCPMsg never returned", True)
            elif v.harness_shutdown is not None and e["t"] >= v.harness_shutdown:
                add("late-response-after-abort:reader-blocked", f"exchange {x}: response after Shutdown() never returned", True)
            else:
                add("response-blocked-reader", f"exchange {x}: {e['what']} seq {e['seq']} handed in at {e['t']} us never returned", True)
        # S5: dead only when every transmission went unanswered; then the sessions are removed
        bad_resp = typ == ASR and (X["script"].get("cause", 0) not in (0, ACCEPTED) or X["script"].get("omit_ts"))
        if is_last and v.own_teardown:
            if dl is not None:
                if not bad_resp:
                    # a response handed in within the last third of the final wait may lose the race against the timer
                    add("torn-down-although-answered", f"exchange {x} was answered at {dl} us, Shutdown ran at {v.teardown_t} us",
                        dl < last + T - T // 3)
            else:
                if len(txs) != 1 + N:
                    add("declared-dead-before-all-transmissions", f"exchange {x}: Shutdown after {len(txs)} of {1 + N} transmissions", True)
                if v.teardown_t < last + T - LOW_TOL_US:
                    add("declared-dead-before-resp-timeout", f"exchange {x}: Shutdown {v.teardown_t - last} us after the last transmission", True)
                if v.teardown_t > last + T + SL:
                    add("declared-dead-late", f"exchange {x}: Shutdown {v.teardown_t - last} us after the last transmission", False)
                for e in X["inj"]:
                    if e["what"] == "wrong" or e["seq"] != txs[0]["seq"]:
                        continue
                    if e["t_ret"] >= 0 and e["t_ret"] < v.teardown_t and not e["had"] and e["what"] == "resp":
                        add(SIG_F31 if big else "declared-dead-although-answered",
                            f"exchange {x}: response seq {e['seq']} handled at {e['t_ret']} us, peer declared dead at {v.teardown_t} us (stored key {key})", True)
                        break
                    if e["t"] < last + T - T // 3 and e["t_ret"] < 0:
                        add("declared-dead-although-answered", f"exchange {x}: response handed in {e['t'] - last} us after the last transmission", False)
                        break
            if o["store_left"] != 0 or o["del_calls"] != c["sessions"]:
                add("sessions-not-removed", f"after Shutdown {o['store_left']} sessions left, {o['del_calls']} datapath deletes for {c['sessions']} sessions", True)
        if is_last and not v.own_teardown and v.harness_shutdown is None and dl is None:
            answered_in_time = any(e["seq"] == txs[0]["seq"] and e["what"] != "wrong" for e in X["inj"])
            if o["end_t"] > last + T * (2 + N - len(txs)) + SL and not answered_in_time:
                add("unanswered-request-never-given-up", f"exchange {x}: {len(txs)} transmissions, no response, no Shutdown by {o['end_t']} us", False)
        if bad_resp and dl is not None and not v.own_teardown and o["end_t"] > dl + SL:
            add("rejected-association-not-shut-down", f"exchange {x}: unacceptable Association Setup Response, no Shutdown", False)
        # abort: nothing is transmitted for this exchange once the connection shut down
        if v.harness_shutdown is not None:
            after = [t for t in txs if t["t"] > v.harness_shutdown + 2000]
            if after:
                add("transmission-after-shutdown", f"exchange {x}: {len(after)} transmission(s) after Shutdown()", False)
    # nothing is originated once the connection was torn down by the agent itself
    if v.own_teardown and v.closed_t is not None:
        after = [t for t in v.tx if t["t"] > v.closed_t + 2000]
        if after:
            add("transmission-after-teardown", f"{len(after)} request(s) after the connection was closed", False)
    # heartbeats from the peer postpone the agent's own next heartbeat
    if c["cfg"]["hb"]:
        resets = [e for e in v.inj if e["what"] == "peer_hb" and e["t_ret"] >= 0]
        for X in v.xs:
            if X["tx"][0]["type"] != HB:
                continue
            t = X["tx"][0]["t"]
            for r in resets:
                if r["t_ret"] + 3000 < t < r["t"] + H - 2000:
                    add("heartbeat-not-postponed", f"own Heartbeat Request at {t} us, peer's was handled at {r['t']}..{r['t_ret']} us, interval {H} us", False)
                    break
    else:
        if any(t["type"] == HB for t in v.tx):
            add("heartbeat-sent-with-timer-disabled", "Heartbeat Request although enable_hbTimer is off", True)
    return out


def timing_to_coq(c, o):
    """-> list of Gallina case terms (an exchange case, and a ticker case where the peer always answers)"""
    v = View(c, o)
    terms = []
    xs, obs = [], []
    pending_x = None
    if v.harness_shutdown is not None:
        cand = [X["x"] for X in v.xs if X["tx"][0]["t"] <= v.harness_shutdown]
        pending_x = cand[-1] if cand else None
    for X in v.xs:
        x, txs = X["x"], X["tx"]
        items = []       # (time, kind 0 = Timeout/Shutdown 1 = Resp, id, event text, observed handling of a Resp)
        for t in txs[1:]:
            items.append((t["t"], 0, 0, "Timeout", 0))
        dl = v.delivered(x)
        is_last = x == len(v.xs) - 1
        if is_last and v.own_teardown and dl is None:
            items.append((v.teardown_t, 0, 0, "Timeout", 0))
        if pending_x == x:
            items.append((v.harness_shutdown, 0, 0, "Shutdown", 0))
        for e in X["inj"]:
            k = e["t_ret"] if e["t_ret"] >= 0 else 10 ** 15
            if e["had"] and e["t_ret"] >= 0:
                # the requester may have acted on a timer that fired at the same moment before it looked at the reply slot
                race = [t["t"] for t in txs if e["t_ret"] < t["t"] <= e["t_ret"] + c["t_ms"] * 500]
                if race:
                    k = max(race) + 1
            code = 1 if (e["had"] and e["t_ret"] >= 0) else 2 if e["t_ret"] >= 0 else 3 if e["had"] else 4
            items.append((k, 1, e["id"], f"Resp {e['seq']}", code))
        items.sort(key=lambda it: (it[0], it[1], it[2]))
        resp_codes = [it[4] for it in items if it[1] == 1]
        who = "ByHeartbeat"
        if txs[0]["type"] == ASR:
            ok = X["script"].get("cause", 0) in (0, ACCEPTED) and not X["script"].get("omit_ts")
            who = f"(ByAssociation {gbool(ok)})"
        xs.append(f"({who}, {glist([it[3] for it in items])})")
        td = 1 if (is_last and v.own_teardown) else 0
        obs.append(f"XObs {glist([str(t['seq']) for t in txs])} {glist([str(r) for r in resp_codes])} {td}")
    if xs:
        terms.append(f"CExch {c['n']} {c['seq0']} {glist(xs)} {glist(obs)}")
    if c["cls"].startswith("t/") and c["cfg"]["hb"]:
        hbx = [X for X in v.xs if X["tx"][0]["type"] == HB]
        t0 = 0
        if c["via"] == "assoc_in":
            rep = [r for r in v.replies if r["type"] == "Association Setup Response"]
            if not rep or rep[0]["msg"]["cause"] != ACCEPTED:
                return terms          # no monitor was started
            t0 = rep[0]["t"]
        evs = [(e["t"], True) for e in v.inj if e["what"] == "peer_hb" and e["t_ret"] >= 0 and e["t"] >= t0]
        evs += [(X["tx"][0]["t"], False) for X in hbx]
        evs.sort()
        terms.append(f"CTick {c['h_ms'] * 1000} 2000 {TICK_SLACK_MS * 1000} {t0} "
                     f"{glist([f'({t}, {gbool(b)})' for t, b in evs])} {o['end_t']}")
    return terms


# ------------------------------------------------------------------------------------- driver

def run_parallel(binary, cases, tag, procs):
    """split the cases over several harness processes (each runs its share one after the other)"""
    if not cases:
        return []
    chunks = [list(range(i, len(cases), procs)) for i in range(procs)]
    chunks = [ch for ch in chunks if ch]

    def job(a):
        j, ch = a
        return run_harness(binary, "c12", [cases[i] for i in ch], tag=f"{tag}_{j}", timeout=600)

    with ThreadPoolExecutor(max_workers=len(chunks)) as ex:
        res = list(ex.map(job, enumerate(chunks)))
    obs = [None] * len(cases)
    for ch, r in zip(chunks, res):
        for i, o in zip(ch, r):
            obs[i] = o
    return obs


def judge(cases, obs, tag):
    """-> per case: (failures [(sig, text, hard)], mismatch: bool)"""
    fails = []
    terms, owner = [], []
    for i, (c, o) in enumerate(zip(cases, obs)):
        if "harness_error" in o:
            fails.append([("harness-error", o["harness_error"], True)])
            continue
        if c["kind"] == "sync":
            fails.append(sync_monitor(c, o))
            if "panic" not in o:
                terms.append(sync_to_coq(c, o))
                owner.append(i)
        else:
            fails.append(timing_monitor(c, o))
            if "panic" not in o:
                for t in timing_to_coq(c, o):
                    terms.append(t)
                    owner.append(i)
    idx = coq_eval_shards(tag, HEADER, terms, shard=60)
    mism = [False] * len(cases)
    for j in idx:
        mism[owner[j]] = True
    return fails, mism, len(terms)


# ------------------------------------------------------------------------------------- node-level leg (monitor only)

def gen_node_leg():
    """Heartbeat Requests over UDP to a real PFCPNode: the peer may have no PFCPConn at that moment (before it
    associates, after its association was released or timed out) - `answered at any time, before or after association`."""
    S = nlrun.step
    return [
        {"name": "node:hb-first-datagram", "sc": {"peers": 1, "steps": [S("hb")]}},
        {"name": "node:hb-before-and-after-setup", "sc": {"peers": 1, "steps": [S("hb"), S("hb"), S("setup"), S("hb"), S("hb")]}},
        {"name": "node:hb-two-peers", "sc": {"peers": 2, "steps": [S("hb", 0), S("setup", 1), S("hb", 1), S("hb", 0), S("setup", 0), S("hb", 0)]}},
        {"name": "node:hb-after-release", "sc": {"peers": 1, "steps": [S("setup"), S("hb"), S("release"), S("wait_forgotten"), S("hb"), S("hb"),
                                                                       S("setup"), S("hb")]}},
        {"name": "node:hb-after-release-with-sessions", "sc": {"peers": 1, "steps": [S("setup"), S("establish", k=0), S("establish", k=1), S("release"),
                                                                                     S("wait_forgotten"), S("hb")]}},
        {"name": "node:hb-after-read-timeout", "sc": {"peers": 1, "read_timeout_ms": 500,
                                                      "steps": [S("setup"), S("hb"), S("wait_forgotten", ms=8000), S("hb"), S("hb")]}},
        {"name": "node:hb-with-monitor", "sc": {"peers": 1, "hb": True, "hb_interval_ms": 40, "resp_timeout_ms": 2000,
                                                "steps": [S("hb"), S("setup"), S("sleep", ms=150), S("hb"), S("release"), S("wait_forgotten"), S("hb")]}},
    ]


def node_leg_monitor(item, r):
    ab = nlrun.abnormal(r)
    if ab:
        return [("node-leg:abnormal-exit", ab)]
    o = r["obs"]
    F = []
    for nt in o["notes"]:
        F.append(("node-leg:step-failed:" + nt[:40], nt))
    state = {}          # per peer: "none" (no association yet), "assoc", "ended"
    for x in o["results"]:
        st = state.get(x["p"], "none")
        if x["op"] == "setup":
            state[x["p"]] = "assoc"
            if not x["answered"] or x["cause"] != ACCEPTED:
                F.append(("node-leg:setup-not-accepted", str(x)))
        elif x["op"] == "release":
            state[x["p"]] = "ended"
        elif x["op"] == "hb":
            if item["name"] == "node:hb-after-read-timeout" and st == "assoc" and any(y["op"] == "hb" and y["seq"] < x["seq"] for y in o["results"]):
                st = "ended"
            when = {"none": "before-association", "assoc": "while-associated", "ended": "after-association-ended"}[st]
            if not x["answered"]:
                F.append((f"heartbeat-unanswered:{when}", f"{item['name']}: Heartbeat Request seq {x['seq']} got no Heartbeat Response"))
            elif x["type"] != "Heartbeat Response" or not x["seq_ok"] or not x["has_ts"]:
                F.append((f"heartbeat-answer-wrong:{when}", f"{item['name']}: {x}"))
    return F


def run(tier, seed, replay=None):
    ck = Check("C12", tier, seed)
    ck.trusted = COMMON_TRUSTED + [
        "harness/go/verif_c12_test.go: PFCPConn struct literal with an in-memory net.Conn, fake datapath (scripted IsConnected, "
        "recording deletes) and no-op metrics; HandlePFCPMsg / sendAssociationRequest / startHeartBeatMonitor are the real ones; "
        "PFCPNode, Serve and real sockets are not used (the harness' reader goroutine hands datagrams to HandlePFCPMsg one at a time as Serve's does)",
        "go-pfcp codec (message.Parse / MarshalTo; 3-octet sequence number) on both sides of the fake connection",
        "harness/go/verif_l1_test.go for the one scenario with the real bess plug-in: in-process BESS gRPC server that is stopped and restarted",
        "Go runtime timers (time.Timer / time.Ticker never fire early); timestamps are monotonic time.Since values",
        "harness/go/verif_nl_test.go + tools/props/nlrun.py: node-level leg - a real PFCPNode (handleNewPeers, NewPFCPConn, Serve) over UDP, one "
        "process per scenario; this leg is monitor-only (no model counterpart)",
    ]
    ck.assumptions = [
        "time is the trace: a Timeout event is the expiry of resp_timeout after the latest transmission; the model is fed a Timeout wherever "
        "the implementation acted on one, and the monitor checks on the timestamps that this was resp_timeout (-1 ms / +slack) after the previous transmission",
        "hb_postpones is about a monitor that sits in its select when the peer's heartbeat arrives (no exchange of its own in progress)",
        "theorems about an exchange assume no other request of the connection is outstanding (healthy); C12_health_is_invariant shows this "
        "re-establishes itself whenever an exchange ends, so it holds for a connection with one request in flight at a time; C12_bound, "
        "C12_same_seq, C12_spaced_step, C12_reader_never_blocks and all handler theorems hold for every state",
        "the hand-over of a response does not wait for the requester: a retransmission timer that fires at the same moment may still cause one "
        "transmission right after the response was handed in (accepted within resp_timeout/2, re-run otherwise)",
        "max_req_retries is a uint8 in the code; the theorems hold for every N",
    ]
    ck.rule = ("sync: all 16 configurations x all 8 datapath up/down patterns over three Association Setup Requests with Heartbeat Requests before, "
               "between and after, heartbeat floods beyond the reset channel, malformed requests, random sequences; timing: N in {0,1,2,5} x "
               "resp_timeout in {30,60} ms x {answer k-th (k=1..N+1), none, wrong-sequence, duplicate, late (mid and after the final timeout: must be ignored, reader free), abort} "
               "x {heartbeat, agent-initiated association}, multi-exchange connections across the 24-bit wrap (2^24-1 -> 0), rejected / malformed association "
               "responses, ticker scenarios with peer heartbeat trains, peer-initiated association with datapath up/down; "
               "non-trivial = at least one reply / transmission observed; distinct = distinct input object")
    ck.prove(TARGETS)
    rng = rng_for(seed, "C12")
    if replay is None:
        sync_cases = gen_sync(rng, tier)
        timing_cases = gen_timing(rng, tier)
        if tier != "quick":
            timing_cases += gen_timing(rng, tier)
    else:
        c = json.load(open(replay))["case"]["input"]
        sync_cases = [c] if c["kind"] == "sync" else []
        timing_cases = [c] if c["kind"] != "sync" else []
    try:
        binary = build_harness()
        sobs = run_parallel(binary, sync_cases, "c12_sync", 2)
        tobs = run_parallel(binary, timing_cases, "c12_t", 8)
    except HarnessError as e:
        ck.tie("harness builds and runs against the current tree", False, str(e)[-1500:])
        return ck.finish()
    ck.tie("harness builds and runs against the current tree", True)
    cases = sync_cases + timing_cases
    obs = sobs + tobs
    try:
        fails, mism, nterms = judge(cases, obs, "C12")
    except RuntimeError as e:
        ck.tie("correspondence: model = implementation on all cases", False, str(e)[-800:])
        return ck.finish()
    # re-run timing scenarios whose complaints can all be caused by a stalled goroutine
    retried = 0
    for attempt in range(2):
        suspects = [i for i, c in enumerate(cases) if c["kind"] != "sync" and
                    ((fails[i] and all(not h for _, _, h in fails[i])) or (mism[i] and not any(h for _, _, h in fails[i])))]
        if not suspects:
            break
        retried += len(suspects)
        log(f"[C12] re-running {len(suspects)} timing scenario(s) with soft complaints: "
            f"{[(cases[i]['cls'], [s for s, _, _ in fails[i]], mism[i]) for i in suspects][:4]}")
        try:
            robs = run_parallel(binary, [cases[i] for i in suspects], "c12_retry", 1)
            rf, rm, _ = judge([cases[i] for i in suspects], robs, "C12r")
        except (HarnessError, RuntimeError) as e:
            ck.tie("re-run of timing scenarios", False, str(e)[-800:])
            break
        for j, i in enumerate(suspects):
            obs[i], fails[i], mism[i] = robs[j], rf[j], rm[j]
    ck.notes["timing_reruns"] = retried
    dist = {}
    for c, o, f in zip(cases, obs, fails):
        if c["kind"] == "sync":
            nt = any(s.get("replies") for s in o.get("steps", []))
        else:
            nt = any(e["k"] == "tx" for e in o.get("events", []))
        ck.count({k: v for k, v in c.items() if k != "cls"}, nt)
        dist[c["cls"]] = dist.get(c["cls"], 0) + 1
        for sig, text, hard in f:
            ck.fail(sig, f"{c['cls']}: {text}", {"input": c, "impl": o})
    # model-branch coverage seen on the implementation
    cov = {"delivered": 0, "ignored": 0, "reader_blocked": 0, "own_teardown": 0, "aborted": 0, "retransmissions": 0,
           "setup_accepted": 0, "setup_rejected": 0, "setup_dropped": 0, "hb_reset_dropped_full": 0}
    for c, o in zip(cases, obs):
        if c["kind"] == "sync":
            for st, so in zip(c["steps"], o.get("steps", [])):
                if st["op"] == "setup":
                    r = so["replies"]
                    cov["setup_dropped" if not r else "setup_accepted" if r[0]["cause"] == ACCEPTED else "setup_rejected"] += 1
            q = [so["resets_len"] for so in o.get("steps", [])]
            if any(a == b == 100 for a, b in zip(q, q[1:])):
                cov["hb_reset_dropped_full"] += 1
        elif "events" in o:
            v = View(c, o)
            for e in v.inj:
                if e["what"] in ("resp", "dup", "wrong"):
                    cov["delivered" if (e["had"] and e["t_ret"] >= 0) else "ignored" if e["t_ret"] >= 0 else "reader_blocked"] += 1
            cov["own_teardown"] += 1 if v.own_teardown else 0
            cov["aborted"] += 1 if v.harness_shutdown is not None else 0
            cov["retransmissions"] += sum(len(X["tx"]) - 1 for X in v.xs)
    # the real BESS plug-in behind the association handler: its gRPC channel to an in-process BESS server that goes away
    # and comes back (L1 harness, tools/l1.py soak_scenarios "datapath-down-and-up")
    if replay is None:
        from props.l1common import run_soak
        import l1
        d2 = {}
        run_soak(ck, binary, rng, lambda c_, it, ob: [f for f in l1.mon_c02(c_, it, ob)], d2, only=["datapath-down-and-up"])
        dist.update(d2)
    # node level: real PFCPNode over UDP, heartbeats from peers with and without a PFCPConn (monitor only, no model)
    if replay is None:
        items = gen_node_leg()
        for it, r in zip(items, nlrun.run_all(binary, [it["sc"] for it in items], tag="c12")):
            ck.count(it["name"], True)
            fs = node_leg_monitor(it, r)
            dist["node-leg" + (":finding" if fs else ":clean")] = dist.get("node-leg" + (":finding" if fs else ":clean"), 0) + 1
            for sig, text in fs:
                still, r2 = nlrun.confirmed(binary, it, node_leg_monitor, sig, "c12")
                if not still:
                    ck.notes["unconfirmed_node_level_failures"] = ck.notes.get("unconfirmed_node_level_failures", 0) + 1
                    continue
                ck.fail(sig, text, {"input": it, "impl": {k: v for k, v in r2.items() if k != "tail"}})
    ck.distribution = {"classes": dist, "model_branches_hit": cov, "coq_case_terms": nterms}
    ck.samples = [{"input": c, "impl": {k: (v[:6] if isinstance(v, list) else v) for k, v in o.items()}}
                  for c, o in list(zip(cases, obs))[-2:]]
    bad = [i for i, m in enumerate(mism) if m]
    for i in bad:
        ck.mismatch(f"model and implementation disagree on {cases[i]['cls']} {json.dumps({k: v for k, v in cases[i].items() if k in ('via', 'n', 't_ms', 'scripts', 'cfg', 'seq0')})}",
                    {"input": cases[i], "impl": obs[i]})
    ck.tie("correspondence: model replies / transmissions / response handling / teardown / ticker = implementation", not bad,
           f"{len(bad)} mismatching cases" if bad else "")
    return ck.finish()
