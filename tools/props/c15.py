"""C15 - P4 datapath IDs stay exclusive and in their own pool under write failures.

1. proofs: Props/C15.vo (invariants of Model/Up4Ids.v for ALL histories, fault lists and Pop choices), Run/Eval_C15.vo.
2. implementation: PFCP histories are run on the real agent + real UP4 plug-in against the fake P4Runtime server with
   small pools (harness/go/verif_c15_test.go).  Every scenario of the family is first run fault-free to learn the
   number W of Write RPCs of each establishment / modification / deletion, then once per (step, k <= W, fault kind)
   with the k-th Write of that step failing, each followed by two further sessions; then random multi-fault histories.
3. monitor (c15mon.py): the property read on the implementation's observations after every step.
4. correspondence: the Coq model is fed the Pop choices and Write answers the implementation exhibited and must
   reproduce cause, Write trace and the whole bookkeeping after every operation."""
import copy
from concurrent.futures import ThreadPoolExecutor

from lib import *
from props import c15gen as G
from props import c15mon as MON

TARGETS = ["Props/C15.vo", "Run/Eval_C15.vo"]
HEADER = ("From Coq Require Import NArith List Bool.\nFrom UPF Require Import Model.Up4Ids Run.Eval_C15.\n"
          "Import ListNotations.\nOpen Scope N_scope.\n")
SWEEP_KINDS = ["grpc", "p4", "p4ae", "unk"]
SITES = {"ctr_reset": "SCtrReset", "meter_app": "SMeterApp", "meter_sess": "SMeterSess", "peer": "SPeer",
         "pdr:INSERT": "(SPdr MIns)", "pdr:MODIFY": "(SPdr MMod)", "pdr:DELETE": "(SPdr MDel)",
         "meter_reset": "SMeterReset", "peer_del": "SPeerDel"}
WRES = {"ok": "WOk", "fail": "WFail", "exists": "WExists", "unk": "WUnk"}


# =========================================================================================== cases

def with_fault(case, j, k, kind):
    c = copy.deepcopy(case)
    f = dict(G.FAULT_KINDS[kind])
    f["at"] = k
    c["steps"][j]["faults"] = [f]
    c["name"] = f"{case['name']}/step{j}/w{k}/{kind}"
    c["cls"] = "sweep"
    return c


def base_cases():
    out = []
    for h in G.family():
        h.tail()
        c = h.case()
        c["cls"] = "fault-free"
        c["core"] = len(c["steps"]) - 2
        out.append(c)
    return out


def sweep_cases(bases, base_obs, tier):
    out = []
    for c, o in zip(bases, base_obs):
        for j in range(1, c["core"]):
            W = len(o["steps"][j]["writes"])
            for k in range(1, W + 1):
                for kind in SWEEP_KINDS:
                    out.append(with_fault(c, j, k, kind))
    return out


def retry_cases(bases, base_obs):
    """the control plane repeats an establishment that was rejected because its k-th Write failed (entries of the
    rejected attempt may still be installed: the retry meets ALREADY_EXISTS)"""
    out = []
    w_of = {c["name"]: len(o["steps"][1]["writes"]) for c, o in zip(bases, base_obs)}
    for name, nq in (("S1-est-1qer", 1), ("S2-est-2qer", 2)):
        for k in range(1, w_of[name] + 1):
            for kind in ("grpc", "p4"):
                h = G.Hist(None, f"{name}/retry/w{k}/{kind}")
                h.establish("A", nq=nq)
                h.steps[-1]["faults"] = [dict(G.FAULT_KINDS[kind], at=k)]
                h.retry("A")
                h.tail()
                c = h.case()
                c["cls"] = "retry"
                out.append(c)
    return out


def corpus_cases():
    """one fixed scenario per recorded finding (their failures carry the finding's tag)"""
    out = []
    # a modification creates two PDRs; both per-PDR MODIFY batches are answered ALREADY_EXISTS only (tolerated), so the
    # modification is accepted and the PDRs are stored - with ctrID 0, sendUpdate allocates no counter
    h = G.Hist(None, "K-mod-created-pdr")
    h.establish("A", nq=1)
    st = h.modify("A", "add_pair")
    st["faults"] = [dict(G.FAULT_KINDS["p4ae"], at=4), dict(G.FAULT_KINDS["p4ae"], at=5)]
    h.delete("A")
    h.tail()
    c = h.case()
    c["cls"] = "corpus"
    out.append(c)
    # F1502 at the switch: the application-id pool (one id here) is exhausted, so the PDRs a modification creates for A and
    # A2 fall back to application id 0 - the key of their unfiltered PDRs; the per-PDR MODIFY batch is rejected (NOT_FOUND on
    # the new sessions entry) but its terminations update is applied and writes ctr_idx 0 (the created PDR has no counter)
    # over the entry of PDR 1 (two sessions: at most one of the two PDRs can own cell 0 itself)
    h = G.Hist(G.default_cfg(None, 5, 1), "K-mod-created-pdr-rewrites-entry")
    h.establish("A", nq=1, gnb=0, sdf=None)
    h.establish("A2", nq=1, gnb=1, sdf=None)
    h.establish("B", nq=1, gnb=2, sdf=0)
    h.modify("A", "add_pair")
    h.modify("A2", "add_pair")
    h.tail()
    c = h.case()
    c["cls"] = "corpus"
    out.append(c)
    # F24, application-id half, shared filter: the rejected deletion of A has already dropped A's references to the
    # filter's id; the (accepted) deletion of B, now the "last" user, releases the id that A's entries still name
    h = G.Hist(None, "K-shared-filter-failed-delete")
    h.establish("A", nq=1, gnb=0, sdf=0)
    h.establish("B", nq=1, gnb=1, sdf=0)
    h.delete("A")["faults"] = [dict(G.FAULT_KINDS["grpc"], at=2)]
    h.delete("B")
    h.tail()
    c = h.case()
    c["cls"] = "corpus"
    out.append(c)
    return out


def random_cases(rng, n):
    out = []
    for t in range(n):
        sizes = rng.choice([None, None, {"PreQosPipe.session_meter": 5}, {"PreQosPipe.app_meter": 5},
                            {"PreQosPipe.pre_qos_counter": 8, "PostQosPipe.post_qos_counter": 8}])
        h = G.Hist(G.default_cfg(sizes, rng.choice([3, 5, 6]), rng.choice([3, 5, 6])), f"random/{t}")
        keys = []
        for _ in range(rng.randrange(3, 8)):
            r = rng.random()
            live = [k for k in keys]
            if r < 0.45 or not live:
                k = f"R{len(keys)}"
                h.establish(k, nq=rng.choice([0, 1, 1, 2, 2]), gnb=rng.randrange(3), sdf=rng.choice([None, 0, 1, 2]),
                            npairs=rng.choice([1, 1, 2]))
                keys.append(k)
            elif r < 0.75:
                k = rng.choice(live)
                kinds = ["upd_far", "upd_far", "add_pair", "upd_pdr"] + (["upd_qer"] if h.sess[k]["qers"] else []) \
                    + (["upd_qer_remark", "upd_qer_remark"] if len(h.sess[k]["qers"]) >= 2 else [])
                h.modify(k, rng.choice(kinds), gnb=rng.randrange(3))
            else:
                h.delete(rng.choice(live))
            st = h.steps[-1]
            # envelope of the random histories: no Write fault on the deletion of a session whose PDRs carry an
            # application filter - that is exactly where the recorded finding F24 (application id / reference released
            # before the DELETE batch is written) starts, and its consequences then depend on which later request
            # happens to meet the id; these deletions are covered by the exhaustive sweep (S8, S9, S11, S12) and by
            # the corpus scenarios, where the failure carries the finding's tag
            if st["op"] == "del" and any("sdf" in p for p in h.sess[st["key"]]["pdrs"]):
                continue
            if rng.random() < 0.6:
                for _ in range(rng.choice([1, 1, 2])):
                    f = dict(G.FAULT_KINDS[rng.choice(["grpc", "p4", "p4ae", "unk", "p4mix"])])
                    f["at"] = rng.randrange(1, 9)
                    if not any(x["at"] == f["at"] for x in st["faults"]):
                        st["faults"].append(f)
        h.tail()
        c = h.case()
        c["cls"] = "random"
        out.append(c)
    return out


def run_cases(binary, cases, workers=8, tag="c15"):
    if not cases:
        return []
    n = max(1, min(workers, (len(cases) + 9) // 10))
    chunks = [cases[i::n] for i in range(n)]

    def job(k):
        return run_harness(binary, "c15", [{"cfg": c["cfg"], "steps": c["steps"]} for c in chunks[k]], tag=f"{tag}_{k}", timeout=900)

    with ThreadPoolExecutor(max_workers=n) as ex:
        res = list(ex.map(job, range(n)))
    out = [None] * len(cases)
    for k in range(n):
        for j, o in enumerate(res[k]):
            out[k + j * n] = o
    return out


# =========================================================================================== JSON -> Gallina

class Keys:
    """tunnel parameters and application filters become small numbers (the model's map keys)"""

    def __init__(self):
        self.peers, self.apps = {}, {}

    def peer(self, dst, port):
        return self.peers.setdefault((dst, port), len(self.peers) + 1)

    def app(self, ip_, lo, hi, proto):
        return self.apps.setdefault((ip_, lo, hi, proto), len(self.apps) + 1)


def wild(r):
    return (r[0] == 0 and r[1] == 65535) or (r[0] == 0 and r[1] == 0)


def app_key(p, keys):
    """IsAppFilterEmpty + toUP4ApplicationFilter on the harness' PDR dump (access = 1, core = 2)"""
    up, down = p["iface"] == 1, p["iface"] == 2
    empty = p["f_proto"] == 0 and ((up and p["f_dip"] == 0 and wild(p["f_dp"])) or (down and p["f_sip"] == 0 and wild(p["f_sp"])))
    if empty:
        return None
    if up:
        return keys.app(p["f_dip"], p["f_dp"][0], p["f_dp"][1], p["f_proto"])
    if down:
        return keys.app(p["f_sip"], p["f_sp"][0], p["f_sp"][1], p["f_proto"])
    return keys.app(0, 0, 0, p["f_proto"])


def g_pdr(p, keys):
    return f"Pdr {p['id']} {gbool(p['iface'] == 1)} {p['far']} {gopt(app_key(p, keys))} {gbool(p['prec'] <= 65535)} {p['ctr']}"


def g_far(f, keys):
    encap = (f["action"] & 2) != 0 and f["dst_if"] == 0 and f["teid"] != 0
    return f"Far {f['id']} {gbool(encap)} {gbool(f['teid'] != 0)} {keys.peer(f['tdst'], f['tport'])}"


def g_qer(q):
    return f"Qer {q['id']} {'QApp' if q['level'] == 0 else ('QSess' if q['level'] == 1 else 'QOther')}"


def g_rules(r, keys):
    return (f"(Rules {glist([g_pdr(p, keys) for p in r['pdrs']])} {glist([g_far(f, keys) for f in r['fars']])} "
            f"{glist([g_qer(q) for q in r['qers']])})")


def g_pairs(l):
    return glist([f"({a}, {b})" for a, b in l])


def g_nums(l):
    return glist([str(x) for x in l])


def to_coq(case, obs):
    """-> Gallina term of type Eval_C15.case, or None when an observation has no counterpart in the model"""
    keys = Keys()
    pools = obs["init"]["pools"]
    cfg = f"(Cfg {g_nums(pools['ctr'])} {g_nums(pools['appcell'])} {g_nums(pools['sesscell'])} {g_nums(pools['peer'])} {g_nums(pools['appid'])})"
    evs, xs = [], []
    for step, so in zip(case["steps"], obs["steps"]):
        if step["op"] == "setup":
            continue
        calls = so["calls"]
        if step["op"] == "est":
            if not calls:
                return None
            op = f"OpEst {step['lseid']} {g_rules(calls[0]['all'], keys)}"
        elif step["op"] == "del":
            op = f"OpDel {step['lseid']}"
        else:
            if calls:
                upd = calls[0]["upd"]

                def pick(kind, ids, g):
                    return glist([g(x) for x in upd[kind] if x["id"] in ids])
                op = (f"OpMod {step['lseid']} (ModMsg {pick('pdrs', step['c_pdrs'], lambda x: g_pdr(x, keys))} "
                      f"{pick('fars', step['c_fars'], lambda x: g_far(x, keys))} {pick('qers', step['c_qers'], g_qer)} "
                      f"{pick('pdrs', step['u_pdrs'], lambda x: g_pdr(x, keys))} {pick('fars', step['u_fars'], lambda x: g_far(x, keys))} "
                      f"{pick('qers', step['u_qers'], g_qer)})")
            else:
                op = f"OpMod {step['lseid']} (ModMsg [] [] [] [] [] [])"
        pops = [e["val"] for e in so["pool_ev"] if e["op"] == "pop" and e["val"] >= 0 and e["pool"] in MON.SET_POOLS]
        wr = [MON.classify_write(w) for w in so["writes"]]
        if any(s not in SITES for s, _ in wr):
            return None
        evs.append(f"({op}, ({g_nums(pops)}, {glist([WRES[r] for _, r in wr])}))")
        st = so["state"]
        cause = so["replies"][0].get("cause") if so["replies"] else None
        meters = glist([f"(({m[1]}, {m[0]}), Meter {'MApp' if m[2] == 1 else 'MSess'} {m[3]} {m[4]})" for m in st["meters"]])
        peers = glist([f"({keys.peer(p['dst'], p['port'])}, ({p['id']}, {g_pairs(p['users'])}))" for p in st["peers"]])
        apps = glist([f"({keys.app(a['ip'], a['lo'], a['hi'], a['proto'])}, ({a['id']}, {g_pairs(a['users'])}))" for a in st["apps"]])
        ctrs = glist([f"({s['lseid']}, {g_pairs([(p['id'], p['ctr']) for p in s['rules']['pdrs']])})" for s in st["store"]])
        xs.append(f"IObs {gbool(cause == 1)} {glist([f'({SITES[s]}, {WRES[r]})' for s, r in wr])} "
                  f"{g_nums(st['pools']['ctr'])} {g_nums(st['pools']['appcell'])} {g_nums(st['pools']['sesscell'])} "
                  f"{g_nums(st['pools']['peer'])} {g_nums(st['pools']['appid'])} {meters} {peers} {apps} {ctrs} "
                  f"{g_nums([u[0] for u in st['ue']])}")
    return f"Case {cfg}\n {glist(evs)}\n {glist(xs)}"


# =========================================================================================== the check

def summarize(case, obs):
    """evidence key: which Write sites failed how, and the causes"""
    sites = []
    for step, so in zip(case["steps"], obs.get("steps", [])):
        for w in so["writes"]:
            s, r = MON.classify_write(w)
            if r != "ok":
                sites.append(f"{step['op']}:{s}:{r}")
    return sites


def run(tier, seed, replay=None):
    ck = Check("C15", tier, seed)
    ck.trusted = COMMON_TRUSTED + [
        "harness/go/verif_c15_test.go: real HandlePFCPMsg + real UP4 plug-in; decorators of the datapath interface (records SendMsgToUPF) and of "
        "the golang-set pools (record Pop/Add in order); reads the plug-in's maps, pools and the session store directly",
        "harness/go/verif_p4rt_test.go: the fake P4Runtime server (Write semantics, whole-RPC fault injection)",
        "tools/pfcp.py, tools/l1.py (PFCP encoder, IE builders), go-pfcp v0.0.24",
        "tools/props/c15mon.py: attribution of table entries to sessions by TEID / UE address",
    ]
    ck.assumptions = [
        "a session is live while the agent's session store holds it; an owner is a stored PDR / a meters-map entry / a tunnelPeerIDs entry / an applicationIDs entry",
        "a Write answered only with OK / ALREADY_EXISTS statuses is the tolerated 'already there', not a failed write (up4.go tolerates it by design)",
        "conservation (no leak) is not part of C15 (that is C05): a rejected establishment that strands identifiers is reported in the evidence, not as a failure",
        "model envelope for the correspondence: <= 10 rules of a kind per session, modifications without Remove IEs, Build* functions of the translator do not fail, UP4 stays connected",
    ]
    ck.rule = ("13 scenarios (the 9 of DESIGN.md + Update PDR, shared-then-deleted, two tiny-pool migration probes) and one corpus scenario per recorded finding, each run fault-free, then once per "
               "(establishment/modification/deletion step, k <= W Writes of that step, 4 answer kinds: gRPC UNAVAILABLE, p4.Error RESOURCE_EXHAUSTED, "
               "p4.Error ALREADY_EXISTS, gRPC UNKNOWN without details) + a retried establishment after every failing position, each followed by two further "
               "sessions; then random histories with 1-2 faults per step (none on the deletion of a session holding an application filter: F24 starts there, covered by sweep and corpus; PDRs of a generated session have distinct match keys); non-trivial = at least one Write of the case failed; distinct = distinct "
               "(scenario, multiset of (operation, Write site, answer))")
    ck.prove(TARGETS)
    rng = rng_for(seed, "C15")
    try:
        binary = build_harness()
        if replay is not None:
            cases = [json.load(open(replay))["case"]["input"]]
            obs = run_cases(binary, cases, tag="c15_replay")
        else:
            bases = base_cases()
            bobs = run_cases(binary, bases, tag="c15_base")
            for c, o in zip(bases, bobs):
                if "steps" not in o:
                    raise HarnessError(f"fault-free scenario {c['name']} did not run: {str(o)[:500]}")
            sweep = sweep_cases(bases, bobs, tier)
            rnd = random_cases(rng, 150 if tier == "quick" else 2500)
            more = corpus_cases() + sweep + retry_cases(bases, bobs) + rnd
            cases = bases + more
            obs = bobs + run_cases(binary, more, tag="c15_sweep")
    except HarnessError as e:
        ck.tie("harness builds and runs against the current tree", False, str(e)[-1500:])
        return ck.finish()
    ck.tie("harness builds and runs against the current tree", True)

    dist, leaks = {}, 0
    kept = []
    for c, o in zip(cases, obs):
        if "steps" not in o:
            ck.fail("harness:" + str(o.get("world_err") or o.get("panic") or o.get("harness_error"))[:60], f"case {c['name']} did not run: {str(o)[:300]}", {"input": c})
            continue
        sites = summarize(c, o)
        ck.count([c["name"].split("/")[0], sorted(sites)], bool(sites))
        for s in sites or ["no-fault"]:
            dist[s] = dist.get(s, 0) + 1
        res = MON.Monitor(c, o).run()
        for sig, msg, i in res:
            ck.fail(sig, f"{c['name']}: {msg}", {"input": c, "step": i, "impl": o["steps"][i] if i < len(o["steps"]) else None})
        # informational: identifiers stranded by rejected requests (C05's business)
        last = o["steps"][-1]["state"] if o["steps"] else None
        if last is not None:
            held = MON.held_all(last)
            tot = sum(len(last["pools"][k]) + len({i_ for i_, _, _ in held[k]}) for k in MON.KINDS)
            ini = sum(len(o["init"]["pools"][k]) for k in MON.KINDS)
            leaks += max(0, ini - tot)
        kept.append((c, o))
    ck.distribution = dict(sorted(dist.items()))
    ck.notes["identifiers_stranded_by_rejected_requests"] = leaks
    ck.notes["cases"] = {k: sum(1 for c in cases if c.get("cls") == k) for k in ("fault-free", "corpus", "sweep", "retry", "random")}
    ck.samples = [{"name": c["name"], "faults": [s["faults"] for s in c["steps"] if s["faults"]],
                   "causes": [so["replies"][0].get("cause") if so["replies"] else None for so in o["steps"]]} for c, o in kept[-4:]]

    # model evaluation
    terms, owners = [], []
    for c, o in kept:
        t = to_coq(c, o)
        if t is None:
            ck.mismatch(f"{c['name']}: an observation has no counterpart in the model (Write of an unknown shape or a request answered without reaching the datapath)",
                        {"input": c})
            continue
        terms.append(t)
        owners.append(c)
    try:
        idx = coq_eval_shards("C15", HEADER, terms, shard=30)
        for i in idx[:20]:
            ck.mismatch(f"model and implementation disagree on {owners[i]['name']}", {"input": owners[i]})
        ck.tie("correspondence: model cause, Write trace and bookkeeping = implementation after every operation", not idx and len(terms) == len(kept),
               f"{len(idx)} mismatching cases, first: {owners[idx[0]]['name']}" if idx else "")
    except RuntimeError as e:
        ck.tie("correspondence: model cause, Write trace and bookkeeping = implementation after every operation", False, str(e)[-800:])
    return ck.finish()
