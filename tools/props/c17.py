"""C17 - port ranges are expanded exactly or refused."""
from lib import *

TARGETS = ["Props/C17.vo", "Run/Eval_C17.vo"]
HEADER = ("From Coq Require Import NArith List.\nFrom UPF Require Import Model.PortRange Run.Eval_C17.\n"
          "Import ListNotations.\nOpen Scope N_scope.\n")


def boundary_ports():
    b = {0, 1, 2, 99, 100, 101, 102, 255, 256, 1023, 1024, 1025, 32767, 32768, 32769, 65434, 65435, 65436,
         65534, 65535}
    for k in range(0, 17):
        for d in (-1, 0, 1):
            v = (1 << k) + d
            if 0 <= v <= 65535:
                b.add(v)
    return sorted(b)


def gen_range(rng, cls):
    B = boundary_ports()
    if cls == "wild":
        return rng.choice([(0, 65535), (0, 0)])
    if cls == "exact":
        p = rng.choice(B + [rng.randrange(1, 65536)])
        p = max(p, 1)
        return (p, p)
    if cls == "narrow":  # width <= 100
        lo = rng.choice(B + [rng.randrange(0, 65536)])
        w = rng.choice([1, 2, 3, 50, 98, 99])
        hi = min(65535, lo + w)
        return (lo, hi)
    if cls == "edge":   # width 99/100/101/102
        lo = rng.randrange(0, 65000)
        return (lo, lo + rng.choice([98, 99, 100, 101]))
    if cls == "wide":
        lo = rng.choice(B + [rng.randrange(0, 65536)])
        hi = rng.choice(B + [rng.randrange(0, 65536)])
        if lo > hi:
            lo, hi = hi, lo
        return (lo, hi)
    if cls == "inverted":
        lo = rng.randrange(1, 65536)
        hi = rng.randrange(0, lo)
        return (lo, hi)
    if cls == "zero_to":
        return (0, rng.choice(B))
    if cls == "to_max":
        return (rng.choice(B), 65535)
    raise ValueError(cls)


CLASSES = ["wild", "exact", "narrow", "edge", "wide", "inverted", "zero_to", "to_max"]


def gen_cases(rng, tier):
    n_complex, n_cart = (2400, 1600) if tier == "quick" else (60000, 40000)
    cases = []
    # all boundary x boundary ranges first (deterministic part)
    B = boundary_ports()
    det = [(lo, hi) for lo in B for hi in B]
    rng.shuffle(det)
    for (lo, hi) in det[: n_complex // 3]:
        cases.append({"op": "complex", "strategy": rng.randrange(2), "Lo": lo, "Hi": hi, "cls": "boundary"})
    while len(cases) < n_complex:
        cls = rng.choice(CLASSES)
        lo, hi = gen_range(rng, cls)
        cases.append({"op": "complex", "strategy": rng.randrange(2), "Lo": lo, "Hi": hi, "cls": cls})
    for _ in range(n_cart):
        c1, c2 = rng.choice(CLASSES), rng.choice(CLASSES)
        s = gen_range(rng, c1)
        d = gen_range(rng, c2)
        cases.append({"op": "cart", "SLo": s[0], "SHi": s[1], "DLo": d[0], "DHi": d[1], "cls": c1 + "x" + c2})
    return cases


def to_coq(c, o):
    if c["op"] == "complex":
        obs = None if not o["ok"] else glist([f"({r[0]}, {r[1]})" for r in o["rules"]])
        return f"CComplex {'Exact' if c['strategy'] == 0 else 'Ternary'} {c['Lo']} {c['Hi']} {gopt(obs)}"
    obs = None if not o["ok"] else glist([f"({r[0]}, {r[1]}, {r[2]}, {r[3]})" for r in o["rules"]])
    return f"CCart {c['SLo']} {c['SHi']} {c['DLo']} {c['DHi']} {gopt(obs)}"


def is_range(lo, hi):
    wild = (lo == 0 and hi in (0, 65535))
    exact = lo == hi and hi != 0
    return not wild and not exact


def width(lo, hi):
    if lo == 0 and hi in (0, 65535):
        return 65535
    return (hi - lo + 1) % 65536


def monitor(c, o):
    """Direct reading of the property on the implementation's own output (no model):
    returns (signature, what) or None."""
    if "panic" in o:
        return ("panic", "port-range expansion panicked: " + o["panic"])
    if o["ok"]:
        if o["bad"]:
            return ("inexact-expansion", f"accepted expansion disagrees with the range on {o['bad']} ports/pairs, first at {o.get('bad_at')}")
        if o["overlap"]:
            return ("overlapping-rules", f"{o['overlap']} ports matched by more than one rule")
        if c["op"] == "complex" and o["wild_mask"] and not o["is_wild"]:
            return ("wildcard-for-partial-range", "zero mask emitted for a range that is not 0-65535 / 0-0")
        if c["op"] == "cart" and o["wild_mask"]:
            return ("wildcard-for-partial-range", "zero mask emitted on a side that is not 0-65535 / 0-0")
        if c["op"] == "cart":
            s, d = (c["SLo"], c["SHi"]), (c["DLo"], c["DHi"])
            if is_range(*s) and is_range(*d):
                return ("unrepresentable-accepted", "both sides are true ranges but the pair was accepted")
        return None
    # refused: must be unrepresentable
    if c["op"] == "complex":
        lo, hi = c["Lo"], c["Hi"]
        if c["strategy"] == 1:
            return ("ternary-refused", "Ternary strategy refused a range")
        if not (is_range(lo, hi) and width(lo, hi) > 100):
            return ("representable-refused", "Exact strategy refused a representable range")
        return None
    s, d = (c["SLo"], c["SHi"]), (c["DLo"], c["DHi"])
    both = is_range(*s) and is_range(*d)
    wide = (is_range(*s) and width(*s) > 100) or (is_range(*d) and width(*d) > 100)
    if not (both or wide):
        return ("representable-refused", "a representable pair was refused")
    return None


def run(tier, seed, replay=None):
    ck = Check("C17", tier, seed)
    ck.trusted = COMMON_TRUSTED + ["harness/go/verif_c17_test.go (direct calls to asComplexTernaryMatches / CreatePortRangeCartesianProduct, brute-force tiling oracle)"]
    ck.assumptions = ["uint16 arithmetic is modelled on N with explicit mod 2^16; Go slices as lists",
                      "loop fuel: hi+1-lo iterations for the outer loops, 20 for portMask (proved sufficient: ternary never returns OutOfFuel)"]
    ck.rule = ("ranges drawn from boundary x boundary plus classes wild/exact/narrow/edge(width 99-102)/wide/inverted/0-x/x-65535, "
               "both strategies, and pairs of such ranges; a case is non-trivial when it is a true range (not wildcard, not single port); "
               "distinct = distinct (op, strategy, lo, hi[, lo2, hi2]); UP4 leg: wildcard, every boundary port as a single port (incl. 1 and 65535), true ranges "
               "of the classes narrow/edge/wide/0-x/x-65535 and 1-65535 / 0-65534 / 0-1 / 65534-65535, each x uplink / downlink x SDF filter / PFD-provisioned "
               "application, three single-pair sessions per history on the real UP4 plug-in: the applications entry of every PDR must match exactly the ports written")
    ck.prove(TARGETS)
    rng = rng_for(seed, "C17")
    from props import c17up4 as A
    ck.trusted = ck.trusted + A.TRUSTED
    if replay is not None and json.load(open(replay))["case"].get("leg") == "up4-app":
        try:
            A.run_leg(ck, build_harness(), [json.load(open(replay))["case"]], confirm=False)
        except HarnessError as e:
            ck.tie("harness builds and runs against the current tree", False, str(e)[-1500:])
        return ck.finish()
    cases = gen_cases(rng, tier) if replay is None else [json.load(open(replay))["case"]["input"]]
    try:
        binary = build_harness()
        obs = run_harness(binary, "c17", cases)
    except HarnessError as e:
        ck.tie("harness builds and runs against the current tree", False, str(e)[-1500:])
        return ck.finish()
    ck.tie("harness builds and runs against the current tree", True)
    dist = {}
    for c, o in zip(cases, obs):
        key = [c.get(k) for k in ("op", "strategy", "Lo", "Hi", "SLo", "SHi", "DLo", "DHi")]
        nt = is_range(c["Lo"], c["Hi"]) if c["op"] == "complex" else (is_range(c["SLo"], c["SHi"]) or is_range(c["DLo"], c["DHi"]))
        ck.count(key, nt)
        k = f"{c['op']}:{c.get('cls')}:{'ok' if o.get('ok') else 'refused'}"
        dist[k] = dist.get(k, 0) + 1
        m = monitor(c, o)
        if m:
            ck.fail(m[0], m[1], {"input": c, "impl": o})
    ck.distribution = dist
    ck.samples = [{"input": c, "impl": {k: v for k, v in o.items() if k in ("ok", "rules")}} for c, o in list(zip(cases, obs))[:4]]
    try:
        terms = [to_coq(c, o) for c, o in zip(cases, obs) if "panic" not in o]
        idx = coq_eval_shards("C17", HEADER, terms, shard=700)
        kept = [(c, o) for c, o in zip(cases, obs) if "panic" not in o]
        for i in idx:
            c, o = kept[i]
            ck.mismatch(f"model and implementation disagree on {c}", {"input": c, "impl": o})
        ck.tie("correspondence: Coq model output = implementation output on every case", not idx,
               f"{len(idx)} mismatching cases" if idx else "")
    except RuntimeError as e:
        ck.tie("correspondence: Coq model output = implementation output on every case", False, str(e)[-800:])
    if tier == "thorough":
        ex = run_harness(binary, "c17_exhaustive", [{"From": 0, "To": 65536}], timeout=1800, tag="c17ex")[0]
        ck.notes["impl_exhaustive_ternary"] = ex
        ck.evaluations += ex.get("n", 0)
        if ex.get("bad"):
            lo, hi = ex["first"]
            ck.fail("inexact-expansion", f"exhaustive tiling check: {ex['bad']} ranges do not tile, first {ex['first']}",
                    {"input": {"op": "complex", "strategy": 1, "Lo": lo, "Hi": hi}})
    # port texts (parse_sdf.go parsePort): a decimal port or lo-hi with 0 <= lo <= hi <= 65535 is read as written, anything
    # else - 65536, inverted, signs, empty halves, non-decimal - is refused, never turned into another range
    try:
        import re as _re
        texts = ["0", "1", "80", "080", "65535", "65536", "65537", "70000", "99999999999999999999", "4294967296", "4294967376",
                 "0-0", "0-65535", "0-65536", "1-65536", "80-65536", "65500-65535", "65500-65536", "65535-65535", "65535-65536", "65536-65536",
                 "65536-1", "100-90", "5-5", "5-4", "1024-1100", "-80", "80-", "-", "+80", "0x50", "80a", "8 0".replace(" ", ""), "1-2-3",
                 "65535-0", "131072", "65616", "65536-65616"]
        for _ in range(40):
            a1, b1 = rng.randrange(0, 70000), rng.randrange(0, 70000)
            texts += [str(a1), f"{a1}-{b1}"]
        tcases, tmeta = [], []
        for t in texts:
            for side in ("src", "dst"):
                fd = f"permit out ip from any {t} to assigned" if side == "src" else f"permit out ip from any to assigned {t}"
                tcases.append({"text": fd, "ue": "10.0.0.1"})
                tmeta.append((t, side))
        tobs = run_harness(build_harness(), "l1_flow", tcases, tag="c17txt")
        for (t, side), o in zip(tmeta, tobs):
            ck.evaluations += 1
            m_ = _re.fullmatch(r"(\d+)(?:-(\d+))?", t)
            want = None
            if m_:
                lo = int(m_.group(1))
                hi = int(m_.group(2)) if m_.group(2) is not None else lo
                if lo <= hi <= 65535:
                    want = [lo, hi]
            if "panic" in o:
                ck.fail("port-text:panic", f"port text {t!r} ({side}) makes the parser panic: {o['panic']}", {"input": {"text": t, "side": side}})
                continue
            got = None if o.get("err") else o.get("sp" if side == "src" else "dp")
            if want is None and got is not None:
                ck.fail("port-text:accepted-unrepresentable", f"port text {t!r} ({side}) is not a port or range within 0-65535 but is accepted as {got}",
                        {"input": {"text": t, "side": side}, "impl": o})
            elif want is not None and got is not None and list(got) != want and not (want == [0, 0] and list(got) in ([0, 0], [0, 65535])):
                ck.fail("port-text:other-range", f"port text {t!r} ({side}) is read as {got}, written {want}", {"input": {"text": t, "side": side}, "impl": o})
            elif want is not None and got is None:
                ck.fail("port-text:valid-refused", f"port text {t!r} ({side}) is a port or range within 0-65535 but is refused", {"input": {"text": t, "side": side}, "impl": o})
        ck.notes["port_texts_checked"] = len(tcases)
    except HarnessError as e:
        ck.tie("port-text leg runs", False, str(e)[-800:])
    # UP4: the app_l4_port range field of the applications entries the real UP4 plug-in installs (tools/props/c17up4.py)
    if replay is None:
        A.run_leg(ck, binary, A.c17_histories(random.Random(rng.getrandbits(64)), boundary_ports(), gen_range))
        dist = ck.distribution
    # system level (bess.go addPDR/delPDR): the port columns of the pdrLookup entries installed for accepted PDRs -
    # SDF filters and PFD-backed application filters with ports on either side - are exactly the Exact-strategy
    # product of the PDR's two ranges, and an unrepresentable pair installs nothing (never an approximation)
    try:
        import l1
        from props.l1common import run_l1
        lcases = []
        for k in range(100 if tier == "quick" else 1200):
            sub = random.Random(rng.getrandbits(64))
            case, intents, views = l1.random_history(sub, cfg=l1.default_cfg(), length=sub.choice([8, 14]), restarts=False)
            lcases.append((case, intents, views))
        for tag, case, intents, views in l1.corpus_scenarios():
            if tag == "F14":
                lcases.append((case, intents, views))
        lobs = run_l1(build_harness(), [c[0] for c in lcases], workers=8, tag="c17l1")
        npdr = 0
        for (case, intents, views), ob in zip(lcases, lobs):
            ck.evaluations += 1
            for i, o in enumerate(ob):
                if "panic" in o or o.get("blocked"):
                    ck.fail("agent:died", f"event {i}: agent panicked or blocked while installing port rules ({o.get('panic')})", {"input": case, "event": i})
                    break
                act = l1.tables_of(o)["pdrLookup"]
                for s_ in o["store"]:
                    for p_ in s_["pdrs"]:
                        npdr += 1
                        rules = l1.cartesian(p_["f_sp"], p_["f_dp"])
                        mine = sorted((k[5], k[13], k[6], k[14]) for k, v in act.items() if v[3] == s_["lseid"] and v[2] == p_["id"])
                        want = sorted(rules) if rules is not None else []
                        if mine != want:
                            ck.fail("agent:pdr-port-entries",
                                    f"event {i}: PDR {p_['id']} of session {s_['lseid']} has port ranges {p_['f_sp']} x {p_['f_dp']} but its pdrLookup "
                                    f"entries carry (sport, smask, dport, dmask) = {mine[:6]}..., expected {want[:6]}...", {"input": case, "event": i})
                            break
        ck.notes["agent_level_pdrs_checked"] = npdr
    except HarnessError as e:
        ck.tie("agent-level histories run", False, str(e)[-800:])
    return ck.finish()
