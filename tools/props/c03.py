"""C03 - BESS tables are exactly the image of the live sessions rules."""
from props.l1props import *


def run(tier, seed, replay=None):
    ck, _ = run_prop("C03", tier, seed, replay, 500, 6000,
                     fixed=lambda r: [x for x in l1.soak_scenarios(r) if x[0] == "datapath-down-and-up"] + l1.pool_scenarios(r),
                     fixed_mon=l1.mon_rejected_writes_nothing,
                     rule="random histories over 2 associations x up to 4 sessions (setup, establishment incl. without association, the "
                          "modification kinds of tools/l1.py, deletion, unknown-SEID requests, heartbeat, report response, release, teardown, restart), "
                          "sequence numbers incl. 0 / 2^24-1, CP SEIDs incl. 0 / 2^64-1; distinct = distinct event byte sequences; plus fixed scenarios (the BESS daemon away and back with a rejected association in between, a deletion the datapath refuses): rejected requests are rejected and write nothing")
    return ck if isinstance(ck, int) else ck.finish()
