"""Runner of the node-level leg (harness/go/verif_nl_test.go, mode "nl") shared by C06, C10, C12: one scenario per
process (a panic in a background goroutine of the agent cannot be recovered), results in scenario order."""
import shutil
from lib import *


def nl_addr(idx, base=120):
    """a private loopback address per scenario and per check process"""
    return f"127.{base + os.getpid() % 100}.{1 + idx // 200}.{1 + idx % 200}"


def run_one(binary, sc, idx, tag, timeout=150):
    d = os.path.join(BUILD, "nlio", f"{os.getpid()}_{tag}{idx}")
    os.makedirs(d, exist_ok=True)
    sc = dict(sc)
    sc.setdefault("addr", nl_addr(idx))
    fin, fout = os.path.join(d, "in"), os.path.join(d, "out")
    with open(fin, "w") as f:
        f.write(json.dumps(sc) + "\n")
    env = go_env()
    env.update({"VERIF_MODE": "nl", "VERIF_IN": fin, "VERIF_OUT": fout})
    res = {"rc": None, "timeout": False, "obs": None, "panic": None, "race": None, "tail": ""}
    try:
        p = subprocess.run([binary, "-test.run", "^TestVerifHarness$", "-test.count=1", "-test.timeout", "120s"],
                           cwd=os.path.join(REPO, "pfcpiface"), env=env, stdout=subprocess.PIPE, stderr=subprocess.STDOUT,
                           text=True, timeout=timeout, errors="replace")
        res["rc"] = p.returncode
        out = p.stdout
    except subprocess.TimeoutExpired as e:
        res["timeout"] = True
        out = (e.stdout or b"").decode("utf-8", "replace") if isinstance(e.stdout, bytes) else (e.stdout or "")
    i = out.find("\npanic: ")
    if i >= 0:
        res["panic"] = out[i:i + 2000].strip()
    j = out.find("WARNING: DATA RACE")
    if j >= 0:
        res["race"] = out[j:j + 2500]
    res["tail"] = out[-500:]
    if os.path.exists(fout):
        for line in open(fout):
            line = line.strip()
            if line:
                try:
                    res["obs"] = json.loads(line)
                except ValueError:
                    pass
    if isinstance(res["obs"], dict):
        for k in ("results", "notes", "in_map", "store_len"):
            if res["obs"].get(k) is None:
                res["obs"][k] = []
        for k in ("dp_log", "inventory"):
            if res["obs"].get(k) is None:
                res["obs"][k] = {}
    shutil.rmtree(d, ignore_errors=True)
    return res


def run_all(binary, scs, tag="", workers=12):
    with ThreadPoolExecutor(max_workers=workers) as ex:
        return list(ex.map(lambda t: run_one(binary, t[1], t[0], tag), list(enumerate(scs))))


def step(op, p=0, **kw):
    d = {"op": op, "p": p}
    d.update(kw)
    return d


def abnormal(r):
    """a run that yielded no observation: text for the report, or None"""
    if r["panic"]:
        return "panic: " + r["panic"][:600]
    if r["timeout"]:
        return "scenario did not finish"
    o = r["obs"]
    if o is None or "harness_error" in o or "panic" in o:
        return f"rc={r['rc']} {str(o)[:300]} {r['tail'][-300:]}"
    return None


def confirmed(binary, item, monitor, sig, tag, tries=2):
    """A failure of a node-level scenario seen in the parallel run is reported only if the same signature shows again when
    the scenario runs alone. (Besides load, there is the known defect F1103 - a new per-peer socket is bound to the
    node's port before it is connected and can take another peer's datagram in between - which makes a request go
    unanswered about once in a hundred peers set up at the same time; C11 owns that finding.) -> (still failing?, run)"""
    last = None
    for k in range(tries):
        r = run_one(binary, item["sc"], 900 + k, tag + "again")
        last = r
        if any(s2 == sig for s2, _ in monitor(item, r)):
            return True, r
    return False, last
