"""C06 - UE IP pool: in range, exclusive, sticky, conserved."""
import itertools
import random
from lib import *
from props import nlrun

TARGETS = ["Props/C06.vo", "Run/Eval_C06.vo"]
HEADER = ("From Coq Require Import NArith List.\nFrom UPF Require Import Model.IPPool Run.Eval_C06.\n"
          "Import ListNotations.\nOpen Scope N_scope.\n")


def ip(a, b, c, d):
    return (a << 24) | (b << 16) | (c << 8) | d


def ipstr(n):
    return ".".join(str((n >> s) & 255) for s in (24, 16, 8, 0))


def gen_cases(rng, tier):
    cases = []
    # bounded-exhaustive: all op sequences of length <= L over 3 sessions on /30 (2 addrs) and /29 (6 addrs)
    L = 5 if tier == "quick" else 7
    alphabet = [(k, s) for k in (0, 1) for s in (1, 2, 3)]
    for cidr_len in (30,):
        for n in range(0, L + 1):
            for seq in itertools.product(alphabet, repeat=n):
                cases.append({"base": ip(10, 0, 0, 0), "len": cidr_len, "ops": [list(o) for o in seq], "cls": f"exh/{cidr_len}"})
    # random longer sequences over more sessions than addresses
    n_rand = 600 if tier == "quick" else 6000
    for _ in range(n_rand):
        ln = rng.choice([30, 29, 29, 28, 28, 27, 26, 31, 32, 25])
        host = 32 - ln
        base = (rng.getrandbits(32) >> host) << host if host < 32 else 0
        if rng.random() < 0.1:
            base = ((0xFFFFFFFF >> host) << host) & 0xFFFFFFFF   # top of the address space (carry of inc)
        size = 1 << host
        nsess = max(1, min(size + rng.randrange(0, 4), 40))
        nops = rng.randrange(0, 80 if ln >= 27 else 160)
        ops = []
        for _ in range(nops):
            ops.append([0 if rng.random() < 0.62 else 1, rng.randrange(1, nsess + 1)])
        cases.append({"base": base, "len": ln, "ops": ops, "cls": f"rand/{ln}"})
    return cases


def to_coq(c, o):
    ops = glist([("Alloc " if k == 0 else "Dealloc ") + str(s) for k, s in c["ops"]])
    res = glist(["None" if r < 0 else f"(Some {r})" for r in o["res"]])
    free = glist([str(x) for x in o["free"]])
    inv = glist([f"({k}, {v})" for k, v in o["inv"]])
    return f"Case {c['base']} {c['len']} {gbool(o['new_ok'])} {ops} {res} {free} {inv}"


def monitor(c, o):
    """The property read directly on the implementation's answers (set-based reference, no FIFO)."""
    if "panic" in o:
        return ("panic", "IP pool panicked: " + o["panic"])
    size = 1 << (32 - c["len"])
    if not o["new_ok"]:
        return None if size < 4 else ("pool-refused", f"pool /{c['len']} refused")
    base = c["base"]
    held = {}
    for (k, s), r in zip(c["ops"], o["res"]):
        if k == 0:
            if r < 0:
                if s in held:
                    return ("lookup-refused", "lookup for a session that holds an address was refused")
                if len(held) < size - 2:
                    return ("refused-while-free", f"allocation refused with {size - 2 - len(held)} addresses free")
            else:
                if not (base < r < base + size - 1):
                    return ("out-of-range", f"address {ipstr(r)} outside pool or network/broadcast")
                if s in held:
                    if held[s] != r:
                        return ("not-sticky", f"session {s} got {ipstr(r)} after {ipstr(held[s])}")
                else:
                    if r in held.values():
                        return ("double-allocation", f"address {ipstr(r)} handed to two sessions")
                    held[s] = r
        else:
            if r < 0:
                if s in held:
                    return ("release-refused", "release of a holding session failed")
            else:
                if s not in held:
                    return ("release-unknown-ok", "release of a session without address succeeded")
                del held[s]
    if len(o["free"]) + len(o["inv"]) != size - 2:
        return ("not-conserved", "free + held != pool size")
    return None


# ------------------------------------------------------------------------------------- node-level leg (monitor only)

def gen_node_leg():
    """several peers associate back to back (well within one second) through the real NewPFCPConn and each asks the UPF
    for a UE address (CHV4): the pool is shared by all associations and keyed by the UP-chosen SEID"""
    S = nlrun.step
    out = []
    for n, rep_ in ((2, 0), (2, 1), (4, 0), (4, 1)):
        steps = [S("burst", burst=[S("setup", p) for p in range(n)], ms=5000)]
        steps += [S("establish", p, k=0, chv4=True) for p in range(n)]
        steps += [S("delete", 0, k=0), S("establish", 0, k=1, chv4=True)]
        if n > 2:
            steps += [S("delete", 1, k=0), S("establish", 2, k=1, chv4=True), S("delete", 3, k=0)]
        else:
            steps += [S("delete", 1, k=0)]
        out.append({"name": f"node:{n}-peers-chv4#{rep_}", "sc": {"peers": n, "pool": "10.250.0.0/24", "steps": steps}})
    return out


def node_leg_monitor(item, r):
    ab = nlrun.abnormal(r)
    if ab:
        return [("node-leg:abnormal-exit", ab)]
    o = r["obs"]
    F = [("node-leg:step-failed:" + nt[:40], nt) for nt in o["notes"]]
    held = {}           # (peer, k) -> (address, UP F-SEID)
    for x in o["results"]:
        key = (x["p"], x["k"])
        if x["op"] == "setup" and (not x["answered"] or x["cause"] != 1):
            F.append(("node-leg:setup-not-accepted", str(x)))
        elif x["op"] == "establish":
            if not x["answered"] or x["cause"] != 1 or not x.get("ue_ip"):
                F.append(("node-leg:establishment-without-address", f"{item['name']}: {x}"))
                continue
            for k2, (ip2, sd2) in held.items():
                if ip2 == x["ue_ip"]:
                    F.append(("node-leg:address-held-by-two-sessions",
                              f"{item['name']}: {x['ue_ip']} given to session {key} (SEID {x['up_seid']}) while session {k2} (SEID {sd2}) holds it"))
                if sd2 == x["up_seid"] and k2[0] != x["p"]:
                    F.append(("node-leg:up-fseid-shared-by-two-associations",
                              f"{item['name']}: UP F-SEID {sd2} of peer {k2[0]} also given to peer {x['p']}"))
            held[key] = (x["ue_ip"], x["up_seid"])
        elif x["op"] == "delete":
            if not x["answered"] or x["cause"] != 1:
                F.append(("node-leg:deletion-of-live-session-refused", f"{item['name']}: {x}"))
            held.pop(key, None)
    inv = o["inventory"]
    want = {sd: ip_ for (ip_, sd) in held.values()}
    if not F and inv != want:
        F.append(("node-leg:pool-inventory-differs-from-live-sessions", f"{item['name']}: pool holds {inv}, live sessions {want}"))
    return F


def replay_l1(tier, seed, replay):
    """a replay file of the agent-level leg (an L1 history): run it again and state mon_c06 on it"""
    import l1
    from props.l1common import run_l1
    ck = Check("C06", tier, seed)
    case = json.load(open(replay))["case"]["input"]
    g_int = [{"op": e.get("k")} for e in case["events"]]
    try:
        ob = run_l1(build_harness(), [case], workers=1, tag="c06replay")[0]
    except HarnessError as e:
        ck.tie("harness builds and runs against the current tree", False, str(e)[-1500:])
        return ck.finish()
    ck.evaluations += 1
    for sig, msg, i in l1.mon_c06(case, g_int, ob)[:1]:
        ck.fail("agent:" + sig, msg, {"input": case, "event": i})
    return ck.finish()


def run(tier, seed, replay=None):
    if replay is not None and "events" in (json.load(open(replay)).get("case", {}).get("input") or {}):
        return replay_l1(tier, seed, replay)
    ck = Check("C06", tier, seed)
    ck.trusted = COMMON_TRUSTED + ["harness/go/verif_c06_test.go (direct calls to NewIPPool/LookupOrAllocIP/DeallocIP; reads freePool and inventory)",
                                   "net.ParseCIDR is outside the model: the model takes the masked base and the prefix length"]
    ck.assumptions = ["the Go map inventory is modelled as an association list with unique keys (uniqueness is part of the proved invariant)",
                      "atomicity of each method (mutex held over the whole body) is established syntactically by the skeleton tie, not by the Go memory model"]
    ck.rule = ("all op sequences of length <= L over {alloc,release} x 3 sessions on a /30 (exhaustive; L=5 quick, 7 thorough) plus random "
               "sequences on /20../32 pools with more sessions than addresses, some at the top of the address space; "
               "non-trivial = at least one allocation succeeded and the sequence has >= 2 ops; distinct = distinct (base,len,ops)")
    ck.prove(TARGETS)
    rng = rng_for(seed, "C06")
    cases = gen_cases(rng, tier) if replay is None else [json.load(open(replay))["case"]["input"]]
    try:
        binary = build_harness()
        inputs = [{"cidr": f"{ipstr(c['base'])}/{c['len']}", "ops": c["ops"]} for c in cases]
        obs = run_harness(binary, "c06", inputs)
    except HarnessError as e:
        ck.tie("harness builds and runs against the current tree", False, str(e)[-1500:])
        return ck.finish()
    ck.tie("harness builds and runs against the current tree", True)
    dist = {}
    for c, o in zip(cases, obs):
        nt = len(c["ops"]) >= 2 and any(k == 0 and r >= 0 for (k, s), r in zip(c["ops"], o.get("res", [])))
        ck.count([c["base"], c["len"], c["ops"]], nt)
        refused = sum(1 for (k, s), r in zip(c["ops"], o.get("res", [])) if k == 0 and r < 0)
        k = f"{c['cls']}:{'refusals' if refused else 'norefusal'}"
        dist[k] = dist.get(k, 0) + 1
        m = monitor(c, o)
        if m:
            ck.fail(m[0], m[1], {"input": c, "impl": o})
    ck.distribution = dist
    ck.samples = [{"input": c, "impl": o} for c, o in list(zip(cases, obs))[-3:]]
    try:
        kept = [(c, o) for c, o in zip(cases, obs) if "panic" not in o]
        idx = coq_eval_shards("C06", HEADER, [to_coq(c, o) for c, o in kept], shard=400)
        for i in idx:
            ck.mismatch(f"model and implementation disagree on {kept[i][0]}", {"input": kept[i][0], "impl": kept[i][1]})
        ck.tie("correspondence: model results, free list (in order) and inventory = implementation", not idx,
               f"{len(idx)} mismatching cases" if idx else "")
    except RuntimeError as e:
        ck.tie("correspondence: model results, free list (in order) and inventory = implementation", False, str(e)[-800:])
    # concurrent stress (search support, not proof)
    try:
        rb = build_harness(race=True)
        runs = 6 if tier == "quick" else 40
        cin = []
        for i in range(runs):
            ln = rng.choice([29, 28, 27])
            cin.append({"Cidr": f"10.1.0.0/{ln}", "G": rng.choice([8, 16, 32]), "Iters": 400 if tier == "quick" else 3000,
                        "Seed": rng.randrange(1 << 30), "SeidsPerG": 3, "Base": ip(10, 1, 0, 0), "Size": 1 << (32 - ln)})
        cobs = run_harness(rb, "c06_conc", cin, tag="c06_conc")
        ck.notes["concurrent_stress"] = {"runs": runs, "allocs": sum(o.get("allocs", 0) for o in cobs),
                                         "refusals": sum(o.get("refusals", 0) for o in cobs)}
        for ci, o in zip(cin, cobs):
            ck.evaluations += 1
            if o.get("violations"):
                ck.fail("concurrent:" + o["violations"][0], "concurrent stress: " + "; ".join(o["violations"]), {"input": ci, "impl": o})
            if "panic" in o:
                ck.fail("panic", "panic under concurrency: " + o["panic"], {"input": ci})
        # many goroutines racing for ONE unknown session id (search support; needs the lookup and the allocation to be one critical section)
        sin = [{"Cidr": "10.2.0.0/24", "G": g, "Rounds": (2500 if tier == "quick" else 20000), "Size": 256} for g in (4, 8, 16)]
        sobs = run_harness(rb, "c06_same", sin, tag="c06_same")
        for ci, o in zip(sin, sobs):
            ck.evaluations += 1
            if o.get("violations"):
                ck.fail("concurrent:" + o["violations"][0], "goroutines asking at once for one unknown session: " + "; ".join(o["violations"]), {"input": ci, "impl": o})
            if "panic" in o:
                ck.fail("panic", "panic under concurrency: " + o["panic"], {"input": ci})
        ck.notes["same_session_race"] = {"rounds": sum(c["Rounds"] for c in sin)}
    except HarnessError as e:
        txt = str(e)
        if "DATA RACE" in txt:
            ck.fail("data-race", "race detector report in IPPool stress", {"log": txt[-3000:]})
        else:
            ck.tie("race-enabled harness builds and runs", False, txt[-1500:])
    # agent level: the addresses the control plane is told (Created PDR), rollback of rejected establishments and the
    # four endings, on small pools with more sessions than addresses
    try:
        import l1
        from props.l1common import run_l1
        lcases = []
        for k in range(120 if tier == "quick" else 1500):
            sub = random.Random(rng.getrandbits(64))
            cfg = l1.default_cfg(pool=sub.choice(["10.250.0.0/29", "10.250.0.8/30", "10.250.1.0/28"]))
            case, intents, views = l1.random_history(sub, cfg=cfg, length=sub.choice([10, 18, 30]))
            lcases.append((case, intents))
        lobs = run_l1(binary, [c[0] for c in lcases], workers=8, tag="c06l1")
        for (case, intents), ob in zip(lcases, lobs):
            ck.evaluations += 1
            for sig, msg, i in l1.mon_c06(case, intents, ob)[:1]:
                ck.fail("agent:" + sig, msg, {"input": case, "event": i})
        ck.notes["agent_level_histories"] = len(lcases)
        from props.l1common import run_soak
        d2 = {}
        run_soak(ck, binary, rng, lambda c_, it, ob: [("agent:" + s_, m_, i_) for s_, m_, i_ in l1.mon_c06(c_, it, ob) + l1.mon_c02(c_, it, ob)],
                 d2, scenarios=l1.pool_scenarios(rng))
        ck.notes["agent_level_scenarios"] = d2
    except HarnessError as e:
        ck.tie("agent-level histories run", False, str(e)[-800:])
    # node level: associations created back to back through the real NewPFCPConn share the pool (monitor only)
    if replay is None:
        try:
            items = gen_node_leg()
            nclean = 0
            for it, r in zip(items, nlrun.run_all(binary, [it["sc"] for it in items], tag="c06")):
                ck.evaluations += 1
                fs = node_leg_monitor(it, r)
                nclean += 0 if fs else 1
                for sig, text in fs:
                    still, r2 = nlrun.confirmed(binary, it, node_leg_monitor, sig, "c06")
                    if not still:
                        ck.notes["unconfirmed_node_level_failures"] = ck.notes.get("unconfirmed_node_level_failures", 0) + 1
                        continue
                    ck.fail(sig, text, {"input": it, "impl": {k: v for k, v in r2.items() if k != "tail"}})
            ck.notes["node_level_leg"] = {"scenarios": len(items), "clean": nclean}
        except HarnessError as e:
            ck.tie("node-level leg runs", False, str(e)[-800:])
    return ck.finish()
