"""C18 - configuration loading yields a validated configuration or an error.

Implementation side : LoadConfigFile (and removeComments) of /repo through the overlay harness.
Monitor             : the property read directly on what LoadConfigFile returned (defaults, durations
                      re-parsed by time.ParseDuration in the harness, mode, addresses), "a comment between
                      tokens never changes the result", "every shipped UPF sample loads", no panic.
Model side          : Coq strip = removeComments on every text; Coq load (on the JSON value encoding/json
                      reads, with the oracle graph of the case) = result of LoadConfigFile.
"""
import base64
import importlib.util
import itertools
from lib import *

_spec = importlib.util.spec_from_file_location("gen_samples_c18", os.path.join(VERIF, "tools", "gen_samples_c18.py"))
gen_samples_c18 = importlib.util.module_from_spec(_spec)
_spec.loader.exec_module(gen_samples_c18)

TARGETS = ["Props/C18.vo", "Run/Eval_C18.vo"]
HEADER = ("From Coq Require Import String List NArith ZArith Uint63.\n"
          "From UPF Require Import Model.Jsonc Model.Config Run.Eval_C18.\n"
          "Import ListNotations.\nOpen Scope uint63_scope.\n")

MODES = ["af_xdp", "af_packet", "cndp", "dpdk", "sim"]

# ------------------------------------------------------------------------------------------------
# JSON documents as trees that keep member order, duplicate members and number literals:
#   ("o", [(key, val), ...]) ("a", [val, ...]) ("s", str) ("n", literal) ("b", bool) ("z",)


def O(*pairs):
    return ("o", list(pairs))


def A(*items):
    return ("a", list(items))


def S(s):
    return ("s", s)


def Nn(lit):
    return ("n", str(lit))


def B(b):
    return ("b", bool(b))


Z = ("z",)


def tokens(v):
    """JSON tokens of a tree, in order."""
    k = v[0]
    if k == "o":
        out = ["{"]
        for i, (key, val) in enumerate(v[1]):
            if i:
                out.append(",")
            out.append(json.dumps(key, ensure_ascii=False))
            out.append(":")
            out.extend(tokens(val))
        out.append("}")
        return out
    if k == "a":
        out = ["["]
        for i, val in enumerate(v[1]):
            if i:
                out.append(",")
            out.extend(tokens(val))
        out.append("]")
        return out
    if k == "s":
        return [json.dumps(v[1], ensure_ascii=False)]
    if k == "n":
        return [v[1]]
    if k == "b":
        return ["true" if v[1] else "false"]
    return ["null"]


def default_gaps(toks, style):
    """white space between tokens; style 0 compact, 1 one space, 2 newline after , { ["""
    n = len(toks)
    gaps = [""] * (n + 1)
    for i in range(1, n):
        if style == 1:
            gaps[i] = " "
        elif style == 2:
            gaps[i] = "\n  " if toks[i - 1] in ",{[" else (" " if toks[i - 1] == ":" else "")
    if style == 2:
        gaps[n] = "\n"
    return gaps


def render(toks, gaps):
    out = [gaps[0]]
    for t, g in zip(toks, gaps[1:]):
        out.append(t)
        out.append(g)
    return "".join(out).encode("utf-8")


def text(v, style=0):
    t = tokens(v)
    return render(t, default_gaps(t, style))


# ------------------------------------------------------------------------------------------------
# the configuration schema (mirror of the Go structs; only used to aim the generators)

U8, U32, U64 = ("uint", 8), ("uint", 32), ("uint", 64)
IFACE = ("struct", [("ifname", ("str", "plain"))])
CP = ("struct", [("peers", ("peers",)), ("use_fqdn", ("bool",)), ("hostname", ("str", "plain")),
                 ("http_port", ("str", "plain")), ("dnn", ("str", "plain")), ("enable_ue_ip_alloc", ("bool",)),
                 ("ue_ip_pool", ("str", "cidr"))])
P4 = ("struct", [("slice_id", U8), ("access_ip", ("str", "cidr")), ("p4rtc_server", ("str", "plain")),
                 ("p4rtc_port", ("str", "plain")), ("qfi_tc_mapping", ("map",)), ("default_tc", U8),
                 ("clear_state_on_restart", ("bool",))])
SIM = ("struct", [("max_sessions", U32), ("start_ue_ip", ("str", "iptext")), ("start_enb_ip", ("str", "iptext")),
                  ("start_aupf_ip", ("str", "iptext")), ("n6_app_ip", ("str", "iptext")), ("n9_app_ip", ("str", "iptext")),
                  ("start_n3_teid", ("str", "plain")), ("start_n9_teid", ("str", "plain")), ("uplink_mbr", U64),
                  ("downlink_mbr", U64), ("uplink_gbr", U64), ("downlink_gbr", U64)])
QCI = ("struct", [("qci", U8), ("cbs", U32), ("pbs", U32), ("ebs", U32), ("burst_duration_ms", U32), ("priority", U32)])
METER = ("struct", [("n6_bps", U64), ("n6_burst_bytes", U64), ("n3_bps", U64), ("n3_burst_bytes", U64)])
TOP = ("struct", [
    ("mode", ("str", "mode")), ("access", IFACE), ("core", IFACE), ("cpiface", CP), ("p4rtciface", P4),
    ("enable_p4rt", ("bool",)), ("enable_gtpu_path_monitoring", ("bool",)), ("measure_flow", ("bool",)),
    ("sim", SIM), ("conn_timeout", U32), ("read_timeout", U32), ("enable_notify_bess", ("bool",)),
    ("enable_end_marker", ("bool",)), ("notify_sockaddr", ("str", "plain")), ("endmarker_sockaddr", ("str", "plain")),
    ("log_level", ("str", "level")), ("qci_qos_config", ("slice", QCI)), ("slice_rate_limit_config", METER),
    ("max_req_retries", U8), ("resp_timeout", ("str", "dur")), ("enable_hbTimer", ("bool",)),
    ("heart_beat_interval", ("str", "dur")), ("n4_addr", ("str", "plain"))])

STR_VALUES = {
    "mode": {"valid": MODES, "boundary": ["", "sim"], "invalid": ["DPDK", "dpdk ", "foo", "af-xdp", "up4"]},
    "dur": {"valid": ["2s", "100ms", "1h2m3s", "1.5s", "5s", "-5s", "+3s", "1us", "1µs", "15m"],
            "boundary": ["", "0", "0s", "9223372036854775807ns", "2562047h47m16.854775807s", ".5s"],
            "invalid": ["abc", "2", "5 s", "s", "1d", "9223372036854775808ns", "1e3s", " 2s", "2S", "-", "1h-2m"]},
    "cidr": {"valid": ["10.250.0.0/16", "172.17.0.1/32", "0.0.0.0/0", "::/0", "2001:db8::/32", "10.1.2.3/8"],
             "boundary": ["255.255.255.255/32", "1.2.3.4/0", "::1/128"],
             "invalid": ["", "10.0.0.0", "10.0.0.0/33", "300.1.1.1/8", "10.0.0.0/ 8", "a/8", "10.0.0.0/8/8",
                         "010.0.0.0/8", "::1/129", "10.0.0.0/-1", "10.0.0.0/08"]},
    "ip": {"valid": ["148.162.12.214", "::1", "2001:db8::1", "::ffff:1.2.3.4", "10.0.0.1"],
           "boundary": ["0.0.0.0", "255.255.255.255", "::"],
           "invalid": ["", "1.2.3", "1.2.3.4.5", "256.1.1.1", "host", "1.2.3.4/24", " 1.2.3.4", "01.2.3.4",
                       "fe80::1%eth0", "1.2.3.4 "]},
    "iptext": {"valid": ["16.0.0.1", "::1", "6.6.6.6"], "boundary": ["", "0.0.0.0"],
               "invalid": ["zz", "1.2.3", "1.2.3.4/8", "01.1.1.1"]},
    "level": {"valid": ["info", "debug", "warn", "error", "dpanic", "panic", "fatal", "INFO", "Debug", "FATAL"],
              "boundary": ["", "İNFO", "wArN"],
              "invalid": ["trace", "warning", "inf", "5", "info ", "de bug"]},
    "plain": {"valid": ["x", "/tmp/sock", "upf-0", "8080", "a b", "internet"],
              "boundary": ["", "ünï", "a*b", "a/b/c", "\\", "\"q\"", "\u0001"], "invalid": []},
}


def uint_variants(bits):
    mx = (1 << bits) - 1
    return {"valid": [Nn(1), Nn(7), Nn(min(mx, 50000)), Nn(3)],
            "boundary": [Nn(0), Nn(mx), Nn(mx - 1), Nn(mx + 1), Nn((1 << 64) - 1), Nn(1 << 64), Nn("-0"), Nn("-1"),
                         Nn("0.0"), Nn(255), Nn(256)],
            "invalid": [Nn("1.0"), Nn("1e0"), Nn("1E2"), Nn("0.5"), Nn("-1.5"), Nn("12345678901234567890123")]}


WRONG = {"str": [Nn(5), B(True), A(), O(), A(S("x"))],
         "uint": [S("5"), B(False), A(Nn(1)), O()],
         "bool": [Nn(0), Nn(1), S("true"), A(), O()],
         "struct": [S("x"), Nn(1), B(True), A(), A(O())],
         "slice": [S("x"), Nn(1), B(False), O()],
         "peers": [S("1.2.3.4"), Nn(1), B(False), O()],
         "map": [S("x"), Nn(1), B(True), A()]}


def variants(t, rng):
    """{class: [values]} for a schema type (classes: valid boundary invalid null wrong)."""
    k = t[0]
    out = {"null": [Z], "wrong": list(WRONG.get(k, []))}
    if k == "str":
        sv = STR_VALUES[t[1]]
        for c in ("valid", "boundary", "invalid"):
            out[c] = [S(x) for x in sv[c]]
    elif k == "uint":
        out.update(uint_variants(t[1]))
    elif k == "bool":
        out["valid"] = [B(True), B(False)]
        out["boundary"], out["invalid"] = [], []
    elif k == "peers":
        ip = STR_VALUES["ip"]
        out["valid"] = [A(S(x)) for x in ip["valid"]] + [A(S("1.1.1.1"), S("::1"), S("2.2.2.2"))]
        out["boundary"] = [A()] + [A(S(x)) for x in ip["boundary"]] + [A(*[S(f"10.0.0.{i}") for i in range(1, 20)])]
        out["invalid"] = [A(S(x)) for x in ip["invalid"]] + [A(S("1.1.1.1"), S("bad")), A(Z), A(S("1.1.1.1"), Z),
                                                           A(Nn(5)), A(S("1.1.1.1"), B(True)), A(A()), A(O())]
    elif k == "struct":
        out["valid"] = [O(), O(("unknown_member", A(Nn(1), O(("x", Z)))))]
        out["boundary"], out["invalid"] = [], []
    elif k == "slice":
        out["valid"] = [A(), A(O()), A(O(("qci", Nn(9)), ("cbs", Nn(2048)), ("priority", Nn(6))), O(("qci", Nn(8))))]
        out["boundary"] = [A(Z), A(Z, O()), A(O(("qci", Nn(255)), ("cbs", Nn((1 << 32) - 1))))]
        out["invalid"] = [A(Nn(1)), A(S("x")), A(O(("qci", Nn(256)))), A(O(), O(("cbs", Nn(1 << 32)))), A(A()),
                          A(O(("qci", S("1"))))]
    elif k == "map":
        out["valid"] = [O(), O(("1", Nn(2))), O(("9", Nn(3)), ("255", Nn(0)), ("007", Nn(1)))]
        out["boundary"] = [O(("0", Nn(255))), O(("255", Nn(255))), O(("1", Z))]
        out["invalid"] = [O(("256", Nn(1))), O(("-1", Nn(1))), O(("a", Nn(1))), O(("", Nn(1))), O(("1", Nn(256))),
                          O(("1", S("2"))), O(("+1", Nn(1))), O(("1.0", Nn(1))), O((" 1", Nn(1)))]
    return out


def base_docs():
    """(name, tree) of documents the per-field variants are applied to."""
    qci = A(O(("qci", Nn(0)), ("cbs", Nn(50000)), ("ebs", Nn(50000)), ("pbs", Nn(50000)), ("burst_duration_ms", Nn(10)),
              ("priority", Nn(7))), O(("qci", Nn(9)), ("cbs", Nn(2048)), ("priority", Nn(6))))
    bess_full = O(("mode", S("dpdk")), ("log_level", S("info")), ("workers", Nn(1)),
                  ("table_sizes", O(("pdrLookup", Nn(50000)))),
                  ("sim", O(("core", S("n6")), ("max_sessions", Nn(50000)), ("start_ue_ip", S("16.0.0.1")),
                            ("start_n3_teid", S("0x30000000")), ("uplink_mbr", Nn(500000)))),
                  ("access", O(("ifname", S("ens803f2")))), ("core", O(("ifname", S("ens803f3")))),
                  ("measure_upf", B(True)), ("measure_flow", B(False)), ("max_req_retries", Nn(5)),
                  ("resp_timeout", S("2s")), ("enable_p4rt", B(False)), ("enable_hbTimer", B(False)),
                  ("qci_qos_config", qci),
                  ("slice_rate_limit_config", O(("n6_bps", Nn(500000000)), ("n6_burst_bytes", Nn(625000)))),
                  ("cpiface", O(("peers", A(S("148.162.12.214"))), ("dnn", S("internet")), ("http_port", S("8080")),
                                ("enable_ue_ip_alloc", B(False)), ("ue_ip_pool", S("10.250.0.0/16")))),
                  ("p4rtciface", O(("access_ip", S("172.17.0.1/32")), ("p4rtc_server", S("onos")),
                                   ("p4rtc_port", S("51001")), ("slice_id", Nn(0)), ("default_tc", Nn(3)),
                                   ("clear_state_on_restart", B(False)))))
    return [
        ("bess-min", O(("mode", S("dpdk")))),
        ("bess-full", bess_full),
        ("p4", O(("enable_p4rt", B(True)),
                 ("p4rtciface", O(("access_ip", S("172.17.0.1/32")), ("p4rtc_server", S("onos")), ("default_tc", Nn(2)),
                                  ("qfi_tc_mapping", O(("1", Nn(2)), ("9", Nn(3)))))),
                 ("cpiface", O(("ue_ip_pool", S("10.250.0.0/16")), ("peers", A(S("10.0.0.1"), S("::1"))))),
                 ("log_level", S("debug")))),
        ("bess-hb-alloc", O(("mode", S("af_packet")), ("enable_hbTimer", B(True)), ("heart_beat_interval", S("7s")),
                            ("read_timeout", Nn(25)), ("max_req_retries", Nn(3)), ("resp_timeout", S("500ms")),
                            ("cpiface", O(("enable_ue_ip_alloc", B(True)), ("ue_ip_pool", S("10.60.0.0/24")),
                                          ("peers", A(S("1.2.3.4"))))))),
        ("bess-hb-default", O(("mode", S("sim")), ("enable_hbTimer", B(True)), ("log_level", S("warn")))),
    ]


def set_path(tree, path, val, mode="replace"):
    """Copy of tree with member path (list of keys, created when missing) set / removed / appended."""
    assert tree[0] == "o"
    pairs = list(tree[1])
    key = path[0]
    idx = [i for i, (k, _) in enumerate(pairs) if k == key]
    if len(path) == 1:
        if mode == "remove":
            return ("o", [p for p in pairs if p[0] != key])
        if mode == "append" or not idx:
            return ("o", pairs + [(key, val)])
        pairs[idx[-1]] = (key, val)
        return ("o", pairs)
    if idx and pairs[idx[-1]][1][0] == "o":
        sub = pairs[idx[-1]][1]
        pairs[idx[-1]] = (key, set_path(sub, path[1:], val, mode))
        return ("o", pairs)
    if mode == "remove":
        return tree
    return ("o", pairs + [(key, set_path(O(), path[1:], val, mode))])


def all_paths(t=TOP, prefix=()):
    out = []
    for name, ft in t[1]:
        out.append((prefix + (name,), ft))
        if ft[0] == "struct":
            out.extend(all_paths(ft, prefix + (name,)))
    return out


def case_of(doc, cls, **kw):
    c = {"doc": base64.b64encode(doc).decode(), "cls": cls}
    c.update(kw)
    return c


def gen_schema_cases(rng, tier):
    cases = []
    bases = base_docs()
    paths = all_paths()
    # peers are "ip" lists; top-level variants of every field applied to every base document
    for (bname, btree), (path, ft) in itertools.product(bases, paths):
        vs = variants(ft, rng)
        for cls in ("valid", "boundary", "invalid", "null", "wrong"):
            vals = vs.get(cls, [])
            if tier == "quick" and bname not in ("bess-min", "p4") and len(vals) > 2:
                vals = rng.sample(vals, 2)
            for v in vals:
                cases.append(case_of(text(set_path(btree, list(path), v), rng.choice([0, 1, 2])),
                                     f"field/{cls}", field=".".join(path), base=bname))
        cases.append(case_of(text(set_path(btree, list(path), None, "remove"), rng.choice([0, 1])), "field/absent",
                             field=".".join(path), base=bname))
    # member names: case variants, the two folding runes, near misses, duplicates
    for bname, btree in bases[:3]:
        for name, v in [("MODE", S("sim")), ("Mode", S("cndp")), ("mode ", S("sim")), ("mod", S("sim")),
                        ("ENABLE_HBTIMER", B(True)), ("enable_hbtimer", B(True)), ("Enable_P4RT", B(True)),
                        ("reſp_timeout", S("3s")), ("RESP_TIMEOUT", S("4s")), ("heart_beat_interval", S("9s")),
                        ("HEART_BEAT_INTERVAL", S("bad")), ("read_timeout", Nn(0)), ("READ_TIMEOUT", Nn(30)),
                        ("max_req_retrieſ", Nn(9)), ("log_level", S("error")), ("LOG_LEVEL", Z),
                        ("acceſs", Nn(5)), ("K", Nn(1)), ("p4rtciface", O(("DEFAULT_TC", Nn(1)))),
                        ("P4RTCIFACE", O(("default_tc", Nn(0)), ("ACCESS_IP", S("1.1.1.1/8")))),
                        ("cpiface", O(("PEERS", A(S("9.9.9.9"))))), ("CPIFACE", O(("Ue_Ip_Pool", S("bad")))),
                        ("cpiface", Z), ("p4rtciface", Z), ("p4rtciface", O(("default_tc", Z))),
                        ("enable_p4rt", B(True)), ("enable_p4rt", B(False)), ("mode", S("")), ("mode", Z)]:
            cases.append(case_of(text(set_path(btree, [name], v, "append"), rng.choice([0, 1])), "names+duplicates",
                                 base=bname))
    # the []string peers re-uses its backing array when the member is repeated
    seqs = [[A(S("1.1.1.1"), S("2.2.2.2")), A(S("3.3.3.3")), A(Z, Z)],
            [A(S("1.1.1.1"), S("2.2.2.2")), A(), A(Z, Z)],
            [A(S("1.1.1.1"), S("2.2.2.2")), Z, A(Z)],
            [A(S("1.1.1.1"), S("bad")), A(S("3.3.3.3"))],
            [A(S("1.1.1.1"), S("bad")), A(S("3.3.3.3")), A(Z, Z)],
            [A(S("1.1.1.1")), A(Z, Z, S("4.4.4.4"))],
            [A(S("1.1.1.1"), S("2.2.2.2"), S("3.3.3.3")), A(Z), A(Z, Z), A(Z, Z, Z), A(Z, Z, Z, Z)]]
    for seq in seqs:
        cases.append(case_of(text(O(("mode", S("dpdk")), *[("cpiface", O(("peers", s))) for s in seq])), "peers-reuse"))
        cases.append(case_of(text(O(("mode", S("dpdk")), ("cpiface", O(*[("peers", s) for s in seq])))), "peers-reuse"))
    # documents that are not objects
    for v in [Z, B(True), Nn(1), S("x"), A(), A(O(("mode", S("dpdk")))), O()]:
        cases.append(case_of(text(v), "toplevel"))
    # random combinations: every member independently absent / null / valid / boundary; 40 % of the documents
    # then get one or two members spoiled (invalid value or wrong kind)
    n_rand = 700 if tier == "quick" else 10000
    weights = [("absent", 38), ("valid", 42), ("boundary", 12), ("null", 8)]
    for _ in range(n_rand):
        def build(t):
            pairs = []
            for name, ft in t[1]:
                cls = rng.choices([w[0] for w in weights], [w[1] for w in weights])[0]
                if cls == "absent":
                    continue
                if ft[0] == "struct" and cls != "null":
                    v = build(ft)
                else:
                    vs = variants(ft, rng)
                    pool = vs.get(cls) or vs["valid"]
                    if cls == "boundary" and ft[0] == "uint":      # in-range boundary values only
                        pool = [Nn(0), Nn((1 << ft[1]) - 1), Nn(1)]
                    if cls == "boundary" and ft[0] == "str" and ft[1] in ("mode", "cidr", "dur"):
                        pool = vs["valid"] + [S("")]
                    v = rng.choice(pool)
                if rng.random() < 0.08:
                    name = rng.choice([name.upper(), name.capitalize(), name.replace("s", "\u017f", 1)])
                pairs.append((name, v))
            if rng.random() < 0.3:
                pairs.append((rng.choice(["workers", "hwcksum", "x", "table_sizes"]), rng.choice([Nn(1), B(False), O(("a", A(Z)))])))
            rng.shuffle(pairs)
            return ("o", pairs)
        tree = build(TOP)
        p4 = rng.random() < 0.4
        if rng.random() < 0.85:            # make the mode / P4 part consistent most of the time
            tree = set_path(tree, ["enable_p4rt"], B(p4))
            tree = set_path(tree, ["mode"], None, "remove") if p4 else set_path(tree, ["mode"], S(rng.choice(MODES)))
            if p4:
                tree = set_path(tree, ["p4rtciface", "access_ip"], S(rng.choice(STR_VALUES["cidr"]["valid"])))
                tree = set_path(tree, ["cpiface", "ue_ip_pool"], S(rng.choice(STR_VALUES["cidr"]["valid"])))
        cls = "random-combination"
        if rng.random() < 0.4:
            for _ in range(rng.choice([1, 1, 2])):
                path, ft = rng.choice(paths)
                vs = variants(ft, rng)
                pool = vs.get("invalid", []) + vs.get("wrong", [])
                tree = set_path(tree, list(path), rng.choice(pool))
            cls = "random-combination-spoiled"
        cases.append(case_of(text(tree, rng.choice([0, 1, 2])), cls))
    return cases


# ------------------------------------------------------------------------------------------------
# comments between tokens

LINE_BODIES = [" c", "", " // again", " /* open", " \"mode\": \"sim\",", " */", "*", "/", " éè ", "\t x \r"]
BLOCK_BODIES = [" c ", "", " // inside ", " /* nested ", "*", "/", "**", " \"mode\": \"sim\", ", "/ * /", " ü "]


def comment_docs(rng, tier):
    """[(name, tokens, gaps)] base documents whose every inter-token gap gets a comment."""
    docs = []
    trees = dict(base_docs())
    docs.append(("bess-min", trees["bess-min"], 1))
    docs.append(("p4", trees["p4"], 0))
    docs.append(("bess-hb-alloc", trees["bess-hb-alloc"], 2))
    docs.append(("paths+escapes", O(("mode", S("af_xdp")), ("notify_sockaddr", S("/pod-share/notifycp")),
                                    ("endmarker_sockaddr", S("/tmp/pfcp*port")), ("n4_addr", S("a\\\"b/c")),
                                    ("cpiface", O(("hostname", S("hôte/1")), ("peers", A(S("1.1.1.1"), S("::1"))))),
                                    ("read_timeout", Nn(7)), ("x", A(Nn("-1.5e+3"), B(True), Z, A(), O()))), 1))
    docs.append(("invalid-peer", O(("mode", S("dpdk")), ("cpiface", O(("peers", A(S("1.1.1.1"), S("nope")))))), 1))
    docs.append(("type-error", O(("mode", S("dpdk")), ("read_timeout", S("25")), ("log_level", S("info"))), 0))
    docs.append(("hb-bad", O(("mode", S("cndp")), ("enable_hbTimer", B(True)), ("heart_beat_interval", S("5 s"))), 2))
    if tier != "quick":
        docs.append(("bess-full", trees["bess-full"], 2))
        docs.append(("bess-hb-default", trees["bess-hb-default"], 1))
        docs.append(("p4-bad-mode", set_path(trees["p4"], ["mode"], S("dpdk")), 1))
    else:
        docs.append(("bess-full", trees["bess-full"], 2))
    out = []
    for name, tree, style in docs:
        t = tokens(tree)
        out.append((name, t, default_gaps(t, style)))
    return out


def gen_comment_cases(rng, tier):
    cases = []
    for name, toks, gaps in comment_docs(rng, tier):
        base = render(toks, gaps)
        base_id = f"cbase:{name}"
        cases.append(case_of(base, "comment/base", id=base_id))
        n = len(gaps)
        k = 0
        for g in range(n):                       # EVERY gap, one comment of each kind
            for kind in ("line", "block"):
                body = (LINE_BODIES if kind == "line" else BLOCK_BODIES)[k % (len(LINE_BODIES) if kind == "line" else len(BLOCK_BODIES))]
                k += 1
                com = ("//" + body + "\n") if kind == "line" else ("/*" + body + "*/")
                for where in ((0, 1) if tier != "quick" else (k % 2,)):
                    gg = list(gaps)
                    gg[g] = (com + gaps[g]) if where == 0 else (gaps[g] + com)
                    cases.append(case_of(render(toks, gg), f"comment/{kind}", same_as=base_id, gap=g, base=name))
        # comments in all gaps at once
        for variant in range(4 if tier == "quick" else 12):
            gg = []
            for g in range(n):
                r = rng.random()
                if variant == 0:
                    com = "/*" + BLOCK_BODIES[g % len(BLOCK_BODIES)] + "*/"       # everything on one line
                elif variant == 1:
                    com = "//" + LINE_BODIES[g % len(LINE_BODIES)] + "\n"
                else:
                    com = "".join(rng.choice(["/*" + rng.choice(BLOCK_BODIES) + "*/", "//" + rng.choice(LINE_BODIES) + "\n",
                                              " ", "\n", "\t", ""]) for _ in range(rng.randrange(0, 4)))
                gg.append(gaps[g] + com if r < 0.5 else com + gaps[g])
            cases.append(case_of(render(toks, gg), "comment/all-gaps", same_as=base_id, base=name))
    return cases


def gen_marker_cases(rng, tier):
    """strings containing comment markers, multi-line / unclosed block comments: only no panic + validity."""
    cases = []
    vals = ["http://onos:8181", "a//b", "a/*b", "a*/b", "a/*b*/c", "//", "/*", "/**/", "x /* y", "*/ /*", "/*/", "a\\/\\/b",
            "https://github.com/omec-project/upf /* see */"]
    for v in vals:
        for tree in [O(("mode", S("dpdk")), ("notify_sockaddr", S(v))),
                     O(("mode", S("dpdk")), ("cpiface", O(("hostname", S(v)), ("dnn", S("internet")))), ("read_timeout", Nn(9))),
                     O(("mode", S("dpdk")), ("notify_sockaddr", S(v)), ("mode", S("sim")), ("endmarker_sockaddr", S("c*/d"))),
                     O(("enable_p4rt", B(True)), ("p4rtciface", O(("p4rtc_server", S(v)), ("access_ip", S("1.1.1.1/32")))),
                       ("cpiface", O(("ue_ip_pool", S("10.0.0.0/8")))))]:
            for style in (0, 2):
                cases.append(case_of(text(tree, style), "marker-in-string"))
    t = tokens(dict(base_docs())["bess-hb-alloc"])
    gaps = default_gaps(t, 1)
    for g in range(len(gaps)):
        for com in ["/* multi\n line */", "/* unclosed", "*/", "/*\n*/", "/* a\n// b */\n", "/ / x", "/*/"]:
            gg = list(gaps)
            gg[g] = gaps[g] + com
            cases.append(case_of(render(t, gg), "multiline-or-unclosed"))
            if tier == "quick" and g % 3:
                break
    return cases


def gen_random_cases(rng, tier):
    cases = []
    n = 250 if tier == "quick" else 5000
    alphabet = b'{}[]:,"\\/* \n\tnulltrefas0123456789.-eE' + bytes([0, 255, 0xc5, 0xbf, 0xe2, 0x84, 0xaa])
    seeds = [text(t, 2) for _, t in base_docs()]
    for i in range(n):
        r = rng.random()
        if r < 0.3:
            doc = bytes(rng.getrandbits(8) for _ in range(rng.randrange(0, 120)))
        elif r < 0.6:
            doc = bytes(rng.choice(alphabet) for _ in range(rng.randrange(0, 80)))
        else:
            b = bytearray(rng.choice(seeds))
            for _ in range(rng.randrange(1, 4)):
                op = rng.randrange(4)
                pos = rng.randrange(len(b) + 1)
                if op == 0 and b:
                    del b[min(pos, len(b) - 1)]
                elif op == 1:
                    b.insert(pos, rng.choice(alphabet))
                elif op == 2 and b:
                    b[min(pos, len(b) - 1)] = rng.getrandbits(8)
                else:
                    del b[pos:]
            doc = bytes(b)
        cases.append(case_of(doc, "random-bytes"))
    # every byte string of length <= 2 over bytes that start encodings, comments, strings and documents, every string of
    # length 3 over the byte-order-mark bytes, and marks / truncated marks in front of a valid document
    special = [0x00, 0x20, 0x0a, 0x22, 0x2a, 0x2f, 0x5c, 0x7b, 0x7d, 0x5b, 0x6e, 0x80, 0xbb, 0xbf, 0xc0, 0xef, 0xfe, 0xff]
    shorts = [b""] + [bytes([x]) for x in special] + [bytes([x, y]) for x in special for y in special]
    bom = [0xef, 0xbb, 0xbf, 0xfe, 0xff, 0x00, 0x7b]
    shorts += [bytes([x, y, z]) for x in bom for y in bom for z in bom]
    if tier == "quick":
        rng.shuffle(shorts)
        must = [b"", b"\xef", b"\xef\xbb", b"\xef\xbb\xbf", b"\xff\xfe", b"\xfe\xff", b"\xef\xbb\xbf{", b"{", b"{}", b"/*", b"//", b'"']
        shorts = must + shorts[:260]
    for d in shorts:
        cases.append(case_of(d, "short-bytes"))
    good = seeds[0]
    for pre in (b"\xef\xbb\xbf", b"\xef\xbb", b"\xef", b"\xff\xfe", b"\xfe\xff", b"\x00", b"\xef\xbb\xbf\xef\xbb\xbf"):
        cases.append(case_of(pre + good, "mark-prefix"))
    step = max(1, len(good) // (40 if tier == "quick" else 400))
    for k in range(0, len(good), step):
        cases.append(case_of(good[:k], "truncated-document"))
    return cases


def gen_strip_sweep(tier):
    """every text over {/ * newline a "} up to length L (exhaustive)."""
    L = 6 if tier == "quick" else 8
    alpha = [b"/", b"*", b"\n", b"a"]
    out = []
    for n in range(L + 1):
        for tup in itertools.product(alpha, repeat=n):
            out.append(b"".join(tup))
    return out


# ------------------------------------------------------------------------------------------------
# monitor: the property on the implementation's observation

def fold_name(k):
    return "".join(ch.upper() if "a" <= ch <= "z" else "S" if ch == "ſ" else "K" if ch == "K" else ch for ch in k)


def mentions(tree, name):
    """a non-null member of that name (Go's matching) in a top-level object"""
    if not tree or tree[0] != "o":
        return []
    return [v for k, v in tree[1] if fold_name(k) == fold_name(name) and v[0] != "z"]


def result_key(o):
    if "panic" in o:
        return ("panic",)
    if o.get("conf") is not None:
        return ("ok", json.dumps(o["conf"], sort_keys=True))
    e = o.get("err") or {}
    return ("err", e.get("kind"), e.get("site", ""))


def monitor(c, o, by_id):
    if "panic" in o:
        return ("panic", "LoadConfigFile panicked: " + str(o["panic"])[:200])
    conf = o.get("conf")
    if c.get("sample_upf") and conf is None:
        return ("sample-rejected", f"shipped sample {c.get('path')} does not load: {(o.get('err') or {}).get('msg')}")
    if conf is not None:
        orc = o["oracle"]
        tree = o.get("tree")
        # documented defaults
        if conf["resp_timeout"] == "":
            return ("default-resp-timeout", "returned configuration has an empty response timeout")
        if conf["read_timeout"] == 0:
            return ("default-read-timeout", "returned configuration has read timeout 0")
        if conf["max_req_retries"] == 0:
            return ("default-max-retries", "returned configuration has 0 retries")
        if conf["enable_hb"] and conf["hb_interval"] == "":
            return ("default-hb-interval", "heartbeats enabled but the interval is empty")
        if tree is not None:
            if not mentions(tree, "resp_timeout") and conf["resp_timeout"] != "2s":
                return ("default-resp-timeout", f"resp_timeout absent but {conf['resp_timeout']!r} instead of 2s")
            if not mentions(tree, "read_timeout") and conf["read_timeout"] != 15:
                return ("default-read-timeout", f"read_timeout absent but {conf['read_timeout']} instead of 15")
            if not mentions(tree, "max_req_retries") and conf["max_req_retries"] != 5:
                return ("default-max-retries", f"max_req_retries absent but {conf['max_req_retries']} instead of 5")
            if conf["enable_hb"] and not mentions(tree, "heart_beat_interval") and conf["hb_interval"] != "5s":
                return ("default-hb-interval", f"heart_beat_interval absent, heartbeats on, but {conf['hb_interval']!r} instead of 5s")
            if not mentions(tree, "log_level") and conf["log_level"] != 0:
                return ("default-log-level", f"log_level absent but level {conf['log_level']} instead of info")
            tc_set = any(mentions(p, "default_tc") for p in mentions(tree, "p4rtciface"))
            if not tc_set and conf["default_tc"] != 3:
                return ("default-tc", f"default_tc absent but {conf['default_tc']} instead of 3")
            # an explicit zero / empty value is "missing" too
            for name, field, dflt in (("read_timeout", "read_timeout", 15), ("max_req_retries", "max_req_retries", 5)):
                vs = mentions(tree, name)
                if vs and all(v == ("n", "0") or v == ["n", "0"] for v in vs) and conf[field] != dflt:
                    return (f"default-{name.replace('_', '-')}", f"{name} given as 0 but {conf[field]} instead of {dflt}")
        # every duration parses
        if not orc[conf["resp_timeout"]]["dur"]:
            return ("duration-unparsable:resp_timeout", f"resp_timeout {conf['resp_timeout']!r} does not parse")
        if conf["enable_hb"] and not orc[conf["hb_interval"]]["dur"]:
            return ("duration-unparsable:heart_beat_interval", f"heart_beat_interval {conf['hb_interval']!r} does not parse")
        # mode
        if conf["enable_p4rt"]:
            if conf["mode"] != "":
                return ("mode-set-for-p4", f"P4 configuration returned with mode {conf['mode']!r}")
        elif conf["mode"] not in MODES:
            return ("mode-unsupported", f"BESS configuration returned with mode {conf['mode']!r}")
        # addresses, per consumer
        if conf["enable_p4rt"]:
            if not orc[conf["access_ip"]]["cidr"]:
                return ("access-ip-unparsable", f"P4 access address {conf['access_ip']!r} does not parse")
            if not orc[conf["ue_ip_pool"]]["cidr"]:
                return ("ue-pool-unparsable", f"P4 UE pool {conf['ue_ip_pool']!r} does not parse")
        if conf["enable_ue_ip_alloc"] and not orc[conf["ue_ip_pool"]]["cidr"]:
            return ("ue-pool-unparsable", f"UE IP allocation on but pool {conf['ue_ip_pool']!r} does not parse")
        for p in conf["peers"]:
            if not orc[p]["ip"]:
                return ("peer-unparsable", f"peer {p!r} does not parse")
    # comments between tokens are ignored
    if c.get("same_as"):
        b = by_id[c["same_as"]]
        if result_key(o) != result_key(b):
            return ("comment-changes-result", f"a {c['cls']} at gap {c.get('gap')} of {c.get('base')} changed the result: "
                                              f"{result_key(b)} -> {result_key(o)}")
    return None


# ------------------------------------------------------------------------------------------------
# JSON -> Gallina

def pk(b):
    if isinstance(b, str):
        b = b.encode("utf-8", "surrogatepass")
    words = [len(b)] + [int.from_bytes(b[i:i + 7], "little") for i in range(0, len(b), 7)]
    return "(pk [" + ";".join(map(str, words)) + "])"


_INT = re.compile(r"-?(0|[1-9][0-9]*)$")


def gjson(t):
    k = t[0]
    if k == "z":
        return "JNull"
    if k == "b":
        return f"(JBool {gbool(t[1])})"
    if k == "n":
        lit = t[1]
        if _INT.match(lit):
            neg = lit.startswith("-")
            return f"(JNum (NInt {gbool(neg)} {lit.lstrip('-')}%N))"
        return "(JNum NFrac)"
    if k == "s":
        return f"(JStr {pk(t[1])})"
    if k == "a":
        return "(JArr [" + "; ".join(gjson(x) for x in t[1]) + "])"
    if k == "o":
        return "(JObj [" + "; ".join(f"({pk(p[0])}, {gjson(p[1])})" for p in t[1]) + "])"
    raise ValueError(t)


SITES = {"conf.P4rtcIface.AccessIP": 1, "conf.UEIPPool": 2, "conf.Mode": 3, "conf.CPIface.Peers": 4,
         "conf.RespTimeout": 5, "conf.ReadTimeout": 6, "conf.MaxReqRetries": 7}


def gobs(o):
    if o.get("conf") is not None:
        c = o["conf"]
        return ("(OOk (ObsConf {} {} {} {}%N {} {} {} {}%N ({})%Z {}%N {} {} {}))".format(
            pk(c["mode"]), gbool(c["enable_p4rt"]), pk(c["access_ip"]), c["default_tc"],
            glist([pk(p) for p in c["peers"]]), gbool(c["enable_ue_ip_alloc"]), pk(c["ue_ip_pool"]), c["read_timeout"],
            c["log_level"], c["max_req_retries"], pk(c["resp_timeout"]), gbool(c["enable_hb"]), pk(c["hb_interval"])))
    e = o.get("err") or {}
    kind = e.get("kind")
    if kind == "syntax":
        return "OSyntax"
    if kind in ("type", "text"):
        return "ODecode"
    if kind == "valid" and e.get("site") in SITES:
        return f"(OInvalid {SITES[e['site']]}%N)"
    if kind == "hb":
        return "(OInvalid 8%N)"
    return "OOther"


def to_coq(doc, o):
    stripped = base64.b64decode(o["stripped"])
    sopt = "None" if stripped == doc else f"(Some {pk(stripped)})"
    tree = o.get("tree")
    topt = "None" if tree is None else f"(Some {gjson(tree)})"
    graph = glist(["({}, ({}, {}, {}, {}))".format(pk(s), gbool(v["dur"]), gbool(v["cidr"]), gbool(v["ip"]),
                                                   "None" if v["level"] is None else f"(Some ({v['level']})%Z)")
                   for s, v in sorted(o["oracle"].items())])
    return f"Case {pk(doc)} {sopt} {topt} {graph} {gobs(o)}"


# ------------------------------------------------------------------------------------------------

def run(tier, seed, replay=None):
    ck = Check("C18", tier, seed)
    ck.trusted = COMMON_TRUSTED + [
        "harness/go/verif_c18_test.go (calls LoadConfigFile on a temp file and removeComments; classifies the error; "
        "re-parses the returned strings with time.ParseDuration / net.ParseCIDR / net.ParseIP / zapcore.Level.UnmarshalText)",
        "encoding/json: JSON syntax and string decoding are Go's (the harness hands the model the value tree read with "
        "json.Decoder.Token on the stripped text); the model covers typing, defaults and validation",
        "time.ParseDuration, net.ParseCIDR, net.ParseIP, zapcore.Level.UnmarshalText are Section variables of the model "
        "(theorems hold for every behaviour); their graph on the strings of each case comes from the harness",
        "tools/gen_samples_c18.py (bytes of the shipped *.jsonc files -> coq/Gen/Samples_gen.v, every run)",
        "Go regexp semantics (leftmost-first, (?m), lazy star) as restated in Model/Jsonc.v; validated against "
        "removeComments on every case and on all texts over {/,*,newline,a} up to length 6 (8 thorough)",
    ]
    ck.assumptions = [
        "'addresses parse' is read per consumer: access address and UE pool when enable_p4rt, UE pool when "
        "enable_ue_ip_alloc, peers always (DESIGN.md C18)",
        "heart_beat_interval must parse only when heartbeats are enabled",
        "a comment marker inside a string value, a multi-line block comment or an unclosed opener are outside the "
        "'comments are ignored' claim (C18_comments_marker_refuted shows why); only crash-freedom and validity are asserted",
    ]
    ck.rule = ("documents generated from the configuration schema (every member of Conf and of its nested structs x "
               "{valid, boundary, invalid, absent, null, wrong kind} on 5 base documents; member-name case variants, folding "
               "runes, duplicate members, peers slice re-use; non-object documents; random combinations of all members), a // and a "
               "/* */ comment at EVERY inter-token gap of 8 (10 thorough) base documents plus comments in all gaps at once, strings with "
               "comment markers, multi-line/unclosed block comments, random and mutated byte strings, all shipped *.jsonc samples; "
               "non-trivial = the stripped text is valid JSON (decode and validation are reached); distinct = distinct document bytes")
    # T1: samples
    try:
        samples, _ = gen_samples_c18.generate(REPO)
        ck.tie("T1 samples: coq/Gen/Samples_gen.v regenerated from the repository's *.jsonc files", True,
               ", ".join(s[0] for s in samples))
    except Exception as e:  # noqa: BLE001
        samples = []
        ck.tie("T1 samples: coq/Gen/Samples_gen.v regenerated from the repository's *.jsonc files", False, str(e)[-500:])
    ck.prove(TARGETS)

    rng = rng_for(seed, "C18")
    if replay is not None:
        cases = [json.load(open(replay))["case"]["input"]]
        base = cases[0].get("base_input")
        if base:
            cases.insert(0, base)
        sweep = []
    else:
        cases = gen_schema_cases(rng, tier) + gen_comment_cases(rng, tier) + gen_marker_cases(rng, tier) + gen_random_cases(rng, tier)
        for rel, is_upf in samples:
            cases.append({"path": os.path.join(REPO, rel), "cls": "sample", "sample_upf": is_upf, "rel": rel})
        sweep = gen_strip_sweep(tier)
    try:
        binary = build_harness()
        inputs = [({"path": c["path"]} if "path" in c else {"doc": c["doc"]}) for c in cases]
        obs = run_harness(binary, "c18", inputs)
        sobs = run_harness(binary, "c18s", [{"docs": [base64.b64encode(d).decode() for d in sweep]}], tag="c18s")[0]["stripped"] if sweep else []
    except HarnessError as e:
        ck.tie("harness builds and runs against the current tree", False, str(e)[-1500:])
        return ck.finish()
    herr = [o for o in obs if "harness_error" in o]
    ck.tie("harness builds and runs against the current tree", not herr, str(herr[:1]))
    if herr:
        return ck.finish()

    by_id = {c["id"]: o for c, o in zip(cases, obs) if c.get("id")}
    id_case = {c["id"]: c for c in cases if c.get("id")}
    dist = {}
    docs = []
    for c, o in zip(cases, obs):
        doc = base64.b64decode(o["doc"]) if "path" in c else base64.b64decode(c["doc"])
        docs.append(doc)
        nt = o.get("tree") is not None
        ck.count(hashlib.sha1(doc).hexdigest(), nt)
        rk = result_key(o)
        outcome = rk[0] if rk[0] != "err" else f"err:{rk[1]}" + (f":{rk[2]}" if rk[2] else "")
        k = f"{c['cls']} -> {outcome}"
        dist[k] = dist.get(k, 0) + 1
        m = monitor(c, o, by_id)
        if m:
            inp = dict(c)
            if c.get("same_as"):
                inp["base_input"] = {k2: v for k2, v in id_case[c["same_as"]].items()}
            slim = {k2: v for k2, v in o.items() if k2 not in ("oracle", "tree", "doc")}
            ck.fail(m[0], m[1], {"input": inp, "document": doc.decode("utf-8", "replace"), "impl": slim})
    ck.distribution = dict(sorted(dist.items()))
    ck.samples = [{"input": {k: v for k, v in c.items() if k != "doc"}, "document": d.decode("utf-8", "replace")[:400],
                   "impl": {k: v for k, v in o.items() if k in ("conf", "err")}} for c, d, o in list(zip(cases, docs, obs))[:3]]

    # shipped samples: stripped text must be JSON, UPF samples must load (also monitored above)
    samp = [(c, o) for c, o in zip(cases, obs) if c.get("cls") == "sample"]
    if replay is None:
        bad = [c["rel"] for c, o in samp if o.get("tree") is None or (c["sample_upf"] and o.get("conf") is None)]
        ck.tie("C18_samples: every shipped *.jsonc is JSON after stripping and every UPF sample loads in the implementation",
               bool(samp) and not bad, ", ".join(bad) if bad else f"{len(samp)} samples")

    # model vs implementation
    name = "correspondence: Coq strip = removeComments and Coq load = LoadConfigFile (result, error class, validation site)"
    try:
        kept = [(c, d, o) for c, d, o in zip(cases, docs, obs) if "panic" not in o]
        terms = [to_coq(d, o) for c, d, o in kept]
        idx = coq_eval_shards("C18", HEADER, terms, shard=260)
        if idx:
            sub = [terms[i] for i in idx]
            sidx = set(coq_eval_shards("C18d", HEADER, sub, shard=260, expr="strip_mismatches cases"))
            pidx = set(coq_eval_shards("C18d", HEADER, sub, shard=260, expr="spec_failures cases"))
            for j, i in enumerate(idx[:20]):
                c, d, o = kept[i]
                what = "comment stripper" if j in sidx else "load"
                if j in pidx:
                    ck.fail("spec_ok-false", "the Coq statement of C18_validated is false of the returned configuration",
                            {"input": dict(c), "document": d.decode("utf-8", "replace"), "impl": {k: v for k, v in o.items() if k in ("conf", "err")}})
                ck.mismatch(f"model and implementation disagree ({what}) on a {c['cls']} document",
                            {"input": {k: v for k, v in c.items()}, "document": d.decode("utf-8", "replace"),
                             "impl": {k: v for k, v in o.items() if k in ("conf", "err", "stripped")}})
        ck.tie(name, not idx, f"{len(idx)} mismatching cases" if idx else f"{len(terms)} cases")
    except RuntimeError as e:
        ck.tie(name, False, str(e)[-800:])
    if sweep:
        name2 = f"correspondence: Coq strip = removeComments on all {len(sweep)} texts over {{/,*,newline,a}} up to length {6 if tier == 'quick' else 8}"
        try:
            pairs = [f"({pk(d)}, {pk(base64.b64decode(s))})" for d, s in zip(sweep, sobs)]
            idx2 = coq_eval_shards("C18s", HEADER, pairs, shard=max(400, len(pairs) // 13 + 1), expr="pair_mismatches cases",
                                   case_type="(string * string)")
            for i in idx2[:5]:
                ck.mismatch(f"Coq strip and removeComments differ on {sweep[i]!r}",
                            {"text": sweep[i].decode(), "impl_stripped": base64.b64decode(sobs[i]).decode("utf-8", "replace")})
            ck.tie(name2, not idx2, f"{len(idx2)} mismatches" if idx2 else "")
            ck.evaluations += len(sweep)
        except RuntimeError as e:
            ck.tie(name2, False, str(e)[-800:])
    return ck.finish()
