"""C05 - ending a session reclaims everything it ever acquired.

Two legs.  BESS: the common L1 driver (tools/props/l1props.py, monitor l1.mon_c05, correspondence with Model/Agent.v).
UP4: attach / modify / detach cycles on the real UP4 plug-in (tools/props/c05up4.py, harness mode "c14"): after every event
the plug-in's pools (counter cells, application / session meter cells, tunnel-peer ids, application ids), its maps, the switch
tables and configured meter cells, the F-TEID generator, the IP pool and the sessions gauge are compared with the live
sessions and - when no session is live - with the snapshot taken before the first session."""
from props.l1props import *
from props import c14up4 as U
from props import c05up4 as C

UP4_TRUSTED = [
    "harness/go/verif_c14_test.go: the real HandlePFCPMsg / Shutdown on PFCPConn struct literals with the REAL UP4 plug-in; reads the plug-in's pools and "
    "maps, the session store, IP pool, F-TEID generator and gauge directly; harness/go/verif_p4rt_test.go: the fake P4Runtime server (tables, meter cells, "
    "fault injection on the k-th Write)",
    "tools/props/c05up4.py / c14up4.py + tools/props/c04.py (Gen04): UP4 envelope of the generated histories; attribution of switch entries to sessions by TEID / UE address",
]
UP4_RULE = ("; UP4 leg: the finding scenarios; 6 establish / re-marking Update QER / end cycles; random histories of 8-12 attach/modify/detach cycles (up to 3 sessions "
            "at a time, 2 associations) on arrays of 10 counter cells / 6 meter cells and 3-4 tunnel-peer and application ids: every ending (deletion, association "
            "release, teardown, report response 'context not found'), modifications (new TEID with / without end marker, uplink FAR, Update QER incl. one that makes "
            "MarkSessionQer pick another QER, Update PDR, CP F-SEID, unknown FAR, a modification whose k-th Write fails), establishments rejected after resources "
            "were taken and without association; distinct = distinct event byte sequences + faults + configuration")


def up4_leg(ck, tier, seed, replay_case=None):
    rng = rng_for(seed, "C05-up4")
    try:
        binary = build_harness()
        if replay_case is not None:
            cases = [replay_case]
        else:
            cases = C.corpus() + [C.remark_cycles()]
            for _ in range(70 if tier == "quick" else 1500):
                cases.append(C.cycles(random.Random(rng.getrandbits(64))))
        outs = U.run_up4(binary, [c["input"] for c in cases], tag="c05u")
    except HarnessError as e:
        ck.tie("UP4 leg: harness builds and runs against the current tree", False, str(e)[-1500:])
        return
    ck.tie("UP4 leg: harness builds and runs against the current tree", True)
    dist = ck.distribution if isinstance(ck.distribution, dict) else {}
    n_end = nconfirm = 0
    for c, o in zip(cases, outs):
        ck.count(["up4", c["input"]["cfg"], c["input"]["up4"]] + [e.get("hex", e["k"]) + str(e.get("faults", "")) for e in c["input"]["events"]], True)
        for it in c["intents"]:
            if it.get("ends") or it.get("op") in ("mod", "est"):
                k = f"up4:{it.get('op')}/{it.get('kind', '') or ''}/{it.get('expect', '') or ''}" + ("/ends" if it.get("ends") else "")
                dist[k] = dist.get(k, 0) + 1
                n_end += len(it.get("ends") or [])
        seen = set()
        for sig, msg, i in C.mon_c05_up4(c, o):
            s = f"{c['tag']}:{sig}" if c.get("tag") else sig
            if s in seen:
                continue
            seen.add(s)
            if replay_case is None and not c.get("tag") and nconfirm < 10:
                nconfirm += 1
                if not U.confirmed(binary, c, sig, C.mon_c05_up4):
                    ck.notes["unconfirmed_failures"] = ck.notes.get("unconfirmed_failures", 0) + 1
                    continue
            ob = o.get("obs", [])
            ck.fail(s, f"UP4 {c['name']}: {msg}", {"leg": "up4", "tag": c.get("tag"), "name": c["name"], "input": c["input"], "intents": c["intents"], "event": i,
                                                   "impl_event": {k: v for k, v in (ob[i] if i < len(ob) else {}).items() if k not in ("tables",)}})
    ck.distribution = dist
    ck.notes["up4_leg"] = {"histories": len(cases), "sessions_ended": n_end}


def run(tier, seed, replay=None):
    rp = json.load(open(replay))["case"] if replay else None
    rule = ("random histories over 2 associations x up to 4 sessions (setup, establishment incl. without association, the "
            "modification kinds of tools/l1.py, deletion, unknown-SEID requests, heartbeat, report response, release, teardown, restart), "
            "sequence numbers incl. 0 / 2^24-1, CP SEIDs incl. 0 / 2^64-1; distinct = distinct event byte sequences" + UP4_RULE)
    if rp is not None and rp.get("leg") == "up4":
        ck = Check("C05", tier, seed)
        ck.trusted = L1_TRUSTED + UP4_TRUSTED
        ck.rule = rule
        ck.prove(["Props/C05.vo", "Run/Eval_L1.vo"])
        up4_leg(ck, tier, seed, replay_case=rp)
        return ck.finish()
    ck, _ = run_prop("C05", tier, seed, replay, 500, 6000, rule=rule, fixed=l1.pool_scenarios)
    if isinstance(ck, int):
        return ck
    ck.trusted = L1_TRUSTED + UP4_TRUSTED
    ck.assumptions = list(ck.assumptions) + [
        "UP4 leg: a session is live while the agent's session store holds it; an id is held for a session through a stored PDR (counter cell), a meters-map "
        "row, a tunnel-peer / application user reference; switch entries are attributed by TEID (sessions_uplink) and UE address (other session tables)",
        "UP4 leg envelope (the shapes outside it that leak on the unchanged tree are the tagged finding scenarios): one PDR pair per session, FAR updates stay "
        "on the session's gNB, no Create PDR in a modification, establishments whose Write fails only in the finding scenario"]
    if not replay:
        up4_leg(ck, tier, seed)
    return ck.finish()
