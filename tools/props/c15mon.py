"""C15 monitor: the property evaluated directly on what the implementation did (independent of the Coq model).

Identifier kinds (the five pools of up4.go):
    ctr       counter cells          counters[preQosCounterID].counterIDsPool  (golang-set)
    appcell   application meter cells appMeterCellIDsPool                      (golang-set)
    sesscell  session meter cells    sessMeterCellIDsPool                      (golang-set)
    peer      tunnel peer ids        tunnelPeerIDsPool                         (FIFO slice)
    appid     application ids        applicationIDsPool                        (FIFO slice)

Owners.  bookkeeping owners: a stored PDR of a live session owns its ctrID; a meters-map entry <F-SEID, QER> owns
its cell(s) (one cell when uplink = downlink); a tunnelPeerIDs entry (tunnel parameters) owns its id; an
applicationIDs entry (filter) owns its id.  installed owners: a table entry at the switch that belongs to a live
session (found through its match key: TEID for sessions_uplink, UE address for sessions_downlink / terminations)
uses the ids it names (ctr_idx, app_meter_idx, session_meter_idx, tunnel_peer_id, app_id).
A session is live while the agent's session store holds it.

Clauses checked after EVERY step (sentence of the property in brackets):
 (a) [never held by two live owners] no cell / id occurs twice among the bookkeeping owners of its kind (ctr: among the
     PDRs of live sessions); two table entries of live sessions never share a ctr_idx; two different live sessions
     never share an app_meter_idx or session_meter_idx.
 (b) [never handed out while a live session still uses them] pool(kind) is disjoint from the ids owned (bookkeeping)
     by live sessions and from the ids named by installed entries of live sessions; a Pop never yields such an id.
 (c) [never migrate from one pool into another] provenance, judged on the ordered Pop/Add trace of the three sets
     and the before/after contents of the two queues: an id put into pool K during a step must either have been
     taken from pool K earlier in the same step (roll-back of the step's own allocation), or be owned under kind K
     at the start of the step by the session the step ends (deletion); it must not already be in K (double release);
     and every pool stays inside its initial contents.  Conservation (no leak) is NOT demanded - that is C05.
 (d) [a failed write is answered with a rejection] an establishment / modification during which a Write RPC failed
     (gRPC error, or a p4.Error list with a code other than OK / ALREADY_EXISTS; an answer made only of OK and
     ALREADY_EXISTS is the tolerated 'entry is already there') must be answered, and with a cause other than accepted.
"""

KINDS = ["ctr", "appcell", "sesscell", "peer", "appid"]
SET_POOLS = ["ctr", "appcell", "sesscell"]
FIFO_POOLS = ["peer", "appid"]
ACCEPTED = 1
MT_APP, MT_SESS = 1, 2


def classify_write(w):
    """-> (site, result); result in ok | fail | exists | unk"""
    ups = w["ups"]
    if not ups:
        site = "empty"
    elif all(u["k"] == "counter" for u in ups):
        site = "ctr_reset"
    elif all(u["k"] == "meter" for u in ups):
        if any(u.get("cfg") for u in ups):
            site = "meter_app" if ups[0]["n"] == "app_meter" else "meter_sess"
        else:
            site = "meter_reset"
    elif all(u["k"] == "table" for u in ups):
        ty = ups[0]["ty"]
        if all(u["n"] == "tunnel_peers" for u in ups):
            site = "peer_del" if ty == "DELETE" else "peer"
        else:
            site = "pdr:" + ty
    else:
        site = "other"
    if w["code"] == 0 and not w["faulted"]:
        res = "ok"
    elif w["code"] == 2:
        sts = [u["st"] for u in ups]
        if w["faulted"] and all(s == 0 for s in sts):
            res = "unk"                       # UNKNOWN without p4.Error details
        elif all(s in (0, 6) for s in sts):
            res = "exists"
        else:
            res = "fail"
    else:
        res = "fail"
    return site, res


def meter_cells(m):
    """cells owned by a meters-map row [fseid, qer, type, ul, dl]"""
    c = []
    if m[3] != 0:
        c.append(m[3])
    if m[4] != 0 and m[4] != m[3]:
        c.append(m[4])
    return c


def live_sessions(st):
    return {s["lseid"]: s for s in st["store"]}


def held_all(st):
    """bookkeeping owners: kind -> list of (id, owner description, set of F-SEIDs that use it)"""
    out = {k: [] for k in KINDS}
    for s in st["store"]:
        for p in s["rules"]["pdrs"]:
            out["ctr"].append((p["ctr"], f"PDR {p['id']} of session {s['lseid']}", {s["lseid"]}))
    for m in st["meters"]:
        k = "appcell" if m[2] == MT_APP else "sesscell"
        for c in meter_cells(m):
            out[k].append((c, f"meter <{m[0]},{m[1]}>", {m[0]}))
    for p in st["peers"]:
        out["peer"].append((p["id"], f"tunnel peer dst={p['dst']} port={p['port']}", {u[0] for u in p["users"]}))
    for a in st["apps"]:
        out["appid"].append((a["id"], f"application {a['ip']}:{a['lo']}-{a['hi']}/{a['proto']}", {u[0] for u in a["users"]}))
    return out


def installed(st, tables):
    """ids named by the entries of live sessions: kind -> list of (id, lseid, entry description)"""
    by_ue, by_teid = {}, {}
    for s in st["store"]:
        for p in s["rules"]["pdrs"]:
            if p["iface"] == 1 and p["teid"] != 0:      # access
                by_teid[p["teid"]] = s["lseid"]
            if p["ue"] != 0:
                by_ue[p["ue"]] = s["lseid"]
    out = {k: [] for k in KINDS}
    for e in tables:
        t, m, p = e["t"], e["m"], e["p"]
        owner = None
        if t == "sessions_uplink":
            owner = by_teid.get(int(m.get("teid", "0")))
        elif t in ("sessions_downlink", "terminations_uplink", "terminations_downlink"):
            owner = by_ue.get(int(m.get("ue_address", "0")))
        if owner is None:
            continue
        d = f"{t}{sorted(m.items())}"
        if "ctr_idx" in p:
            out["ctr"].append((int(p["ctr_idx"]), owner, d))
        if int(p.get("app_meter_idx", "0")) != 0:
            out["appcell"].append((int(p["app_meter_idx"]), owner, d))
        if int(p.get("session_meter_idx", "0")) != 0:
            out["sesscell"].append((int(p["session_meter_idx"]), owner, d))
        if int(p.get("tunnel_peer_id", "0")) != 0:
            out["peer"].append((int(p["tunnel_peer_id"]), owner, d))
        if t.startswith("terminations") and int(m.get("app_id", "0")) != 0:
            out["appid"].append((int(m["app_id"]), owner, d))
    return out


def fifo_diff(before, after):
    """queue before/after one step -> (taken from the head, appended at the tail) or None if not explainable"""
    for n in range(len(before) + 1):
        rest = before[n:]
        if after[:len(rest)] == rest:
            return before[:n], after[len(rest):]
    return None


class Monitor:
    def __init__(self, case, obs):
        self.case = case
        self.obs = obs
        self.out = []                 # (signature, message, step index)
        self.failed_delete = set()    # sessions whose deletion was rejected at some point
        self.ctr_lost = set()         # (lseid, pdr id) created by a modification: stored with ctrID 0, never allocated
        self.poisoned = {}            # (kind, id) -> session whose REJECTED deletion put the id back into its pool
        self.rewritten = {}           # (table, match key) -> ctr_idx written by the MODIFY batch of a PDR created by a modification
        self.cur_tables = []
        self.zero_released = set()    # counter cells put into the pool by the deletion of a session whose PDR carried them as the bogus ctrID

    def flag(self, i, sig, msg):
        self.out.append((sig, f"step {i} ({self.case['steps'][i]['op']}/{self.case['steps'][i].get('kind', '')}): {msg}", i))

    # which recorded finding (if any) explains that `ident` of `kind` is free / shared although a session uses it:
    #  - an application id put back - or whose reference by the session was dropped, so that the deletion of another
    #    user of the filter puts it back - by a deletion that was then REJECTED, while that session is still live (F24), or
    #  - the ctrID 0 of a PDR created by a modification (sendUpdate allocates no counter), while that PDR is live,
    #    or cell 0 after the deletion of such a session released it, or
    #  - cell 0 named by a terminations entry that the MODIFY batch of a PDR created by a modification rewrote: the batch
    #    is rejected as a whole (NOT_FOUND on the new PDR's sessions entry) but P4Runtime applies its other updates, and
    #    the new PDR's terminations key equals that of an existing PDR when UP4 fell back to application id 0 because
    #    its application-id pool was exhausted (the allocation error is dropped)
    def why(self, kind, ident, st, owner=None):
        live = {s["lseid"] for s in st["store"]}
        if kind in ("appcell", "sesscell") and owner is not None:
            # the entry of session `owner` names, as cell of THIS meter array, the number of a cell the session holds in the OTHER array:
            # after a modification re-ran MarkSessionQer the PDR's QER list is re-ordered, so the MODIFY batch writes the flow QER's
            # (application) cell as session_meter_idx and the session QER's cell as app_meter_idx
            other = MT_SESS if kind == "appcell" else MT_APP
            if any(m[0] == owner and m[2] == other and ident in meter_cells(m) for m in st["meters"]):
                return "entry-names-cell-of-other-array-after-requalification"
        if kind == "ctr":
            for s in st["store"]:
                for p in s["rules"]["pdrs"]:
                    if p["ctr"] == ident and (s["lseid"], p["id"]) in self.ctr_lost:
                        return "pdr-created-by-modification-has-no-ctr"
            if ident in self.zero_released:
                return "pdr-created-by-modification-has-no-ctr"
            for tabs in (self.cur_tables, self.prev_tables):
                for e in tabs:
                    if int(e["p"].get("ctr_idx", "-1")) == ident and self.rewritten.get((e["t"], tuple(sorted(e["m"].items())))) == ident:
                        return "entry-rewritten-by-pdr-created-in-modification"
        if self.poisoned.get((kind, ident)) in live:
            return "released-before-failed-delete"
        return None

    def run(self):
        init = self.obs["init"]
        prev = init
        self.prev_tables = self.obs.get("init_tables", [])
        for i, (step, so) in enumerate(zip(self.case["steps"], self.obs.get("steps", []))):
            if "panic" in so:
                self.flag(i, "panic", "panic: " + so["panic"])
                break
            st = so["state"]
            self.step(i, step, so, prev, st, init)
            prev = st
        if len(self.obs.get("steps", [])) < len(self.case["steps"]) and not self.out:
            self.out.append(("history-cut", "harness stopped early", len(self.obs.get("steps", []))))
        return self.out

    def pool_events(self, i, so, prev, st):
        """ordered (kind, pop|add, id, changed) of the step: the recorded trace of the three sets, then the queue diffs"""
        events = []
        for e in so["pool_ev"]:
            if e["pool"] in SET_POOLS:
                events.append((e["pool"], e["op"], e["val"], e["changed"]))
            elif e["pool"] == "ctr_post":
                self.flag(i, "post-qos-counter-pool-used", f"{e['op']} on the post-QoS counter pool")
        for k in FIFO_POOLS:
            d = fifo_diff(prev["pools"][k], st["pools"][k])
            if d is None:
                self.flag(i, f"queue-rewritten/{k}", f"queue {k} went from {prev['pools'][k]} to {st['pools'][k]}")
                continue
            for v in d[0]:
                events.append((k, "pop", v, True))
            cur = list(prev["pools"][k][len(d[0]):])
            for v in d[1]:
                events.append((k, "add", v, v not in cur))
                cur.append(v)
        return events

    def step(self, i, step, so, prev, st, init):
        op = step["op"]
        live = live_sessions(st)
        cause = so["replies"][0].get("cause") if so["replies"] else None
        writes = [classify_write(w) for w in so["writes"]]
        events = self.pool_events(i, so, prev, st)

        # ---- history facts used to name the recorded shapes
        self.cur_tables = so["tables"]
        before_t = {(e["t"], tuple(sorted(e["m"].items()))): e for e in self.prev_tables}
        for key in list(self.rewritten):
            e = next((x for x in so["tables"] if (x["t"], tuple(sorted(x["m"].items()))) == key), None)
            if e is None or int(e["p"].get("ctr_idx", "-1")) != self.rewritten[key]:
                del self.rewritten[key]
        if op == "mod" and step.get("c_pdrs"):
            stored = {p["ctr"] for s_ in prev["store"] if s_["lseid"] == step["lseid"] for p in s_["rules"]["pdrs"]}
            for e in so["tables"]:
                key = (e["t"], tuple(sorted(e["m"].items())))
                if e["t"].startswith("terminations") and key in before_t and e["p"].get("ctr_idx") == "0" and \
                        before_t[key]["p"].get("ctr_idx") != "0" and int(before_t[key]["p"].get("ctr_idx", "-1")) in stored:
                    self.rewritten[key] = 0
        if op == "del" and cause != ACCEPTED and step["lseid"] in live_sessions(prev) and step["lseid"] in live:
            # removeInternalApplicationIDAndGetP4rtEntry drops the session's reference - and, if it was the last one,
            # releases the id - BEFORE the DELETE batch is written; the rejected deletion keeps session and entries
            for (k, o, v, changed) in events:
                if o == "add" and k == "appid":
                    self.poisoned[(k, v)] = step["lseid"]
            now = {(a["ip"], a["lo"], a["hi"], a["proto"]): {tuple(u) for u in a["users"]} for a in st["apps"]}
            for a in prev["apps"]:
                gone = {tuple(u) for u in a["users"]} - now.get((a["ip"], a["lo"], a["hi"], a["proto"]), set())
                if any(u[0] == step["lseid"] for u in gone):
                    self.poisoned[("appid", a["id"])] = step["lseid"]
        if op == "del":
            # the deletion of a session whose PDR carries the bogus ctrID 0 releases cell 0, whoever owns it
            for (k, o, v, changed) in events:
                if k == "ctr" and o == "add" and any(p["ctr"] == v and (s_["lseid"], p["id"]) in self.ctr_lost
                                                     for s_ in prev["store"] if s_["lseid"] == step["lseid"] for p in s_["rules"]["pdrs"]):
                    self.zero_released.add(v)
        self.zero_released = {v for v in self.zero_released if any(p["ctr"] == v for s_ in st["store"] for p in s_["rules"]["pdrs"])}
        if op == "mod":
            before = {p["id"]: p["ctr"] for s in prev["store"] if s["lseid"] == step["lseid"] for p in s["rules"]["pdrs"]}
            after = {p["id"]: p["ctr"] for s in st["store"] if s["lseid"] == step["lseid"] for p in s["rules"]["pdrs"]}
            popped = [v for (k, o, v, _) in events if k == "ctr" and o == "pop"]
            for pid, c in after.items():
                if pid not in before and c not in popped and pid in step.get("c_pdrs", []):
                    self.ctr_lost.add((step["lseid"], pid))      # a PDR created by a modification never gets a counter

        # ---- (d) failed write -> rejection
        if op in ("est", "mod"):
            bad = [(k, s, r) for k, (s, r) in enumerate(writes) if r in ("fail", "unk")]
            if bad and (cause is None or cause == ACCEPTED):
                k, s, r = bad[0]
                shape = "grpc-unknown-without-details" if r == "unk" else "error"
                self.flag(i, f"accepted-after-failed-write/{op}/{s.split(':')[0]}/{shape}",
                          f"Write #{k + 1} ({s}) failed ({r}) but the request was answered with cause {cause}")
            for c in so["calls"]:
                if c["cause"] != ACCEPTED and cause == ACCEPTED:
                    self.flag(i, f"accepted-after-datapath-reject/{op}", "SendMsgToUPF returned a rejection, the PFCP answer says accepted")

        held = held_all(st)
        inst = installed(st, so["tables"])
        pools = st["pools"]

        # ---- (a) exclusivity
        for k in KINDS:
            seen = {}
            for ident, owner, users in held[k]:
                if not users & set(live):
                    continue                      # an owner none of whose users is live is not a live owner
                if ident in seen:
                    tag = self.why(k, ident, st)
                    self.flag(i, f"two-owners/{k}" + (f"/{tag}" if tag else ""), f"{k} {ident} is held by {seen[ident]} and by {owner}")
                else:
                    seen[ident] = owner
        seen = {}
        for ident, owner, d in inst["ctr"]:
            if ident in seen and seen[ident][1] != d:
                tag = self.why("ctr", ident, st)
                self.flag(i, "two-entries-one-counter" + (f"/{tag}" if tag else ""),
                          f"counter cell {ident} is named by {seen[ident][1]} (session {seen[ident][0]}) and {d} (session {owner})")
            seen.setdefault(ident, (owner, d))
        for k in ("appcell", "sesscell"):
            seen = {}
            for ident, owner, d in inst[k]:
                if ident in seen and seen[ident] != owner:
                    tag = self.why(k, ident, st, owner) or self.why(k, ident, st, seen[ident])
                    self.flag(i, f"two-sessions-one-cell/{k}" + (f"/{tag}" if tag else ""), f"{k} {ident} is named by entries of sessions {seen[ident]} and {owner}")
                seen.setdefault(ident, owner)

        # ---- (b) free while in use
        for k in KINDS:
            pool = set(pools[k])
            for ident, owner, users in held[k]:
                if ident in pool and users & set(live):
                    tag = self.why(k, ident, st)
                    self.flag(i, f"free-while-held/{k}" + (f"/{tag}" if tag else ""),
                              f"{k} {ident} is in its pool while {owner} (live) holds it")
            for ident, owner, d in inst[k]:
                if ident in pool:
                    tag = self.why(k, ident, st, owner)
                    self.flag(i, f"free-while-installed/{k}" + (f"/{tag}" if tag else ""),
                              f"{k} {ident} is in its pool while entry {d} of live session {owner} names it")

        # ---- (c) provenance
        for k in KINDS:
            extra = set(pools[k]) - set(init["pools"][k])
            if extra:
                self.flag(i, f"pool-outside-initial-range/{k}", f"pool {k} contains {sorted(extra)} which it never contained initially")
            if len(set(pools[k])) != len(pools[k]):
                self.flag(i, f"duplicate-in-pool/{k}", f"pool {k} contains an id twice: {pools[k]}")
        if set(pools["ctr_post"]) != set(init["pools"]["ctr_post"]):
            self.flag(i, "post-qos-counter-pool-changed", "the post-QoS counter pool changed")
        # owners (at the start of the step) that this step may legitimately end: everything whose only user is the
        # session being deleted (a shared tunnel peer / application is released only by its last user)
        ending = {k: {} for k in KINDS}
        if op == "del":
            hp = held_all(prev)
            for k in KINDS:
                for ident, owner, users in hp[k]:
                    if users and users <= {step["lseid"]}:
                        ending[k][ident] = owner
        taken = []                    # outstanding allocations of this step, in order: (kind, id)
        prev_live = set(live_sessions(prev))
        prev_held_live = {k: {ident for ident, _, users in held_all(prev)[k] if users & prev_live} for k in KINDS}
        prev_inst = installed(prev, self.prev_tables)
        for (k, o, v, changed) in events:
            if o == "pop":
                if v < 0:
                    continue
                taken.append((k, v))
                if v in prev_held_live[k] or any(ident == v for ident, _, _ in prev_inst[k]):
                    tag = self.why(k, v, prev)
                    if tag is None and v not in prev_held_live[k]:
                        tag = next((t for t in (self.why(k, v, prev, o_) for ident, o_, _ in prev_inst[k] if ident == v) if t), None)
                    self.flag(i, f"handed-out-while-in-use/{k}" + (f"/{tag}" if tag else ""),
                              f"{k} {v} was handed out although a live session still used it")
            else:
                if (k, v) in taken:
                    taken.remove((k, v))
                    if not changed:
                        self.flag(i, f"double-release/{k}", f"{k} {v} rolled back into its pool although it was already there")
                    continue
                if v in ending[k]:
                    if not changed:
                        tag = self.why(k, v, prev)
                        self.flag(i, f"double-release/{k}" + (f"/{tag}" if tag else ""), f"{k} {v} ({ending[k][v]}) released although it was already free")
                    continue
                src = [k2 for (k2, v2) in taken if v2 == v and k2 != k]
                meterk = ["appcell", "sesscell"]
                order = ([k2 for k2 in meterk if k2 != k] if k in meterk else []) + [k2 for k2 in KINDS if k2 != k and not (k in meterk and k2 in meterk)]
                ended_as = [k2 for k2 in order if v in ending[k2]]
                if not src and ended_as:
                    # released by the deletion of its owner - into another pool than the one it was taken from
                    self.flag(i, f"migration/{ended_as[0]}->{k}", f"id {v} ({ending[ended_as[0]][v]}) held as {ended_as[0]} was put into pool {k}")
                elif src:
                    taken.remove((src[-1], v))
                    self.flag(i, f"migration/{src[-1]}->{k}", f"id {v} taken from pool {src[-1]} was put into pool {k}")
                else:
                    self.flag(i, f"foreign-release/{k}", f"{k} {v} was put into its pool by a step that neither took it nor ends its owner")
        self.prev_tables = so["tables"]
