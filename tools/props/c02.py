"""C02 - every request gets exactly one correctly addressed response."""
from props.l1props import *


def run(tier, seed, replay=None):
    ck, _ = run_prop("C02", tier, seed, replay, 500, 6000, fixed=lambda r: l1.pool_scenarios(r) + l1.variant_scenarios(r, 4), soak=["130-heartbeats", "1600-end-marker-updates/end_marker=False", "datapath-down-and-up"],
                     rule="random histories over 2 associations x up to 4 sessions (setup, establishment incl. without association, the "
                          "modification kinds of tools/l1.py, deletion, unknown-SEID requests, heartbeat, report response, release, teardown, restart), "
                          "sequence numbers incl. 0 / 2^24-1, CP SEIDs incl. 0 / 2^64-1; distinct = distinct event byte sequences; plus soak histories (130 heartbeats before and after association with and "
                          "without the heartbeat monitor, 1600 end-marker updates with end markers disabled): every request answered exactly once")
    return ck if isinstance(ck, int) else ck.finish()
