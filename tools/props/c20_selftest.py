#!/usr/bin/env python3
"""Self-test of the C20 check (not part of the check): applies mutations of conf/route_control.py in a
scratch worktree of /repo and reports what `tools/check.py C20 --tier quick` and the repo's own unit
tests (harness/py/c20_run_unittests.py) say.

    git -C /repo worktree add /tmp/rw-c20 HEAD
    python3 tools/props/c20_selftest.py /tmp/rw-c20 [mutation names...]
    git -C /repo worktree remove --force /tmp/rw-c20

M1..M17 and REVERT-1b62c73 (the reverse of the repair of F29a/F29b) break C20: every one must end in
`VIOLATION property=C20`; FIX-c-name is a repair proposed for F29c (the monitor must stop reporting that
finding; the model no longer matches the code, which is reported as a broken correspondence until
Model/RouteCtl.v follows the fix)."""
import subprocess, sys, os, json
VERIF = os.path.dirname(os.path.dirname(os.path.dirname(os.path.abspath(__file__))))
RW = sys.argv[1]; F = RW + "/conf/route_control.py"
ORIG = open(F).read()
MUTS={
 "M1-gate-counter-not-incremented": [("            self._module_gate_count_cache[route_module_name] += 1\n","            self._module_gate_count_cache[route_module_name] += 0\n")],
 "M2-pending-not-removed-after-install": [("            del self._unresolved_arp_queries_cache[next_hop_ip]\n","            pass\n")],
 "M3-delete-uses-constant-prefix-len": [('                        "prefix_len": int(route_entry.prefix_len),\n','                        "prefix_len": int(route_entry.prefix_len and 24),\n')],
 "M4-fetch_mac-ignores-address": [('        if neighbor["dst"] == target_ip:\n','        if neighbor["dst"]:\n')],
 "M5-interface-filter-dropped": [("        if interface not in self._interfaces:\n            return None\n","        if interface is None:\n            return None\n")],
 "M6-mac-value-truncated": [('                    {"fields": [{"offset": 0, "size": 6, "value": gateway_mac}]},\n','                    {"fields": [{"offset": 0, "size": 6, "value": gateway_mac & 0xFFFFFFFF00}]},\n')],
 "M7-second-link-dropped": [("                update_module_name, merge_module_name, 0, 0\n","                update_module_name, merge_module_name, 1, 0\n")],
 "M8-refcount-not-incremented-for-known-neighbour": [("        self._neighbor_cache[route_entry.next_hop_ip].route_count += 1\n","        self._neighbor_cache[route_entry.next_hop_ip].route_count = 1\n")],
 "M9-gate-of-cached-neighbour-off-by-one": [("            return cached_entry.gate_idx\n","            return cached_entry.gate_idx + (1 if cached_entry.route_count > 1 else 0)\n")],
 "M10-delete-on-wrong-interface-module": [('        route_module = route_entry.interface + "Routes"\n        for _ in range(self.MAX_RETRIES):\n            try:\n                self._bess.pause_all()\n                self._bess.run_module_command(\n                    route_module,\n                    "delete",','        route_module = "access" + "Routes"\n        for _ in range(self.MAX_RETRIES):\n            try:\n                self._bess.pause_all()\n                self._bess.run_module_command(\n                    route_module,\n                    "delete",')],
 "M11-pending-list-keeps-only-the-last-route": [("            pending.append(route_entry)\n","            pending[:] = [route_entry]\n")],
 "M12-module-delete-never-attempted": [("            if next_hop.route_count == 0:\n","            if next_hop.route_count < 0:\n")],
 "M13-link-arguments-swapped": [("                route_module_name, update_module_name, gate_idx, 0\n","                update_module_name, route_module_name, gate_idx, 0\n")],
 "M14-no-purge-on-delete-while-pending": [("            if route_entry in pending:\n                pending.remove(route_entry)\n","            if route_entry in pending and False:\n                pending.remove(route_entry)\n")],
 "M15-only-first-pending-route-installed": [("            for route_entry in route_entries:\n","            for route_entry in route_entries[:1]:\n")],
 "M16-purge-drops-all-waiting-routes": [("                pending.remove(route_entry)\n","                pending.clear()\n")],
 "M17-neighbour-message-without-lladdr-tolerated": [("        gateway_mac = attr_dict[KEY_LINK_LAYER_ADDRESS]\n","        gateway_mac = attr_dict.get(KEY_LINK_LAYER_ADDRESS)\n")],
 # the reverse of the repair 1b62c73 (F29a + F29b come back): must be a VIOLATION with a replay, not a known finding
 "REVERT-1b62c73": "git-revert",
 # a repair proposed for F29c (the monitor must stop reporting F29c; shared-MAC next hops then break)
 "FIX-c-name": [("            update_module_name = get_update_module_name(\n                route_entry.interface,\n                next_hop_mac,\n            )\n","            update_module_name = get_update_module_name(\n                route_module_name,\n                next_hop_mac,\n            )\n")],
}
which=sys.argv[2:] or list(MUTS)
for name in which:
    s=ORIG
    if MUTS[name] == "git-revert":
        open(F,"w").write(ORIG)
        d=subprocess.run(["git","-C",RW,"show","1b62c73","--","conf/route_control.py"],capture_output=True,text=True,check=True).stdout
        subprocess.run(["git","-C",RW,"apply","-R"],input=d,text=True,check=True)
        s=open(F).read()
    else:
        for a,b in MUTS[name]:
            assert s.count(a)==1,(name,s.count(a))
            s=s.replace(a,b)
    open(F,"w").write(s)
    env=dict(os.environ,VERIF_REPO=RW,VERIF_SEED="1")
    p=subprocess.run([sys.executable,"tools/check.py","C20","--tier","quick"],cwd=VERIF,env=env,capture_output=True,text=True)
    lines=[l for l in p.stdout.split("\n") if l.startswith("VIOLATION") or l.startswith("[C20]")]
    sigs=[]
    for l in lines:
        if "replay=" in l:
            f=l.split("replay=")[1].split()[0]
            d=json.load(open(f)); sigs.append(d.get("signature") or ("broken: "+str(d.get("no_longer_checks"))[:160]))
    u=subprocess.run([sys.executable,"harness/py/c20_run_unittests.py"],cwd=VERIF,env=env,capture_output=True,text=True)
    print(f"== {name}: exit={p.returncode} unit-tests={'pass' if u.returncode==0 else 'FAIL'}")
    for s_ in sigs: print("     ",s_)
    print("     ",lines[-1] if lines else p.stdout[-300:]+p.stderr[-300:])
open(F,"w").write(ORIG)
