"""C05 on the UP4 world: ending a session reclaims everything it ever acquired - P4 counter cells, application / session
meter cells, tunnel-peer ids, application ids, the plug-in's UE-address maps, the switch entries and configured meter
cells, and (as on BESS) UE address, TEIDs, session record, gauge.

Histories (tools/props/c14up4.py GenU, harness mode "c14"): attach / modify / detach cycles on the real agent + real UP4
plug-in with shrunk arrays and id queues (more cycles than the smallest pool has elements), every ending (Session
Deletion, Association Release, teardown = PFCPConn.Shutdown, Session Report Response 'context not found'), preceded by
accepted modifications (FAR updates with / without end marker, Update QER incl. one that makes MarkSessionQer pick another
session QER, Update PDR, new CP F-SEID, unknown FAR) and rejected ones (a Write of the modification fails), rejected
establishments (bad rule after resources were taken, no association).

Monitor, on what the real code holds after every event (independent of any model):
  ledger       everything the plug-in holds is held for a live session (meters map, tunnel-peer / application users, UE maps),
  conservation per pool: free ids + ids held by live sessions = the pool's content before the first session (as sets with
               multiplicity: nothing lost, nothing foreign, nothing twice),
  switch       every entry belongs to a live session (TEID / UE address / referenced peer or application id); configured meter
               cells belong to a live QER,
  restored     whenever no session is live: pools, maps, tables, IP pool, TEIDs, gauge are exactly the start-up snapshot,
  no exhaustion an establishment inside the envelope is never refused."""
import copy

from lib import *
import l1
import pfcp as P
from props import c14up4 as U
from props.c04 import GNBS, FILTERS

KINDS = ["ctr", "appcell", "sesscell", "peer", "appid"]
MT_APP, MT_SESS = 1, 2
TINY = {"PreQosPipe.pre_qos_counter": 10, "PostQosPipe.post_qos_counter": 10, "PreQosPipe.app_meter": 7, "PreQosPipe.session_meter": 7}


def meter_cells(m):
    c = []
    if m[3] != 0:
        c.append(m[3])
    if m[4] != 0 and m[4] != m[3]:
        c.append(m[4])
    return c


def held_by_live(o, live):
    """kind -> list of ids held for live sessions (with multiplicity)"""
    h = {k: [] for k in KINDS}
    for s in o["store"]:
        for p in s["pdrs"]:
            h["ctr"].append(p["ctr"])
    u = o["up4"]
    for m in u["meters"]:
        if m[0] in live:
            h["appcell" if m[2] == MT_APP else "sesscell"] += meter_cells(m)
    for p in u["peers"]:
        if any(x[0] in live for x in p["users"]):
            h["peer"].append(p["id"])
    for a in u["apps"]:
        if any(x[0] in live for x in a["users"]):
            h["appid"].append(a["id"])
    return h


def tables_key(tabs):
    return sorted(json.dumps(e, sort_keys=True) for e in tabs)


def short(l, n=12):
    l = list(l)
    return str(l[:n])[:-1] + (f", ... {len(l)} in all]" if len(l) > n else "]")


def mon_c05_up4(case, out):
    """-> list of (signature, message, event index); a fact (this meter row, this lost id, ...) is reported at the event at
    which it first holds"""
    res = []
    d = U.died(out)
    if d:
        return [d]
    boot = out["boot"]
    init = boot["up4"]["pools"]
    prev_facts, facts = set(), set()
    sigs = set()
    cur = {"op": None}

    def flag(i, sig, msg, fact=None):
        fact = (sig.replace(f"/{cur['op']}", ""), fact)
        facts.add(fact)
        if fact in prev_facts or sig in sigs:
            return
        sigs.add(sig)
        res.append((sig, msg, i))

    for k in KINDS:
        if len(set(init[k])) != len(init[k]):
            flag(0, f"up4:pool-duplicate-at-start/{k}", f"pool {k} holds an id twice at start-up: {short(init[k])}")
    for i, (it, o) in enumerate(zip(case["intents"], out["obs"])):
        prev_facts, facts = facts, set()
        n_before = len(res)
        desc = f"event {i} ({it.get('op')}/{it.get('kind', '')})"
        rs = l1.replies_of(o)
        cause = rs[0][1].get("cause") if rs else None
        if it.get("op") == "est" and it.get("expect") == "accept" and cause != P.CAUSE_ACCEPTED:
            failed = any(U.write_failed(w) for w in o.get("writes", []))
            if not failed:
                flag(i, "up4:valid-establishment-rejected", f"{desc}: an establishment inside the envelope was refused with cause {cause} although no Write failed "
                     f"(a pool ran dry?)")
        if "store" not in o:
            facts |= prev_facts
            continue
        store, pools, u = o["store"], o["pools"], o["up4"]
        live = {s["lseid"] for s in store}
        op = cur["op"] = it.get("op")
        # ---- the agent-level ledger (as on BESS)
        if pools["gauge"] != len(store):
            flag(i, f"up4:gauge/{op}", f"{desc}: sessions gauge {pools['gauge']} != {len(store)} live sessions", pools["gauge"] - len(store))
        held_ip = {k for k, _ in pools.get("ip_inv", [])}
        for l in sorted(held_ip - live):
            flag(i, f"up4:ue-ip-leak/{op}", f"{desc}: UE address held for ended session {l}", l)
        want_teids = sorted(p["teid"] for s in store for p in s["pdrs"] if p["choose"] and p["teid"] != 0)
        for t in sorted(set(pools["teids"]) ^ set(want_teids)):
            flag(i, f"up4:teid-leak/{op}", f"{desc}: TEIDs in use {pools['teids']} but live sessions own {want_teids}", t)
        for l in it.get("ends", []):
            if l in live:
                flag(i, f"up4:session-not-ended/{op}", f"{desc}: session {l} should have ended but is still stored", l)
        # ---- the plug-in's bookkeeping names live sessions only
        for m in u["meters"]:
            if m[0] not in live:
                flag(i, f"up4:meter-of-ended-session/{op}", f"{desc}: the meters map still holds <{m[0]},{m[1]}> (cells {meter_cells(m)}) of a session that no longer exists",
                     (m[0], m[1]))
        for p in u["peers"]:
            dead = [x for x in p["users"] if x[0] not in live]
            if dead or not p["users"]:
                flag(i, f"up4:tunnel-peer-of-ended-session/{op}", f"{desc}: tunnel peer {p['id']} (dst {p['dst']}) is kept for {dead or 'no user'}", (p["id"], str(dead)))
        for a in u["apps"]:
            dead = [x for x in a["users"] if x[0] not in live]
            if dead or not a["users"]:
                flag(i, f"up4:application-of-ended-session/{op}", f"{desc}: application id {a['id']} is kept for {dead or 'no user'}", (a["id"], str(dead)))
        for f, ue in u["ue"]:
            if f not in live:
                flag(i, f"up4:ue-map-of-ended-session/{op}", f"{desc}: fseidToUEAddr still maps ended session {f}", f)
        for ue, f in u["ue2f"]:
            if f not in live:
                flag(i, f"up4:ue-map-of-ended-session/{op}", f"{desc}: ueAddrToFSEID still maps UE {ue} to ended session {f}", f)
        # ---- conservation
        h = held_by_live(o, live)
        for k in KINDS:
            have = sorted(u["pools"][k] + h[k])
            want = sorted(init[k])
            if have != want:
                for x in sorted(set(want) - set(have)):
                    flag(i, f"up4:pool-lost/{k}/{op}", f"{desc}: {k} id {x} is neither free nor held by a live session (pool {short(u['pools'][k])}, held {short(h[k])})", x)
                for x in sorted(set(have) - set(want)):
                    flag(i, f"up4:pool-foreign/{k}/{op}", f"{desc}: pool {k} / its holders contain {x}, which the pool never contained", x)
                for x in sorted({x for x in have if have.count(x) > 1}):
                    flag(i, f"up4:pool-twice/{k}/{op}", f"{desc}: {k} id {x} is free and held, or held twice (pool {short(u['pools'][k])}, held {short(h[k])})", x)
        if sorted(u["pools"]["ctr_post"]) != sorted(init["ctr_post"]):
            flag(i, "up4:post-qos-counter-pool-changed", f"{desc}: the post-QoS counter pool changed")
        # ---- the switch
        teids = {p["teid"] for s in store for p in s["pdrs"] if p["iface"] == 1 and p["teid"] != 0}
        ues = {p["ue"] for s in store for p in s["pdrs"] if p["iface"] == 2 and p["ue"] != 0}
        peer_ids = {p["id"] for p in u["peers"] if any(x[0] in live for x in p["users"])}
        app_ids = {a["id"] for a in u["apps"] if any(x[0] in live for x in a["users"])}
        stale = []
        for e in o["tables"]:
            t, m = e["t"], e["m"]
            if t == "sessions_uplink":
                ok = int(m.get("teid", "0")) in teids
            elif t in ("sessions_downlink", "terminations_uplink", "terminations_downlink"):
                ok = int(m.get("ue_address", "0")) in ues
            elif t == "tunnel_peers":
                ok = int(m.get("tunnel_peer_id", "0")) in peer_ids
            elif t == "applications":
                ok = int(e["p"].get("app_id", "0")) in app_ids
            else:
                ok = True
            if not ok:
                stale.append((t, json.dumps(m, sort_keys=True)))
        new_stale = [x for x in stale if (f"up4:entry-of-ended-session", x) not in prev_facts]
        for x in stale:
            facts.add(("up4:entry-of-ended-session", x))
        if new_stale:
            flag(i, f"up4:entry-of-ended-session/{op}/" + ",".join(sorted({t for t, _ in new_stale})),
                 f"{desc}: the switch keeps entries that belong to no live session: {new_stale[:4]}")
        owned = set()
        for m in u["meters"]:
            if m[0] in live:
                for c in meter_cells(m):
                    owned.add(("app_meter" if m[2] == MT_APP else "session_meter", c))
        for c in o["sw_meters"]:
            if c[0] in ("app_meter", "session_meter") and tuple(c) not in owned:
                flag(i, f"up4:meter-cell-of-ended-session/{op}", f"{desc}: meter cell {c} stays configured at the switch for no live QER", tuple(c))
        # ---- restored
        if not live:
            diffs = []
            for k in KINDS + ["ctr_post"]:
                if sorted(u["pools"][k]) != sorted(init[k]):
                    diffs.append(k)
            if u["meters"] or u["peers"] or u["apps"] or u["ue"] or u["ue2f"]:
                diffs.append("maps")
            if tables_key(o["tables"]) != tables_key(boot["tables"]):
                diffs.append("tables")
            if o["sw_meters"] != boot["sw_meters"]:
                diffs.append("meter-cells")
            if pools.get("ip_free_set") != boot["pools"].get("ip_free_set") or pools.get("ip_inv"):
                diffs.append("ip-pool")
            if pools["teids"]:
                diffs.append("teids")
            if pools["gauge"] != 0:
                diffs.append("gauge")
            if diffs and len(res) == n_before and not (facts & prev_facts):
                # (reported only when none of the specific clauses above explains the difference)
                flag(i, f"up4:not-restored/{op}/" + ",".join(diffs), f"{desc}: no session is live but {diffs} differ from the start-up snapshot", ",".join(diffs))
    if len(out["obs"]) < len(case["input"]["events"]) and not res:
        res.append(("up4:history-cut", "harness stopped early without a recorded reason", len(out["obs"])))
    return res


# =========================================================================================== histories

def session(g, rng, conn, two_qers=None):
    npairs = 1
    filt = [rng.randrange(len(FILTERS))] if rng.random() < 0.5 else [None]
    nq = 2 if two_qers else rng.choice([0, 1, 1, 2, 2])
    qers = None
    if nq == 2 and (two_qers or rng.random() < 0.6):
        # flow QER below the session QER: an Update QER can later lift it above (MarkSessionQer then picks it)
        qers = [{"id": 1, "qfi": rng.choice([0, 5, 9]), "gate": (0, 0), "mbr": (50000, 60000), "gbr": (0, 0)},
                {"id": 2, "qfi": rng.choice([0, 9]), "gate": (0, 0), "mbr": (100000, 120000), "gbr": (0, 0)}]
    return g.est04(conn, npairs=npairs, nqers=nq, qers=qers, gnb=rng.choice(GNBS), dl_action=rng.choice([2, 2, 2, 12]), ul_action=rng.choice([2, 2, 1]),
                   filters=filt, chv4=g.cfg["ueip_alloc"] and rng.random() < 0.5, choose=rng.random() < 0.5)


def modification(g, rng, l):
    s = g.sessions[l]
    m = g.meta[l]
    kinds = ["teid", "teid_em", "ul_far", "cp_fseid", "unknown_far", "prec", "fail"]
    if s["qers"]:
        kinds += ["qer", "qer"]
    if len(s["qers"]) == 2:
        kinds += ["remark", "remark", "remark"]
    k = rng.choice(kinds)
    if m["gnb"] is None and k in ("teid", "teid_em", "fail"):
        m["gnb"] = rng.choice(GNBS)
        g.upd_dl_fars(l, 2, m["gnb"], "assign")
    elif k == "teid":
        g.upd_far_em(l, flags=rng.choice([None, 0, 1]))
    elif k == "teid_em":
        g.upd_far_em(l, flags=rng.choice([2, 3]))
    elif k == "fail":
        # the switch refuses a Write of a modification that stays on the same gNB: rejected, nothing acquired
        g.upd_far_em(l, flags=rng.choice([2, None]), fail=[U.fault(rng.choice(["grpc-unavailable", "p4:[OK,NOT_FOUND..]", "p4:[NOT_FOUND..]", "grpc-unknown-no-details"]),
                                                                    rng.choice([1, 2, 3]))])
    elif k == "ul_far":
        g.upd_ul_far(l, rng.choice([1, 2]))
    elif k == "qer":
        g.upd_qer(l)
    elif k == "remark":
        # lift a QER above the current session QER (or give the session QER a GBR): the second marking picks another QER
        qs = s["qers"]
        top = max(q["mbr"][0] for q in qs.values())
        if rng.random() < 0.7 and top * 2 + 1 < (1 << 40):
            qid = min(qs, key=lambda i: qs[i]["mbr"][0])
            nq = dict(qs[qid], mbr=(top * 2 + 1, top * 2 + 1), gbr=(0, 0))
        else:
            qid = max(qs, key=lambda i: qs[i]["mbr"][0])
            nq = dict(qs[qid], gbr=(100, 100))
        g.upd_qer(l, qid, nq)
        g.intents[-1]["kind"] = "upd_qer:remark"
    elif k == "prec":
        if not g.upd_pdr_prec(l):
            g.upd_ul_far(l, 2)
    elif k == "cp_fseid":
        new = rng.randrange(1 << 64)
        s["cp_seid"] = new
        g._mod(l, [P.fseid(new, l1.peer_ip(s["conn"]))], "cp_fseid")
    else:
        g.upd_far_unknown_em(l)


def ending(g, rng, l):
    """one of the four endings of the statement (an Association Release / teardown ends every session of the association)"""
    conn = g.sessions[l]["conn"]
    k = rng.choice(["del", "del", "del", "srrsp", "release", "teardown"])
    if k == "del":
        g.delete(l)
    elif k == "srrsp":
        g.report_response(l, conn, P.CAUSE_CTX_NOT_FOUND)
    else:
        (g.release if k == "release" else g.teardown)(conn)
        g.setup(conn)
    return k


def cycles(rng, n=None, sizes=None, em=None):
    """attach / modify / detach cycles, up to three sessions at a time, more cycles than the smallest pool has elements"""
    em = (rng.random() < 0.7) if em is None else em
    cfg = rng.choice([l1.default_cfg(end_marker=em), l1.default_cfg(end_marker=em, pool="10.250.0.0/29"), l1.default_cfg(end_marker=em, ueip_alloc=False, pool="")])
    g = U.GenU(rng, cfg)
    g.setup(0)
    g.setup(1)
    n = n or rng.choice([8, 12, 12])
    done = 0
    while done < n:
        live = list(g.sessions)
        r = rng.random()
        if (r < 0.35 and len(live) < 3) or not live:
            session(g, rng, rng.randrange(2))
        elif r < 0.42:
            g.establish_bad(rng.randrange(2))                    # rejected after resources were taken (parse level)
        elif r < 0.45:
            g.heartbeat(rng.randrange(2))
        elif r < 0.75:
            modification(g, rng, rng.choice(live))
        else:
            ending(g, rng, rng.choice(live))
            done += 1
    while g.sessions:
        ending(g, rng, rng.choice(list(g.sessions)))
    g.heartbeat(0)
    up4 = U.up4_cfg(rng, sizes=sizes or TINY, peer_pool=rng.choice([3, 4]), app_pool=rng.choice([3, 4]))
    return U.finish(g, up4, name="cycles")


def remark_cycles(k=6):
    """the history of the statement's 'no number of cycles exhausts a pool' for the re-marking modification: k cycles of
    establish (flow QER + session QER) / Update QER lifting the flow QER above the session QER / end"""
    g = U.GenU(random.Random("c05-remark"), l1.default_cfg(end_marker=False))
    g.setup(0)
    rng = g.rng
    for c in range(k):
        l = session(g, rng, 0, two_qers=True)
        qs = g.sessions[l]["qers"]
        g.upd_qer(l, 1, dict(qs[1], mbr=(200000, 200000)))
        g.intents[-1]["kind"] = "upd_qer:remark"
        [lambda: g.delete(l), lambda: g.report_response(l, 0, P.CAUSE_CTX_NOT_FOUND), lambda: (g.release(0), g.setup(0)), lambda: (g.teardown(0), g.setup(0))][c % 4]()
    return U.finish(g, U.up4_cfg(sizes=TINY), name="remark-cycles")


def corpus():
    """fixed scenarios reproducing the recorded findings of the unchanged tree on UP4 (failures carry the tag)"""
    out = []

    def hist(tag, build, up4=None):
        g = U.GenU(random.Random("c05-corpus-" + tag), l1.default_cfg(end_marker=False))
        g.setup(0)
        build(g)
        g.heartbeat(0)
        out.append(U.finish(g, up4 or U.up4_cfg(sizes=TINY), tag=tag, name=tag))

    # F26a (see findings.d/C04.json): handover = Update FAR to another gNB: the FAR stays in the old peer's usedBy set; the old tunnel peer,
    # its id and its entry survive the session
    def f26a(g):
        l = g.est04(0, npairs=1, nqers=1, gnb=GNBS[0], dl_action=2)
        g.upd_far_em(l, gnb=GNBS[1], flags=None, kind="handover")
        g.delete(l)
    hist("F26a", f26a)

    # F24 (C04 / C15): an establishment one of whose Writes fails is rejected, but sendCreate reverts nothing: the counter cells, meter cells,
    # tunnel peer, application id and UE-address mapping taken before the failing Write are never returned
    def f24(g):
        g.est04(0, npairs=1, nqers=2, gnb=GNBS[0], dl_action=2, filters=[1], kind="last-write-fails")
        g.intents[-1]["expect"] = "reject-write"
        l = max(g.sessions)
        del g.sessions[l]
        g.meta.pop(l, None)
        g.arm(U.fault("grpc-unavailable", 6))
    hist("F24", f24)

    # F0401 (C04): two downlink PDRs of one session share the sessions_downlink entry; the DELETE batch of the second PDR meets NOT_FOUND, sendDelete
    # returns before it releases anything; Shutdown ignores the result and drops the session
    def f0401t(g):
        g.est04(0, npairs=2, nqers=1, gnb=GNBS[0], dl_action=2, filters=[None, 0])
        g.teardown(0)
        g.setup(0)
    hist("F0401t", f0401t)

    # F0401w: the same end (Shutdown drops the session whatever the datapath answered) reached through a fault: the first Write of the deletion
    # (DELETE batch of the uplink PDR) fails while the association is torn down; nothing of the session is returned, every entry stays
    def f0401w(g):
        g.est04(0, npairs=1, nqers=2, gnb=GNBS[0], dl_action=2, filters=[1])
        g.teardown(0)
        g.arm(U.fault("grpc-unavailable", 1))
        g.setup(0)
    hist("F0401w", f0401w)
    return out
