"""C04 - UP4 tables are exactly the image of the live sessions' rules.

1. T1: regenerate coq/Gen/P4Info_gen.v / P4Const_gen.v, build Props/C04.vo + Run/Eval_C04.vo.
2. L1 histories (PFCP bytes) are run on the real agent whose datapath is the REAL UP4 plug-in talking to the fake
   P4Runtime server (harness mode "c04"); after every event: replies, SendMsgToUPF calls with their Write logs, all
   tables / meter cells / counter cells of the switch, the session store, the plug-in's bookkeeping.
3. Monitor (Python, independent of the Coq model; ids resolved through p4info.txt by tools/gen_p4info.py):
   the statement of C04 sentence by sentence on the switch snapshot vs. the agent's stored sessions, plus
   "stored rules == rules requested" against the generator's control-plane view.
4. Correspondence: Model/Up4.v replayed on the recorded calls (oracle = the implementation's Pop() choices)."""
import contextlib
import copy
import itertools
from concurrent.futures import ThreadPoolExecutor

from lib import *
import gen_p4info
import gen_p4const
import l1
import pfcp as P

TARGETS = ["Props/C04.vo", "Run/Eval_C04.vo"]
HEADER = ("From Coq Require Import NArith List String Bool.\n"
          "From UPF Require Model.PortRange Model.Agent.\n"
          "From UPF Require Import Model.P4Info Model.P4Valid Model.P4Build Model.Up4 Run.Eval_C04.\n"
          "Import ListNotations.\nOpen Scope N_scope.\n")

M32 = 0xFFFFFFFF
ACCESS, CORE = 1, 2
SIZES = {"PreQosPipe.pre_qos_counter": 24, "PostQosPipe.post_qos_counter": 24, "PreQosPipe.app_meter": 20, "PreQosPipe.session_meter": 12}
CODE = {0: "OK", 6: "ALREADY_EXISTS", 5: "NOT_FOUND", 3: "INVALID_ARGUMENT"}

C04_TRUSTED = COMMON_TRUSTED + [
    "harness/go/verif_c04_test.go: the real HandlePFCPMsg / Shutdown on PFCPConn struct literals with the REAL UP4 plug-in behind a recorder of "
    "SendMsgToUPF; harness/go/verif_p4rt_test.go: the fake P4Runtime server defines the switch semantics (per-update status, INSERT existing -> "
    "ALREADY_EXISTS, MODIFY/DELETE missing -> NOT_FOUND, meter MODIFY without config = reset)",
    "tools/pfcp.py (PFCP encoder), go-pfcp v0.0.24, tools/l1.py (control-plane view and reference reading of valid requests)",
    "tools/gen_p4info.py / gen_p4const.py (T1 translators, regenerated on every run); the monitor resolves every id through p4info.txt itself",
]


# =========================================================================================== Gallina printers

def n(x):
    return str(int(x))


def nl(xs):
    return "[" + "; ".join(n(x) for x in xs) + "]"


def g_pdr(p):
    return (f"(RP (Agent.Pdr {n(p['id'])} {n(p['fseid'])} {n(p['iface'])} {n(p['iface_m'])} {n(p['tdst'])} {n(p['tdst_m'])} {n(p['teid'])} "
            f"{n(p['teid_m'])} {n(p['ue'])} {n(p['prec'])} {n(p['far'])} {nl(p['qers'])} {n(p['decap'])} {gbool(p['alloc_ip'])} {gbool(p['choose'])} "
            f"{n(p['f_sip'])} {n(p['f_sip_m'])} {n(p['f_dip'])} {n(p['f_dip_m'])} (PortRange.PR {n(p['f_sp'][0])} {n(p['f_sp'][1])}) "
            f"(PortRange.PR {n(p['f_dp'][0])} {n(p['f_dp'][1])}) {n(p['f_proto'])} {n(p['f_proto_m'])}) {n(p['ctr'])})")


def g_far(f):
    return (f"(Agent.Far {n(f['id'])} {n(f['fseid'])} {n(f['dst_if'])} {gbool(f['em'])} {n(f['action'])} {n(f['ttype'])} {n(f['tsrc'])} "
            f"{n(f['tdst'])} {n(f['teid'])} {n(f['tport'])})")


def g_qer(q):
    return (f"(Agent.Qer {n(q['id'])} {n(q['fseid'])} {n(q['level'])} {n(q['qfi'])} {n(q['ul'])} {n(q['dl'])} {n(q['ul_mbr'])} {n(q['dl_mbr'])} "
            f"{n(q['ul_gbr'])} {n(q['dl_gbr'])})")


def g_rules(r):
    return f"(Rules {glist([g_pdr(p) for p in r['pdrs']])} {glist([g_far(f) for f in r['fars']])} {glist([g_qer(q) for q in r['qers']])})"


def g_tentry(u):
    fs = []
    for m in u.get("match") or []:
        mk = m["kind"]
        if mk == "exact":
            fm = f"FExact {m['value']}"
        elif mk == "optional":
            fm = f"FOptional {m['value']}"
        elif mk == "lpm":
            fm = f"FLpm {m['value']} {m['prefix'] % (1 << 32)}"
        elif mk == "ternary":
            fm = f"FTernary {m['value']} {m['mask']}"
        elif mk == "range":
            fm = f"FRange {m['low']} {m['high']}"
        else:
            fm = "FOther"
        fs.append(f"Fld {m['id']} ({fm})")
    ak = u.get("action_kind")
    if ak == "action":
        act = "(AAct %d %s)" % (u.get("action_id", 0), glist(["AP %d %s" % (p["id"], p["value"]) for p in (u.get("params") or [])]))
    elif ak == "none":
        act = "ANone"
    else:
        act = "AOther"
    return f"(TE {u.get('table_id', 0)} {glist(fs)} {act} {u.get('priority', 0) % (1 << 32)})"


def g_wupd(u):
    ty = {"INSERT": "UInsert", "MODIFY": "UModify", "DELETE": "UDelete"}.get(u["type"], "UUnspec")
    k = u["kind"]
    if k == "table":
        ent = f"ETable {g_tentry(u)}"
    elif k == "meter":
        idx = f"(Some {u['index'] % (1 << 64)})" if u.get("has_index") else "None"
        ent = f"EMeter {u.get('meter_id', 0)} {idx} {gbool(u.get('config') is not None)}"
    elif k == "counter":
        idx = f"(Some {u['index'] % (1 << 64)})" if u.get("has_index") else "None"
        ent = f"ECounter {u.get('counter_id', 0)} {idx}"
    else:
        ent = "EOtherEnt"
    return f"(Upd {ty} ({ent}), {CODE.get(u.get('status', 0), 'INVALID_ARGUMENT')})"


def g_log(writes):
    return glist([glist([g_wupd(u) for u in w["updates"]]) for w in writes])


def g_refs(l):
    return glist([f"({n(a)}, {n(b)})" for a, b in l])


def g_snapshot(o):
    u = o["up4"]
    tabs = glist([g_tentry(e) for e in o["tables"]])
    meters = glist([f"({m['meter_id']}, {m['index']})" for m in o["meters"]])
    ctrs = glist([f"({c['counter_id']}, {c['index']})" for c in o["counters"]])
    peers = glist([f"({n(p['dst'])}, {n(p['port'])}, {n(p['id'])}, {g_refs(p['used'])})" for p in u["peers"]])
    apps = glist([f"({n(a['ip'])}, {n(a['lo'])}, {n(a['hi'])}, {n(a['proto'])}, {n(a['id'])}, {g_refs(a['used'])})" for a in u["apps"]])
    mtrs = glist([f"({n(m['fseid'])}, {n(m['qer'])}, {n(m['type'])}, {n(m['ul'])}, {n(m['dl'])})" for m in u["meters"]])
    return (f"(Snap {tabs} {meters} {ctrs} {peers} {apps} {mtrs} {nl(u['ctr_pool'])} {nl(u['app_cells'])} {nl(u['sess_cells'])} "
            f"({len(u['peer_pool'])}, {nl(u['peer_pool'][:3])}) ({len(u['app_pool'])}, {nl(u['app_pool'][:3])}) {g_refs(u['ue2f'])} {g_refs(u['f2ue'])})")


def oracle_of(call):
    """the implementation's Pop() choices, in order, read off the Write log of a create call"""
    orc = []
    for w in call["writes"]:
        us = w["updates"]
        if us and all(x["kind"] == "counter" for x in us):
            orc.append(us[0]["index"])
        elif us and all(x["kind"] == "meter" and x.get("config") is not None for x in us):
            orc.extend(x["index"] for x in us)
    return orc


def g_call(c):
    m = c["method"]
    if m == "add":
        k = f"(CAdd {g_rules(c['all'])} {g_rules(c['upd'])})"
        orc = oracle_of(c)
    elif m == "modify":
        k = f"(CMod {g_rules(c['all'])} {g_rules(c['upd'])})"
        orc = []
    else:
        k = f"(CDel {g_rules(c['all'])})"
        orc = []
    return f"(OCall {k} {nl(orc)} {n(c['cause'])} {g_log(c['writes'])} {nl(c['ctrs'])})"


def g_ucfg(conf, sizes):
    qt = glist([f"({a}, {b})" for a, b in conf["qfi_tc"]])
    return (f"(UCfg (Cfg {conf['slice']} {conf['tc']} {qt} {conf['n3']} {conf['n3_len']} {conf['pool']} {conf['pool_len']}) "
            f"{sizes.get('PreQosPipe.pre_qos_counter', 1024)} {sizes.get('PreQosPipe.app_meter', 1024)} {sizes.get('PreQosPipe.session_meter', 1024)})")


def case_term(case, out):
    """harness input + output -> Gallina term of type Eval_C04.case, or None when the history cannot be replayed"""
    if "boot" not in out:
        return None
    obs = out["obs"]
    evs = []
    prev = None
    last = len(obs) - 1
    for idx, (e, o) in enumerate(zip(case["events"], obs)):
        if "panic" in o:
            return None
        state = json.dumps([o["tables"], o["meters"], o["up4"]], sort_keys=True)
        rejected = any(c["cause"] != 1 for c in o["calls"])
        full = idx == last or e["k"] == "restart" or (state != prev and (rejected or idx % 4 == 3))
        prev = state
        snap = f"(Some {g_snapshot(o)})" if full else "None"
        if e["k"] == "restart":
            evs.append(f"EvRestart {g_log(o['stray_writes'])} {snap}")
        else:
            if o["stray_writes"]:
                return None
            evs.append(f"EvCalls {glist([g_call(c) for c in o['calls']])} {snap}")
    conf = out["boot"]["up4"]["conf"]
    return (f"Case {g_ucfg(conf, case['up4'].get('sizes') or {})} {g_log(out['boot']['writes'])} (Some {g_snapshot(out['boot'])}) {glist(evs)}")


# =========================================================================================== generator
# The PFCP side is the one of tools/l1.py (Gen keeps the control plane's view).  What differs for UP4 is the
# envelope: precedence <= 65535; the downlink FARs of one session agree (one gNB, one action) because the
# sessions_downlink entry is shared by the session's downlink PDRs; gNB addresses and application filters come
# from small catalogues so that sessions share / do not share them on purpose.

GNBS = [l1.ip(192, 168, 0, 10), l1.ip(192, 168, 0, 11), l1.ip(192, 168, 1, 12), l1.ip(192, 168, 2, 13)]
# application filters: distinct in (remote address, remote ports, protocol) = the plug-in's key; one precedence each
FILTERS = [
    ({"text": "permit out ip from 8.8.8.0/24 to assigned", "rip": l1.ip(8, 8, 8, 0), "rmask": 0xFFFFFF00, "proto": None, "ports": None}, 100),
    ({"text": "permit out udp from 1.2.3.4 53 to assigned", "rip": l1.ip(1, 2, 3, 4), "rmask": M32, "proto": 17, "ports": (53, 53)}, 200),
    ({"text": "permit out tcp from any 80 to assigned", "rip": 0, "rmask": 0, "proto": 6, "ports": (80, 80)}, 300),
    ({"text": "permit out tcp from 10.0.0.0/8 1000-1099 to assigned", "rip": l1.ip(10, 0, 0, 0), "rmask": 0xFF000000, "proto": 6, "ports": (1000, 1099)}, 65534),
    ({"text": "permit out 132 from 172.16.5.128/25 to assigned", "rip": l1.ip(172, 16, 5, 128), "rmask": 0xFFFFFF80, "proto": 132, "ports": None}, 1),
]
DL_ACTIONS = [2, 2, 2, 1, 4, 12]       # forward / drop / buffer / buffer+notify


class Gen04(l1.Gen):
    def __init__(self, rng, cfg=None, nconn=2):
        super().__init__(rng, cfg or l1.default_cfg(end_marker=False), nconn)
        self.meta = {}       # lseid -> {"gnb": addr or None, "npairs": n}

    def _teid(self):
        # unique, and spread over the 32-bit range (high bit, all-ones region) so that a dropped mask or a sign error shows
        t = super()._teid()
        k = self.rng.randrange(4)
        return t if k < 2 else (0x80000000 | t if k == 2 else 0xFFFF0000 | (t & 0xFFFF))

    def pair(self, n, ue, chv4, choose, filt, qers, prec=None):
        r = self.rng
        if prec is None:
            prec = FILTERS[filt][1] if filt is not None else r.choice([0, 1, 100, 255, 65535, r.randrange(1 << 16)])
        ul = {"id": 2 * n + 1, "prec": prec, "iface": 0, "fteid": "choose" if choose else (self._teid(), l1.ACCESS_IP),
              "ue": (None if chv4 else ue), "ohr": True, "far": 2 * n + 1, "qers": list(qers)}
        dl = {"id": 2 * n + 2, "prec": prec, "iface": 1, "ue": ("chv4" if chv4 else ue), "far": 2 * n + 2, "qers": list(qers)}
        if filt is not None:
            sd = FILTERS[filt][0]
            ul["sdf"], ul["sdf_sem"] = sd["text"], sd
            dl["sdf"], dl["sdf_sem"] = sd["text"], sd
        return ul, dl

    def est04(self, conn, npairs=1, nqers=1, gnb=None, dl_action=2, ul_action=2, filters=None, chv4=False, choose=False, qers=None,
              precs=None, kind=""):
        """filters: per pair an index into FILTERS or None; the session's DL FARs all use (dl_action, gnb)"""
        r = self.rng
        seq = self._seq()
        filters = filters if filters is not None else [None] * npairs
        # one UE address per session: two live sessions with one address share their sessions_downlink / terminations keys
        used = self.__dict__.setdefault("_ues04", set())
        ue = l1.ip(10, 60, r.randrange(250), r.randrange(1, 250))
        while ue in used:
            ue = l1.ip(10, 60, r.randrange(250), r.randrange(1, 250))
        used.add(ue)
        qspecs = qers if qers is not None else [self.new_qer(q) for q in range(1, nqers + 1)]
        qids = [q["id"] for q in qspecs]
        pdrs, fars = [], []
        for k in range(npairs):
            # only the first pair may ask the UPF for the address: one UE address per session
            u, d = self.pair(k, ue, chv4 and k == 0, choose, filters[k], qids, None if precs is None else precs[k])
            if chv4 and k > 0:
                # later pairs cannot name the allocated address: such sessions are generated with one pair only
                raise ValueError("chv4 sessions have one pair")
            pdrs += [u, d]
            ulf = {"id": 2 * k + 1, "action": ul_action}
            if ul_action & 2:
                ulf["fwd"] = {"dst_if": 1}
            dlf = {"id": 2 * k + 2, "action": dl_action}
            if dl_action & 2:
                dlf["fwd"] = {"dst_if": 0, "ohc": (self._teid(), gnb)}
            fars += [ulf, dlf]
        k = self.next_lseid.get(conn, 0) + 1
        self.next_lseid[conn] = k
        lseid = (conn + 1) * 1000000 + k
        cp_seid = r.choice([0, 1, (1 << 64) - 1, r.randrange(1 << 64), r.randrange(1 << 20)])
        ies = [P.node_id_v4(l1.peer_ip(conn)), P.fseid(cp_seid, l1.peer_ip(conn))]
        ies += [l1.pdr_ie(P.CREATE_PDR, p) for p in pdrs] + [l1.far_ie(P.CREATE_FAR, f) for f in fars] + [l1.qer_ie(P.CREATE_QER, q) for q in qspecs]
        ok = self.assoc.get(conn, False)
        intent = {"op": "est", "seq": seq, "req": P.SE_REQ, "wf": True, "expect": "accept" if ok else "reject-noassoc", "lseid": lseid,
                  "cp_seid": cp_seid, "pdrs": pdrs, "fars": fars, "qers": qspecs, "kind": kind}
        self.emit(conn, P.message(P.SE_REQ, seq, ies, seid=0), intent)
        if ok:
            self.sessions[lseid] = {"conn": conn, "cp_seid": cp_seid, "pdrs": {p["id"]: p for p in pdrs},
                                    "fars": {f["id"]: f for f in fars}, "qers": {q["id"]: q for q in qspecs}}
            self.meta[lseid] = {"gnb": gnb if dl_action & 2 else None, "npairs": npairs}
        else:
            self.next_lseid[conn] = k - 1
        return lseid

    def _mod(self, lseid, ies, kind, expect="accept"):
        s = self.sessions[lseid]
        seq = self._seq()
        self.emit(s["conn"], P.message(P.SM_REQ, seq, ies, seid=lseid),
                  {"op": "mod", "seq": seq, "req": P.SM_REQ, "wf": True, "lseid": lseid, "expect": expect, "kind": kind, "markers": [],
                   "cp_seid": s["cp_seid"]})

    def upd_dl_fars(self, lseid, action, gnb, kind, with_ohc=True):
        """Update FAR for every downlink FAR of the session (they share the sessions_downlink entry)"""
        s = self.sessions[lseid]
        ies = []
        for fid in sorted(f for f in s["fars"] if f % 2 == 0):
            nf = {"id": fid, "action": action, "fwd": {}}
            if with_ohc:
                nf["fwd"] = {"dst_if": 0, "ohc": (self._teid(), gnb)}
            ies.append(l1.far_ie(P.UPDATE_FAR, nf))
            s["fars"][fid] = nf
        self._mod(lseid, ies, kind)

    def upd_ul_far(self, lseid, action):
        s = self.sessions[lseid]
        fid = self.rng.choice(sorted(f for f in s["fars"] if f % 2 == 1))
        nf = {"id": fid, "action": action, "fwd": {"dst_if": 1}}
        s["fars"][fid] = nf
        self._mod(lseid, [l1.far_ie(P.UPDATE_FAR, nf)], "upd_ul_far")

    def upd_qer(self, lseid, qid=None, spec=None):
        s = self.sessions[lseid]
        qid = qid or self.rng.choice(sorted(s["qers"]))
        nq = spec or self.new_qer(qid)
        s["qers"][qid] = nq
        self._mod(lseid, [l1.qer_ie(P.UPDATE_QER, nq)], "upd_qer")

    def upd_pdr_prec(self, lseid):
        s = self.sessions[lseid]
        cands = [p for p in s["pdrs"].values() if p.get("sdf") is None and p.get("fteid") != "choose" and p.get("ue") not in ("chv4", None)]
        if not cands:
            return False
        p = dict(self.rng.choice(cands))
        p["prec"] = self.rng.choice([3, 77, 65000])
        s["pdrs"][p["id"]] = p
        self._mod(lseid, [l1.pdr_ie(P.UPDATE_PDR, p)], "upd_pdr_prec")
        return True

    def mod04(self, lseid):
        """one modification inside the envelope UP4 handles (see the findings for the rest)"""
        r = self.rng
        m = self.meta[lseid]
        s = self.sessions[lseid]
        kinds = ["dl_far", "dl_far", "ul_far", "cp_fseid", "unknown_far", "prec"]
        if s["qers"]:
            kinds += ["qer", "qer"]
        k = r.choice(kinds)
        if k == "dl_far":
            if m["gnb"] is None:
                # first assignment of a gNB: buffered / dropped session starts forwarding
                m["gnb"] = r.choice(GNBS)
                self.upd_dl_fars(lseid, 2, m["gnb"], "assign")
            else:
                # same gNB: new TEID, or stop forwarding while keeping the outer header
                act = r.choice([2, 2, 1, 12, 4])
                self.upd_dl_fars(lseid, act, m["gnb"], {2: "teid", 1: "drop_keep", 12: "buffer_keep", 4: "buffer_keep"}[act])
        elif k == "ul_far":
            self.upd_ul_far(lseid, r.choice([1, 2]))
        elif k == "qer":
            self.upd_qer(lseid)
        elif k == "prec":
            if not self.upd_pdr_prec(lseid):
                self.upd_ul_far(lseid, 2)
        elif k == "cp_fseid":
            new = r.randrange(1 << 64)
            s["cp_seid"] = new
            self._mod(lseid, [P.fseid(new, l1.peer_ip(s["conn"]))], "cp_fseid")
        else:
            self._mod(lseid, [l1.far_ie(P.UPDATE_FAR, {"id": 9999, "action": 2, "fwd": {"dst_if": 0, "ohc": (self._teid(), GNBS[0])}})], "unknown_far")

    def restart(self):
        super().restart()
        self.meta.clear()

    def _drop_conn(self, conn):
        for l in [l for l, s in self.sessions.items() if s["conn"] == conn]:
            self.meta.pop(l, None)
        super()._drop_conn(conn)

    def delete(self, lseid, conn=None):
        known = lseid in self.sessions
        super().delete(lseid, conn)
        if known and lseid not in self.sessions:
            self.meta.pop(lseid, None)

    def deletable(self, lseid):
        return self.meta[lseid]["npairs"] == 1

    def conn_endable(self, conn):
        return all(self.deletable(l) for l, s in self.sessions.items() if s["conn"] == conn)


def rand_up4(rng):
    qfis = [0, 5, 9, 63]
    qt = [[q, rng.randrange(4)] for q in qfis if rng.random() < 0.6]
    return {"slice": rng.choice([0, 1, 3, 15, rng.randrange(16)]), "tc": rng.randrange(4), "qfi_tc": qt, "sizes": SIZES}


def distinct_up4():
    """a configuration in which every QFI the generator uses and the default have pairwise different TCs where possible"""
    return {"slice": 7, "tc": 3, "qfi_tc": [[0, 0], [5, 1], [9, 2]], "sizes": SIZES}


def finish(g, views, up4, tag=None):
    while len(views) < len(g.events):
        views.append(g.view())
    return (tag, {"cfg": g.cfg, "up4": up4, "events": g.events}, g.intents, views)


class Hist:
    """a history under construction: generator + the control plane's view after every event"""

    def __init__(self, rng, up4=None, cfg=None):
        self.g = Gen04(rng, cfg)
        self.views = []
        self.up4 = up4 or rand_up4(rng)

    def snap(self):
        while len(self.views) < len(self.g.events):
            self.views.append(self.g.view())

    def done(self, tag=None):
        self.snap()
        return finish(self.g, self.views, self.up4, tag)


def random_session(h, conn, rng, gnb=None, filters=None):
    g = h.g
    npairs = rng.choice([1, 1, 1, 2, 3])
    chv4 = g.cfg["ueip_alloc"] and npairs == 1 and rng.random() < 0.4
    if filters is None:
        pool = list(range(len(FILTERS)))
        rng.shuffle(pool)
        filters = [(pool.pop() if rng.random() < 0.6 else None) if k > 0 or rng.random() < 0.4 else None for k in range(npairs)]
        # pairs of one session need distinct (direction, filter): at most one pair without filter
        seen_none = False
        for k in range(npairs):
            if filters[k] is None:
                if seen_none:
                    filters[k] = pool.pop()
                seen_none = True
    act = rng.choice(DL_ACTIONS)
    l = g.est04(conn, npairs=npairs, nqers=rng.choice([0, 1, 1, 2]), gnb=gnb if gnb is not None else rng.choice(GNBS), dl_action=act,
                ul_action=rng.choice([2, 2, 2, 1]), filters=filters, chv4=chv4, choose=rng.random() < 0.4)
    h.snap()
    return l


def random_history04(rng, length=14):
    h = Hist(rng, cfg=rng.choice([l1.default_cfg(end_marker=False), l1.default_cfg(end_marker=False, ueip_alloc=False, pool="")]))
    g = h.g
    for c in range(g.nconn):
        if rng.random() < 0.9:
            g.setup(c)
    h.snap()
    for _ in range(length):
        r = rng.random()
        live = list(g.sessions)
        conns_ok = [c for c in range(g.nconn) if g.assoc.get(c)]
        if r < 0.25 and conns_ok and len(live) < 4:
            random_session(h, rng.choice(conns_ok), rng)
        elif r < 0.28:
            c = rng.randrange(g.nconn)
            if not g.assoc.get(c):
                g.est04(c, gnb=GNBS[0])            # no association: rejected, nothing written
        elif r < 0.62 and live:
            g.mod04(rng.choice(live))
        elif r < 0.74 and live:
            dl = [l for l in live if g.deletable(l)]
            if dl:
                g.delete(rng.choice(dl))
        elif r < 0.78:
            c = rng.randrange(g.nconn)
            bogus = rng.choice([1, 424242, (1 << 64) - 1])
            if bogus not in g.sessions:
                (g.modify if rng.random() < 0.5 else g.delete)(bogus, conn=c)
        elif r < 0.82:
            g.heartbeat(rng.randrange(g.nconn))
        elif r < 0.86 and conns_ok:
            c = rng.choice(conns_ok)
            if g.conn_endable(c):
                (g.release if rng.random() < 0.5 else g.teardown)(c)
        elif r < 0.91:
            g.restart()
            for c in range(g.nconn):
                g.setup(c)
        elif conns_ok and len(live) < 4:
            random_session(h, rng.choice(conns_ok), rng)
        h.snap()
    return h.done()


def partitions(n):
    """all set partitions of range(n) as block-index lists (restricted growth strings)"""
    def rec(prefix, mx):
        if len(prefix) == n:
            yield list(prefix)
            return
        for b in range(mx + 2):
            yield from rec(prefix + [b], max(mx, b))
    yield from rec([], -1)


def sharing_history(rng, peer_part, app_part):
    """len(part) single-pair sessions; session i forwards to gNB peer_part[i] and uses filter app_part[i]; established, checked,
    then deleted in random order (reference counts: an entry stays while another session uses it)"""
    h = Hist(rng, up4=distinct_up4() if rng.random() < 0.5 else None)
    g = h.g
    g.setup(0)
    g.setup(1)
    h.snap()
    ls = []
    for i in range(len(peer_part)):
        ls.append(g.est04(i % 2, npairs=1, nqers=rng.choice([0, 1, 2]), gnb=GNBS[peer_part[i]], dl_action=2, filters=[app_part[i]],
                          chv4=False, choose=rng.random() < 0.3, kind="share"))
        h.snap()
    order = list(ls)
    rng.shuffle(order)
    for l in order[:-1]:
        g.delete(l)
        h.snap()
    if rng.random() < 0.5:
        g.delete(order[-1])
    else:
        g.teardown(g.sessions[order[-1]]["conn"])
    return h.done()


def action_histories(rng):
    """every FAR x QER combination: DL action {forward, drop, buffer, buffer+notify} x UL action {forward, drop} x
    (no QER | UL gate x DL gate), four sessions per history, each also re-visited by an Update QER that flips both gates"""
    combos = []
    for dla in (2, 1, 4, 12):
        for ula in (2, 1):
            combos.append((dla, ula, None))
            for gu in (0, 1):
                for gd in (0, 1):
                    combos.append((dla, ula, (gu, gd)))
    rng.shuffle(combos)
    out = []
    for k in range(0, len(combos), 4):
        h = Hist(rng, up4=distinct_up4())
        g = h.g
        g.setup(0)
        h.snap()
        ls = []
        for dla, ula, gates in combos[k:k + 4]:
            qers = [] if gates is None else [{"id": 1, "qfi": rng.choice([0, 5, 9, 63]), "gate": gates, "mbr": (1000, 2000), "gbr": (0, 0)}]
            l = g.est04(0, npairs=1, qers=qers, gnb=rng.choice(GNBS), dl_action=dla, ul_action=ula, filters=[rng.choice([None, 0, 2])], kind="action")
            ls.append((l, gates))
            h.snap()
        for l, gates in ls:
            if gates is not None:
                g.upd_qer(l, 1, {"id": 1, "qfi": rng.choice([0, 5, 9, 63]), "gate": (1 - gates[0], 1 - gates[1]), "mbr": (1000, 2000), "gbr": (0, 0)})
                h.snap()
        for l, _ in ls:
            g.delete(l)
            h.snap()
        out.append(h.done())
    return out


def restart_histories(rng):
    """a base history (two associations, three sessions sharing a gNB and a filter, modifications, a deletion); one copy per index
    with the agent killed and restarted right after that event, then a fresh session on the same switch"""
    def base(h):
        g = h.g
        steps = [lambda: g.setup(0), lambda: g.setup(1),
                 lambda: g.est04(0, npairs=1, nqers=1, gnb=GNBS[0], dl_action=2, filters=[1]),
                 lambda: g.est04(1, npairs=2, nqers=2, gnb=GNBS[0], dl_action=12, filters=[None, 1]),
                 lambda: g.est04(0, npairs=1, nqers=0, gnb=GNBS[1], dl_action=2, filters=[3], chv4=g.cfg["ueip_alloc"]),
                 lambda: g.upd_dl_fars(sorted(g.sessions)[0], 2, GNBS[0], "teid"),
                 lambda: g.upd_qer(sorted(g.sessions)[0]),
                 lambda: g.delete(sorted(g.sessions)[0]),
                 lambda: g.heartbeat(1)]
        return steps
    n = len(base(Hist(random.Random(0))))
    out = []
    for cut in range(n):
        sub = random.Random(rng.getrandbits(64))
        h = Hist(sub)
        for i, st in enumerate(base(h)):
            st()
            h.snap()
            if i == cut:
                h.g.restart()
                h.snap()
                h.g.setup(0)
                h.snap()
                h.g.est04(0, npairs=1, nqers=1, gnb=GNBS[2], dl_action=2, filters=[1])
                h.snap()
                break
        out.append(h.done())
    return out


# =========================================================================================== monitor
# The statement of C04 on the switch snapshot.  Everything is resolved through p4info.txt (parsed by
# tools/gen_p4info.py): table / action / field / parameter names and the InterfaceType / Direction enums.

class P4Names:
    def __init__(self, info):
        self.tables = {t["id"]: t for t in info["tables"]}
        self.actions = {a["id"]: a for a in info["actions"]}
        self.meters = {m["id"]: m["name"].split(".")[-1] for m in info["meters"]}
        self.enums = {e["name"]: {m["name"]: int.from_bytes(m["value"], "big") for m in e["members"]} for e in info["enums"]}

    def entry(self, u):
        """-> (table, key tuple, action, params dict, priority); names are the last component of the P4 names"""
        t = self.tables.get(u.get("table_id"))
        if t is None:
            return ("?%s" % u.get("table_id"), (), "?", {}, 0)
        fields = {f["id"]: f["name"] for f in t["fields"]}
        key = []
        for m in sorted(u.get("match") or [], key=lambda m: m["id"]):
            nm = fields.get(m["id"], "?%d" % m["id"])
            k = m["kind"]
            if k == "exact":
                key.append((nm, int(m["value"])))
            elif k == "lpm":
                key.append((nm, int(m["value"]), int(m["prefix"])))
            elif k == "range":
                key.append((nm, int(m["low"]), int(m["high"])))
            elif k == "ternary":
                key.append((nm, int(m["value"]), int(m["mask"])))
            else:
                key.append((nm, k))
        a = self.actions.get(u.get("action_id"))
        if a is None:
            return (t["name"].split(".")[-1], tuple(key), "?", {}, u.get("priority", 0))
        pn = {p["id"]: p["name"] for p in a["params"]}
        params = {pn.get(p["id"], "?%d" % p["id"]): int(p["value"]) for p in (u.get("params") or [])}
        return (t["name"].split(".")[-1], tuple(key), a["name"].split(".")[-1], params, u.get("priority", 0))


def mask_plen(mask):
    """prefix length of a contiguous mask, None when it is not a prefix mask"""
    if mask == 0:
        return 0
    inv = (~mask) & M32
    if inv & (inv + 1):
        return None
    return 32 - inv.bit_length()


def pdr_filter(p):
    """the application filter of a stored PDR on its remote side: None when empty, else (ip, prefix len, (lo, hi) or None, proto or None)"""
    if p["iface"] == ACCESS:
        ipv, m, ports = p["f_dip"], p["f_dip_m"], p["f_dp"]
    else:
        ipv, m, ports = p["f_sip"], p["f_sip_m"], p["f_sp"]
    wild = l1.is_wild(ports)
    if p["f_proto"] == 0 and ipv == 0 and wild:
        return None
    return (ipv if mask_plen(m) else 0, mask_plen(m) or 0, None if wild else (ports[0], ports[1]), p["f_proto"] or None)


def entry_filter(key):
    d = {k[0]: k[1:] for k in key}
    ipv, plen = d.get("app_ip_addr", (0, 0))
    ports = d.get("app_l4_port")
    proto = d.get("app_ip_proto")
    return (ipv, plen, None if ports is None else (ports[0], ports[1]), None if proto is None else proto[0])


def far_needs_peer(f):
    return bool(f["action"] & 2) and f["dst_if"] == 0 and f["teid"] != 0


def tc_of(conf, qfi):
    for k, v in conf["qfi_tc"]:
        if k == qfi:
            return v
    return conf["tc"]


def image_diffs(names, o, stale_cells):
    """-> set of (table, kind, detail) where the switch differs from what the stored sessions denote"""
    D = set()
    conf = o["up4"]["conf"]
    acc_if, core_if = names.enums["InterfaceType"]["ACCESS"], names.enums["InterfaceType"]["CORE"]
    d_ul, d_dl = names.enums["Direction"]["UPLINK"], names.enums["Direction"]["DOWNLINK"]
    tabs = {}
    for u in o["tables"]:
        t, key, act, params, prio = names.entry(u)
        if key in tabs.setdefault(t, {}):
            D.add((t, "duplicate-key", key))
        tabs[t][key] = (act, params, prio)
    known = {"interfaces", "sessions_uplink", "sessions_downlink", "terminations_uplink", "terminations_downlink", "applications", "tunnel_peers"}
    for t in tabs:
        if t not in known:
            D.add((t, "extra", "table"))
    sessions = o["store"]

    # ---- interfaces: N3/32 access + UE pool core, nothing else
    want_if = {(("ipv4_dst_prefix", conf["n3"], conf["n3_len"]),): ("set_source_iface", {"src_iface": acc_if, "direction": d_ul, "slice_id": conf["slice"]}),
               (("ipv4_dst_prefix", conf["pool"], conf["pool_len"]),): ("set_source_iface", {"src_iface": core_if, "direction": d_dl, "slice_id": conf["slice"]})}
    got_if = tabs.get("interfaces", {})
    for k, (a, ps) in want_if.items():
        if k not in got_if:
            D.add(("interfaces", "missing", k))
        elif got_if[k][0] != a or got_if[k][1] != ps:
            D.add(("interfaces", "value", k))
    for k in got_if:
        if k not in want_if:
            D.add(("interfaces", "extra", k))

    # ---- tunnel_peers: one per distinct GTP peer, present iff a live FAR uses it
    peers = {}       # (dst, port) -> id
    for k, (a, ps, _) in tabs.get("tunnel_peers", {}).items():
        pid = dict((x[0], x[1]) for x in k).get("tunnel_peer_id")
        if a != "load_tunnel_param" or ps.get("src_addr") != conf["n3"]:
            D.add(("tunnel_peers", "value", k))
            continue
        pk = (ps.get("dst_addr"), ps.get("sport"))
        if pk in peers:
            D.add(("tunnel_peers", "two-entries-one-peer", pk))
        peers[pk] = pid
    fars_all = [f for s in sessions for f in s["fars"]]
    for f in fars_all:
        if far_needs_peer(f) and (f["tdst"], f["tport"]) not in peers:
            D.add(("tunnel_peers", "missing", (f["tdst"], f["tport"])))
    for pk in peers:
        # weak reading of "uses": some live FAR carries that outer-header address
        if not any(f["teid"] != 0 and (f["tdst"], f["tport"]) == pk for f in fars_all):
            D.add(("tunnel_peers", "extra", pk))

    # ---- applications: one per distinct filter, present iff a live PDR uses it
    apps = {}        # filter -> app id
    slice_bad = False
    for k, (a, ps, prio) in tabs.get("applications", {}).items():
        d = {x[0]: x[1:] for x in k}
        fl = entry_filter(k)
        if a != "set_app_id" or d.get("slice_id") != (conf["slice"],):
            D.add(("applications", "value", k))
            continue
        if fl in apps:
            D.add(("applications", "two-entries-one-filter", fl))
        apps[fl] = ps.get("app_id")
    if len(set(apps.values())) != len(apps) or 0 in apps.values():
        D.add(("applications", "ids-not-distinct", tuple(sorted(apps.values()))))
    used_filters = set()
    for s in sessions:
        for p in s["pdrs"]:
            fl = pdr_filter(p)
            if fl is not None:
                used_filters.add(fl)
    for fl in used_filters:
        if fl not in apps:
            D.add(("applications", "missing", fl))
    for fl in apps:
        if fl not in used_filters:
            D.add(("applications", "extra", fl))

    # ---- sessions / terminations per live PDR
    want = {"sessions_uplink": {}, "sessions_downlink": {}, "terminations_uplink": {}, "terminations_downlink": {}}
    for s in sessions:
        fars = {}
        for f in s["fars"]:
            fars.setdefault(f["id"], f)
        qers = {}
        for q in s["qers"]:
            qers.setdefault(q["id"], q)
        ue_sess = next((p["ue"] for p in s["pdrs"] if p["iface"] == CORE and p["ue"] != 0), 0)
        for p in s["pdrs"]:
            f = fars.get(p["far"])
            if f is None or p["iface"] not in (ACCESS, CORE):
                continue       # outside what an accepted request can have stored
            up = p["iface"] == ACCESS
            ue = p["ue"] if (p["ue"] != 0 and not up) else (ue_sess or p["ue"])
            fl = pdr_filter(p)
            app_id = 0 if fl is None else apps.get(fl)
            pq = [qers[i] for i in p["qers"] if i in qers]
            if up:
                want["sessions_uplink"].setdefault((("n3_address", p["tdst"]), ("teid", p["teid"])), []).append((p, f, pq))
            else:
                want["sessions_downlink"].setdefault((("ue_address", p["ue"]),), []).append((p, f, pq))
            if app_id is not None:
                t = "terminations_uplink" if up else "terminations_downlink"
                want[t].setdefault((("ue_address", ue), ("app_id", app_id)), []).append((p, f, pq))

    def sess_ok(t, act, ps, p, f, pq):
        if t == "sessions_uplink":
            return act == "set_session_uplink"
        if f["action"] & 4:
            return act == "set_session_downlink_buff"
        if act != "set_session_downlink":
            return False
        if far_needs_peer(f):
            return ps.get("tunnel_peer_id") == peers.get((f["tdst"], f["tport"]), -1)
        return True

    def term_ok(t, act, ps, p, f, pq):
        up = t == "terminations_uplink"
        gates = [(q["ul"] if up else q["dl"]) == 1 for q in pq]
        must_drop = bool(f["action"] & 1) or (bool(gates) and all(gates))
        must_fwd = not (f["action"] & 1) and not any(gates)
        drop_a, fwd_a = ("uplink_term_drop", "uplink_term_fwd") if up else ("downlink_term_drop", "downlink_term_fwd")
        if act not in (drop_a, fwd_a) or "ctr_idx" not in ps:
            return False
        if must_drop and act != drop_a:
            return False
        if must_fwd and act != fwd_a:
            return False
        if act == fwd_a:
            if pq and not any(ps.get("tc") == tc_of(conf, q["qfi"]) and (up or ps.get("qfi") == q["qfi"]) for q in pq):
                return False
            if not up and ps.get("teid") != f["teid"]:
                return False
        return True

    for t, w in want.items():
        got = tabs.get(t, {})
        ok_fn = sess_ok if t.startswith("sessions") else term_ok
        for k, users in w.items():
            if k not in got:
                D.add((t, "missing", k))
            elif not any(ok_fn(t, got[k][0], got[k][1], *u) for u in users):
                D.add((t, "value", k))
        for k in got:
            if k not in w:
                D.add((t, "extra", k))

    # ---- configured meter cells only for QERs of live sessions (cells left configured by a previous incarnation are outside)
    live_q = {(s["lseid"], q["id"]) for s in sessions for q in s["qers"]}
    cells = {1: set(), 2: set()}
    for m in o["up4"]["meters"]:
        if (m["fseid"], m["qer"]) in live_q and m["type"] in cells:
            cells[m["type"]].update([m["ul"], m["dl"]])
    for m in o["meters"]:
        nm = names.meters.get(m["meter_id"], "?")
        ty = {"app_meter": 1, "session_meter": 2}.get(nm)
        if ty is None:
            D.add((nm, "extra", m["index"]))
        elif m["index"] not in cells[ty] and (m["meter_id"], m["index"]) not in stale_cells:
            D.add((nm, "cell-of-no-live-qer", m["index"]))
    return D


@contextlib.contextmanager
def up4_reference():
    """tools/l1.py reads Destination Interface = core as 'source address = core address'; UP4 sets the core address to 0.0.0.0"""
    old = l1.CORE_IP
    l1.CORE_IP = 0
    try:
        yield
    finally:
        l1.CORE_IP = old


def accepted_event(it, o):
    op = it.get("op")
    if op in ("teardown", "restart"):
        return True
    rs = l1.replies_of(o)
    if op == "release":
        return bool(rs)
    if op in ("est", "mod", "del"):
        return bool(rs) and rs[0][1].get("cause") == P.CAUSE_ACCEPTED
    return False


def kinds_of(diffs):
    return ",".join(sorted({f"{t}:{k}" for t, k, _ in diffs}))


def mon_c04(names, case, intents, out, views):
    """-> list of (signature, message, event index)"""
    res = []
    if "world_err" in out or "boot" not in out:
        return [("boot-failed", f"the agent did not come up against the switch: {out.get('world_err') or out.get('harness_error') or out.get('panic')}", 0)]
    obs = out["obs"]
    stale = set()
    prev = set()
    pending = []          # (descriptor of the introducing event, its index, diffs)
    store_prev = set()
    b = image_diffs(names, out["boot"], stale)
    if b:
        res.append(("tables-not-image/boot/" + kinds_of(b), f"after start-up the switch differs from 'interfaces only': {sorted(b, key=str)[:4]}", 0))
        prev = b
    for i, (it, o) in enumerate(zip(intents, obs)):
        if "panic" in o:
            res.append(("agent-died", f"event {i} ({it.get('op')}): panic {o['panic']} @ {o.get('frame')}", i))
            break
        if "boot_err" in o:
            res.append(("restart-failed", f"event {i}: the restarted agent did not come up: {o['boot_err']}", i))
            break
        if it.get("op") == "restart":
            stale = {(m["meter_id"], m["index"]) for m in o["meters"]}
        else:
            # a cell the new incarnation has taken over is judged again
            mine = set()
            for m in o["up4"]["meters"]:
                mid = {1: "app_meter", 2: "session_meter"}.get(m["type"])
                for mm in o["meters"]:
                    if names.meters.get(mm["meter_id"]) == mid and mm["index"] in (m["ul"], m["dl"]):
                        mine.add((mm["meter_id"], mm["index"]))
            stale -= mine
            stale &= {(m["meter_id"], m["index"]) for m in o["meters"]}
        D = image_diffs(names, o, stale)
        new = D - prev
        prev = D
        desc = f"{it.get('op')}:{it.get('kind') or ''}"
        rs = l1.replies_of(o)
        cause = rs[0][1].get("cause") if rs else None
        acc = accepted_event(it, o)
        if new and not acc:
            pending.append((f"{desc}:rejected" if it.get("op") in ("est", "mod", "del") else desc, i, new))
        if acc:
            for d_desc, j, ds in pending:
                still = ds & D
                if still:
                    res.append((f"tables-not-image/{d_desc}/" + kinds_of(still),
                                f"event {i} ({desc}) was accepted while the switch differs from the image of the stored sessions since event {j} "
                                f"({d_desc}): {sorted(still, key=str)[:4]}", i))
            pending = []
            if new:
                res.append((f"tables-not-image/{desc}/" + kinds_of(new),
                            f"event {i} ({desc}, cause {cause}): the switch differs from the image of the stored sessions: {sorted(new, key=str)[:5]}", i))
        if it.get("op") == "restart":
            tabs = [names.entry(u)[0] for u in o["tables"]]
            if any(t != "interfaces" for t in tabs) or len(tabs) != 2:
                res.append(("restart-not-cleared/" + ",".join(sorted(set(tabs))), f"event {i}: tables after restart: {sorted(tabs)}", i))
        # what the agent holds is what the control plane asked for
        if views is not None and i < len(views):
            with up4_reference():
                ms = l1.compare_store(views[i], o["store"])
            fresh_ms = [m for m in ms if m not in store_prev]
            store_prev = set(ms)
            if fresh_ms:
                res.append((f"store-not-request/{desc}", f"event {i} ({desc}, cause {cause}): stored rules differ from the requested rules: {fresh_ms[:4]}", i))
        # requests that name an unknown session or arrive without association write nothing
        if it.get("expect") in ("reject-unknown", "reject-noassoc") and (o["calls"] or o["stray_writes"]):
            res.append(("rejected-but-wrote", f"event {i}: request expected to be rejected ({it['expect']}) reached the datapath", i))
    if len(obs) < len(case["events"]) and not res:
        res.append(("history-cut", "harness stopped early without a recorded reason", len(obs)))
    return res


# =========================================================================================== fixed scenarios = the recorded findings
# Each reproduces one finding on the unchanged tree; its failures carry the tag in the signature, so only exactly
# these shapes are matched by findings.d/C04.json.  Random histories never contain these shapes.

def corpus_scenarios():
    out = []

    def run(tag, build):
        h = Hist(random.Random("c04-corpus-" + tag), up4=distinct_up4(), cfg=l1.default_cfg(end_marker=False))
        h.g.setup(0)
        h.snap()
        build(h, h.g)
        out.append(h.done(tag))

    def other_session(h, g):
        """an unrelated, accepted request: the point at which the statement is evaluated again"""
        g.est04(0, npairs=1, nqers=0, gnb=GNBS[3], dl_action=2, filters=[4], kind="probe")
        h.snap()

    # F26a: Update FAR that moves the session to another gNB (handover), then one that stops forwarding without outer
    # header (idle): the tunnel peer of the old address keeps the FAR in usedBy and its entry stays for ever
    def f26a(h, g):
        l = g.est04(0, npairs=1, nqers=1, gnb=GNBS[0], dl_action=2)
        h.snap()
        g.upd_dl_fars(l, 2, GNBS[1], "handover")
        h.snap()
        g.upd_dl_fars(l, 12, None, "idle", with_ohc=False)
        h.snap()
        g.delete(l)
        h.snap()
    run("F26a", f26a)

    # F26b: Update PDR that changes a match key (new SDF filter): MODIFY of a missing entry -> NOT_FOUND -> rejected, but the
    # stored PDR has already been rewritten in place and an application id is taken; the session can then never be deleted
    def f26b(h, g):
        l = g.est04(0, npairs=1, nqers=0, gnb=GNBS[0], dl_action=2)
        h.snap()
        p = dict(g.sessions[l]["pdrs"][2])
        sd = FILTERS[1][0]
        p["sdf"], p["sdf_sem"] = sd["text"], sd
        g._mod(l, [l1.pdr_ie(P.UPDATE_PDR, p)], "upd_pdr_key", expect="finding")
        h.snap()
        other_session(h, g)
        g.delete(l)
        g.intents[-1]["expect"] = "finding"
        g.sessions[l] = h.views[-1][l]          # the deletion is refused: the session stays
        h.snap()
        other_session(h, g)
    run("F26b", f26b)

    # F0401: two downlink PDRs of one session share the sessions_downlink entry; deletion removes it for the first and gets
    # NOT_FOUND for the second: rejected half-way, for ever.  Same through Shutdown (teardown), where the result is ignored.
    def f0401(h, g):
        l = g.est04(0, npairs=2, nqers=1, gnb=GNBS[0], dl_action=2, filters=[None, 0])
        h.snap()
        keep = copy.deepcopy(g.sessions[l])
        g.delete(l)
        g.intents[-1]["expect"] = "finding"
        g.sessions[l] = keep
        h.snap()
        other_session(h, g)
    run("F0401", f0401)

    def f0401t(h, g):
        g.est04(0, npairs=2, nqers=1, gnb=GNBS[0], dl_action=2, filters=[None, 0])
        h.snap()
        g.teardown(0)
        h.snap()
    run("F0401t", f0401t)

    # F0402: Remove PDR / FAR of one of two pairs: the shared sessions_downlink entry and the F-SEID -> UE address mapping go
    # with it although the other downlink PDR is still live
    def f0402(h, g):
        l = g.est04(0, npairs=2, nqers=0, gnb=GNBS[0], dl_action=2, filters=[None, 0])
        h.snap()
        s = g.sessions[l]
        ids = [3, 4]
        ies = [P.grouped(P.REMOVE_PDR, P.u16(P.PDR_ID, i)) for i in ids] + [P.grouped(P.REMOVE_FAR, P.u32(P.FAR_ID, i)) for i in ids]
        for i in ids:
            s["pdrs"].pop(i)
            s["fars"].pop(i)
        g._mod(l, ies, "rm_pair")
        h.snap()
    run("F0402", f0402)

    # F0403: two sessions use the same application filter with different precedences: the entry carries the first one's
    # priority, the last user's DELETE is built from its own precedence -> NOT_FOUND -> deletion rejected half-way
    def f0403(h, g):
        a = g.est04(0, npairs=1, nqers=0, gnb=GNBS[0], dl_action=2, filters=[1], precs=[200])
        h.snap()
        b = g.est04(0, npairs=1, nqers=0, gnb=GNBS[0], dl_action=2, filters=[1], precs=[201])
        h.snap()
        g.delete(a)
        h.snap()
        keep = copy.deepcopy(g.sessions[b])
        g.delete(b)
        g.intents[-1]["expect"] = "finding"
        g.sessions[b] = keep
        h.snap()
        other_session(h, g)
    run("F0403", f0403)

    # F0404: Create PDR in a modification is MODIFY of missing entries -> rejected, but the application id of its filter stays
    # allocated without an entry: the next session with that filter is accepted and gets no applications entry
    def f0404(h, g):
        l = g.est04(0, npairs=1, nqers=0, gnb=GNBS[0], dl_action=2)
        h.snap()
        s = g.sessions[l]
        ue = s["pdrs"][2]["ue"]
        u, d = g.pair(1, ue, False, False, 2, [])
        ulf = {"id": 3, "action": 2, "fwd": {"dst_if": 1}}
        dlf = {"id": 4, "action": 2, "fwd": {"dst_if": 0, "ohc": (g._teid(), GNBS[0])}}
        g._mod(l, [l1.pdr_ie(P.CREATE_PDR, u), l1.pdr_ie(P.CREATE_PDR, d), l1.far_ie(P.CREATE_FAR, ulf), l1.far_ie(P.CREATE_FAR, dlf)],
               "add_pair", expect="finding")
        h.snap()
        g.est04(0, npairs=1, nqers=0, gnb=GNBS[0], dl_action=2, filters=[2], kind="same_filter")
        h.snap()
    run("F0404", f0404)

    # F24: an establishment the plug-in refuses (precedence above 65535) has already installed the tunnel peer of its FAR
    def f24(h, g):
        g.est04(0, npairs=1, nqers=0, gnb=GNBS[0], dl_action=2, precs=[1 << 20], kind="bigprec")
        g.intents[-1]["expect"] = "finding"
        l = max(g.sessions)
        del g.sessions[l]
        g.meta.pop(l, None)
        h.snap()
        other_session(h, g)
    run("F24", f24)
    return out


# =========================================================================================== the check

def run_c04(binary, cases, workers=10, tag="c04"):
    if not cases:
        return []
    k = max(1, min(workers, (len(cases) + 7) // 8))
    chunks = [cases[i::k] for i in range(k)]

    def job(j):
        return run_harness(binary, "c04", chunks[j], tag=f"{tag}_{j}", timeout=1500)

    with ThreadPoolExecutor(max_workers=k) as ex:
        res = list(ex.map(job, range(k)))
    out = [None] * len(cases)
    for j in range(k):
        for i, o in enumerate(res[j]):
            out[j + i * k] = o
    return out


def gen_cases(rng, tier):
    cases = list(corpus_scenarios())
    parts = list(partitions(4)) + list(partitions(3)) + list(partitions(2))
    filt_of = lambda part, sub: [[None, 0, 1, 2][b] if sub.random() < 0.85 else None for b in part]
    reps = 1 if tier == "quick" else 6
    for _ in range(reps):
        for part in parts:
            sub = random.Random(rng.getrandbits(64))
            other = sub.choice([q for q in parts if len(q) == len(part)])
            cases.append(sharing_history(sub, part, filt_of(other, sub)))          # every sharing pattern of gNB peers
            sub = random.Random(rng.getrandbits(64))
            other = sub.choice([q for q in parts if len(q) == len(part)])
            cases.append(sharing_history(sub, other, [[0, 1, 2, 3][b] for b in part]))   # every sharing pattern of filters
        cases += action_histories(random.Random(rng.getrandbits(64)))
        cases += restart_histories(random.Random(rng.getrandbits(64)))
    for _ in range(260 if tier == "quick" else 6000):
        sub = random.Random(rng.getrandbits(64))
        cases.append(random_history04(sub, length=sub.choice([8, 14, 14, 22])))
    return cases


def run(tier, seed, replay=None):
    ck = Check("C04", tier, seed)
    ck.trusted = C04_TRUSTED
    ck.assumptions = [
        "the switch semantics is that of the harness' P4Runtime server (P4Runtime 1.3 Write: per-update status, no atomicity); meter cells left "
        "configured by a killed incarnation are outside the statement (its last sentence speaks of table entries)",
        "weak readings where the statement leaves room: a tunnel_peers entry may stay while some live FAR still carries its outer-header address; a PDR "
        "without QER constrains neither QFI nor TC; with several QERs the gate demand applies only when they agree; the applications priority is not constrained",
        "envelope of the random histories: precedence <= 65535, one UE address per session, the downlink FARs of a session agree on gNB and action, "
        "filters shared between sessions carry one precedence; the shapes outside it that UP4 mishandles are the fixed finding scenarios"]
    ck.rule = ("L1 histories on the real agent + real UP4 plug-in + fake P4Runtime server: the finding scenarios; every set partition of 2..4 sessions over gNB "
               "peers and over application filters (establish all, delete in random order / teardown); all 40 FAR x QER action combinations (DL action x UL "
               "action x no QER | gates) incl. gate flips by Update QER; restart after every event of a 9-event base history; random histories (establishment, "
               "in-envelope modifications, deletion, unknown SEIDs, release, teardown, restart) under random QFI->TC maps, slice ids, default TCs; "
               "distinct = distinct event byte sequences + configuration")
    try:
        gen_p4info.main(REPO)
        gen_p4const.main(REPO)
        info = gen_p4info.load(os.path.join(REPO, gen_p4info.SRC_REL))
        names = P4Names(info)
        ck.tie("T1: p4info.txt and p4constants.go translated to coq/Gen", True)
    except (gen_p4info.P4InfoSyntaxError, gen_p4const.P4ConstSyntaxError, OSError, UnicodeDecodeError, KeyError) as e:
        ck.tie("T1: p4info.txt and p4constants.go translated to coq/Gen", False, str(e)[-800:])
        names = None
    ck.prove(TARGETS)
    if names is None:
        return ck.finish()
    rng = rng_for(seed, "C04")
    if replay:
        rp = json.load(open(replay))["case"]
        vws = rp.get("views")
        if vws is not None:
            # JSON turned the integer keys (local SEID, rule ids) of the control plane's view into strings
            vws = [{int(l): dict(v, **{k: {int(i): x for i, x in v[k].items()} for k in ("pdrs", "fars", "qers")}) for l, v in vw.items()} for vw in vws]
        cases = [(rp.get("tag"), rp["input"], rp["intents"], vws)]
    else:
        cases = gen_cases(rng, tier)
    try:
        binary = build_harness()
        outs = run_c04(binary, [c[1] for c in cases])
    except HarnessError as e:
        ck.tie("harness builds and runs against the current tree", False, str(e)[-1500:])
        return ck.finish()
    ck.tie("harness builds and runs against the current tree", True)
    dist = {}
    unexpected_rejections = 0
    for (tag, case, intents, views), out in zip(cases, outs):
        for it in intents:
            k = f"{it.get('op')}/{it.get('kind', '') or ''}"
            dist[k] = dist.get(k, 0) + 1
        ck.count([case["up4"]["slice"], case["up4"]["tc"], case["up4"]["qfi_tc"]] + [e.get("hex", e["k"]) for e in case["events"]], len(case["events"]) > 2)
        # a request of the envelope that is refused is not a failure of C04 (the statement speaks of accepted requests), but the control
        # plane's view is then void: the stored rules are compared with it only up to that event
        vw = views
        for i, (it, o) in enumerate(zip(intents, out.get("obs", []))):
            rs = l1.replies_of(o)
            if it.get("expect") == "accept" and it.get("op") in ("est", "mod", "del") and (not rs or rs[0][1].get("cause") != P.CAUSE_ACCEPTED):
                unexpected_rejections += 1
                vw = views[:i] if views else views
                break
        seen = set()
        for sig, msg, i in mon_c04(names, case, intents, out, vw):
            s = f"{tag}:{sig}" if tag else sig
            if s in seen:
                continue
            seen.add(s)
            ob = out.get("obs", [])
            ck.fail(s, msg, {"tag": tag, "input": case, "intents": intents, "views": views, "event": i,
                             "impl_event": {k: v for k, v in (ob[i] if i < len(ob) else {}).items() if k not in ("up4", "counters")}})
    ck.notes["requests_of_the_envelope_refused"] = unexpected_rejections
    # ---- correspondence
    terms, kept = [], []
    limit = 130 if tier == "quick" else 900
    tagged = [i for i, c in enumerate(cases) if c[0]]
    rest = [i for i, c in enumerate(cases) if not c[0]]
    stride = max(1, len(rest) // max(1, limit - len(tagged)))
    for i in tagged + rest[::stride]:
        if len(terms) >= limit:
            break
        t = case_term(cases[i][1], outs[i])
        if t is not None:
            terms.append(t)
            kept.append((cases[i][1], outs[i]))
    ck.notes["model_evaluations"] = len(terms)
    try:
        idx = coq_eval_shards("C04", HEADER, terms, shard=5, timeout=1500)
    except RuntimeError as e:
        ck.tie("correspondence: Up4 model = implementation on the replayed histories", False, str(e)[-800:])
        idx = None
    if idx is not None:
        for i in idx[:5]:
            ck.mismatch("Up4 model and implementation disagree on a replayed history (calls, Write batches, tables or bookkeeping)",
                        {"input": kept[i][0]})
        ck.tie("correspondence: Up4 model = implementation on the replayed histories", not idx,
               f"{len(idx)} of {len(terms)} histories disagree" if idx else f"{len(terms)} histories")
    ck.distribution = dict(sorted(dist.items(), key=lambda kv: -kv[1])[:40])
    ck.samples = [{"events": [(it.get("op"), it.get("kind"), it.get("expect")) for it in c[2]]} for c in cases[-3:]]
    return ck.finish()
