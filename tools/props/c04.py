"""C04 - UP4 tables are exactly the image of the live sessions' rules.

1. T1: regenerate coq/Gen/P4Info_gen.v / P4Const_gen.v, build Props/C04.vo + Run/Eval_C04.vo.
2. L1 histories (PFCP bytes) are run on the real agent whose datapath is the REAL UP4 plug-in talking to the fake
   P4Runtime server (harness mode "c04"); after every event: replies, SendMsgToUPF calls with their Write logs, all
   tables / meter cells / counter cells of the switch, the session store, the plug-in's bookkeeping.
3. Monitor (Python, independent of the Coq model; ids resolved through p4info.txt by tools/gen_p4info.py):
   the statement of C04 sentence by sentence on the switch snapshot vs. the agent's stored sessions, plus
   "stored rules == rules requested" against the generator's control-plane view.
4. Correspondence: Model/Up4.v replayed on the recorded calls (oracle = the implementation's Pop() choices)."""
import contextlib
import copy
import itertools
from concurrent.futures import ThreadPoolExecutor

from lib import *
import gen_p4info
import gen_p4const
import l1
import pfcp as P

TARGETS = ["Props/C04.vo", "Run/Eval_C04.vo"]
HEADER = ("From Coq Require Import NArith List String Bool.\n"
          "From UPF Require Model.PortRange Model.Agent.\n"
          "From UPF Require Import Model.P4Info Model.P4Valid Model.P4Build Model.Up4 Run.Eval_C04.\n"
          "Import ListNotations.\nOpen Scope N_scope.\n")

M32 = 0xFFFFFFFF
ACCESS, CORE = 1, 2
SIZES = {"PreQosPipe.pre_qos_counter": 24, "PostQosPipe.post_qos_counter": 24, "PreQosPipe.app_meter": 20, "PreQosPipe.session_meter": 12}
CODE = {0: "OK", 6: "ALREADY_EXISTS", 5: "NOT_FOUND", 3: "INVALID_ARGUMENT"}

C04_TRUSTED = COMMON_TRUSTED + [
    "harness/go/verif_c04_test.go: the real HandlePFCPMsg / Shutdown on PFCPConn struct literals with the REAL UP4 plug-in behind a recorder of "
    "SendMsgToUPF; harness/go/verif_p4rt_test.go: the fake P4Runtime server defines the switch semantics (per-update status, INSERT existing -> "
    "ALREADY_EXISTS, MODIFY/DELETE missing -> NOT_FOUND, meter MODIFY without config = reset)",
    "tools/pfcp.py (PFCP encoder), go-pfcp v0.0.24, tools/l1.py (control-plane view and reference reading of valid requests)",
    "tools/gen_p4info.py / gen_p4const.py (T1 translators, regenerated on every run); the monitor resolves every id through p4info.txt itself",
]


# =========================================================================================== Gallina printers

def n(x):
    return str(int(x))


def nl(xs):
    return "[" + "; ".join(n(x) for x in xs) + "]"


def g_pdr(p):
    return (f"(RP (Agent.Pdr {n(p['id'])} {n(p['fseid'])} {n(p['iface'])} {n(p['iface_m'])} {n(p['tdst'])} {n(p['tdst_m'])} {n(p['teid'])} "
            f"{n(p['teid_m'])} {n(p['ue'])} {n(p['prec'])} {n(p['far'])} {nl(p['qers'])} {n(p['decap'])} {gbool(p['alloc_ip'])} {gbool(p['choose'])} "
            f"{n(p['f_sip'])} {n(p['f_sip_m'])} {n(p['f_dip'])} {n(p['f_dip_m'])} (PortRange.PR {n(p['f_sp'][0])} {n(p['f_sp'][1])}) "
            f"(PortRange.PR {n(p['f_dp'][0])} {n(p['f_dp'][1])}) {n(p['f_proto'])} {n(p['f_proto_m'])}) {n(p['ctr'])})")


def g_far(f):
    return (f"(Agent.Far {n(f['id'])} {n(f['fseid'])} {n(f['dst_if'])} {gbool(f['em'])} {n(f['action'])} {n(f['ttype'])} {n(f['tsrc'])} "
            f"{n(f['tdst'])} {n(f['teid'])} {n(f['tport'])})")


def g_qer(q):
    return (f"(Agent.Qer {n(q['id'])} {n(q['fseid'])} {n(q['level'])} {n(q['qfi'])} {n(q['ul'])} {n(q['dl'])} {n(q['ul_mbr'])} {n(q['dl_mbr'])} "
            f"{n(q['ul_gbr'])} {n(q['dl_gbr'])})")


def g_rules(r):
    return f"(Rules {glist([g_pdr(p) for p in r['pdrs']])} {glist([g_far(f) for f in r['fars']])} {glist([g_qer(q) for q in r['qers']])})"


def g_tentry(u):
    fs = []
    for m in u.get("match") or []:
        mk = m["kind"]
        if mk == "exact":
            fm = f"FExact {m['value']}"
        elif mk == "optional":
            fm = f"FOptional {m['value']}"
        elif mk == "lpm":
            fm = f"FLpm {m['value']} {m['prefix'] % (1 << 32)}"
        elif mk == "ternary":
            fm = f"FTernary {m['value']} {m['mask']}"
        elif mk == "range":
            fm = f"FRange {m['low']} {m['high']}"
        else:
            fm = "FOther"
        fs.append(f"Fld {m['id']} ({fm})")
    ak = u.get("action_kind")
    if ak == "action":
        act = "(AAct %d %s)" % (u.get("action_id", 0), glist(["AP %d %s" % (p["id"], p["value"]) for p in (u.get("params") or [])]))
    elif ak == "none":
        act = "ANone"
    else:
        act = "AOther"
    return f"(TE {u.get('table_id', 0)} {glist(fs)} {act} {u.get('priority', 0) % (1 << 32)})"


def g_wupd(u):
    ty = {"INSERT": "UInsert", "MODIFY": "UModify", "DELETE": "UDelete"}.get(u["type"], "UUnspec")
    k = u["kind"]
    if k == "table":
        ent = f"ETable {g_tentry(u)}"
    elif k == "meter":
        idx = f"(Some {u['index'] % (1 << 64)})" if u.get("has_index") else "None"
        ent = f"EMeter {u.get('meter_id', 0)} {idx} {gbool(u.get('config') is not None)}"
    elif k == "counter":
        idx = f"(Some {u['index'] % (1 << 64)})" if u.get("has_index") else "None"
        ent = f"ECounter {u.get('counter_id', 0)} {idx}"
    else:
        ent = "EOtherEnt"
    return f"(Upd {ty} ({ent}), {CODE.get(u.get('status', 0), 'INVALID_ARGUMENT')})"


def g_log(writes):
    return glist([glist([g_wupd(u) for u in w["updates"]]) for w in writes])


def g_refs(l):
    return glist([f"({n(a)}, {n(b)})" for a, b in l])


def g_snapshot(o):
    u = o["up4"]
    tabs = glist([g_tentry(e) for e in o["tables"]])
    meters = glist([f"({m['meter_id']}, {m['index']})" for m in o["meters"]])
    ctrs = glist([f"({c['counter_id']}, {c['index']})" for c in o["counters"]])
    peers = glist([f"({n(p['dst'])}, {n(p['port'])}, {n(p['id'])}, {g_refs(p['used'])})" for p in u["peers"]])
    apps = glist([f"({n(a['ip'])}, {n(a['lo'])}, {n(a['hi'])}, {n(a['proto'])}, {n(a['id'])}, {g_refs(a['used'])})" for a in u["apps"]])
    mtrs = glist([f"({n(m['fseid'])}, {n(m['qer'])}, {n(m['type'])}, {n(m['ul'])}, {n(m['dl'])})" for m in u["meters"]])
    return (f"(Snap {tabs} {meters} {ctrs} {peers} {apps} {mtrs} {nl(u['ctr_pool'])} {nl(u['app_cells'])} {nl(u['sess_cells'])} "
            f"({len(u['peer_pool'])}, {nl(u['peer_pool'][:3])}) ({len(u['app_pool'])}, {nl(u['app_pool'][:3])}) {g_refs(u['ue2f'])} {g_refs(u['f2ue'])})")


def oracle_of(call):
    """the implementation's Pop() choices, in order, read off the Write log of a create call"""
    orc = []
    for w in call["writes"]:
        us = w["updates"]
        if us and all(x["kind"] == "counter" for x in us):
            orc.append(us[0]["index"])
        elif us and all(x["kind"] == "meter" and x.get("config") is not None for x in us):
            orc.extend(x["index"] for x in us)
    return orc


def g_call(c):
    m = c["method"]
    if m == "add":
        k = f"(CAdd {g_rules(c['all'])} {g_rules(c['upd'])})"
        orc = oracle_of(c)
    elif m == "modify":
        k = f"(CMod {g_rules(c['all'])} {g_rules(c['upd'])})"
        orc = []
    else:
        k = f"(CDel {g_rules(c['all'])})"
        orc = []
    return f"(OCall {k} {nl(orc)} {n(c['cause'])} {g_log(c['writes'])} {nl(c['ctrs'])})"


def g_ucfg(conf, sizes):
    qt = glist([f"({a}, {b})" for a, b in conf["qfi_tc"]])
    return (f"(UCfg (Cfg {conf['slice']} {conf['tc']} {qt} {conf['n3']} {conf['n3_len']} {conf['pool']} {conf['pool_len']}) "
            f"{sizes.get('PreQosPipe.pre_qos_counter', 1024)} {sizes.get('PreQosPipe.app_meter', 1024)} {sizes.get('PreQosPipe.session_meter', 1024)})")


def case_term(case, out):
    """harness input + output -> Gallina term of type Eval_C04.case, or None when the history cannot be replayed"""
    if "boot" not in out:
        return None
    obs = out["obs"]
    evs = []
    prev = None
    last = len(obs) - 1
    for idx, (e, o) in enumerate(zip(case["events"], obs)):
        if "panic" in o:
            return None
        state = json.dumps([o["tables"], o["meters"], o["up4"]], sort_keys=True)
        rejected = any(c["cause"] != 1 for c in o["calls"])
        full = idx == last or e["k"] == "restart" or (state != prev and (rejected or idx % 4 == 3))
        prev = state
        snap = f"(Some {g_snapshot(o)})" if full else "None"
        if e["k"] == "restart":
            evs.append(f"EvRestart {g_log(o['stray_writes'])} {snap}")
        else:
            if o["stray_writes"]:
                return None
            evs.append(f"EvCalls {glist([g_call(c) for c in o['calls']])} {snap}")
    conf = out["boot"]["up4"]["conf"]
    return (f"Case {g_ucfg(conf, case['up4'].get('sizes') or {})} {g_log(out['boot']['writes'])} (Some {g_snapshot(out['boot'])}) {glist(evs)}")
